#!/usr/bin/env python3
"""Driver for the yara-x verification checks.

  check.py setup                       build Coq project + harness from files on disk
  check.py run Cxx [--tier quick|thorough]
  check.py replay <replay.json>
  check.py audit                       full rebuild from clean + coqchk

Per check (DESIGN.md section 1.2):
  1. regenerate Gen/*.v from /repo's working tree (translate/*.py);
  2. build the Coq models (make), compile Props/Cxx.v (the property theorems,
     `Print Assumptions` compared with an allow-list), grep for forbidden
     vernacular;
  3. build the harness against /repo (hooks on), run it; it writes cases_*.v;
     coqc evaluates them (model vs implementation = K, and the boolean
     specification on the implementation's output = S);
  4. verdict + evidence/Cxx.json.
"""
import sys, os, json, time, subprocess, re, hashlib, importlib, glob, shutil, fcntl

ROOT = os.path.dirname(os.path.abspath(__file__))
sys.path.insert(0, ROOT)
sys.path.insert(0, os.path.join(ROOT, "translate"))
COQ = os.path.join(ROOT, "coq")
CACHE = os.path.join(ROOT, ".cache")
REPO = os.environ.get("VERIF_REPO", "/repo")
HARNESS = os.path.join(ROOT, "harness")
TARGET = os.path.join(CACHE, "target")
def hbin(name): return os.path.join(TARGET, "debug", name)
GUARD = "yara_x_verif"
NCPU = os.cpu_count() or 4

FORBIDDEN = r"\b(Admitted|admit|Axiom|Axioms|Parameter|Parameters|Conjecture|Conjectures|Hypothesis|Hypotheses|Variable|Variables|Unset\s+Guard|bypass_check|Admit\s+Obligations|native_compute|type-in-type|impredicative-set)\b"
# std-library axioms tolerated in Print Assumptions (none needed so far)
AXIOM_ALLOW = set()


class Lock:
    def __init__(self, name):
        os.makedirs(CACHE, exist_ok=True)
        self.p = os.path.join(CACHE, name + ".lock")
    def __enter__(self):
        self.f = open(self.p, "w"); fcntl.flock(self.f, fcntl.LOCK_EX); return self
    def __exit__(self, *a):
        fcntl.flock(self.f, fcntl.LOCK_UN); self.f.close()


def sh(cmd, cwd=None, timeout=None, env=None, input=None):
    e = dict(os.environ)
    e["CARGO_NET_OFFLINE"] = "true"
    if env: e.update(env)
    t0 = time.time()
    try:
        r = subprocess.run(cmd, cwd=cwd, shell=isinstance(cmd, str), env=e, input=input,
                           stdout=subprocess.PIPE, stderr=subprocess.STDOUT, timeout=timeout, text=True)
        return r.returncode, r.stdout, time.time() - t0
    except subprocess.TimeoutExpired as ex:
        out = ex.stdout or ""
        if isinstance(out, bytes): out = out.decode("utf-8", "replace")
        return 124, out + "\n[timeout]", time.time() - t0


# ---------------------------------------------------------------- translate
def run_translators(names):
    """returns (ok, message)"""
    from tlib import TranslateError
    for n in names:
        try:
            mod = importlib.import_module(n)
            importlib.reload(mod)
            mod.main()
        except TranslateError as e:
            return False, f"translator {n}: {e}"
        except Exception as e:  # a crash of the translator is also a broken tie
            return False, f"translator {n} crashed: {type(e).__name__}: {e}"
    return True, ""


ALL_TRANSLATORS = None
def all_translators():
    return sorted(os.path.basename(p)[:-3] for p in glob.glob(os.path.join(ROOT, "translate", "gen_*.py")))


# ---------------------------------------------------------------- coq
def coq_project_text():
    """_CoqProject lists every .v under coq/ except Props/ (compiled on every
    run by compile_props) and scratch files."""
    files = []
    for p in glob.glob(os.path.join(COQ, "**", "*.v"), recursive=True):
        rel = os.path.relpath(p, COQ)
        base = os.path.basename(rel)
        if rel.startswith("Props" + os.sep) or base.startswith("Tmp") or base.startswith("."):
            continue
        files.append(rel)
    files.sort()
    return "-Q . YV\n-arg -w -arg -notation-overridden,-deprecated-hint-without-locality\n" + "\n".join(files) + "\n"


def coq_makefile():
    with Lock("coq"):
        mk = os.path.join(COQ, "Makefile")
        cp = os.path.join(COQ, "_CoqProject")
        text = coq_project_text()
        old = open(cp).read() if os.path.exists(cp) else None
        if old != text or not os.path.exists(mk):
            open(cp, "w").write(text)
            rc, out, _ = sh("coq_makefile -f _CoqProject -o Makefile", cwd=COQ)
            if rc != 0: raise RuntimeError("coq_makefile failed:\n" + out)


def coq_make(targets=None, timeout=1500):
    """build model/proof .vo files (full .vo build). returns (rc, out)"""
    coq_makefile()
    with Lock("coq"):
        cmd = ["make", "-j%d" % NCPU, "-k"] + (targets or [])
        rc, out, _ = sh(cmd, cwd=COQ, timeout=timeout)
        return rc, out


def failed_targets(make_out):
    return sorted(set(re.findall(r"\*\*\* \[[^\]]*?:\s*\d+:\s*([^\]]+\.vo)\]", make_out)))


def first_error(make_out, limit=1200):
    m = re.search(r'File "[^"]+", line \d+.*?(?=\n(?:make|COQC|File )|\Z)', make_out, re.S)
    return (m.group(0) if m else make_out[-limit:])[:limit]


def enclosing_theorem(vfile, line):
    try:
        lines = open(vfile, encoding="utf-8").read().split("\n")
    except OSError:
        return None
    for i in range(min(line, len(lines)) - 1, -1, -1):
        m = re.match(r"\s*(Theorem|Lemma|Corollary|Example|Fact|Proposition|Definition|Fixpoint|Check)\s+([A-Za-z_0-9']+)", lines[i])
        if m: return m.group(2)
    return None


def compile_props(pid):
    """Compile Props/<pid>.v on every run (not through make) so that its
    Print Assumptions output is seen.  returns dict."""
    v = os.path.join(COQ, "Props", pid + ".v")
    res = {"file": v, "ok": False, "theorems": [], "assumptions": {}, "error": None, "failed_theorem": None}
    text = open(v, encoding="utf-8").read()
    res["theorems"] = re.findall(r"^\s*(?:Theorem|Corollary)\s+([A-Za-z_0-9']+)", text, re.M)
    res["pinned"] = re.findall(r"^\s*Check\s+([A-Za-z_0-9'.]+)\s*:", text, re.M)
    with Lock("coq"):
        rc, out, _ = sh(["coqc", "-Q", ".", "YV", "-w", "-notation-overridden,-deprecated-hint-without-locality",
                         "Props/%s.v" % pid], cwd=COQ, timeout=900)
    if rc != 0:
        res["error"] = out[-1500:]
        m = re.search(r'File "([^"]+)", line (\d+)', out)
        if m:
            res["failed_theorem"] = enclosing_theorem(os.path.join(COQ, m.group(1)) if not os.path.isabs(m.group(1)) else m.group(1), int(m.group(2)))
        return res
    # parse Print Assumptions blocks
    # coqc prints either "Closed under the global context" or "Axioms:\n name : type ..."
    chunks = re.split(r"(?=Closed under the global context|Axioms:)", out)
    blocks = [c for c in chunks if c.startswith("Closed under") or c.startswith("Axioms:")]
    names = re.findall(r"^\s*Print\s+Assumptions\s+([A-Za-z_0-9'.]+)\s*\.", text, re.M)
    bad = []
    for i, nme in enumerate(names):
        b = blocks[i] if i < len(blocks) else "?"
        if b.startswith("Closed under"):
            res["assumptions"][nme] = []
        else:
            ax = re.findall(r"^([A-Za-z_][A-Za-z_0-9'.]*)\s*:", b, re.M)
            res["assumptions"][nme] = ax
            for a in ax:
                if a not in AXIOM_ALLOW: bad.append((nme, a))
    if len(blocks) != len(names):
        res["error"] = "Print Assumptions output count mismatch"
        return res
    missing = [t for t in res["theorems"] if t not in names]
    if missing:
        res["error"] = "theorems without Print Assumptions: " + ", ".join(missing); return res
    if bad:
        res["error"] = "non-allow-listed axioms: " + ", ".join(f"{t} uses {a}" for t, a in bad); return res
    res["ok"] = True
    return res


def grep_forbidden():
    hits = []
    for p in glob.glob(os.path.join(COQ, "**", "*.v"), recursive=True):
        txt = open(p, encoding="utf-8").read()
        # strip comments (non-nested is enough: we never nest)
        code = re.sub(r"\(\*.*?\*\)", lambda m: " " * 0 + "\n" * m.group(0).count("\n"), txt, flags=re.S)
        # section variables are allowed: Variable(s)/Hypothesis inside Section..End
        depth = 0
        for ln, line in enumerate(code.split("\n"), 1):
            if re.match(r"\s*Section\s+\w+", line): depth += 1
            if re.match(r"\s*End\s+\w+", line) and depth > 0: depth -= 1
            for m in re.finditer(FORBIDDEN, line):
                w = m.group(1)
                if depth > 0 and re.match(r"(Variable|Variables|Hypothesis|Hypotheses)$", w): continue
                # `Context`-like uses inside identifiers are excluded by \b; tactic names e.g. "admit" are forbidden outright
                hits.append(f"{os.path.relpath(p, COQ)}:{ln}: {w}")
    return hits


# ---------------------------------------------------------------- harness
def build_harness(bins=None, extra_env=None, timeout=3000):
    """cargo build of the harness binaries `bins` (None = all) against /repo's
    working tree, hooks on."""
    with Lock("cargo"):
        lock = os.path.join(HARNESS, "Cargo.lock")
        rlock = os.path.join(REPO, "Cargo.lock")
        env = {"RUSTFLAGS": f"--cfg {GUARD}", "CARGO_TARGET_DIR": TARGET}
        if extra_env: env.update(extra_env)
        cmd = ["cargo", "build", "--offline"]
        for b in (bins or []): cmd += ["--bin", b]
        rc, out, dt = sh(cmd, cwd=HARNESS, env=env, timeout=timeout)
        if rc != 0 and "lock file" in out and os.path.exists(rlock):
            shutil.copy(rlock, lock)
            rc, out, dt = sh(cmd, cwd=HARNESS, env=env, timeout=timeout)
        return rc, out, dt


def parse_eval_lists(out):
    """coqc output of the shard: a sequence of `= [..] : list N` answers."""
    res = []
    for m in re.finditer(r"=\s*(\[[^\]]*\]|nil)\s*:\s*list N", out.replace("\n", " ")):
        body = m.group(1)
        res.append([int(x) for x in re.findall(r"(\d+)(?:%N)?", body)] if body != "nil" else [])
    return res


def run_shards(casedir, timeout=1200):
    """coqc every cases_k.v in casedir in parallel.
    returns dict: k_fail=[(shard,idx)], s_fail=[...], errors=[...]"""
    shards = sorted(glob.glob(os.path.join(casedir, "cases_*.v")), key=lambda p: int(re.findall(r"cases_(\d+)\.v", p)[0]))
    procs, res = [], {"k_fail": [], "s_fail": [], "errors": [], "shards": len(shards)}
    e = dict(os.environ)
    pending = list(shards)
    running = []
    outputs = {}
    def start(p):
        return subprocess.Popen(["coqc", "-noglob", "-Q", COQ, "YV", os.path.basename(p)], cwd=casedir,
                                stdout=subprocess.PIPE, stderr=subprocess.STDOUT, text=True)
    t0 = time.time()
    while pending or running:
        while pending and len(running) < NCPU:
            p = pending.pop(0); running.append((p, start(p)))
        still = []
        for p, pr in running:
            if pr.poll() is None:
                if time.time() - t0 > timeout:
                    pr.kill(); outputs[p] = (124, "[timeout]")
                else:
                    still.append((p, pr))
            else:
                outputs[p] = (pr.returncode, pr.stdout.read())
        running = still
        if running: time.sleep(0.05)
    for p in shards:
        rc, out = outputs[p]
        k = int(re.findall(r"cases_(\d+)\.v", p)[0])
        if rc != 0:
            res["errors"].append(f"shard {k}: coqc rc={rc}: {out[-600:]}")
            continue
        lists = parse_eval_lists(out)
        if len(lists) != 2:
            res["errors"].append(f"shard {k}: cannot parse coqc output: {out[-400:]}")
            continue
        res["k_fail"] += [(k, i) for i in lists[0]]
        res["s_fail"] += [(k, i) for i in lists[1]]
    return res


def load_case(casedir, shard, idx):
    with open(os.path.join(casedir, f"cases_{shard}.jsonl"), encoding="utf-8") as f:
        lines = f.read().split("\n")
    try:
        return json.loads(lines[idx])
    except Exception:
        return {"raw": lines[idx] if idx < len(lines) else None}


# ---------------------------------------------------------------- findings
def load_findings():
    p = os.path.join(ROOT, "known_findings.jsonl")
    out = []
    if os.path.exists(p):
        for l in open(p, encoding="utf-8"):
            l = l.strip()
            if l and not l.startswith("#"):
                out.append(json.loads(l))
    return out


# ---------------------------------------------------------------- verdict
class Run:
    def __init__(self, pid, tier, seed):
        self.pid, self.tier, self.seed = pid, tier, seed
        self.t0 = time.time()
        self.violations = []      # (replay_path, suffix)
        self.known = []           # strings
        self.coverage = {}
        self.assumptions = []
        self.notes = []

    def replay_path(self, tag):
        d = os.path.join(ROOT, "replays"); os.makedirs(d, exist_ok=True)
        return os.path.join(d, f"{self.pid}-{tag}.json")

    def violation(self, tag, payload, no_input=False):
        p = self.replay_path(tag)
        payload = dict(payload); payload.setdefault("property", self.pid)
        payload["no_failing_input_found"] = no_input
        with open(p, "w", encoding="utf-8") as f: json.dump(payload, f, indent=1)
        self.violations.append((p, " no-failing-input-found" if no_input else ""))

    def known_finding(self, what):
        if what not in self.known: self.known.append(what)

    def finish(self):
        wall = time.time() - self.t0
        cov = self.coverage
        ev = {"property_id": self.pid, "tier": self.tier, "seed": self.seed, "level": "proof",
              "coverage": cov, "assumptions": self.assumptions, "wall_s": round(wall, 2),
              "violations": len(self.violations)}
        if self.known: ev["known_findings_reported"] = self.known
        if self.notes: ev["notes"] = self.notes
        os.makedirs(os.path.join(ROOT, "evidence"), exist_ok=True)
        with open(os.path.join(ROOT, "evidence", self.pid + ".json"), "w", encoding="utf-8") as f:
            json.dump(ev, f, indent=1)
        for k in self.known:
            print(f"KNOWN-FINDING: property={self.pid} {k}")
        for p, suf in self.violations:
            print(f"VIOLATION property={self.pid} replay={p}{suf}")
        print(f"[{self.pid}] tier={self.tier} seed={self.seed} obligations={cov.get('discharged')}/{cov.get('obligations')} "
              f"evaluations={cov.get('evaluations')} violations={len(self.violations)} wall={wall:.1f}s")
        return 1 if self.violations else 0


TRUSTED_BASE = [
    "Coq 8.16.1 kernel (coqc; vm_compute used for finite facts and case evaluation; no native_compute)",
    "translate/*.py: syntax-directed extraction of tables/formulas from the Rust source into coq/Gen/*.v",
    "harness/ (Rust): generators, canonical dumps, Coq literal printer; check.py: orchestration and output parsing",
    "the model-vs-code tie is differential (K) outside the generated definitions",
]


def cmd_run(pid, tier, seed):
    mod = importlib.import_module("checks." + pid)
    run = Run(pid, tier, seed)
    spec = mod.SPEC
    # replay files describe THIS run only: drop the ones an earlier run of this property left
    for old in glob.glob(os.path.join(ROOT, "replays", f"{pid}-*.json")):
        try: os.remove(old)
        except OSError: pass
    findings = [f for f in load_findings() if f.get("property") == pid]
    run.coverage.update({"obligations": 0, "discharged": 0,
                         "checker_cmd": f"make -C coq && coqc Props/{pid}.v (Print Assumptions) && coqc cases_*.v",
                         "trusted_base": TRUSTED_BASE + spec.get("trusted_base", []),
                         "evaluations": 0, "distinct_nontrivial": 0, "samples": []})
    broken = []   # names of proof obligations / ties that no longer check

    # 1. translators
    ok, msg = run_translators(spec.get("translators", []))
    if not ok:
        broken.append(("translator", msg))

    # 2. Coq
    hits = grep_forbidden()
    if hits:
        broken.append(("forbidden-vernacular", "; ".join(hits[:10])))
    model_ok = True
    rc, out = coq_make(spec.get("model_targets"))
    if rc != 0:
        model_ok = False
        broken.append(("model-build", first_error(out)))
    proofs_ok = False
    props = None
    if model_ok:
        rc, out = coq_make(spec.get("proof_targets"))
        if rc != 0:
            ft = failed_targets(out)
            m = re.search(r'File "([^"]+)", line (\d+)', out)
            thm = None
            if m:
                f = m.group(1)
                f = f if os.path.isabs(f) else os.path.join(COQ, f)
                thm = enclosing_theorem(f, int(m.group(2)))
            broken.append(("proof", f"{thm or '?'} in {','.join(ft) or '?'}: {first_error(out, 600)}"))
        else:
            props = compile_props(pid)
            if not props["ok"]:
                broken.append(("proof", f"Props/{pid}.v: theorem {props.get('failed_theorem') or '?'}: {props['error']}"))
            else:
                proofs_ok = True
    nthm = len(props["theorems"]) if props else len(re.findall(r"^\s*(?:Theorem|Corollary)\s", open(os.path.join(COQ, "Props", pid + ".v")).read(), re.M))
    run.coverage["obligations"] = nthm + len(spec.get("generated_obligations", []))
    run.coverage["discharged"] = run.coverage["obligations"] if proofs_ok else 0
    if props:
        run.coverage["theorems"] = props["theorems"]
        run.coverage["print_assumptions"] = props["assumptions"]

    # 3. harness + K/S
    k_info = None
    if model_ok or spec.get("harness_without_model"):
        rc, out, dt = build_harness(spec.get("bins"))
        if rc != 0:
            # the tree no longer builds with our harness: report as broken tie
            broken.append(("harness-build", out[-1500:]))
        else:
            k_info = mod.run_k(run, tier, seed, sys.modules[__name__])
    if k_info:
        for key in ("evaluations", "distinct_nontrivial", "samples", "rule", "distribution", "traces_validated_against_impl"):
            if key in k_info: run.coverage[key] = k_info[key]
        for name, msg in k_info.get("broken", []):
            broken.append((name, msg))

    # 4. verdict: concrete violations first; broken obligations without a
    #    concrete input are still violations (no-failing-input-found)
    concrete = k_info.get("violations", []) if k_info else []
    for v in concrete:
        fp = v.get("fingerprint")
        kf = next((f for f in findings if f.get("kind") == "known" and f.get("fingerprint") == fp), None)
        if kf:
            run.known_finding(kf.get("what", fp))
        else:
            run.violation(v.get("tag", hashlib.sha1(json.dumps(v, sort_keys=True).encode()).hexdigest()[:10]), v)
    if broken and not run.violations:
        # was every broken obligation explained by a listed known finding?
        unexplained = []
        for name, msg in broken:
            kf = next((f for f in findings if f.get("kind") == "known" and f.get("breaks") and f["breaks"] in msg), None)
            if kf: run.known_finding(kf.get("what"))
            else: unexplained.append((name, msg))
        if unexplained:
            run.violation("unchecked", {"broken": [{"what": n, "detail": m} for n, m in unexplained],
                                        "explanation": "a proof obligation or the model/code correspondence no longer checks and no concrete failing input was found"},
                          no_input=True)
    elif broken:
        run.notes.append({"broken": [{"what": n, "detail": m[:500]} for n, m in broken]})
    run.assumptions = spec.get("assumptions", [])
    return run.finish()


def cmd_setup():
    t0 = time.time()
    ok, msg = run_translators(all_translators())
    if not ok:
        print("setup: translator failed:", msg)  # checks will report it
    rc, out = coq_make()
    print(out[-2000:] if rc != 0 else "coq: ok")
    rc2, out2, dt = build_harness()
    if rc2 != 0:
        # one broken binary must not prevent the others from being built
        for b in sorted(os.path.basename(p)[:-3] for p in glob.glob(os.path.join(HARNESS, "src", "bin", "*.rs"))):
            r, o, _ = build_harness([b])
            print(f"harness bin {b}: {'ok' if r == 0 else 'FAILED'}")
        rc2 = 0
    print(out2[-2000:] if rc2 != 0 else f"harness: ok ({dt:.0f}s)")
    # optional per-property setup (e.g. C20 builds the `yr` binary it replays fixes on)
    for p in sorted(glob.glob(os.path.join(ROOT, "checks", "C*.py"))):
        try:
            m = importlib.import_module("checks." + os.path.basename(p)[:-3])
            if hasattr(m, "setup"): m.setup(sys.modules[__name__])
        except Exception as e:
            print(f"setup of {os.path.basename(p)}: {type(e).__name__}: {e}")
    print(f"setup done in {time.time()-t0:.0f}s")
    return 0 if (rc2 == 0) else 1


def cmd_replay(path):
    d = json.load(open(path))
    pid = d.get("property")
    mod = importlib.import_module("checks." + pid)
    if hasattr(mod, "replay"):
        rc, out, _ = build_harness(mod.SPEC.get("bins"))
        if rc != 0: print(out[-1500:]); return 2
        return mod.replay(d, sys.modules[__name__])
    print(json.dumps(d, indent=1)); return 0


def main():
    a = sys.argv[1:]
    if not a: print(__doc__); return 2
    if a[0] == "setup": return cmd_setup()
    if a[0] == "run":
        pid = a[1]
        tier = os.environ.get("VERIF_TIER", "quick")
        if "--tier" in a: tier = a[a.index("--tier") + 1]
        seed = int(os.environ.get("VERIF_SEED", "1") or "1")
        if "--seed" in a: seed = int(a[a.index("--seed") + 1])
        return cmd_run(pid, tier, seed)
    if a[0] == "replay": return cmd_replay(a[1])
    print(__doc__); return 2


if __name__ == "__main__":
    sys.exit(main())
