from checks.common import *
import os, json, re

SPEC = {
    "translators": ["gen_patconsts", "gen_jumpcoalesce"],
    "bins": ["c01"],
    "model_targets": ["Pat/C01Check.vo"],
    "proof_targets": ["Pat/MatcherProofs.vo", "Pat/ModifiersProofs.vo", "Pat/MatchListProofs.vo",
                      "Pat/C01CheckProofs.vo", "Pat/Base64Proofs.vo", "Pat/ChainProofs.vo", "Pat/PipelineProofs.vo", "Pat/AtomsProofs.vo", "Pat/PipelineB64Proofs.vo", "Pat/ChainRunProofs.vo", "Pat/ChainCompleteProofs.vo", "Pat/PipelineB64CompleteProofs.vo", "Pat/ChainEndProofs.vo", "Pat/JumpsProofs.vo"],
    "assumptions": [
        "the specification of occurrences (Pat/Sem.v, Pat/Modifiers.v) is written from text_patterns.md, hex_patterns.md, regexps.md, differences.md; "
        "where they are silent it accepts the implementation: the neighbouring character of a wide string for fullword, which of several genuine "
        "lengths a regexp reports, base64 occurrences whose 4-character window does not decode; for the assertions of a `wide` regexp the neighbours are "
        "the CHARACTERS (the byte two positions before / the byte at the position when two bytes follow; Sem.nb_prev / nb_next), the reading of "
        "re/mod.rs WideIter also where the neighbour is not a proper wide character",
        "literal family (Literal, LiteralWithMask, Xor, Base64*): handle_atom_match / verify_* are modelled (Pat/Pipeline.v) and proved equal to the "
        "reference under atoms_ok, which K stream (d) evaluates on the REAL sub-patterns and atoms of the compiled rules (hook Rules::verif_c01_dump); "
        "the search automaton is assumed to report exactly the atom occurrences (hits_exact: any order); for Base64* the model is proved sound (both encodings) "
        "and complete for whole-group windows, for proper alphabets without '=' (checked on the dump)",
        "chains at run time: handle_sub_pattern_match, within_valid_distance, verify_chain_of_matches (chain_length pruning, greedy reset walk) are "
        "modelled over EVENTS = verified piece matches (Pat/ChainRun.v) and proved sound for every event list and complete on starts for every event "
        "list in which each event starts before the end of every later one (ChainRunProofs, ChainCompleteProofs); K stream (e) feeds the model the REAL "
        "events, atom hits and kernel recorded by the hooks (verif_c01_trace_*) and checks: the hits are exactly the atom occurrences in an order the "
        "kernel that ran produces (start order for the vector kernel, end order for the automaton), the events of literal pieces are what "
        "handle_atom_match derives from the hits, the events of regexp pieces are matches of the piece by the reference matcher (every start "
        "covered), the events satisfy the order hypothesis, and the bookkeeping reproduces the reported list exactly. How verify_regexp picks the "
        "end of a regexp piece (one per atom hit) is observed; for the pieces run by the FastVM whose atoms have no backward code K checks that it is "
        "the end the abstract piece matcher picks (one end per start: the shortest for a lazy pattern, the longest for a greedy one), the reading "
        "that is refuted for completeness; which end is reported per start is proved: the shortest closing end for lazy chains (ChainEndProofs), the longest for "
        "greedy ones (ChainCompleteProofs.chain_greedy_longest; true since commit a09b6a08, before it MatchList::add overwrote the end without comparing)",
        "the Thompson/PikeVM/FastVM engines, Teddy and Aho-Corasick are not modelled: they are tied to the specification only by the "
        "differential streams (every reported match checked by genuine_b, every required start looked for)",
        "MatchList::add replaces the end of a stored match only by a larger one, in both arms (commit a09b6a08), and the literal family tracks with "
        "replace_if_longer = true: of several sub-patterns matching at one start the longest wins whatever the order of the atom hits (both modelled, "
        "add_keeps_longest_holds proved; the model follows the implementation exactly in streams (a) and (d))",
        "Vec growth policy and slice::binary_search_by are trusted std behaviour (modelled literally; search_std_eq proves the abstraction used)",
        "completeness is demanded for starts whose genuine lengths are all within re::DEFAULT_SCAN_LIMIT and while the pattern has fewer than "
        "max_matches_per_pattern matches; generated buffers are <= 300 bytes, so the scan limit is never the reason for a miss in K",
    ],
    "trusted_base": ["Gen/PatConsts.v: chaining threshold, scan limit, max matches, clear() capacity threshold, initial list capacity, "
                     "base64 minimum length, regenerated from the Rust source",
                     "hook lib/src/verif_c01.rs (cfg yara_x_verif): runs operation sequences on the real MatchList/PatternMatches",
                     "Gen/JumpCoalesce.v: which bound survives when consecutive jumps are coalesced, read from the match arms of hex2hir.rs"],
}

RULE = ("stream (a), ~20%: random operation sequences on the real MatchList / PatternMatches (sorted-ish, duplicates, same start with different ends, "
        "replace_if_longer on/off, limit 0..5 reached, clear below/above the capacity threshold, matches_in_range/search queries with negative and "
        "inverted ranges): the Coq model must reproduce every returned value, the final lists and the capacities. "
        "stream (b), ~80%: one pattern per case generated from the AST of Pat/Syntax.v -- text x {nocase, ascii, wide, fullword, xor(range), base64, "
        "base64wide, custom alphabets} in every combination the compiler accepts; hex with nibble masks, ~negation, jumps incl. [n-m] around the "
        "200-byte chaining threshold and [n-], nested alternatives; regexps with classes, ., ^ $ \\b \\B, alternation, uniform greedy or lazy "
        "repetitions, /i /s, nocase/wide/ascii/fullword -- scanned over buffers assembled from the pattern's own instances, near-misses (bit flipped, "
        "case flipped, truncated, xor'ed, wide/ascii mixed), overlaps, occurrences at offset 0 and at the last byte, with 4 different conditions that "
        "depend on the occurrences, optionally 70 extra literals in the rule set (Aho-Corasick instead of Teddy) and max_matches_per_pattern 1..3. "
        "stream (c), ~30%: directed shapes (jump + masked byte in both directions, rule sets of 1..90 literals with occurrences at chosen offsets "
        "mod 16, masked literals of 15..66 bytes with one-byte near-misses, regexps with a look-around assertion (^ $ \\b \\B \\b{start} \\b{end}) "
        "directly before / after / inside the literal run that becomes the atom x {ascii, wide, ascii wide, nocase, fullword, nocase wide} over "
        "buffers with word / non-word / underscore neighbours and instances at both buffer edges, hex patterns with 2-3 consecutive jumps of every "
        "kind ([n], [a-b], [a-], [-]) and gaps just below / at / above every bound of the coalesced jump, regexps of the masked-literal shape (literals, `.`, classes that are nibble masks) x {ascii, wide, ascii wide, nocase, fullword, "
        "nocase ascii wide}, and one-bit perturbations: for a text pattern of each modifier family "
        "(plain, nocase, nocase wide, fullword, xor, base64, wide) or a flat hex pattern of 5..12 bytes over letters, digits, punctuation and control "
        "bytes, buffers made of the genuine instance with bit 5, bit 7 and a random bit of every byte flipped in turn, inside and outside the atom). "
        "stream (e), ~12%: chains -- hex patterns and /s regexps (uniformly greedy or lazy; also nocase, wide, ascii wide, fullword) of 2..5 pieces, "
        "plain literals or small expressions (classes, nibble masks, short jumps, x+, y?, alternatives), joined by unbounded jumps and jumps over the "
        "chaining threshold, buffers with instances of the pieces in and out of order, repeated heads, middles and tails, near-misses and now and "
        "then >200 bytes of filler; the real pieces (flags, links, gaps) must equal Chain.split_at_large_gaps, atoms_ok must hold for every literal "
        "piece, the recorded hits/events must be what the model says (see assumptions) and the bookkeeping model must reproduce the reported list. stream (f), ~12%: rules with 2..4 related patterns (same text with different "
        "custom base64 alphabets, same alphabet with different text, same text with other modifiers, duplicates) scanned by ONE scanner over one or "
        "two consecutive buffers: every (buffer, pattern) is a differential case. stream (g), ~8%: regexps whose strongest literal sits in an alternation "
        "next to an alternative that can match the empty string (x*, (xy)?, an empty alternative), optional groups, x*/x? prefixes, plus general "
        "regexps and hex patterns, with the REAL atoms of their Regexp sub-patterns: every start of a reference occurrence must have, for one of its "
        "genuine lengths, an atom occurrence inside the occurrence (the atom set covers every alternative). stream (d), ~15%: text patterns (every modifier family) and flat hex "
        "patterns with the real sub-patterns and atoms dumped from the compiled rules: the dump must equal the model of c_literal_pattern, atoms_ok "
        "must hold on the real atoms, and the pipeline model run on them must reproduce the reported list exactly (anchored `$a at N` included). "
        "Every single-pattern scan case also carries the kind and Wide flag of every sub-pattern the compiler made of the pattern (dump hook): K requires one "
        "family of sub-patterns per requested form (ascii / wide), none for a form that was not asked for, equally many for both forms, the "
        "LiteralWithMask shortcut only without nocase and wide, one plain Regexp per form. "
        "Non-trivial: at least one reported match; distinct by (pattern source, buffer).")


SYMPTOMS = [(1, "panic-or-bytes"), (2, "unsound"), (4, "order"), (8, "missed"), (16, "over-limit"), (32, "model"),
            (64, "sub-patterns-differ-from-compile-model"), (128, "atoms_ok-false-on-real-atoms"), (256, "pipeline-or-chain-model-differs"),
            (512, "hits-not-the-atom-occurrences-in-kernel-order"),
            (1024, "chain:pieces-differ-from-split-model"), (2048, "chain:atoms_ok-false-on-real-atoms"), (4096, "chain:hits-not-the-atom-occurrences-in-kernel-order"),
            (8192, "chain:literal-piece-matches-differ-from-model"), (16384, "chain:regexp-piece-matches-not-the-reference's"), (32768, "chain:bookkeeping-model-differs"),
            (65536, "chain:events-not-in-an-order-a-kernel-produces"), (131072, "chain:end-of-forward-only-fastvm-piece-not-the-abstract-matchers"), (262144, "byte-gap-reading-of-wide-chain"), (524288, "atoms-do-not-cover-an-occurrence"), (1048576, "sub-patterns-not-one-family-per-requested-form")]

# root-cause hints computed by the harness from the pattern's AST, most specific first (the defects behind
# them are repaired: a case classified by one of them is a regression and is reported as a VIOLATION)
TAG_ORDER = ["fullword-on-masked-literal", "class-to-masked-byte-unsound", "trailing-dot-repetition",
             "counted-repetition-of-group-with-wildcard", "jump-nonliteral-variable-jump", "base64wide"]


def classify(case):
    if case.get("stream") == "matchlist":
        return "C01:matchlist:" + str(case.get("shape"))
    shape = str(case.get("shape"))
    sym = case.get("symptoms") or "?"
    rep = re.findall(r"\((\d+), (\d+), (?:None|Some\(\d+\))\)", str(case.get("reported", "")))
    n = case.get("data_len")
    if n is None:
        n = len(case.get("data_hex", "")) // 2
    tags = case.get("tags") or []
    if any(int(s) + int(l) > n for s, l in rep):
        return "C01:scan:range-past-end-of-buffer:" + ("base64wide" if "base64wide" in tags else shape)
    # known finding: a wide regexp split into a chain; every reported match that is not genuine is a match of
    # the reading the chain bookkeeping implements (pieces widened, gaps plain byte distances; decided in Coq
    # by C01Check.wide_byte_gap_explains) and nothing else is wrong
    if "wide-regexp-split-at-large-gap" in tags and sym == "unsound+byte-gap-reading-of-wide-chain":
        return "C01:scan:wide-regexp-split-at-large-gap"
    # known finding: one end per (piece, start) is kept for a chain piece and the gap is measured from it --
    # a piece of variable length in front of a bounded gap (the shortest end for lazy / hex, the longest for greedy)
    if "chain-piece-variable-length-bounded-gap" in tags and sym == "missed":
        return "C01:scan:chain-piece-variable-length-bounded-gap"
    # ... or, for a greedy regexp (the LONGEST end is kept), in front of any gap
    if "chain-piece-variable-length-greedy" in tags and sym == "missed":
        return "C01:scan:chain-piece-variable-length-greedy"
    # repaired by b2a39c9f (a case classified here is a regression): verify_base64 dropped a '=' found at an even offset
    # anywhere in a base64wide window (not only trailing padding): there is such a '=' close to a reported match
    if "base64wide" in tags and sym == "unsound":
        data = bytes.fromhex(case.get("data_hex", ""))
        for s_, l_ in rep:
            s0, l0 = int(s_), int(l_)
            lo = max(0, s0 - 8)
            window = data[lo:s0 + l0 + 8]
            if any(window[i] == 0x3d and (lo + i - s0) % 2 == 0 and (lo + i) < s0 + l0 + 6 and data[lo + i + 2:lo + i + 3] not in (b"", b"=") for i in range(len(window))):
                return "C01:scan:base64wide-pad-inside-window"
    # known findings of round 5 (candidate repairs in fixes/C01-8..10)
    data_b = bytes.fromhex(case.get("data_hex", ""))
    parts = set(sym.split("+"))
    if "exact-dot-repetition-without-s" in tags and parts <= {"unsound", "missed"} and (b"\n" in data_b):
        return "C01:scan:fastvm-backward-exact-jump-no-newline"
    if "word-end-assertion" in tags and sym == "unsound" and any(int(s_) <= 1 for s_, _ in rep):
        return "C01:scan:pikevm-word-end-backwards-at-start-of-data"
    if "jump-bound-over-65535" in tags and parts <= {"unsound", "missed"}:
        return "C01:scan:fastvm-jump-bound-truncated-to-16-bits"
    if "empty-alternative" in tags and sym == "missed":
        return "C01:scan:fastvm-empty-alternative-at-edge-of-data"
    for t in TAG_ORDER[:-1]:
        if t in tags:
            return f"C01:scan:{t}"
    return f"C01:scan:{sym}:{shape}"


def diagnose(drv, casedir, fails):
    """{(shard, idx): 'unsound+missed'} for the S-failing scan cases: one coqc run per shard
    evaluating C01Check.diagnose on the failing cases only."""
    out = {}
    by_shard = {}
    for (s, i) in fails:
        by_shard.setdefault(s, []).append(i)
    for s, idxs in by_shard.items():
        src = open(os.path.join(casedir, f"cases_{s}.v"), encoding="utf-8").read()
        pre, rest = src.split("Definition cases := [\n", 1)
        items = rest.split("\n].\n", 1)[0].split(";\n")
        text = pre
        for i in idxs:
            m = re.match(r"\((\d+)%N, (.*)\)$", items[i].strip(), re.S)
            text += f"Eval vm_compute in (diagnose ({m.group(2)})).\n"
        name = f"Diag_{s}.v"
        with open(os.path.join(casedir, name), "w", encoding="utf-8") as f:
            f.write(text)
        rc, o, _ = drv.sh(["coqc", "-noglob", "-Q", drv.COQ, "YV", name], cwd=casedir, timeout=900)
        vals = re.findall(r"=\s*(\d+)(?:%N)?\s*:\s*N", o.replace("\n", " "))
        for i, v in zip(idxs, vals):
            out[(s, i)] = "+".join(nm for bit, nm in SYMPTOMS if int(v) & bit) or "none"
        for ext in (".v", ".vo", ".vok", ".vos", ".glob"):
            try: os.remove(os.path.join(casedir, name[:-2] + ext))
            except OSError: pass
    return out


def c01_k(run, drv, args, name, timeout=3000, max_report=12):
    """standard_k plus a diagnosis pass that names the failing part of the specification."""
    import hashlib
    casedir = os.path.join(drv.CACHE, "cases", "C01")
    os.makedirs(casedir, exist_ok=True)
    rc, out, dt = run_harness(drv, "c01", args + ["--out", casedir], timeout=timeout)
    info = {"broken": [], "violations": []}
    stats = last_json_line(out)
    if rc != 0 or stats is None:
        info["broken"].append(("harness:c01", f"rc={rc}: {out[-1200:]}"))
        return info
    info.update({k: stats[k] for k in ("evaluations", "distinct_nontrivial", "samples", "distribution") if k in stats})
    info["traces_validated_against_impl"] = stats.get("evaluations", 0)
    res = drv.run_shards(casedir)
    for e in res["errors"]:
        info["broken"].append((name, e))
    sym = diagnose(drv, casedir, res["s_fail"])
    seen = {}
    for (s, i) in res["s_fail"]:
        case = drv.load_case(casedir, s, i)
        case["symptoms"] = sym.get((s, i))
        fp = classify(case)
        seen.setdefault(fp, []).append(case)
    info["finding_classes"] = {fp: len(cs) for fp, cs in seen.items()}
    for fp, cs in seen.items():
        # the smallest case of the class is the replay
        case = min(cs, key=lambda c: (len(c.get("data_hex", "")), len(c.get("source", ""))))
        if len(info["violations"]) < max_report:
            info["violations"].append({"fingerprint": fp,
                                       "tag": hashlib.sha1((fp + json.dumps(case, sort_keys=True)).encode()).hexdigest()[:10],
                                       "kind": "specification violated on the implementation's output",
                                       "cases_in_class": len(cs), "case": case,
                                       "replay_hint": "python3 check.py replay <this file>"})
    s_set = set(res["s_fail"])
    konly = [x for x in res["k_fail"] if x not in s_set]
    if konly:
        s, i = konly[0]
        case = drv.load_case(casedir, s, i)
        what = diagnose(drv, casedir, konly[:1]).get((s, i), "?")
        info["broken"].append((name, f"model and implementation disagree on {len(konly)} case(s) where the specification still holds ({what}); first: {json.dumps(case)[:1500]}"))
    info["k_disagreements"] = len(res["k_fail"])
    info["s_violations"] = len(res["s_fail"])
    return info


def run_k(run, tier, seed, drv):
    n = 700 if tier == "quick" else 24000
    info = c01_k(run, drv, ["--seed", seed, "--n", n], "K_C01_matchlist_and_refscan")
    info["rule"] = RULE
    return info


def replay(d, drv):
    case = d.get("case", d)
    if case.get("stream") != "scan":
        print(json.dumps(case, indent=1))
        return 0
    p = os.path.join(drv.CACHE, "replay_c01.yar")
    with open(p, "w", encoding="utf-8") as f:
        f.write(case["source"])
    args = ["--probe", p, "--data-hex", case["data_hex"]]
    if case.get("ident"):
        args += ["--ident", case["ident"]]
    if case.get("prior_data_hex"):
        args += ["--prior-hex", ",".join(case["prior_data_hex"])]
    if case.get("max_matches_per_pattern") is not None:
        args += ["--max", case["max_matches_per_pattern"]]
    rc, out, _ = run_harness(drv, "c01", args, timeout=120)
    print(case["source"].split("rule noise")[0])
    print("data_hex:", case["data_hex"])
    print("recorded:", case.get("reported"), case.get("panic"))
    print("now     :", out.strip().split("\n")[-1])
    return 0


MANIFEST = {
    "level_text": ("Machine-checked proof (Coq) of (1) an executable reference matcher for the pattern language of text/hex/regexp patterns "
                   "(ends_spec: it computes exactly the inductive match relation, unbounded repetitions of nullable expressions included), "
                   "(2) boolean checkers that reflect the documented semantics of nocase/wide/ascii/fullword/xor/base64/base64wide "
                   "(genuine_b_spec, ref_scan_complete/sound), (3) a line-by-line model of MatchList::add/search/matches_in_range and "
                   "PatternMatches::add/clear: strictly ascending start-unique lists for every history, exact start set, search = std binary search, "
                   "matches_in_range = number of starts in the range, the limit bound max(limit,1), capacity accounting never underflows; "
                   "'replace_if_longer keeps the longest' is refuted for the code as written and proved under the guard that ends arrive "
                   "non-decreasing, (4) scan_spec_correct: a `true` of the per-scan boolean check implies soundness of every reported "
                   "(offset,length,xor key), strictly ascending unique offsets and completeness of starts within the documented limits. "
                   "The implementation is tied to this on every run: the MatchList model must reproduce the real data structure on random "
                   "operation sequences, and the real Scanner's output for generated (pattern, buffer) pairs is checked by the proven checker."),
    "level_note": ("For the literal family (Literal, LiteralWithMask, Xor, anchored) the scan pipeline is modelled and proved equal to the reference "
                   "under atoms_ok, evaluated on the real atoms (pipeline_literal_family, compile_text_spec); for Base64* the pipeline model is compared "
                   "exactly and proved sound and complete for whole-group windows. The chain bookkeeping at run time is modelled over verified piece matches and proved sound (every reported match is a "
                   "match of the split pattern, ascii form) and complete on starts for kernel-ordered events; it is compared exactly on the real, "
                   "recorded piece matches. The wide form and the one-end-per-start choice of regexp pieces are REFUTED (known findings). Regexp engines "
                   "(FastVM/PikeVM), Teddy/Aho-Corasick are NOT modelled; they are covered only by the differential streams against the proven reference. "
                   "Which of several genuine lengths a regexp reports, wide-fullword neighbours and undecodable base64 windows are accepted as "
                   "undocumented. Buffers are <= 300 bytes (DEFAULT_SCAN_LIMIT is stated in the spec but never reached); repetitions nested inside "
                   "repetitions are bounded in generated regexps. Trusted: Coq kernel, gen_patconsts.py, the harness and its YARA printer, the hook."),
    "technique": "Coq proof of a reference semantics + proven boolean checker evaluated (vm_compute) on the implementation's output; model-vs-code differential for MatchList",
    "design_ref": "DESIGN.md section 4, C01",
}
