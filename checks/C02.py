from checks.common import *
import os, re, json, hashlib, subprocess

SPEC = {
    "translators": ["gen_prec", "gen_emit", "gen_foldfacts"],
    "bins": ["c02"],
    "model_targets": ["Cond/Check.vo"],
    "proof_targets": ["Cond/SemProofs.vo", "Cond/RuleSetProofs.vo", "Cond/PrecProofs.vo", "Cond/QuirksProofs.vo", "Cond/MachineProofs.vo", "Cond/RunsProofs.vo", "Cond/EmitProofs.vo"],
    "assumptions": [
        "the meaning of conditions is the evaluator coq/Cond/Sem.v, hand-written from conditions.md / undefined_values.md / global_and_private.md; where these are silent it follows the implementation and says [undocumented] (64-bit wrap-around, truncated division, shift counts >= 64 / negative, P% = ceil(n*P/100), empty or undefined ranges make a for..in false, lexicographic string order, anchors of an `of` evaluated per item)",
        "floats, regular expressions (`matches`), modules, arrays/maps, .len(), int-as-bool casts, `bool == integer`, KB/MB suffixes are not generated and not modelled; the case-insensitive string operators beyond ASCII follow the implementation [undocumented: conditions.md only says `case-insensitive`]: both operands lower-cased with the Unicode mapping of each character (bstr to_lowercase: no final-sigma rule, U+0130 becomes i + U+0307, invalid UTF-8 kept) and compared as bytes - modelled for ASCII, U+00C0..U+00DE, U+0391..U+03A9 and U+0130, the alphabet the generator draws from; floats are only pinned by one commutativity probe",
        "run-time quantifiers N < 0 and constant shapes rejected by the compiler are not generated; range loops are generated with at most a few hundred iterations (neither emit.rs nor the model has an iteration cap; the model builds the list of all iterations)",
        "patterns are plain literal text patterns; their occurrences are computed by the model's own naive search (overlapping occurrences included), not taken from the implementation",
        "rule sets use consecutive blocks of distinct namespaces; conditions that make the implementation panic (WASM traps, property C05) are counted in the distribution and excluded",
        "the tie between Sem.v and the compiler/scanner is differential (K over generated rule sets), except for the operator binding powers, which are regenerated from parser/src/ast/cst2ast.rs and conditions.md on every run",
        "architecture layer: for every generated rule the IR dumped by the compiler is compared node by node with Cond/IrTree.v (all rules), and the emitted WebAssembly instruction by instruction with Cond/Emit.v for the rules `tyof` types (about 76% of the generated rules: everything but strings - literals, string externals, string operators and comparisons); emit_correct is proved for the structural part Emit.frag1 of that fragment (about 53% of the generated rules: no emit_switch constructs - `of` needing a loop, `of` over a tuple, for..of, for..in over a tuple - and no percentage quantifiers), for..in ranges with nested loops included; the machine run of the same code is evaluated by K on that part",
        "boundary of the exact code comparison: strings (literals, string externals, string operators and comparisons, string-typed `with` / loop variables) are outside `tyof` - the emitter names string literals by their id in the literal pool of the whole compilation (one more hook) and typing them needs a third type in Cond/Emit.v, which about 80 case analyses of EmitProofs.v enumerate; conditions with strings are still covered by the IR comparison and by the verdicts",
        "one guard lives outside the model: harness/src/bin/c02.rs expectation_probe asserts in Rust the verdicts of `for k, v in <map>` loops over the fixed maps of the test_proto2 module, placed after a `with` that leaves undefined flags in the slots the loop variables reuse (modules and maps are not part of Cond/Syntax.v; a mismatch stops the harness with the source printed)",
    ],
    "trusted_base": ["Gen/FoldFacts.v: regenerated from lib/src/compiler/ir/mod.rs (the Rust operation each folding builder uses; any other shape is a TranslateError); Quirks.prefold is built from it",
                     "harness/src/wasm_read.rs: decoder of the WebAssembly binary written by Compiler::emit_wasm_file (unknown opcode = error); harness/src/bin/c02.rs rule_blocks / wasm_coq: finds every rule's block through the rule_match(<rule id>) call that follows it, resolves call targets and globals through the import section, keeps only the offset of a memarg and the arity of a block type",
                     "hook lib/src/verif_c02.rs (Rules::verif_c02_pattern_ids): the PatternId of every declared pattern, which the emitted code uses instead of the position in the rule",
                     "coq/Cond/Emit.v pct_code: the f64 instructions of a percentage quantifier are carried as raw opcodes (IRaw) - compared with the emitted code, never executed by the model",
                     "coq/Cond/Wasm.v op_bin / op_un / lower: WebAssembly opcode numbers, and the two expansions (field lookup, matching-rules bitmap byte) where Cond/Emit.v is more abstract than the emitted code",
                     "harness/src/cond_gen.rs parse_ir: reads the text `impl Debug for IR` prints (kinds, attributes, indentation) and applies the two normalisations listed in Cond/IrTree.v",
                     "Gen/BindingPower.v, Gen/DocPrecedence.v: regenerated from parser/src/ast/cst2ast.rs (binding_power closure) and site/content/docs/writing_rules/conditions.md (operator table)",
                     "harness/src/cond_gen.rs: generator, YARA printer with minimal parentheses, Coq printer"],
}

RULE = ("rule sets of 1-25 rules in 1-3 namespaces with global/private flags and references to earlier rules; conditions from a "
        "type-directed generator over the grammar of conditions.md (boolean/arithmetic/bitwise/shift/comparison/string operators, "
        "filesize, external variables, uintN/intN[be], $a [at|in], #a [in], @a[i], !a[i], of (none/any/all/N/P%, at/in, tuples of "
        "boolean expressions), for..of, for..in over ranges and tuples, with, defined), boundary integers, run-time values "
        "manufactured from filesize so that the constant folder cannot hide the emitted code, undefined sources "
        "(uint8(filesize+k), @a[40], x \\ 0); printed with minimal parentheses; buffers assembled from the patterns' text. "
        "Constant conditions are capped at 15%. Dedicated streams aim at the known deviations (constant folding through f64, "
        "`N of` with N = 0, more than 64 variable slots). Non-trivial: condition of >= 5 nodes; distinct by condition text.")

# what Check.explain answers for a failing case; none of these is a known finding any more
FINGERPRINTS = {
    5: "C02:regression:lazy-pattern-search-skipped(verdicts-change-when-the-search-is-forced)",
    9: "C02:emitted-code-model(Cond/Emit.v on Cond/Machine.v)-differs-from-documented-meaning",
    8: "C02:verdict-with-forced-pattern-search-differs-from-documented-meaning",
    10: "C02:IR-built-by-the-compiler-differs-from-predicted-tree(Cond/IrTree.v)",
    11: "C02:emitted-WASM-differs-from-predicted-code(Cond/Emit.v,Cond/Wasm.v)",
}
KINDS = {
    11: "the verdicts agree with the documented meaning and the IR is the predicted one, but the code decoded from the module Compiler::emit_wasm_file wrote is not, instruction by instruction, the code Cond/Emit.v predicts for the rule: emit.rs and its model have drifted apart; compare `Eval vm_compute in snd (canon [] (predicted (emitted_cond <pattern ids> <cond>)))` with the rule's entry of c_wasm in the replay's `coq` field",
    9: "the verdicts agree with the documented meaning, but the model of the emitted code (Cond/Emit.v on Cond/Machine.v) computes another verdict: emit.rs and its model have drifted apart",
    10: "the verdicts agree with the documented meaning, but the IR dumped by Compiler::set_ir_writer is not the tree Cond/IrTree.v predicts (typing of identifiers, constant folding, slot allocation): ast2ir.rs / ir/mod.rs and their model have drifted apart; compare `ir_dump` in the replay with `Eval vm_compute in ir_of <cond>`",
}


def explain_batch(drv, casedir, cases):
    """cases: list of case dicts (with 'coq'); adds c['explain'] (int) by evaluating
    Check.explain in Coq, 40 cases per coqc run."""
    for k in range(0, len(cases), 40):
        chunk = cases[k:k + 40]
        name = f"TmpExplain{k}"
        src = ("From Coq Require Import List NArith ZArith Bool.\nFrom YV Require Import Cond.Syntax Cond.Sem Cond.RuleSet Cond.IrTree Cond.Wasm Cond.Check.\n"
               "Import ListNotations.\nOpen Scope Z_scope.\nDefinition cs := [\n" + ";\n".join("(" + c["coq"] + ")" for c in chunk) +
               "\n].\nEval vm_compute in (map explain cs).\n"
               "Eval vm_compute in (map (fun c => eval_ruleset (c_data c) (c_globals c) (c_rules c)) cs).\n")
        p = os.path.join(casedir, name + ".v")
        open(p, "w").write(src)
        rc, out, _ = drv.sh(["coqc", "-noglob", "-Q", drv.COQ, "YV", name + ".v"], cwd=casedir, timeout=600)
        for f in os.listdir(casedir):
            if f.startswith(name) or f.startswith("." + name): os.remove(os.path.join(casedir, f))
        flat = out.replace("\n", " ")
        first = flat.split(": list N", 1)[0] if ": list N" in flat else ""
        codes = [int(x) for x in re.findall(r"\b(\d+)(?:%N)?\b", first.split("=", 1)[1])] if rc == 0 and "=" in first else []
        second = flat.split(": list N", 1)[1] if ": list N" in flat else ""
        exp = re.findall(r"\(\s*\[(.*?)\],\s*\[(.*?)\]\s*\)", second)
        for i, c in enumerate(chunk):
            c["explain"] = codes[i] if len(codes) == len(chunk) else 255
            if len(exp) == len(chunk):
                c["expected_all_by_documented_meaning"] = [int(x) for x in re.findall(r"(\d+)", exp[i][0])]
                c["expected_pub_by_documented_meaning"] = [int(x) for x in re.findall(r"(\d+)", exp[i][1])]


def classify(case):
    code = case.get("explain", 255)
    if code in FINGERPRINTS:
        return FINGERPRINTS[code] + ":" + hashlib.sha1(case.get("source", "").encode()).hexdigest()[:10]
    # a disagreement no known deviation reproduces: fingerprint by the condition text
    return "C02:verdict-differs-from-documented-meaning:" + hashlib.sha1(case.get("source", "").encode()).hexdigest()[:10]


def run_k(run, tier, seed, drv):
    n = 700 if tier == "quick" else 20000
    depth = 4 if tier == "quick" else 5
    casedir = os.path.join(drv.CACHE, "cases", "C02")
    os.makedirs(casedir, exist_ok=True)
    rc, out, dt = run_harness(drv, "c02", ["--seed", seed, "--n", n, "--depth", depth, "--out", casedir], timeout=3000)
    info = {"broken": [], "violations": [], "rule": RULE}
    stats = last_json_line(out)
    if rc != 0 or stats is None:
        info["broken"].append(("harness:c02", f"rc={rc}: {out[-1500:]}"))
        return info
    info.update({k: stats[k] for k in ("evaluations", "distinct_nontrivial", "samples", "distribution") if k in stats})
    info["traces_validated_against_impl"] = stats.get("evaluations", 0)
    res = drv.run_shards(casedir, timeout=2400)
    for e in res["errors"]:
        info["broken"].append(("K_C02_verdicts", e))
    failing = sorted(set(res["s_fail"]) | set(res["k_fail"]))
    cases = [drv.load_case(casedir, s, i) for (s, i) in failing]
    cases = [c for c in cases if "coq" in c]
    explain_batch(drv, casedir, cases)
    seen = {}
    for c in cases:
        fp = classify(c)
        seen.setdefault(fp, []).append(c)
    for fp, cs in seen.items():
        c = min(cs, key=lambda x: len(x.get("source", "")))
        c = {k: v for k, v in c.items() if k != "coq"}
        c["replay_cmd"] = "harness c02 --replay <this file>"
        info["violations"].append({"fingerprint": fp, "tag": hashlib.sha1((fp + c.get("source", "")).encode()).hexdigest()[:10],
                                   "kind": KINDS.get(c.get("explain"), "the implementation's verdicts differ from the documented meaning of the conditions (Cond/Sem.v)"),
                                   "cases_with_this_fingerprint": len(cs), "case": c})
    # probes of the harness outside the Coq protocol (pairs of conditions that must agree)
    for f in stats.get("findings", []):
        fp = f.get("fingerprint", "C02:probe")
        info["violations"].append({"fingerprint": fp, "tag": hashlib.sha1(fp.encode()).hexdigest()[:10],
                                   "kind": "a pair of conditions that must have the same verdict (stated in the case) and do not",
                                   "case": f})
    info["k_disagreements"] = len(failing)
    info["s_violations"] = len(failing)
    if "distribution" in info:
        info["distribution"]["disagreements_by_fingerprint"] = {fp: len(cs) for fp, cs in seen.items()}
        if stats.get("panic_samples"): info["distribution"]["panic_samples"] = stats["panic_samples"][:3]
    return info


def replay(d, drv):
    import tempfile
    p = os.path.join(drv.CACHE, "replay_C02.json")
    json.dump(d, open(p, "w"))
    rc, out, _ = drv.sh([drv.hbin("c02"), "--replay", p], timeout=300)
    print(out)
    return 0 if rc == 0 else 2


MANIFEST = {
    "level_text": ("Machine-checked (Coq) total evaluator of rule conditions and rule sets written from the language documentation, "
                   "with theorems for all expressions and environments: and/or never undefined and treat undefined as false, "
                   "undefined propagates through every other operator, determinism, quantifier laws for `of` and `for`, invariance "
                   "under renaming of pattern identifiers, global-rule suppression and private-rule hiding for every rule set; the "
                   "parser's operator binding powers are regenerated from the Rust source on every run and proved to order all "
                   "operator pairs as the documented precedence table does, with a Gallina model of the Pratt loop that "
                   "round-trips canonical expression trees. The implementation (parser, type checker, constant folder, WASM "
                   "emitter, host functions, scanner) is compared with the evaluator on generated rule sets printed with minimal "
                   "parentheses; every disagreement is a violation with a replay."),
    "level_note": ("Proof level for the evaluator's algebra, the precedence table, constant folding (fold_sound) and the emitter: "
                   "emit_correct - the code the model of emit.rs produces, run on a WebAssembly-like machine, leaves exactly the documented "
                   "verdict, for every condition of the fragment Emit.frag1 (for..in ranges with nested loops, with, any/all/N of <set> "
                   "included), from any content of the variable area. The models are tied to the compiler exactly on every generated rule: "
                   "the IR dumped by the compiler equals the predicted tree node by node, the WebAssembly written by emit_wasm_file equals "
                   "the predicted code instruction by instruction (about 76% of the generated rules; strings are outside). The rest of the "
                   "pipeline (parser, scanner, host functions) is tied differentially through verdicts. Found and repaired: constant folding "
                   "through f64, `0 of <set>` and run-time N <= 0 on the range fast path, undefined-flag aliasing beyond 64 slots, skipped "
                   "lazy pattern search, `N of (<boolean>, ..)` depending on the order of its items when one is undefined."),
    "technique": "Coq evaluator, stack machine and emitter model + theorems; translators for the precedence tables and the emitter's constants; exact comparison of the compiler's IR and emitted WebAssembly with the models, and differential verdicts, on generated rule sets (vm_compute)",
    "design_ref": "DESIGN.md section 4, C02",
}
