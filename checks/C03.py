from checks.common import *
import os, re, shutil, json, hashlib

SPEC = {
    "translators": ["gen_fold", "gen_bounds", "gen_fastscan", "gen_hoist"],
    "bins": ["c03"],
    "model_targets": ["Opt/OptCheck.vo"],
    "proof_targets": ["Opt/FoldProofs.vo", "Opt/BoundsProofs.vo", "Opt/FastScanProofs.vo", "Opt/HoistProofs.vo", "Pat/TeddyProofs.vo"],
    "assumptions": [
        "correctly rounded f64 +,-,* of integer-valued doubles = round-to-nearest-even of the exact result to 53 bits (IEEE 754); `as f64` / `as i64` as the Rust reference defines them; both are compared with the machine's f64 on generated operands (KR53/KF64 cases)",
        "run-time integer semantics of the emitted code (wrapping i64.add/sub/mul, 0-x, shifts guarded by `rhs <s 64`, and/or catching undefined) are hand-modelled from emit.rs and tied by K (the `filesize - filesize + c` twin of every generated condition)",
        "header_constraint_sound assumes that a pattern without xor/nocase/wide/base64 modifiers that matches at offset 0 begins the data with its literal bytes (C01's domain), and that uintN/intN read little/big-endian two's complement values as documented",
        "prune_preserves_verdicts: stated for rule sets in which each rule's condition implies its bounds/constraint, depends only on its own patterns and earlier rules, and whose patterns carry exactly the rule's bounds/constraint (pattern identity includes them: compiler/mod.rs c_rule, validated by K on shared pattern texts)",
        "fast scan: the scanner's track_match calls are abstracted to a sequence of (pattern, match) events; skipping the events of a disabled pattern does not change the events of other patterns",
        "Teddy: only the bucketed nibble-mask filter and the verification of candidates are modelled; SIMD kernels, chunking and the last window of the haystack are covered by K only (Teddy on/off on the same compiled rules)",
        "Exact-atoms, FastVM-vs-PikeVM and the pulley back end have no model of their own: they are compared across cargo feature sets in the thorough tier (dump files must be equal)",
    ],
    "trusted_base": ["Gen/FoldGen.v, Gen/BoundsGen.v, Gen/FastScanGen.v: folding route and range test, merge comparisons, operator arms, byte extraction table, which uses clear the fast-scan bit - regenerated from lib/src/compiler/ir/{mod,ast2ir}.rs, compiler/rules.rs, compiler/mod.rs, scanner/context.rs",
                     "hook lib/src/verif_c03.rs (cfg yara_x_verif): Rules::verif_c03_disable_teddy / teddy_min_len / num_atoms / pattern_table / rule_patterns"],
}

RULE = ("one PRNG; 45 % fold cases: conditions built from + - * (n-ary), unary - ~, & | ^ << >>, comparisons, not/and/or over constants around 2^53, "
        "sqrt(2^63) and the i64 limits plus run-time leaves (filesize, uintN), each compiled as written (folded) and with every constant hidden "
        "behind `filesize - filesize + c` (run time), scanned on 2 buffers; 10 % `v as f64` / f64 + - * against round53; 25 % bounds cases: "
        "top-level conjunctions of filesize comparisons (both operand orders, integer and float constants, saturating ones), uintN/intN(k) == c "
        "for the 12 readers with truncation variants, `$p at 0` literals, opaque operands, nested `and`, next to the twin `not not (cond)`, 3 buffers, "
        "with the tables the compiler attached to the patterns; 20 % scan cases: rule sets of 1-4 rules (Teddy) and 40-70 rules (> 64 atoms, Aho-Corasick), "
        "text/hex/regexp patterns incl. 1-3 byte atoms, alternatives found out of offset order and literal alternatives with a common prefix and different lengths (regexp and hex, both orders, optional suffix), shared pattern texts, every kind of use "
        "($p, #p, @p, !p, at, in, N of, of..in, for..of, loops with invariants, rule references, filesize/header conjuncts), buffers of 8, 19-64 and 4096+ bytes, "
        "x condition_optimization on/off x fast_scan on/off x Teddy on/off; 1/8 extra: `or` chains of 2-6 `matches` whose left operands are the same or different "
        "globals, `with` identifiers, loop variables, module fields, function calls and literals (optionally inside `with` / `for any .. in`), regexps aimed at the "
        "operand's own value or at another operand's, compared with the verdict of every operand alone; 1/8 extra: loops (range, tuple, map, array) whose body has "
        "0-3 hoistable invariants and one nested variable-owning statement that uses the loop variable (for..in range/tuple/map, for..of, of with in/at, with, of "
        "over an expression tuple, a percentage quantifier computed from the loop variable, `#` `@` `!` `$` inside a for..of nested in the loop), compiled with and without "
        "condition_optimization, 6 buffers; scans have an 8 s timeout, a case that neither compiles nor scans within 100 s ends the run naming the case. Non-trivial: every case (distinct by source text / operands).")

KNOWN_DUMP_CLASSES = {"beyond-2^53", "i64-overflow"}   # classes of the repaired finding 10: a difference is a regression


def classify(case):
    k = case.get("kind")
    if k == "fold":
        c = case.get("class", "?")
        return "C03:const-fold-f64:" + c if c in ("beyond-2^53", "i64-overflow") else "C03:const-fold:" + c
    if k == "bounds":
        return "C03:pruning:" + case.get("class", "?")
    if k in ("reset", "hoist"):
        return "C03:" + (case.get("class") or k + ":unclassified")
    if k == "scan":
        tags = [t for t in (case.get("class") or "").split("+") if t] or ["scan:unclassified"]
        # several things can be wrong in one scan: report the first one that is not a recorded finding
        known = set()
        try:
            for l in open(os.path.join(os.path.dirname(os.path.dirname(os.path.abspath(__file__))), "known_findings.jsonl")):
                l = l.strip()
                if l and not l.startswith("#"):
                    f = json.loads(l)
                    if f.get("kind") == "known": known.add(f.get("fingerprint"))
        except OSError:
            pass
        for t in tags:
            if "C03:" + t not in known: return "C03:" + t
        return "C03:" + tags[0]
    return "C03:" + str(k)


FEATURE_SETS = {
    # name -> features of yara-x (default-modules and generate-proto-code are always kept)
    "no-opt": [],
    "pulley": ["constant-folding", "exact-atoms", "fast-regexp", "pulley"],
    "no-exact-atoms": ["constant-folding", "fast-regexp"],
    "no-fast-regexp": ["constant-folding", "exact-atoms"],
}


def build_feat(drv, name, feats, timeout=3000):
    """build harness bin c03 against yara-x with another feature set, in its own target dir"""
    d = os.path.join(drv.CACHE, "feat", name)
    os.makedirs(d, exist_ok=True)
    fl = ", ".join('"%s"' % f for f in ["default-modules", "generate-proto-code"] + feats)
    man = f"""[package]
name = "verif-harness-feat"
version = "0.1.0"
edition = "2021"

[workspace]

[lib]
name = "verif_harness"
path = "{drv.HARNESS}/src/lib.rs"

[[bin]]
name = "c03"
path = "{drv.HARNESS}/src/bin/c03.rs"

[dependencies]
yara-x = {{ path = "{drv.REPO}/lib", default-features = false, features = [{fl}] }}
serde_json = "1"

[profile.dev]
debug = 1
overflow-checks = true
debug-assertions = true

[profile.dev.package."*"]
opt-level = 2

[profile.dev.package.yara-x]
opt-level = 1

[lints.rust]
unexpected_cfgs = {{ level = "allow" }}
"""
    mp = os.path.join(d, "Cargo.toml")
    if not os.path.exists(mp) or open(mp).read() != man:
        open(mp, "w").write(man)
    if not os.path.exists(os.path.join(d, "Cargo.lock")):
        for cand in (os.path.join(drv.HARNESS, "Cargo.lock"), os.path.join(drv.REPO, "Cargo.lock")):
            if os.path.exists(cand):
                shutil.copy(cand, os.path.join(d, "Cargo.lock")); break
    tgt = os.path.join(drv.CACHE, "target-feat-" + name)
    with drv.Lock("cargo"):
        rc, out, dt = drv.sh(["cargo", "build", "--offline", "--bin", "c03"], cwd=d,
                             env={"RUSTFLAGS": f"--cfg {drv.GUARD}", "CARGO_TARGET_DIR": tgt}, timeout=timeout)
    return rc, out, dt, os.path.join(tgt, "debug", "c03")


def dump_lines(path):
    out = {}
    for l in open(path, encoding="utf-8", errors="replace"):
        l = l.rstrip("\n")
        if not l: continue
        f = l.split(" ")
        key = " ".join(f[:3]) if f[0] == "scan" else " ".join(f[:2])
        out[key] = l
    return out


def feature_matrix(run, drv, seed, n, info):
    """thorough tier: the same seeded corpus under other cargo feature sets; the
    configuration-independent observations must be equal to the default build's"""
    casedir = os.path.join(drv.CACHE, "cases", "C03-feat")
    os.makedirs(casedir, exist_ok=True)
    base_dump = os.path.join(casedir, "dump-default.txt")
    rc, out, dt = run_harness(drv, "c03", ["--seed", seed, "--n", n, "--out", os.path.join(casedir, "default"), "--dump", base_dump, "--dump-only"])
    if rc != 0:
        info["broken"].append(("K_C03_feature_matrix", f"default build dump failed rc={rc}: {out[-600:]}")); return
    base = dump_lines(base_dump)
    notes = []
    for name, feats in FEATURE_SETS.items():
        rc, out, dt, binp = build_feat(drv, name, feats)
        if rc != 0:
            info["broken"].append(("K_C03_feature_matrix", f"feature set {name}: cargo build failed: {out[-900:]}")); continue
        dp = os.path.join(casedir, f"dump-{name}.txt")
        rc, out, dt2 = drv.sh([binp, "--seed", str(seed), "--n", str(n), "--out", os.path.join(casedir, name), "--dump", dp, "--dump-only"], timeout=3000)
        if rc != 0:
            info["broken"].append(("K_C03_feature_matrix", f"feature set {name}: harness rc={rc}: {out[-600:]}")); continue
        other = dump_lines(dp)
        ndiff, nknown, nrej = 0, 0, 0
        if set(other) != set(base):
            info["broken"].append(("K_C03_feature_matrix", f"feature set {name}: the corpus differs from the default build's ({len(other)} vs {len(base)} cases): the generator depends on the implementation"))
            continue
        for key, l in base.items():
            o = other[key]
            if o == l: continue
            f, g = l.split(" "), o.split(" ")
            kind = f[0]
            if kind == "fold":
                cls, sa, sb = f[2], f[3], g[3]
                if sa != sb:          # accepted in one configuration, rejected in the other: counted, not a verdict difference
                    nrej += 1; continue
                fp = ("C03:const-fold-f64:" + cls) if cls in KNOWN_DUMP_CLASSES else "C03:const-fold:" + cls
            elif kind == "bounds":
                if "rejected" in (f[2], g[2]): nrej += 1; continue
                fp = "C03:pruning:verdicts-differ-across-feature-sets"
            else:
                fp = "C03:feature-set:" + name + ":scan-dump-differs"
            ndiff += 1
            if not any(v["fingerprint"] == fp for v in info["violations"]):
                info["violations"].append({"fingerprint": fp, "tag": hashlib.sha1((fp + name).encode()).hexdigest()[:10],
                                           "kind": "observations differ between cargo feature sets",
                                           "case": {"feature_set": name, "features": feats, "default_build": l[:1500], "this_build": o[:1500],
                                                    "replay_hint": f"c03 --seed {seed} --n {n} --dump-only --dump <file> in both builds; line key `{key}`"}})
        notes.append(f"{name}: build {dt:.0f}s run {dt2:.0f}s, {len(base)} observations, {ndiff} differ, {nrej} accepted/rejected differently")
    info["feature_matrix"] = notes
    run.notes.append({"feature_matrix": notes})


def run_k(run, tier, seed, drv):
    n = 1500 if tier == "quick" else 12000
    info = standard_k(run, drv, "C03", "c03", ["--seed", seed, "--n", n], "K_C03_fold_bounds_fastscan_engines", classify, max_report=50)
    info["rule"] = RULE
    if tier != "quick":
        feature_matrix(run, drv, seed, 3000, info)
    return info


def replay(d, drv):
    """python3 check.py replay <file>: re-run the recorded sources on the implementation"""
    import tempfile, subprocess
    c = d.get("case", d)
    print(json.dumps(c, indent=1)[:3000])
    srcs = []
    if c.get("kind") == "fold":
        srcs = [("folded", "rule folded { condition: %s }" % c["folded_source"] if "$v" not in c["folded_source"] else None),
                ("runtime", "rule runtime { condition: %s }" % c["runtime_source"] if "$v" not in c["runtime_source"] else None)]
        datas = [r["data_hex"] for r in c.get("runs", [])]
    elif c.get("kind") == "bounds":
        srcs = [("rules", c["rule"] + "\n" + c["twin"])]
        datas = [r["data_hex"] for r in c.get("runs", [])]
    elif c.get("kind") == "scan" and "rules; first" not in c.get("rules", "") and ".." not in c.get("data_hex", ""):
        srcs = [("rules", c["rules"])]
        datas = [c["data_hex"]]
    else:
        print("(no direct replay for this case; re-run the check with the recorded seed)"); return 0
    for name, s in srcs:
        if not s: continue
        with tempfile.NamedTemporaryFile("w", suffix=".yar", delete=False, dir=os.path.join(drv.CACHE)) as f:
            f.write(s); p = f.name
        for hx in datas:
            rc, out, _ = drv.sh([drv.hbin("c03"), "--probe", "--rules", p, "--hex", hx], timeout=120)
            print(f"--- {name} data={hx[:80]}\n{out}")
        os.unlink(p)
    return 0


MANIFEST = {
    "level_text": ("Machine-checked proofs (Coq) over executable models of the optimisations as coded: constant folding (both variants modelled: "
                   "checked-i64 folding, proved sound without guard and selected today by a flag regenerated from the source; the former trip "
                   "through f64, modelled exactly in Z, refuted by two witnesses and proved under the 2^53 guard), boolean folding, FilesizeBounds merge = intersection, "
                   "bounds and header constraints implied by the condition (operator arms, merge comparisons and the byte extraction table "
                   "regenerated from the source), pruning preserves verdicts and reported matches, fast-scan subset/first-match and verdict "
                   "preservation (proved without guard now that anchored `of` expressions clear the fast-scan bit - flag regenerated; refuted for the former analysis), Teddy's "
                   "candidate filter complete hence equal to naive search. The models are compared with the implementation on generated "
                   "conditions, rule sets and buffers across condition_optimization, fast_scan and Teddy on/off in one build, and across cargo "
                   "feature sets (no optimisation features, pulley, no exact-atoms, no fast-regexp) in the thorough tier."),
    "level_note": ("Trusted: Coq kernel, translators gen_fold/gen_bounds/gen_fastscan, harness, hook verif_c03. Repaired after this check found them: "
                   "folding through f64 (8b83ae6a), fast scan changing verdicts of `N of (..) in (..)` (2deda6b6), percentage-quantifier expressions skipped by the IR traversal (21a3d45e), `#` `@` `!` `$` hoisted above their for..of (560c1f82); their reproductions stay in the corpus. IR::minus folds with wrapping_neg since 1eeaceb7 (flag minus_wraps regenerated). "
                   "Known findings: the length reported for literal alternatives with a common prefix (`/abc|ab/`, `{ (01 02 03 | 01 02) }`) depends on whether Aho-Corasick or the SIMD searcher offered the atoms (patch fixes/C03-3); fast scan keeps the first match it verifies, which is not always the lowest one. Grouping of `matches` operands into regexp sets and the variable renumbering of hoisting are "
                   "modelled (key soundness, shift injectivity; lists of variable-owning variants / shift_vars arms / traversed quantifiers regenerated by gen_hoist). "
                   "Exact-atoms, FastVM/PikeVM, pulley and the choice of hoisting candidates have no model: differential only. SIMD kernels not modelled."),
    "technique": "Coq proofs over source-generated models of each optimisation + differential scans across run-time toggles and cargo feature sets",
    "design_ref": "DESIGN.md section 4, C03",
}
