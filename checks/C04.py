from checks.common import *

SPEC = {
    "translators": ["gen_scanstate"],
    "bins": ["c04"],
    "model_targets": ["Scanner/StateCheck.vo"],
    "proof_targets": ["Scanner/StateProofs.vo"],
    "assumptions": [
        "cells hold abstract values (0 = as created); what a search / an evaluation leaves in the cells it can write is an arbitrary function, constrained only by the bitmap-guard invariant (a rule/pattern bit is only set together with the list entry / hash-map key that reset() tests); the invariant is checked on every digest the implementation produced",
        "caches (regexp caches, base64 engines, retained PatternMatches keys/capacity, namespace keys) and scratch (VM thread lists, WASM variable area) are excluded from the visible state: their transparency is not proved here (the probe results compared by the harness would expose a non-transparent cache)",
        "the sets eval_writes / search_writes (which cells evaluation and search can modify) are written by hand from the code; the persistent cells are outside them by inspection",
        "scan-scoped per-thread caches (hash, math) are dropped lazily, on the first access during a scan with a new id; the model drops them when the id is renewed: equivalent because the generated fact tl_scan_scoped includes that every access is preceded by the check",
        "results are a function of the visible state at the end of the prologue and of the probe input (no other hidden state: thread-locals outside lib/src/modules, process-wide statics other than the heartbeat counter)",
    ],
    "trusted_base": ["Gen/ScanState.v: field lists, creation-time values, reset() body, the branch table of PatternMatches::clear() (every clear() in reset()/prologues is either a std container or translated branch by branch), scan_impl / blocks::Scanner::{scan,finish} / From<Scanner> bodies, module thread-locals and whether main clears them, regenerated from lib/src/scanner/*.rs, lib/src/wasm/mod.rs, lib/src/modules/**",
                     "hooks lib/src/verif_state.rs (digest, prologue capture, poll countdown), cfg(yara_x_verif)"],
}

RULE = ("histories over {scan, scan_with_options (good / failing cuckoo metadata = module error), set_global, set_timeout, max_matches_per_pattern, "
        "fast_scan, match_context_size, set_module_output_raw, into_blocks, blocks scan/finish, deadline expiry at the k-th poll (hook), scans by other "
        "scanners (3 rule sets) on the same thread}, length <= 6 (quick) / <= 12 (thorough), followed by a probe scan (contiguous, or 1-3 blocks + finish); "
        "10 buffers, one of them heavy (30 KB, ~15000 matches per `ab` pattern: the total match-list capacity crosses the 10000 threshold of "
        "PatternMatches::clear, with 1-3 matches for other patterns), followed by small scans whose `#`, `@`, `!` and reported matches are compared; "
        "3 rule sets (54 rules observing patterns of every kind, filesize, uintN, hash/math/pe/test_proto2/test_proto3/cuckoo, globals, private/global rules), "
        "9 buffers; used scanner vs fresh scanner on a fresh thread with the persistent options re-applied; a differing probe is delta-debugged per cause "
        "class. Non-trivial/distinct: histories of length >= 2, distinct by (rule set, history, probe).")


def classify(case):
    return "C04:" + str(case.get("root_cause", "unshrunk"))


def run_k(run, tier, seed, drv):
    n, max_len = (1500, 6) if tier == "quick" else (20000, 12)
    info = standard_k(run, drv, "C04", "c04", ["--seed", seed, "--n", n, "--max-len", max_len], "K_C04_prologue_digest", classify, max_report=50)
    info["rule"] = RULE
    return info


MANIFEST = {
    "level_text": ("Machine-checked proof (Coq) over a state model whose cells, reset() body, scan prologues, block-scanner methods and module "
                   "thread-local list are regenerated from the Rust source on every run: for every history of API calls (scans with any outcome, "
                   "option setters, set_global, set_module_output, conversion to a block scanner, block scans, other scanners on the thread) and "
                   "every effect the scans may have had, a contiguous probe starts its evaluation from the same visible state as on a fresh "
                   "scanner carrying only the persistent options - for contiguous and for block mode, for rules whose modules keep only scan-scoped "
                   "per-thread caches; for other rules the same is proved for every cell except the per-thread caches that are not scan-scoped, "
                   "which are proved to leak (refutation lemma with witnesses, re-found on the implementation). The model's prologue is compared with the "
                   "implementation's state digests on generated histories, and the probe results of used vs fresh scanners are compared directly."),
    "level_note": ("Trusted: Coq kernel, translator gen_scanstate.py, harness, the hand-written classification table and write-sets. The proof is about "
                   "the state the evaluation starts from, not about the evaluation itself; transparency of caches is assumed (and exercised by the "
                   "differential probe comparison). Six defects found by this check were repaired (state surviving into block mode, "
                   "hash/math caches, module errors vs user-supplied outputs, snippets after a failed finish); two known findings remain, both "
                   "about per-thread module state that is not scan-scoped (pe, elf, macho, dex, crx, magic, cuckoo)."),
    "technique": "Coq proof over a source-generated state model + differential correspondence on state digests (vm_compute) + used-vs-fresh probe comparison",
    "design_ref": "DESIGN.md section 4, C04",
}
