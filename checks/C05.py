from checks.common import *
import os

SPEC = {
    "translators": ["gen_hostfns"],
    "bins": ["c05"],
    "model_targets": ["Cond/HostCheck.vo"],
    "proof_targets": ["Cond/HostModelProofs.vo", "Cond/TrapsProofs.vo", "Cond/StrModelProofs.vo"],
    "assumptions": [
        "PARTIAL CLAIM: memory safety of unsafe code (get_unchecked, raw WASM memory), stack depth and allocation bounds are OBSERVED in child processes "
        "(RLIMIT_AS 8 GiB, RLIMIT_CORE 0, alarm + hard wall-clock limit per child, exit status / signal recorded), not proved",
        "the proof covers the integer-argument handling of host functions (every #[wasm_export] of lib/src/wasm/mod.rs, MatchList::matches_in_range, "
        "#[module_export] of math/hash/string/console) and the trapping integer instructions of emit.rs; the pattern-matching pipeline, "
        "other modules (pe, elf, ...: C11) and wasmtime itself are covered by the differential stream only",
        "host-function bodies are abstracted to the ordered list of syntactic uses of each integer argument; arguments are analysed independently "
        "(a `?` on one argument that would return before another argument's panic is not modelled: the analysis is conservative for the theorem, "
        "and exact for the functions that exist today)",
        "emitter-controlled arguments (lookup index counts, map iteration index, regex-set id) are excluded from the run-time claim on the basis of a syntactic "
        "check of emit.rs by the translator (emit_lookup_common, emit_for_in_map, MatchesMany)",
        "f64 arithmetic of the percentage quantifier is Coq's SpecFloat (IEEE-754 binary64, round-to-nearest-even); the no-trap bound for percentages is proved on the "
        "exact value ceil(n*q/100), the f64 model is compared with the implementation case by case",
        "the known-findings allow list for host arguments is empty since the fix: commits fd32d03a / e7c1d7b6 / 28418b65 / de219399 (theorem no_runtime_exceptions); "
        "a percentage whose required count saturates makes the loop run until the scan timeout: Err(Timeout) is a documented outcome (scanner timeout 1 s in the harness)",
        "a WASM trap is named (div_s / trunc_f64_s) from the operand values the harness evaluated, because the panic message of eval_conditions carries only an anonymous backtrace",
    ],
    "trusted_base": [
        "Gen/HostFns.v: per-argument conversion tables, div/rem/shift guards, percentage instruction, trap-to-panic arm, emitter-controlled list, "
        "regenerated from lib/src/wasm/mod.rs, wasm/string.rs (fast-path length guards), scanner/matches.rs, scanner/context.rs, compiler/emit.rs, modules/{math,hash/mod,string,console}.rs; "
        "known_unsafe regenerated from known_findings.jsonl",
        "harness c05: child-process protocol (panic hook prints file:line, enclosing fn resolved from the source), wrapping i64 evaluation of the generated operands",
    ],
}

RULE = ("accepted rule sets of 1-3 rules; each rule is one expression shape whose operands are run-time integers manufactured from `filesize` / `#c` "
        "(`leaf + K`, `leaf - K`, `K - leaf`, `leaf * K`; K chosen so that the run-time value hits 0, +-1, i32::MAX+-1, u32::MAX, 2^53, i64::MAX, i64::MIN+1, i64::MIN exactly): "
        "`N of` (contiguous ids -> pat_range_match), `for N of`, `Q% of`, `for Q% i in (lo..hi)`, `for N i in range`, \\ % << >> and mixed arithmetic, `$a at N`, `$a in (lo..hi)`, "
        "`#a in (lo..hi)`, `@a[N]`, `!a[N]`, uintN/intN/floatN(N), math.abs, hash.*(off,size), math.*(off,len), console.log(off,len), plus 23 fixed conditions "
        "(nested loops, with, string operators, math.to_string/min/max/count/deviation, string.to_int, console, float arithmetic, bitwise, nested uintN, defined) "
        "and match-list shapes whose run-time bounds / indexes are placed around the REAL matches of the buffer (on a match, next to it, strictly between two matches, "
        "before the first, after the last, beyond the data, negative) in every ordering lo<hi, lo=hi, lo>hi: `$a in`, `#a in`, `N of ($a,$b) in (lo..hi)`, "
        "`for any i in (lo..hi) : ($a at i)`, `$a at N`, `@a[i]` / `!a[i]` with i in {0, 1, count-1, count, count+1, ..} (the distribution reports how many bounds are inverted with "
        "matches strictly between them) "
        "and binary string operators (contains icontains startswith istartswith endswith iendswith iequals == != < > <= >= matches) over operand pairs covering the length matrix "
        "(right empty / shorter / equal / longer; prefix, suffix, infix, case-flipped, near-miss of each other) x {ASCII, non-ASCII UTF-8, invalid UTF-8}, with operands that are "
        "literals (folded), global variables defined before compiling (value known only at scan time) or function results (math.to_string of a run-time integer); the evidence "
        "distribution reports the evaluation path of every case (case-sensitive bstr / ci ASCII fast path / ci to_lowercase / regexp x operand source x length relation) and the "
        "model's verdict is compared with whether the rule matched "
        "x buffers {empty, 1 byte, small random, pattern tokens, patterns at several offsets separated by filler, dense repetitive up to 4 KiB, tiny}; each (case, mode) in a child process through Scanner::scan, "
        "Scanner::scan_file, blocks::Scanner (scan + finish) and yrx_scanner_scan, followed by a scan of `Z` on the SAME scanner. "
        "Outcome: ok / err:<kind> / panic(site, message) / abort(signal) / hard-timeout. One evaluation = one (case, mode). Distinct = distinct rule-set source. "
        "The corpus of known defects runs first.")


def classify(case):
    fp = case.get("fingerprint")
    if fp and fp != "C05:none":
        return fp
    return "C05:model-disagrees-without-crash"


def _build_release(drv):
    with drv.Lock("cargo"):
        rc, out, dt = drv.sh(["cargo", "build", "--offline", "--release", "--bin", "c05"], cwd=drv.HARNESS,
                             env={"RUSTFLAGS": f"--cfg {drv.GUARD}"}, timeout=3000)
    return rc, out, dt


def _merge(a, b):
    for k in ("evaluations", "distinct_nontrivial", "traces_validated_against_impl", "k_disagreements", "s_violations"):
        a[k] = a.get(k, 0) + b.get(k, 0)
    a["broken"] = a.get("broken", []) + b.get("broken", [])
    seen = {v["fingerprint"] for v in a.get("violations", [])}
    for v in b.get("violations", []):
        if v["fingerprint"] not in seen:
            a.setdefault("violations", []).append(v)
    if "distribution" in b:
        a["distribution"] = {"debug": a.get("distribution", {}), "release": b["distribution"]}
    return a


def run_k(run, tier, seed, drv):
    n = 500 if tier == "quick" else 6000
    tmp = os.path.join(drv.CACHE, "c05_tmp")
    info = standard_k(run, drv, "C05", "c05", ["--seed", seed, "--n", n, "--tmp", tmp], "K_C05_outcome_class", classify, max_report=60)
    if tier != "quick":
        rc, out, dt = _build_release(drv)
        if rc != 0:
            info["broken"].append(("harness-build-release", out[-1200:]))
        else:
            rel = os.path.join(drv.TARGET, "release", "c05")
            info2 = standard_k(run, drv, "C05-release", "c05", ["--seed", seed, "--n", n, "--tmp", tmp, "--exe", rel, "--release-profile"],
                               "K_C05_outcome_class_release", classify, max_report=60)
            info = _merge(info, info2)
    info["rule"] = RULE
    return info


def replay(d, drv):
    case = d.get("case", d)
    rc, out, _ = drv.sh([drv.hbin("c05"), "--replay-src", case.get("rules", ""), "--replay-data", case.get("data_hex", ""),
                         "--replay-globals", case.get("globals_hex", ""),
                         "--out", os.path.join(drv.CACHE, "cases", "C05-replay")], timeout=300)
    print(out)
    return rc


MANIFEST = {
    "level_text": ("Machine-checked proof (Coq), partial: (1) for every #[wasm_export] host function of lib/src/wasm/mod.rs and every #[module_export] function of the "
                   "math/hash/string/console modules, the conversions applied to each i64/i32 argument (try_into().unwrap / ok()? / unwrap_or, `as` casts, checked and unchecked "
                   "arithmetic, guards, lookups) are regenerated from the Rust source on every run; an interval analysis over that table is proved sound (an accepted "
                   "argument cannot panic for ANY value of its type, both overflow-check profiles) and is re-evaluated: it must accept every argument that is not emitter-controlled "
                   "or a recorded finding. (2) The integer instructions emit.rs emits that can trap (i64.div_s, i64.rem_s, shifts) are modelled with the guards regenerated from "
                   "emit.rs (zero divisor -> undefined, divisor -1 -> `0 - lhs`, shift count compared with 64); arbitrary nested integer arithmetic over run-time values is proved "
                   "trap-free; the percentage quantifier's conversion (saturating since 28418b65; the trapping i64.trunc_f64_s is modelled with IEEE-754 SpecFloat) cannot trap. "
                   "The binary string operators of wasm/string.rs are modelled per evaluation path; the length guards of the ASCII fast paths are regenerated from the source and the operators "
                   "are proved panic-free for all byte strings. (3) The defects repaired so far (pat_range_match unwrap, i64::MIN \\ -1, percentage trunc, math.abs / hash / console overflow) are refuted as literal shapes, "
                   "and their reproductions stay in the harness corpus: a regression is a VIOLATION with a replay. "
                   "The model's crash / no-crash prediction is compared with the real scanner on generated accepted rule sets with boundary run-time integers, in child processes, "
                   "through in-memory, file, block mode and the C API, with a reuse scan on the same scanner."),
    "level_note": ("PARTIAL: memory safety of unsafe code, stack depth and allocation bounds are observed in child processes (RLIMIT_AS 8 GiB, alarm + hard wall-clock limit, "
                   "exit signal recorded), not proved; the pattern-matching pipeline and format modules are exercised, not modelled (C01/C11). Trusted: Coq kernel, translator "
                   "gen_hostfns.py (syntactic classification of argument uses; raises on an unclassifiable shape), harness child protocol, the emit.rs shape checks behind the "
                   "emitter-controlled list. Debug profile (overflow checks on) by default; the thorough tier also runs a release build of the harness."),
    "technique": "Coq soundness proof of an interval analysis over source-generated conversion tables + trap model with generated guards + differential outcome-class prediction in child processes",
    "design_ref": "DESIGN.md section 4, C05; section 7 findings 5, 7, 8",
}
