from checks.common import *

SPEC = {
    "translators": ["gen_snapshot", "gen_astarms"],
    "bins": ["c06"],
    "model_targets": ["Compiler/SnapshotCheck.vo"],
    "proof_targets": ["Compiler/SnapshotProofs.vo", "Compiler/AccountingC06.vo", "Compiler/SuppressProofs.vo", "Compiler/IncludesProofs.vo"],
    "assumptions": [
        "compiler fields are abstracted to vectors / pattern-id maps / counters / opaque histories; a failing rule performs an arbitrary sequence of the field mutations that occur syntactically in the fallible region of c_rule (found transitively by the translator)",
        "hand classification of the 40 Compiler fields (Restored / ToleratedJunk pools / Diagnostics / PerRuleScratch / Config) and of the two fields handed out as `&mut` that are append-only (re_code, symbol_table): checked for exhaustiveness by Coq, validated by K",
        "warning suppressions: add_source is pinned to the shape `let ast = match src.as_str() { Ok => hook.., Err => return }` followed by statements whose exits are extracted; Warnings::add is modelled by hand (Compiler/Suppress.v) and validated by K (warnings() about the other sources equal with and without the failed source)",
        "pattern ids inserted into the id-related maps after the snapshot are fresh (>= snapshot.next_pattern_id): from the pending_patterns logic, validated by K",
    ],
    "trusted_base": ["Gen/SnapshotGen.v: Compiler fields, take_snapshot/restore_snapshot statements and the mutation sites of c_rule's fallible region, regenerated from lib/src/compiler/mod.rs",
                     "hook Rules::verif_c06_digest (cfg yara_x_verif) for the table digest"],
}

RULE = ("[A.., bad, B..] vs [A.., B..]: 0-3 good rules before, 0-2 after (text/hex/regexp patterns, anchored and counted uses, patterns shared verbatim), "
        "bad fails at syntax / duplicate rule / unknown identifier / type / modifier / unused pattern / regexp-matches-empty / invalid regexp / slow-pattern-as-error "
        "after 0-3 registered patterns of the same rule; compared: digest per compiler field, scan dumps (normal and fast-scan) on 3 buffers, errors(), build(), the warnings() about every other source (origins attribute them), acceptance of a probe source that names loop variables of the failed rule; a third of the good and of the bad rules contain an `or` of `matches` operands on global variables (regexp sets: the sets of a failed rule stay behind as junk and later sets must still be found); rules carry global/private flags and tags and refer to earlier rules of their namespace (the failing rule too); with an ignored module in play an earlier rule may be ignored and the next one skipped because it depends on it; a probe source names the failed rule (it must stay unknown); too-large regexps among the failure kinds; a quarter of the failing sources hold a second rule with a syntax error (both errors must be recorded); in a fifth of the cases the failing rule lives in an included file and a later source includes a file whose name also exists next to the failed file (include stack); half of the bad sources carry `// suppress:` comments over a long line, some fail two or three scopes deep; "
        "each case in a child process (a crash of the scanner kills only the child). Non-trivial: the bad source was rejected; distinct by (position, kind, bad text).")


def classify(case):
    d = case.get("digest_equal", "")
    import re
    diff = sorted(re.findall(r'\("([a-z_]+)", false\)', d))
    tags = []
    if diff: tags.append("leak:" + "+".join(diff))
    if not case.get("no_panic", True): tags.append("scan-crash")
    elif not case.get("scans_equal", True): tags.append("scans-differ")
    if not case.get("recorded", True): tags.append("error-not-recorded")
    if not case.get("others_same", True): tags.append("other-source-affected")
    if not case.get("warnings_same", True): tags.append("warnings-of-other-sources-differ")
    if not case.get("build_ok", True): tags.append("build-panics")
    return "C06:" + ",".join(tags or ["?"])


def run_k(run, tier, seed, drv):
    n = 300 if tier == "quick" else 6000
    info = standard_k(run, drv, "C06", "c06", ["--seed", seed, "--n", n], "K_C06_snapshot", classify)
    info["rule"] = RULE
    return info


MANIFEST = {
    "level_text": ("Machine-checked proof (Coq) that restore_snapshot undoes every mutation a failing rule can perform on the compiler "
                   "state that survives into build(): the Compiler field list, the snapshot/restore statements and the mutation sites of "
                   "c_rule's fallible region are regenerated from the Rust source on every run, a decidable condition on those tables "
                   "(tables_ok) is proved to imply restore(snapshot, work(s)) = s on every field that must be restored, for every work sequence, "
                   "and tables_ok is re-evaluated. The model's prediction (which fields can leak) is compared with the real compiler on generated "
                   "[A, bad, B] histories, together with scans, errors() and build()."),
    "level_note": ("Trusted: Coq kernel, translator gen_snapshot.py (syntactic mutation-site extraction), the hand classification of fields, the digest hook, "
                   "the harness. Behaviour of code emitted into the WASM module and symbol insertion happen after the fallible region (generated marker) and are covered by K only."),
    "technique": "Coq proof over source-generated snapshot/mutation tables + differential histories [A,bad,B] vs [A,B]",
    "design_ref": "DESIGN.md section 4, C06; appendix B",
}
