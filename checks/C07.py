from checks.common import *
import hashlib, json, os

SPEC = {
    "translators": ["gen_patident"],
    "bins": ["c07"],
    "model_targets": ["Cond/IndepCheck.vo"],
    "proof_targets": ["Cond/IndependenceProofs.vo", "Cond/IdentityShape.vo", "Cond/QuirksProofs.vo"],
    "assumptions": [
        "pattern-id assignment is modelled as in lib/src/compiler/mod.rs c_rule: ids in declaration order, one table de-duplicating by the full identity of a pattern; the identity is abstracted to (text, tag) and the scanner to an arbitrary function from identity and buffer to a match list",
        "rule references of r are abstracted to a verdict function of the referenced rules (the same in both compilations); the harness covers them by compiling r together with its dependencies and the global rules of its namespace",
        "WASM function chunking (10 rules / 10 namespaces per function), Teddy vs Aho-Corasick and fast-scan bits are not modelled: they are covered only differentially (0-200 extra rules, up to 24 extra namespaces, fast-scan mode in 1/5 of the cases where only verdicts are compared)",
        "exception, by design of Scanner::fast_scan(true): the matches REPORTED for a pattern may then depend on other rules (a rule using only `$a` gets one match, or all of them when another rule sharing the identical pattern uses `#a`); the `reported matches` half of the property is therefore checked only without fast scan, the verdict half in both modes",
        "K compares the documented meaning with the run in which a first rule forces the pattern search; matches of patterns the compiler anchors (`$a at <constant>` only) are predicted at that offset only, and matches are compared by K only when r's condition holds (patterns of a rule whose filesize bounds / header constraints fail are not searched) [undocumented]",
        "the pattern search is lazy by design (it runs when the first condition that needs pattern information is evaluated, never if none does) and Pattern::matches is documented as `the matches found`: the specification accepts that a scan which reports no match for any pattern of any rule corresponds to complete match lists on the other side; verdicts must always be equal",
        "evaluation of conditions is Cond/Sem.v (see C02 for its assumptions)",
    ],
    "trusted_base": ["Gen/PatternIdentity.v: fields and derived equality of ir::Pattern / LiteralPattern / RegexpPattern and the use of Compiler.patterns in c_rule, regenerated from lib/src/compiler/ir/mod.rs and lib/src/compiler/mod.rs",
                     "harness/src/cond_gen.rs, harness/src/bin/c07.rs: generators of the rule, of the unrelated rules, slicing of the scan results"],
}

RULE = ("a generated rule r (conditions as in C02) with 0-2 rules it refers to and optionally a global rule of its namespace, compiled "
        "alone and embedded among 0-200 generated unrelated rules placed before/between/after in the same namespace and in up to 24 "
        "other namespaces, 40% of whose patterns are r's patterns verbatim and 30% r's text with other modifiers (nocase, wide, "
        "fullword, xor, private), with filesize bounds / header constraints / anchors of their own; slice = (r matches?, matches of "
        "each pattern of r). A dedicated stream uses `N of <set>` with run-time N <= 0 (regression for the repaired range fast path); one uses `for Q of <set>` with the placeholders over the target's own patterns after at least one unrelated rule (pattern ids differ from positions); one makes the target a function of the rules it references and embeds the core after 0, 31, 32, 33, 63, 64, 65 or 200 unrelated rules, some between the referenced rules and the target (byte / word boundaries of the matching-rules bitmap). Non-trivial: condition of >= 5 nodes; "
        "distinct by (condition, number of extra rules).")


def classify(case):
    single, emb, warm = case.get("single"), case.get("embedded"), case.get("single_with_forced_search")
    sl = lambda o: (o.get("matching"), o.get("matches")) if o else None
    kind = "verdict" if (single or {}).get("matching") != (emb or {}).get("matching") else "matches"
    hint = ":equals-forced-search-run" if sl(emb) == sl(warm) else ""
    return "C07:outcome-depends-on-unrelated-rules:" + kind + hint + ":" + hashlib.sha1(case.get("single_source", "").encode()).hexdigest()[:10]


def run_k(run, tier, seed, drv):
    n = 240 if tier == "quick" else 6000
    info = standard_k(run, drv, "C07", "c07", ["--seed", seed, "--n", n, "--depth", 3 if tier == "quick" else 4], "K_C07_slice_predicted_by_documented_meaning", classify)
    info["rule"] = RULE
    return info


def replay(d, drv):
    p = os.path.join(drv.CACHE, "replay_C07.json")
    json.dump(d, open(p, "w"))
    rc, out, _ = drv.sh([drv.hbin("c07"), "--replay", p], timeout=300)
    print(out)
    return 0 if rc == 0 else 2


MANIFEST = {
    "level_text": ("Machine-checked (Coq) model of pattern-id assignment with de-duplication by full pattern identity and of the "
                   "evaluation of a compiled rule against match lists indexed by pattern id; theorem `independence`: for every "
                   "rule r, every list of rules before and after it, every buffer and every matching semantics, the verdict and the "
                   "reported matches of r inside the set equal those of r compiled alone (from `dedup_respects_identity` and the "
                   "invariance of evaluation under renaming of pattern identifiers). The implementation's two ways of evaluating `N of` (range fast "
                   "path over consecutive ids, loop) are proved to agree for every N. The implementation is checked differentially: the per-rule "
                   "slice of the scan results alone vs embedded among 0-200 generated rules, and against the documented meaning."),
    "level_note": ("Chunking into WASM functions, search-kernel selection and fast-scan bits are covered differentially only. Deviations "
                   "found and repaired in /repo: `N of` fast path for N <= 0; lazy pattern search skipped (the verdict depended on whether an "
                   "earlier rule triggered the search). That reported matches are empty when no condition needed the search is accepted as designed."),
    "technique": "Coq model + theorem; differential correspondence singleton vs embedded (vm_compute on the implementation's outputs)",
    "design_ref": "DESIGN.md section 4, C07",
}
