from checks.common import *

SPEC = {
    "translators": ["gen_codec"],
    "bins": ["c08"],
    "hooks": ["lib/src/compiler/verif_c08.rs (+ guarded mod line at the end of lib/src/compiler/rules.rs)"],
    "model_targets": ["Codec/CodecCheck.vo"],
    "proof_targets": ["Codec/ReaderProofs.vo", "Codec/VarintProofs.vo", "Codec/UniverseProofs.vo", "Codec/HeaderProofs.vo", "Codec/RulesShapeProofs.vo"],
    "assumptions": [
        "modelled and proved: every sequential byte decoder (resumable trees), bincode 2.0.1 config::standard() integer/bool/option/bytes/str/seq/map/tuple/enum framing, the MAGIC+version header and the order/operators of its checks (regenerated from rules.rs)",
        "the wire shape of struct Rules and of every type reachable from it, and of the globals Struct (recursive: Struct/StructField/TypeValue/Array/Map/Func...), is DERIVED by the translator from the Rust struct/enum definitions and their serde attributes (Gen/RulesTyGen.v); the theorems are instantiated at the derived shape; it must equal the hand-reviewed shape (RulesShapeProofs.generated_shape_is_reviewed) and decode real blobs and their globals blobs exactly with byte-identical re-encoding (stream d)",
        "hand-written serde impls (StringPool, BStringPool, AhoCorasick, serialize_wasm_mod/deserialize_wasm_mod) cannot be derived: their shapes are stated in translate/gen_codec.py and pinned by a digest of the impls' source (translate/codec_pins.json; a change is a TranslateError until reviewed and re-pinned with `python3 translate/gen_codec.py --repin`); shapes of other crates' types (bitvec BitVec, bstr BString, serde's Bound/Range*/NonZero, indexmap, smallvec) are stated in translate/rust_types.py and validated on real blobs",
        "after deserialize(serialize R) and after the second round trip the hook digest Rules::verif_c08_digest (every table the scanner reads: pools, rules, patterns, sub-patterns, atoms, constraint maps, regexp sets, globals structure, AC automaton bytes, Teddy searcher, presence of the compiled WASM module; produced without serde) is identical to R's",
        "single-bit flips of the header and of the framing integers (lengths, option tags, variant indices, located by a walker whose positions are compared with the model's [frames]) are run in a child process with a 24 GiB address-space and 3 GiB resident bound: the outcome must be an error or an accepted blob, never a panic, a signal or excessive memory; a sample is also decoded by the model and the error classes compared",
        "the payload decoder and the post-decode validation (profiling flag, WASM rebuild, sub-pattern bound) are parameters of the header theorems: they hold for every decoder and every validation; that the real decoder is a sequential decoder of the modelled shape is checked differentially (streams a and d), not proved from bincode's source",
        "not modelled, compared on the implementation only (stream b): what is rebuilt rather than stored (compiled WASM module, Teddy searcher), warnings (dropped by design), scanning behaviour of R vs deserialize(serialize R) vs the second round trip on generated rule sets and buffers",
        "re-serialization is byte-identical except for the order of FxHashMap entries (filesize_bounds, header_constraints, regex_sets), which depends on the table's capacity history; blobs are compared byte for byte and, when they differ, as decoded values with map entries sorted",
        "f64 is 8 opaque bytes; UTF-8 validity follows Unicode table 3-7 (core::str::from_utf8), compared differentially",
        "bytes after the payload are ignored by Rules::deserialize (the consumed length is discarded); the property says nothing about them, the model predicts acceptance and the harness confirms it",
        "out of scope of the property (the API documents deserialization of third-party data as unsafe): crafted blobs; HeaderProofs.subpattern_bound_check_gap records that the post-decode bound check admits a SubPatternId equal to sub_patterns.len()",
    ],
    "trusted_base": ["Gen/CodecGen.v: MAGIC, SERIALIZATION_VERSION and its type, header layout, byte orders, comparison operators of the header checks, bincode configurations (rules and globals blob), struct Rules field list; regenerated from lib/src/compiler/rules.rs and lib/src/compiler/mod.rs",
                     "the bincode varint markers (250/251/252/253) and serde framing are transcribed by hand from bincode-2.0.1 and compared with the real crate on every run"],
}

RULE = ("(a) random shapes of the universe (depth <= 3; u8..u64/usize, i16..i64, f64, bytes, str, option, seq, map, tuple/struct, enum) and a "
        "derive(Serialize, Deserialize) replica of the Rules-like structs, boundary integers (250/251, 2^16, 2^32, i64::MIN..), multi-byte UTF-8; encoded "
        "by the real bincode crate and compared byte for byte with the model; truncated / byte-replaced / inserted / deleted / random bytes decoded by the "
        "real crate and the model (value, consumed length, Eof vs Invalid). (b) generated rule sets: 1-3 namespaces, 1-15 rules, text patterns with every "
        "modifier family (ascii/wide/nocase/fullword/xor/xor range/base64/base64wide/custom alphabet/private), hex patterns (wildcards, nibbles, jumps, "
        "alternatives, negation, >200 jumps = chains, unbounded), regexps (classes, greedy/lazy, /i /s, wide, chains, anchors), conditions with counts, "
        "offsets, lengths, at/in, of, for loops, filesize and header constraints, rule references, global/private rules, tags, metadata of every type, "
        "globals of every type (bool/int/float/string/bytes/struct with array), regexps and regexp sets in conditions, math/hash/string imports; every 4th set is a regex-set family: 3-10 rules each with its own or-chain of non-literal `matches` over one of 1-4 string globals (one RegexSet per rule, >= 3 per blob), scanned once more per regexp with that global set through Scanner::set_global to a string only that rule's regexp matches; 6 buffers "
        "built from the patterns' own instances; dumps of R, deserialize(serialize R) and the second round trip. (c) every prefix <= 4096 bytes plus 512 "
        "sampled, and EVERY strict prefix of the first blob (quick), or every strict prefix of the first 80 blobs (thorough), all 12x255 single-byte header alterations of the first blob and 24 sampled of the "
        "others, foreign/random blobs. (c') in a child process: all 96 header bit flips and up to 600 (quick) / all (thorough, 4 blobs) single-bit flips of the framing integers of a blob holding every sub-pattern kind. (d) whole real blobs and the globals blobs inside them decoded and re-encoded by the model at the shape derived from the Rust definitions. Non-trivial/distinct: distinct rule-set "
        "sources and distinct (shape, value) pairs with more than 2 encoded bytes.")


def classify(case):
    s = case.get("stream", "?")
    if s == "b-behaviour":
        what = [k for k in ("deser_ok", "static_eq", "scans_eq", "reser_eq", "stream_api_eq", "digest_eq") if case.get(k) is False]
        return "C08:round-trip:" + "+".join(what)
    if s == "c-prefix":
        return "C08:prefix-not-rejected"
    if s == "c-header":
        return "C08:altered-header-not-rejected:pos%s" % case.get("pos")
    if s == "c-foreign":
        return "C08:foreign-blob-not-rejected"
    if s == "c-flips":
        return "C08:bit-flip-crash"
    if s == "c-flip-model":
        return "C08:bit-flip-model-disagreement"
    if s == "c-trailing":
        return "C08:panic-on-trailing-bytes"
    return "C08:" + s


def run_k(run, tier, seed, drv):
    if tier == "quick":
        args = ["--seed", seed, "--n", 500, "--rulesets", 36, "--model-blobs", 6, "--all-prefixes", "--all-prefix-sets", 1,
                "--flip-sets", 1, "--max-flips", 600, "--flip-model-blobs", 1, "--flip-model-sample", 6]
    else:
        args = ["--seed", seed, "--n", 12000, "--rulesets", 140, "--model-blobs", 40, "--all-prefixes", "--all-prefix-sets", 80,
                "--flip-sets", 4, "--flips-all-bits", "--max-flips", 20000, "--flip-model-blobs", 2, "--flip-model-sample", 9]
    info = standard_k(run, drv, "C08", "c08", args, "K_C08_codec", classify, timeout=2400)
    info["rule"] = RULE
    return info


MANIFEST = {
    "level_text": ("Machine-checked proof (Coq) that (1) every sequential byte decoder reports end-of-input, never a value, on every strict prefix "
                   "of what it accepted; (2) bincode's variable-length/zig-zag integers and every serde shape Rules is made of round-trip "
                   "(decode (encode v ++ rest) = (v, rest)); (3) for the header written by Rules::serialize_into and checked by Rules::deserialize "
                   "- magic, version, layout, byte orders and comparison operators regenerated from the Rust source on every run - a foreign magic, "
                   "a foreign version, any single-byte alteration of the header and every strict prefix of an accepted blob are rejected with an "
                   "error for every payload decoder and every post-decode validation, and deserialize(serialize v) = v with stable re-serialization. "
                   "The model is tied to the code by comparing the real bincode crate with the model encoder/decoder byte for byte, by decoding real "
                   "blobs and their globals blobs with the model at the shape derived from the Rust type definitions, by comparing a serde-free digest of "
                   "every table of R, deserialize(serialize R) and the second round trip, by bit flips of all framing integers in a bounded child process, and by running Rules::deserialize on prefixes, altered headers and foreign blobs; behaviour "
                   "after the round trip (rebuilt WASM/Teddy) is compared on generated rule sets and buffers."),
    "level_note": ("Proved for the model; the correspondence between the model and bincode/serde/yara-x is differential (exact bytes, outcome classes, "
                   "scan dumps), not a proof about the Rust code. Trusted: Coq kernel, the translator (gen_codec.py + rust_types.py: the wire shape of Rules, of every reachable type and of "
                   "the globals Struct is derived from the Rust definitions and serde attributes; the shapes of the four hand-written serde impls are "
                   "stated by hand and pinned by source digest), the harness, the hook digest Rules::verif_c08_digest. Crafted (non-truncated) blobs are outside the property."),
    "technique": "Coq proof over a model with source-generated definitions + differential correspondence (vm_compute)",
    "design_ref": "DESIGN.md section 4, C08",
}


def replay(d, drv):
    """python3 check.py replay replays/C08-<tag>.json : redo the recorded case on the implementation"""
    import tempfile
    with tempfile.NamedTemporaryFile("w", suffix=".json", delete=False, dir=drv.CACHE) as f:
        json.dump(d, f); p = f.name
    rc, out, _ = run_harness(drv, "c08", ["--replay", p], timeout=1200)
    os.unlink(p)
    print(out)
    return rc
