from checks.common import *
import re

SPEC = {
    "translators": ["gen_grammar", "gen_astarms"],
    "bins": ["c09"],
    "model_targets": ["Compiler/CompilerCheck.vo"],
    "proof_targets": ["Base/Utf8Proofs.vo", "Compiler/AccountingProofs.vo", "Parser/MachineProofs.vo"],
    "assumptions": [
        "panics, stack exhaustion, hangs and the rendering of diagnostics (Display, Debug, JSON, labels and patches) are run-time facts: they are observed per generated input in a child process (512 MiB stack thread, 30 s per case), not proved",
        "every observation is made under a matrix of compiler configurations: default, relaxed_re_syntax, error_on_slow_pattern+error_on_slow_loop, linters (rule name, allowed tags, required metadata), ignore_module+ban_module, condition_optimization+colours+narrow width+max_warnings; each generated source runs under the default and two others",
        "that an aborted rule carries an error is tied to the code by two regenerated obligations: cst2ast.rs has exactly one Abort site that neither follows an ERROR node nor an errors.push (Builder::begin's kind test), and the digest of (grammar productions, per-builder-function begin/end/expect/peek/call sequence) equals the reviewed pin in Compiler/CstAgreement.v; a change of either side must be reviewed and re-pinned",
        "line and column of every label of every error and warning (serialized form) are compared with an independent computation from the byte span: K pins what the report builder does (a line ends at \\n; \\r\\n counts once; a lone \\r is not a line end), S accepts that or the universal-newline reading; the diagnostic's own line/column must be its first label's and the `-->` of the rendered text must be a label's",
        "labels are checked against the text they refer to: the submitted source, or the included file named by the label's origin (bounds, character boundaries, line/column)",
        "accounting is per rule: every RULE_DECL node of the CST must be built, or ignored, or overlapped by the label of an error",
        "rule accounting is proved over a model whose arms (build_ast's Ok/Abort/MaxDepthReached arms, c_items' Err arm, c_rule's tolerated-error arms) are regenerated from the source; that an aborted rule carries at least one error is a hypothesis of ast_no_rule_lost, evaluated by S on every input (accepted without errors => every declared rule is built or ignored)",
        "the UTF-8 model follows the maximal-subpart rule of std::str::from_utf8; the compiler uses bstr::to_str, which K compares through the span of the reported E032 label",
        "parser totality (no engine assert fires, the interpreter is structurally recursive) is the C10 theorem lossless_balanced over Parser/Machine.v",
    ],
    "trusted_base": ["Gen/AstBuilderArms.v regenerated from parser/src/ast/cst2ast.rs and lib/src/compiler/mod.rs by translate/gen_astarms.py"],
}

RULE = ("every case runs Compiler::new().add_source(bytes), Display/title/labels of every error and warning, ignored_rules(), build() "
        "in a child process; streams: corpus of past failures, grammar-generated valid rules, token-level mutations, two mutated "
        "sources back to back, deep nesting / long operator chains below the AST depth limit, token soups, random bytes, invalid UTF-8 "
        "inserted at a random position / at every position / at the very end of a small valid rule, semantically wrong rules, huge literals, "
        "syntax errors on long (> 15 bytes) tokens holding 2-4-byte characters at varied offsets, out-of-range and KB/MB-suffixed integer "
        "literals in every literal position (xor bounds, hex jumps, base64 alphabets, ranges, percentages, indexes, meta), warnings whose "
        "fix spans several lines, regexps that relaxed_re_syntax repairs (literal braces, unknown escapes) followed by a genuine error "
        "with multi-byte characters around, and a systematic sweep: every token of 15 small rules covering every production, deleted "
        "and duplicated in turn; sources with 2-5 rules of mixed fate (fine / compile error / syntax error / depends on an ignored "
        "module / too deep) in every order; including sources (an include directory per case with files of every fate: fine, compile "
        "error, syntax error, warning, invalid UTF-8, empty, nested, self-including, mutually including, missing, longer than the "
        "including source) with rules of mixed fate before and after the include statements; every pattern modifier and pairs of "
        "modifiers on text patterns of 0..4 bytes with arguments at their boundaries, one-byte hex patterns, regexps matching the "
        "empty string (plus: exchanging base64 and base64wide must not change the decision); a third of the sources rewritten with CRLF, lone CR or mixed line endings. Every generated source runs under 3 of 6 compiler configurations. Non-trivial: >= 10 bytes; "
        "distinct by source bytes.")


def classify(case):
    o = case.get("obs", {})
    if case.get("crashed"):
        return "C09:process-died"
    if case.get("timed_out"):
        if re.search(r"\[\s*(\d{9,}|0x[0-9a-fA-F]{8,})\s*\]", case.get("source_lossy", "")):
            return "C09:no-answer-in-time:huge-fixed-hex-jump"
        if "f(f(f(f(f(f(f(f(f(f(f(f(" in case.get("source_lossy", ""):
            return "C09:no-answer-in-time:nested-function-calls"
        return "C09:no-answer-in-time"
    if o.get("panicked"):
        msg = re.sub(r"\b\d+\b", "N", o["panicked"]).split(";")[0][:120]
        if str(case.get("includes") or "").startswith("I:1:"):
            msg += ":include-dir-name-not-utf8"
        return "C09:panic:" + msg
    v = " ".join(case.get("violations", []))
    if "neither built, nor ignored" in v:
        return "C09:rule-dropped-silently:" + ("ast-depth-limit" if o.get("max_depth", 0) >= 3000 else ("no-error-at-all" if o.get("nerr", 1) == 0 else "errors-elsewhere"))
    if "line/column" in v:
        return "C09:line-column-does-not-designate-the-span-start"
    if "base64 and base64wide exchanged" in v:
        return "C09:base64-and-base64wide-decide-differently"
    if "invalid regular expression" in v:
        return "C09:regexp-error-location-outside-the-regexp:" + str(case.get("cfg_name"))
    if "label span" in v:
        return "C09:label-span"
    if "rendered" in v:
        return "C09:diagnostic-not-rendered"
    if "add_source Ok" in v:
        return "C09:result-inconsistent-with-errors"
    return "C09:other"


def run_k(run, tier, seed, drv):
    n = 500 if tier == "quick" else 5000
    nest = 150 if tier == "quick" else 1500
    info = standard_k(run, drv, "C09", "c09", ["--seed", seed, "--n", n, "--max-nest", nest],
                      "K_C09_utf8_span_and_rule_accounting", classify)
    info["rule"] = RULE
    return info


def replay(d, drv):
    case = d.get("case", d)
    hx = case.get("source_hex")
    if not hx:
        print(json.dumps(d, indent=1)[:4000]); return 0
    extra = ["--inc", case["includes"]] if case.get("includes") else []
    rc, out, _ = run_harness(drv, "c09", ["--replay-hex", hx, "--cfg", case.get("cfg", 0)] + extra + ["--out", os.path.join(drv.CACHE, "cases", "C09-replay")])
    print(out[-4000:])
    return 1 if "VIOLATED" in out else 0


MANIFEST = {
    "level_text": ("Machine-checked proofs (Coq): (1) the span add_source reports for a source that is not valid UTF-8 lies inside the "
                   "lossily converted source on character boundaries, for every byte string (model of from_utf8's valid_up_to/error_len "
                   "and of from_utf8_lossy); (2) rule accounting: every rule item reaches `rules` or `ignored_rules`, a failed one also "
                   "`errors`, and every declared rule becomes an item or leaves an error (also when its builder stops at MAX_AST_DEPTH) - "
                   "over a model whose arms are regenerated from cst2ast.rs/compiler/mod.rs (incl. that Builder::begin reports the depth limit); the "
                   "inputs of the repaired defects are replayed on the implementation on every run; (3) the parser engine is total and "
                   "never trips an assert (C10 theorem). Panics, stack exhaustion, hangs, build(), rendering and label spans are "
                   "observed per generated input in a child process and evaluated by a boolean specification in Coq."),
    "level_note": ("The no-panic/no-overflow/no-hang part of the property is run-time evidence on generated inputs, not a proof. "
                   "Repaired on this tree (inputs kept in the corpus, a regression is a VIOLATION): rules nested deeper than "
                   "MAX_AST_DEPTH were dropped silently; overflow panic in Iterable::num_iterations."),
    "technique": "Coq proofs over source-generated tables + models, differential correspondence and child-process observation (vm_compute)",
    "design_ref": "DESIGN.md section 4, C09",
}
