from checks.common import *
import re

SPEC = {
    "translators": ["gen_grammar", "gen_tokenizer"],
    "bins": ["c10"],
    "model_targets": ["Parser/ParserCheck.vo", "Parser/TokenizerCheck.vo"],
    "proof_targets": ["Parser/MachineProofs.vo", "Parser/MachineExamples.vo", "Parser/PositionProofs.vo", "Parser/TokenizerProofs.vo", "Parser/TokenizerInst.vo"],
    "assumptions": [
        "the three logos lexers are abstract: tokens_tile_source holds for every lexer function that returns None exactly at the end of the input and otherwise a non-empty span inside the remaining input, and that depends only on the bytes from the current position on; the contract is evaluated on every answer of the real lexers recorded through the hook verif_lex, and the model wrapper driven by the real call sequence with the real lexers as oracle must return the real token list",
        "the parser theorems take the token list as input; that the real token list tiles the source is also evaluated by S on every generated input",
        "the conversion of logos tokens to TokenId (convert_*_token) is part of the lexer oracle, not of the model",
        "an Error event is modelled by its span only (the message text is not compared)",
        "the engine primitives of parser/src/parser/mod.rs, token_stream.rs and syntax_stream.rs are modelled by hand (Parser/Machine.v) and tied to the code by K: the model run with the generated grammar must reproduce the real event stream event for event; the grammar itself and the kind/token tables are regenerated from the source on every run",
        "node spans are proved exact only for runs in which no span was computed from a last_token_span reset by truncate() (node_spans_exact); K requires that flag to be false on every real run; a grammar for which it is true exists (node_spans_exact_all_grammars_refuted)",
        "AST: S walks every node of the Debug rendering of the AST (structs and enum variants at every depth: expressions, quantifiers, ranges, pattern modifiers, meta values, hex tokens, jumps, alternatives): span ordered, inside the source, on character boundaries; the text at an identifier / literal node's span is that identifier / literal; a node lies inside its parent's own span; siblings are ordered and do not overlap. Two deliberate exceptions of the implementation are accepted: the span of a HexPattern node is its `{..}` literal and the span of a base64 modifier is its keyword (identifier, modifiers and alphabet lie outside)",
        "the parser's fuel is per file (decremented in begin(), never replenished: checked by the translator) and the regenerated constant must be at least the reviewed 100,000,000 (parser_fuel_budget); on every run one valid source of 40,000 one-line rules with tags, meta, a pattern and a three-term condition (4.9 MB; 150,000 rules in the thorough tier) must be covered byte for byte by the CST and yield all its rules in the AST",
        "a source that is valid UTF-8 must have a CST (no token may end inside a character)",
        "when the parser runs out of fuel the remaining tokens are not emitted (theorem out_of_fuel_truncates); this is reachable with 18 nested function calls and is recorded as a known finding (thorough tier only, the input takes minutes)",
        "Token::start_pos/end_pos/token_at_position/token_at_offset are modelled over (class, scalar values) token lists; rowan's tree navigation (prev_token/next_token, token_at_offset) is assumed to enumerate the tokens in order and is tied by K",
    ],
    "trusted_base": ["Gen/Grammar.v: SyntaxKind/TokenId tables, SyntaxKind::token_id, From<&Token>, is_trivia, the initial fuel, the whole grammar section and top_level_item's dispatch table, regenerated from parser/src by translate/gen_grammar.py"],
}

RULE = ("sources from one PRNG: grammar-generated valid rules (modifiers, tags, meta, text/regexp/hex patterns with jumps and "
        "alternatives, conditions with for/of/with/ranges/function calls, varied whitespace incl. comments, CRLF and Unicode spaces); "
        "token-level mutations of those (delete/duplicate/swap/insert tokens, unbalanced delimiters, non-ASCII characters, invalid "
        "UTF-8 bytes, truncation); deep nesting and long operator chains; token soups; random bytes; invalid UTF-8 at a random "
        "position; two mutated sources back to back; deep field-access / index / call chains (`a.b.c[0].d(e.f[1])[g]`). Sources with more than 90 tokens are skipped (quick), a corpus of past "
        "failures runs first. Non-trivial: >= 5 tokens; distinct by source bytes. Second run (tokenizer wrapper): the same streams plus "
        "sources that keep switching lexer modes (hex patterns and jumps with junk, unbalanced braces/brackets, unknown whitespace, "
        "invalid bytes, input ending inside a hex mode); per source the real call sequence on the Tokenizer and the answers of the "
        "three real lexers at every token boundary in every mode are recorded.")


def classify(case):
    if case.get("stream") == "big_source":
        return "C10:large-valid-source-not-fully-parsed"
    if case.get("parser_panicked") or case.get("cst_stream_panicked"):
        return "C10:parser-panicked"
    if case.get("ast_panicked"):
        return "C10:ast-builder-panicked"
    if case.get("valid_utf8") and not case.get("cst_built", True) and not case.get("gap"):
        return "C10:no-cst-for-valid-utf8:token-ends-inside-a-character"
    st = case.get("ast_structure") or []
    if st:
        m = re.match(r"AST node (\w+) [\d.]+ is not covered by its parent (\w+)", st[0])
        if m:
            # FuncCall::span() leaves out the object the function is called on
            return "C10:ast-structure:not-covered-by-parent:" + ("FuncCall" if m.group(1) == "FuncCall" else m.group(1) + "-in-" + m.group(2))
        return "C10:ast-structure:" + re.sub(r"[\d.]+", "N", st[0])[:80]
    gap = case.get("gap")
    if gap and case.get("stream") == "fuel":
        return "C10:parser-out-of-fuel:remaining-tokens-not-emitted"
    if gap:
        m = re.match(r"(\d+)\.\.(\d+)->(?:end)?(\d+):([0-9a-f]*)$", gap)
        if m:
            a, b, c, hx = int(m.group(1)), int(m.group(2)), int(m.group(3)), m.group(4)
            tok = hx[:2 * (b - a)]
            dropped = hx[2 * (b - a):2 * (c - a)]
            # a 1-byte INVALID_UTF8 token E2 followed by a dropped 80/81: the lexer had consumed
            # the prefix of one of the multi-byte spaces of the Whitespace token
            if tok == "e2" and dropped in ("80", "81"):
                return "C10:tokenizer-drops-byte-after-truncated-unicode-space"
            return f"C10:token-gap:{tok}:{dropped}"
        return "C10:token-gap"
    if not case.get("texts_ok", True) or not case.get("root_text_ok", True):
        return "C10:text-roundtrip"
    if case.get("own_lookup_failures"):
        return "C10:own-position-lookup"
    return "C10:structure:" + str(case.get("stream"))


def classify_tok(case):
    if case.get("gap"):
        return "C10:tokenizer-gap:" + str(case.get("stream"))
    return "C10:tokenizer:" + str(case.get("stream"))


def run_k(run, tier, seed, drv):
    n = 600 if tier == "quick" else 12000
    args = ["--seed", seed, "--n", n] + ([] if tier == "quick" else ["--max-tokens", 140, "--fuel", "--big-rules", 150000])
    info = standard_k(run, drv, "C10", "c10", args, "K_C10_model_parser_vs_real_event_stream", classify)
    # the tokenizer wrapper: model with the real lexers as oracle vs the real token list
    nt = 600 if tier == "quick" else 6000
    info2 = standard_k(run, drv, "C10tok", "c10", ["--tokenizer", "--seed", seed, "--n", nt], "K_C10_model_tokenizer_vs_real_tokens", classify_tok)
    for k in ("evaluations", "distinct_nontrivial", "traces_validated_against_impl", "k_disagreements", "s_violations"):
        info[k] = info.get(k, 0) + info2.get(k, 0)
    info["broken"] = info.get("broken", []) + info2.get("broken", [])
    info["violations"] = info.get("violations", []) + info2.get("violations", [])
    if "distribution" in info and "distribution" in info2:
        info["distribution"] = dict(info["distribution"], **{"tokenizer_" + k: v for k, v in info2["distribution"].items()})
    info["rule"] = RULE
    return info


def replay(d, drv):
    case = d.get("case", d)
    hx = case.get("source_hex")
    if hx is None:
        print(json.dumps(d, indent=1)); return 0
    rc, out, _ = run_harness(drv, "c10", ["--replay-hex", hx])
    print(out)
    return 1 if "VIOLATED" in out else 0


MANIFEST = {
    "level_text": ("Machine-checked proof (Coq) over an executable model of the parser engine (ParserImpl combinators, TokenStream, "
                   "SyntaxStream incl. end_with_error, truncate/bookmarks, recover, top_level_item, the next() rounds) that for EVERY "
                   "grammar built from the combinators, every token list and every fuel the emitted Token events are exactly the "
                   "consumed tokens in order, Begin/End are properly nested with equal kind and span, no engine assert fires, every "
                   "token is emitted unless the parser runs out of fuel, and node spans are token hulls when no span was taken from a "
                   "reset last_token_span; and that token_at_offset/token_at_position (UTF-8/16/32) of a token's own start return that "
                   "token; and that the tokenizer wrapper around the three lexers (modes, restart offsets, INVALID_UTF8/UNKNOWN pseudo tokens), for "
                   "every lexer within its contract and every interleaving of mode switches, returns tokens that tile the source. The grammar, kind "
                   "tables, dispatch table and the tokenizer's restart offsets / pseudo-token spans are regenerated from parser/src on every run; the model parser "
                   "running that grammar must reproduce the real parser's event stream event for event on generated valid, mutated, "
                   "deeply nested, non-ASCII, invalid-UTF-8 and random inputs, and the property is evaluated on the implementation's "
                   "own output (token spans tile the source, CST text round-trip, own-position lookups, AST spans in bounds)."),
    "level_note": ("Trusted: Coq kernel, translate/gen_grammar.py, translate/gen_tokenizer.py, the harness, the hook parser/src/tokenizer/verif.rs. "
                   "Not modelled: the logos lexers themselves (abstract, contract checked per call), error message texts, rowan. The engine model is hand-written and tied differentially. "
                   "Repaired on this tree (inputs kept in the corpus): the tokenizer dropped a byte after a truncated multi-byte Unicode space (E2 80 / E2 81)."),
    "technique": "Coq proof over an interpreter of the combinator DSL (induction on fuel) + generated grammar + differential correspondence (vm_compute)",
    "design_ref": "DESIGN.md section 4, C10",
}
