from checks.common import *
import os, glob, zipfile, json

SPEC = {
    "translators": ["gen_modcaps"],
    "bins": ["c11"],
    "model_targets": ["Modules/ModCheck.vo"],
    "proof_targets": ["Modules/RvaProofs.vo", "Modules/CapsProofs.vo"],
    "assumptions": [
        "PARTIAL claim: proved are the arithmetic of pe::rva_to_offset (as coded) and the iteration / depth bounds of the loop skeletons with the caps extracted from the parsers; nom parsers, ASN.1 / authenticode, protobuf, hashing, allocation and the call stack are not modelled",
        "totality, wall time, memory and determinism of the real modules are TESTED (child processes with RLIMIT_AS, wall-time limit, three invocations + two scans per input), not proved",
        "the loop skeletons are hand-written from the source; the translator checks that each cap is applied in the shape modelled (min(count, MAX), .take(MAX), len == MAX -> return, *depth == MAX -> Err) and fails otherwise",
    ],
    "trusted_base": ["Gen/ModCaps.v: MAX_* constants of pe/dotnet/dex parsers, resource-walk level cut, absence of a visited set, depth-guard shape - regenerated from lib/src/modules/{pe,dotnet,dex}/parser.rs",
                     "checks/C11.py: unzips and Intel-HEX-decodes the repository's module test samples into .cache/c11-samples"],
}

RULE = ("(supporting tests) corpus from one PRNG: the repository's module samples (pe, elf, macho, dotnet, lnk, dex, crx, olecf, msi, vba, zip; "
        "format-balanced selection), per sample truncations (half in the first KiB, half anywhere), mutations of the count/offset/size fields of the "
        "format's headers and tables (PE: e_lfanew, NumberOfSections, SizeOfOptionalHeader, entry point, alignments, SizeOfImage/Headers, "
        "NumberOfRvaAndSizes, the 16 data directories, section table; ELF, Mach-O/fat, LNK, DEX, CRX, OLE/CF, ZIP headers) to 0, 1, all-ones, len, len+1, "
        "len-1, 0x7fffffff, own offset; cross-format splices; small and random bytes behind 12 valid magics; a PE whose resource directory is a "
        "self-referential two-node graph (e = 40 ... 1200 entries, up to 20 KB; regression inputs of the repaired quartic / cubic walk). Each input: child process with RLIMIT_AS = 3 GiB and a wall-time limit; "
        "mods::invoke_all twice + once on a second thread (messages compared with PartialEq), a scan with rules importing every module twice; first "
        "call must finish within 4 s + 60 us/byte. PE outputs: every (rva, offset) pair visible (entry point, exports, resources) recomputed by "
        "Modules/Rva.v on the section table of the same file. Non-trivial: distinct (label, output size).")

SAMPLES = "c11-samples"


def ihex(text):
    mem, base = {}, 0
    for line in text.splitlines():
        line = line.strip()
        if not line: continue
        if not line.startswith(b":"): return None
        try:
            raw = bytes.fromhex(line[1:].decode())
        except Exception:
            return None
        if len(raw) < 5: return None
        ln, addr, typ = raw[0], (raw[1] << 8) | raw[2], raw[3]
        data = raw[4:4 + ln]
        if typ == 0:
            for i, b in enumerate(data): mem[base + addr + i] = b
        elif typ == 1:
            break
        elif typ == 2 and len(data) >= 2:
            base = ((data[0] << 8) | data[1]) << 4
        elif typ == 4 and len(data) >= 2:
            base = ((data[0] << 8) | data[1]) << 16
    if not mem: return b""
    out = bytearray(max(mem) + 1)
    for k, v in mem.items(): out[k] = v
    return bytes(out)


def prepare_samples(drv):
    """the repository keeps its samples zipped and Intel-HEX encoded"""
    dst = os.path.join(drv.CACHE, SAMPLES)
    stamp = os.path.join(dst, ".done")
    zips = sorted(glob.glob(os.path.join(drv.REPO, "lib/src/modules/*/tests/testdata/*.in.zip")))
    key = str(len(zips))
    if os.path.exists(stamp) and open(stamp).read() == key:
        return dst, None
    n = 0
    for z in zips:
        mod = z.split("/modules/")[1].split("/")[0]
        try:
            with zipfile.ZipFile(z) as f:
                for nm in f.namelist():
                    b = os.path.basename(nm)
                    if nm.endswith("/") or b.startswith("._") or "__MACOSX" in nm: continue
                    raw = f.read(nm)
                    dec = ihex(raw) if raw[:1] == b":" else None
                    data = dec if dec is not None else raw
                    d = os.path.join(dst, mod); os.makedirs(d, exist_ok=True)
                    with open(os.path.join(d, os.path.basename(z)[:12] + "_" + b[:16]), "wb") as o: o.write(data)
                    n += 1
        except zipfile.BadZipFile:
            continue
    if n == 0:
        return dst, "no module sample could be extracted from lib/src/modules/*/tests/testdata/*.in.zip"
    open(stamp, "w").write(key)
    return dst, None


def classify(case):
    if case.get("kind") == "run":
        return f"C11:{case.get('class')}:{case.get('fail') or '?'}"
    return "C11:" + str(case.get("kind"))


def run_k(run, tier, seed, drv):
    sdir, err = prepare_samples(drv)
    if err:
        return {"broken": [("harness:c11", err)], "violations": []}
    if tier == "quick":
        args = ["--seed", seed, "--samples", sdir, "--max-samples", 48, "--trunc", 10, "--fields", 12, "--bomb", "40,80,128,256,512,800,1200", "--limit-ms", 20000]
    else:
        args = ["--seed", seed, "--samples", sdir, "--max-samples", 400, "--max-size", 4000000, "--trunc", 64, "--fields", 64, "--bomb", "40,80,101,102,128,160,256,320,512,800,1200,4000", "--limit-ms", 30000]
    info = standard_k(run, drv, "C11", "c11", args, "K_C11_rva_to_offset", classify, max_report=50)
    info["rule"] = RULE
    return info


def replay(d, drv):
    c = d.get("case", d)
    print(json.dumps(c, indent=1)[:3000])
    p = os.path.join(drv.CACHE, "cases", "C11", f"failing_{c.get('index')}.bin")
    print(f"input kept at {p} (if the check was the last one to run); re-run `python3 check.py run C11 --seed <seed>` to regenerate it")
    return 0


MANIFEST = {
    "level_text": ("PARTIAL. Machine-checked proofs (Coq) for the arithmetic core pe::rva_to_offset modelled exactly as coded (u32 with explicit "
                   "saturating / checked / plain operations): no step under- or overflows for any section table and rva, and a returned offset is "
                   "the (aligned) raw-data start of the section the loop settles on plus a displacement inside its raw data; and for the loop "
                   "skeletons of the parsers (counted parse, capped iterator, collect-to-cap, depth-guarded recursion) with the MAX_* constants "
                   "and guard shapes regenerated from the Rust source: iterations <= cap, depth <= limit. The PE resource walk (level cut and queue guard "
                   "and the cap on examined entries regenerated) is proved to examine at most min(E(1+E+E^2), MAX_PE_RESOURCE_DIR_ENTRIES + 1) entries - a constant "
                   "independent of the file - exact for a self-referential table. "
                   "Everything else the property says (no panic, stack, time, memory, determinism of the real modules on any bytes) is supported by "
                   "tests in resource-limited child processes over samples, truncations, field mutations, splices and magic+random inputs; the "
                   "model of rva_to_offset is compared with every (rva, offset) pair visible in the PE module's output."),
    "level_note": ("Not modelled: nom parsers, ASN.1, authenticode, protobuf, hashing; a theorem cannot exhibit stack overflow or allocation growth. "
                   "Repaired after this check found them (c84671ba, 37a1e029): the quartic, then cubic walk of self-referential PE resource directories; "
                   "the regression inputs (up to 1200 entries per directory, 20 KB) stay in the corpus and must meet the time bound. The counter counts "
                   "entries after the offset filter; entries with invalid offsets are skipped uncounted (at most section length / 8 per directory)."),
    "technique": "Coq proofs over an exact model of rva_to_offset and over capped-loop skeletons with source-generated caps + resource-limited differential tests in child processes",
    "design_ref": "DESIGN.md section 4, C11",
}
