from checks.common import *
import os, glob, zipfile, json

SPEC = {
    "translators": ["gen_modcaps"],
    "bins": ["c11"],
    "model_targets": ["Modules/ModCheck.vo"],
    "proof_targets": ["Modules/RvaProofs.vo", "Modules/CapsProofs.vo", "Modules/LebProofs.vo", "Modules/VarIntProofs.vo", "Modules/CoresProofs.vo"],
    "assumptions": [
        "PARTIAL claim: proved are arithmetic cores as coded (pe::rva_to_offset, uleb128/sleb128, dotnet var_uint/var_sint, dotnet coded/table index widths and decoding, pe overlay, lnk length_data, elf rva_to_offset) and the iteration / depth / expansion bounds of the loop and graph-walk skeletons (capped loops, pe resource walk, macho export trie walk) with the caps and guard shapes extracted from the parsers; nom parsers, ASN.1 / authenticode, protobuf, hashing, allocation and the call stack are not modelled",
        "f64::log2(n).ceil() is modelled as log2_up for the 1..22 table counts that occur (tied by K through the hook); nom's bit-level parsers are modelled most-significant-bit first",
        "totality, wall time, memory and determinism of the real modules are TESTED (child processes with RLIMIT_AS, wall-time limit, three invocations + two scans per input), not proved",
        "the loop skeletons are hand-written from the source; the translator checks that each cap is applied in the shape modelled (min(count, MAX), .take(MAX), len == MAX -> return, *depth == MAX -> Err) and fails otherwise",
    ],
    "trusted_base": ["Gen/ModCaps.v: MAX_* constants of pe/dotnet/dex parsers, resource-walk level cut, absence of a visited set, depth-guard shape - regenerated from lib/src/modules/{pe,dotnet,dex}/parser.rs",
                     "hooks (cfg yara_x_verif, add-only): lib/src/modules/verif_c11.rs (uleb128, sleb128), verif_c11_dotnet.rs (var_uint, var_sint, coded_index, table_index), verif_c11_lnk.rs (length_data); the other cores are compared through the modules' public output",
                     "harness/src/c11/fields.rs: minimal independent readers that only LOCATE fields (a field they miss is still reached by the exhaustive sweep when the sample is small)",
                     "checks/C11.py: unzips and Intel-HEX-decodes the repository's module test samples into .cache/c11-samples"],
}

RULE = ("(supporting tests) corpus from one PRNG: the repository's module samples (pe, elf, macho, dotnet, lnk, dex, crx, olecf, msi, vba, zip; "
        "format-balanced selection), per sample truncations (half in the first KiB, half anywhere), mutations of the count/offset/size fields of the "
        "format's headers and tables (PE: e_lfanew, NumberOfSections, SizeOfOptionalHeader, entry point, alignments, SizeOfImage/Headers, "
        "NumberOfRvaAndSizes, the 16 data directories, section table; ELF, Mach-O/fat, LNK, DEX, CRX, OLE/CF, ZIP headers) to 0, 1, all-ones, len, len+1, "
        "len-1, 0x7fffffff, own offset; cross-format splices; small and random bytes behind 12 valid magics; a PE whose resource directory is a "
        "self-referential two-node graph (e = 40 ... 1200 entries, up to 20 KB; regression inputs of the repaired quartic / cubic walk). Each input: child process with RLIMIT_AS = 3 GiB and a wall-time limit; "
        "mods::invoke_all twice + once on a second thread (messages compared with PartialEq), a scan with rules importing every module twice; first "
        "call must finish within 4 s + 60 us/byte and its peak resident memory must stay below 256 MiB + 256 x size. Graph-shaped inputs: hand-built Mach-O "
        "export tries that are trees, diamonds (every path distinct), cycles (to the root, an earlier node, itself; empty and non-empty labels), random graphs and "
        "deep chains, with the check exports <= trie nodes; OLE/CF FAT entries and ELF sh_link/sh_info rewired into cycles and joins; ELF / Mach-O tables whose "
        "entries share one long name. Arithmetic cores: uleb128/sleb128, var_uint/var_sint, coded/table indexes and lnk length_data are called through the hook "
        "on encoded boundary values and random bytes and compared with the Coq models; pe overlay and elf entry-point conversion are recomputed from the "
        "modules' outputs for every (mutated) sample. PE outputs: every (rva, offset) pair visible (entry point, exports, resources) recomputed by "
        "Modules/Rva.v on the section table of the same file. Boundary sweeps (one invocation per mutation, ~100 us each): (a) EVERY repository sample "
        "as it is (no size cap, no sub-sampling) must return within 300 ms + 3 us/byte (one retry); (b) structured: independent minimal readers "
        "(harness/src/c11/fields.rs) locate the length / size / count / offset fields and the table entries that index other tables of PE (headers, "
        "section table, export directory + address / name-pointer / name-ORDINAL tables, import and delay-import descriptors and thunks, resource tree, "
        "debug, certificate, TLS, CLI header, metadata root, stream headers, #~ row counts and rows, heaps), ELF (ehdr, phdrs, shdrs, symbols, dynamic, "
        "notes, versions; both classes and byte orders), Mach-O (fat, header, every load command, sections, nlist, indirect symbols, dyld info, export "
        "trie, chained fixups, code-signature blobs), LNK (header, every ItemID size of the IDList, LinkInfo, VolumeID, CNRL, StringData counts, "
        "ExtraData blocks), DEX (header, id tables, map list, string / class data), CRX, ZIP (EOCD, central and local headers, extra fields, zip64), "
        "OLE/CF for olecf / vba / msi (header, DIFAT, FAT, directory entries, mini FAT, stream heads); per directory the smallest samples are "
        "taken until every kind of field is present in one carrier; every field is set to 0,1,2,3,4,7,8, v-1, v+1, 0x7f,0x80,0xff,0x100,0x7fff,0x8000,"
        "0xffff,0x10000,0x7fffffff,0x80000000,0xffffffff, max, max-1, len-1, len, len+1, remaining-1, remaining, remaining+1 and c-1, c, c+1 for "
        "every count c found in the same file (NumberOfFunctions, NumberOfNames, section / symbol / row counts ...); (c) exhaustive: every offset "
        "of every sample of at most 2100 bytes (and a synthetic ZIP) as u16 and u32 with a reduced value set, sampled down to the budget in the "
        "quick tier; (d) structural mutations around every located field and every magic tag found by search (Rich, PE, PK.., BSJB, OLE root entry, code-signature "
        "blobs, RSDS, VS_VERSION_INFO): the file ends at / in the middle of / 1-3 bytes behind the field; every size field (optional header, data directories, "
        "certificates, streams, load commands, LNK lists and blocks, ZIP names / extras / comments, DEX sections ...) is set so that its structure ends at / in / "
        "behind every field inside it; for every pointer field (e_lfanew, section raw pointers, directory RVAs, export tables, resource entries, metadata and "
        "stream offsets, e_phoff / e_shoff / sh_offset / p_offset, fat arch offsets, symoff / stroff / dataoff, LinkInfo offsets, DEX table and string offsets, "
        "ZIP central directory and local header offsets) the bytes between a preceding field or tag and the pointer's target are deleted and the pointer adjusted, "
        "so that the target structure starts right behind that field; (e) conditional members: the readers mark every value of a field under which the file has "
        "OTHER fields (LNK: each link flag, LinkInfoHeaderSize >= 0x24, LinkInfoFlags bits, VolumeLabelOffset == 0x14 -> VolumeLabelOffsetUnicode, CNRL flags and "
        "NetNameOffset > 0x14; PE optional-header magic 0x10b <-> 0x20b; ELF EI_CLASS and EI_DATA; Mach-O 32 <-> 64 magic; DEX endian tag; OLE major version + "
        "sector shift and mini-stream cutoff; ZIP all-ones zip64 markers and the data-descriptor flag): the condition is written first, the readers run again on "
        "the result, and the fields found there are swept (new places with all boundary values, the other hot fields with the reduced set), every mutation "
        "carrying the enabling write(s); synthetic ZIP and zip64 archives are carriers next to the samples. Amplification inputs (N references to ONE large item): DEX methods sharing a 255-parameter "
        "proto over one long string, ELF PT_DYNAMIC headers sharing one table, a deflated ZIP member of 512 MiB of zeros (vbaProject.bin), Mach-O chained imports / "
        "ELF symbols sharing one maximal name, an OLE/CF directory chain through every sector. A failing mutation is kept as a case with the field name, offset, width and value. Non-trivial: distinct (label, output size).")

SAMPLES = "c11-samples"


def ihex(text):
    mem, base = {}, 0
    for line in text.splitlines():
        line = line.strip()
        if not line: continue
        if not line.startswith(b":"): return None
        try:
            raw = bytes.fromhex(line[1:].decode())
        except Exception:
            return None
        if len(raw) < 5: return None
        ln, addr, typ = raw[0], (raw[1] << 8) | raw[2], raw[3]
        data = raw[4:4 + ln]
        if typ == 0:
            for i, b in enumerate(data): mem[base + addr + i] = b
        elif typ == 1:
            break
        elif typ == 2 and len(data) >= 2:
            base = ((data[0] << 8) | data[1]) << 4
        elif typ == 4 and len(data) >= 2:
            base = ((data[0] << 8) | data[1]) << 16
    if not mem: return b""
    out = bytearray(max(mem) + 1)
    for k, v in mem.items(): out[k] = v
    return bytes(out)


def prepare_samples(drv):
    """the repository keeps its samples zipped and Intel-HEX encoded"""
    dst = os.path.join(drv.CACHE, SAMPLES)
    stamp = os.path.join(dst, ".done")
    zips = sorted(glob.glob(os.path.join(drv.REPO, "lib/src/modules/*/tests/testdata/*.in.zip")))
    key = str(len(zips))
    if os.path.exists(stamp) and open(stamp).read() == key:
        return dst, None
    n = 0
    for z in zips:
        mod = z.split("/modules/")[1].split("/")[0]
        try:
            with zipfile.ZipFile(z) as f:
                for nm in f.namelist():
                    b = os.path.basename(nm)
                    if nm.endswith("/") or b.startswith("._") or "__MACOSX" in nm: continue
                    raw = f.read(nm)
                    dec = ihex(raw) if raw[:1] == b":" else None
                    data = dec if dec is not None else raw
                    d = os.path.join(dst, mod); os.makedirs(d, exist_ok=True)
                    with open(os.path.join(d, os.path.basename(z)[:12] + "_" + b[:16]), "wb") as o: o.write(data)
                    n += 1
        except zipfile.BadZipFile:
            continue
    if n == 0:
        return dst, "no module sample could be extracted from lib/src/modules/*/tests/testdata/*.in.zip"
    open(stamp, "w").write(key)
    return dst, None


def classify(case):
    if case.get("kind") == "run":
        return f"C11:{case.get('class')}:{case.get('fail') or '?'}"
    if case.get("kind") == "count":
        return f"C11:{case.get('class')}:more-exports-than-trie-nodes"
    if case.get("kind") == "sweep":
        return f"C11:sweep:{case.get('mode')}:{case.get('format')}"
    if case.get("kind") == "core":
        return f"C11:core:{case.get('core')}"
    return "C11:" + str(case.get("kind"))


def run_k(run, tier, seed, drv):
    sdir, err = prepare_samples(drv)
    if err:
        return {"broken": [("harness:c11", err)], "violations": []}
    if tier == "quick":
        args = ["--seed", seed, "--samples", sdir, "--max-samples", 48, "--trunc", 10, "--fields", 12, "--bomb", "40,80,128,256,512,800,1200", "--names", "200:2000,6000:150000", "--cores", 1600, "--limit-ms", 20000,
                "--sweep-budget", 240000, "--sweep-per-dir", 16, "--sweep-small", 2100]
    else:
        args = ["--seed", seed, "--samples", sdir, "--max-samples", 400, "--max-size", 4000000, "--trunc", 64, "--fields", 64, "--bomb", "40,80,101,102,128,160,256,320,512,800,1200,4000", "--names", "200:2000,3000:80000,6000:150000,12000:300000", "--cores", 40000, "--limit-ms", 30000,
                "--sweep-budget", 100000000, "--sweep-per-dir", 64, "--sweep-small", 6000]
    info = standard_k(run, drv, "C11", "c11", args, "K_C11_rva_to_offset", classify, max_report=50)
    info["rule"] = RULE
    return info


def replay(d, drv):
    c = d.get("case", d)
    print(json.dumps(c, indent=1)[:3000])
    p = os.path.join(drv.CACHE, "cases", "C11", f"failing_{c.get('index')}.bin")
    print(f"input kept at {p} (if the check was the last one to run); re-run `python3 check.py run C11 --seed <seed>` to regenerate it")
    return 0


MANIFEST = {
    "level_text": ("PARTIAL. Machine-checked proofs (Coq) for arithmetic cores over attacker-controlled integers, each modelled exactly as coded with "
                   "explicit checked / saturating / wrapping semantics: pe::rva_to_offset (no under/overflow, result specification), uleb128 / sleb128 "
                   "(shift counter cannot overflow, <= 10 bytes, result range, decode(encode n) = n for every u64), dotnet var_uint / var_sint (ranges, "
                   "round trips), dotnet coded / table index widths and decoding, pe overlay, lnk length_data, elf rva_to_offset (no underflow, in "
                   "bounds); and for the loop and graph-walk skeletons with constants and guard shapes regenerated from the Rust source: iterations <= "
                   "cap, depth <= limit, PE resource walk <= min(cubic, MAX_PE_RESOURCE_DIR_ENTRIES + 1) entries, Mach-O export trie walk <= one "
                   "expansion per distinct offset (visited-set key extracted from the source). Everything else the property says (no panic, stack, "
                   "time, memory, determinism of the real modules on any bytes) is supported by tests in resource-limited child processes over "
                   "samples, truncations, field mutations, graph rewiring, splices and magic+random inputs, by boundary sweeps of every length / size / "
                   "count / offset / index field that independent minimal readers of the eleven formats locate (structured) and of every offset of the small "
                   "samples (exhaustive), and by a time bound on every repository sample as it is; every core is compared with the real function (hook or public output)."),
    "level_note": ("Not modelled: nom parsers, ASN.1, authenticode, protobuf, hashing; a theorem cannot exhibit stack overflow or allocation growth. "
                   "Repaired after this check found them (c84671ba, 37a1e029): quartic / cubic walk of self-referential PE resource directories. "
                   "Quadratic memory, repaired (daf5ea9e, 07806781; patches fixes/C11-1, C11-2): ELF section/symbol names, Mach-O symtab and "
                   "chained-fixups names read without a length limit, Mach-O export names accumulated along a chain-shaped trie. All reproductions "
                   "stay in the corpus as regression inputs and must meet the time and memory bounds. Known findings (memory = N references x one large item, inputs "
                   "built by the amplification generators, patches fixes/C11-3,4,5,7): DEX items copying shared strings, ELF PT_DYNAMIC duplication, unbounded inflate "
                   "of a ZIP member, Mach-O chained imports sharing one name; fixes/C11-6 removes a quadratic cycle check in olecf that stays below the bounds."),
    "technique": "Coq proofs over an exact model of rva_to_offset and over capped-loop skeletons with source-generated caps + resource-limited differential tests in child processes",
    "design_ref": "DESIGN.md section 4, C11",
}
