from checks.common import *
import os, glob, zipfile, io

SPEC = {
    "translators": ["gen_protoschema"],
    "bins": ["c12"],
    "model_targets": ["Types/StructCheck.vo"],
    "proof_targets": ["Types/StructModelProofs.vo", "Types/ProtoSchemaProofs.vo"],
    "generated_obligations": ["annotated_fields_ordinary"],
    "assumptions": [
        "hand-written model of Struct::from_proto_descriptor_and_msg / new_value / new_array / new_map*, emit_field_access and lookup_field / array indexing / map lookup, tied to the code by (1) the verdict comparison, (2) the field indexes read from the compiler's IR dump of every generated rule, which must equal the model's compile_path on the schema generated from the .proto sources, (3) equality of that generated schema with the descriptor obtained by reflection from the library",
        "field names are distinct from each other and from the generated enum/function/method field names (IndexMap::insert would replace instead of append); holds for every registered module or from_proto_descriptor_and_msg panics",
        "descriptor and message content are read through protobuf reflection by the harness (the same calls structure.rs makes); strings are compared by identity of their bytes, floats by bit pattern (NaN and -0.0 are not generated)",
        "the position of the module inside the root structure (first index of every path) and the evaluation of ==, defined, for-any/all, len() themselves are outside the model (C02)",
        "map iteration order is the order in which protobuf reflection yields the entries (hash order); it is not observable from a condition, only len() and key lookups are compared",
    ],
    "trusted_base": ["Gen/ProtoSchema.v: module schemas (field names after renames, numbers, ignored flags, types, nesting, generated enum field names, acl/lowercase/fmt/deprecation lists, enum values) parsed from lib/src/modules/protos/*.proto by gen_protoschema.py",
                     "Compiler::set_ir_writer output format (`SYMBOL Field { index: N, is_root: .. }`) parsed by the harness",
                     "decoding of (yara.field_options).name / .ignore from the descriptor's unknown fields in harness/src/bin/c12.rs",
                     "Intel-HEX/zip decoding of the module test samples in checks/C12.py"],
}

RULE = ("the rules of a case import the module 1, 2 or 3 times (several namespaces, several sources of a namespace, twice in one source) and Rules::imports() must list it once; "
        "every repeated and map field (scalars, strings, structures, nested, empty / absent / 1 / many items) is iterated with every quantifier (any, all, none, 2, 50%; for x in array, "
        "for k,v in map), plain and under `not`, `defined`, `or false`, `and true`, with a budget of its own; block scanners (fresh, converted, converted after a scan) must agree that "
        "every collection is empty; every synthetic job is a SEQUENCE of three scans on one scanner: a message supplied through set_module_output, then no message (the module's own output must show), "
        "then a different message through set_module_output_raw (and the reverse order of entry points); every built-in sample additionally runs supplied / computed / supplied-raw; "
        "after each scan ScanResults::module_output / module_outputs must hand back the supplied message; functions that read the output message (test_proto2.get_foo, and for pe/elf/"
        "macho/dex/crx a list of helper functions compared between computed and supplied output) are evaluated too; string and bytes values include upper/mixed case, padding, NUL, "
        "non-UTF-8 bytes, and every string leaf is also read through .len(), contains, startswith, endswith and compared with its swapped-case / lower-cased / trimmed / NUL-truncated "
        "variants; fields carrying yara options (lowercase, fmt, deprecation) are always populated. built-in modules (lnk, elf, macho, pe, dotnet, dex, crx: the smallest test samples of each) with the output computed by the module and, separately, the same output "
        "supplied through set_module_output; synthetic test_proto2 / test_proto3 messages built by reflection (every field: required always, optional with probability 0.3-0.8, "
        "repeated of length 0/1/2/3/6, maps with 0/1/2/4 entries incl. extreme int keys and empty/escaped string keys; values i32/i64/u32/u64 MIN/MAX/2^63, empty/long/non-ASCII/NUL "
        "strings and bytes, nested messages, enums). Per message up to 220 conditions over every field path: defined p, p == value, p == another value, absent fields, array "
        "elements at 0/last/len/len+7, len(), for any / for all, map keys present/missing, for any k,v, repeated message fields of absent messages (own cases). Cases run in child-process batches. One evaluation = one rule verdict plus the field indexes of the compiled rule. Non-trivial: every message; distinct by content.")

MAX_SAMPLE = 300_000
MODULES = ["lnk", "elf", "macho", "pe", "dotnet", "dex", "crx"]


def ihex_to_bin(text):
    mem, base = {}, 0
    for line in text.splitlines():
        line = line.strip()
        if not line.startswith(":"): continue
        b = bytes.fromhex(line[1:])
        n, addr, typ = b[0], (b[1] << 8) | b[2], b[3]
        data = b[4:4 + n]
        if typ == 0:
            for i, x in enumerate(data): mem[base + addr + i] = x
        elif typ == 1: break
        elif typ == 2: base = ((data[0] << 8) | data[1]) << 4
        elif typ == 4: base = ((data[0] << 8) | data[1]) << 16
    if not mem: return b""
    lo, hi = min(mem), max(mem)
    return bytes(mem.get(a, 0) for a in range(lo, hi + 1))


def prepare_samples(drv):
    """decode the smallest three .in.zip (zipped Intel HEX) samples of each module into .cache/c12_samples"""
    out = os.path.join(drv.CACHE, "c12_samples")
    for m in MODULES:
        src = sorted(glob.glob(os.path.join(drv.REPO, "lib/src/modules", m, "tests/testdata", "*.in.zip")), key=lambda p: (os.path.getsize(p), p))[:3]
        d = os.path.join(out, m)
        os.makedirs(d, exist_ok=True)
        want = set()
        for p in src:
            name = os.path.basename(p)[:-len(".in.zip")][:24] + ".bin"
            want.add(name)
            dst = os.path.join(d, name)
            if os.path.exists(dst) and os.path.getmtime(dst) >= os.path.getmtime(p): continue
            try:
                with zipfile.ZipFile(p) as z:
                    text = z.read(z.namelist()[0]).decode("ascii", "replace")
                data = ihex_to_bin(text)
            except Exception:
                continue
            if 0 < len(data) <= MAX_SAMPLE:
                with open(dst, "wb") as f: f.write(data)
        if m == "pe":
            # a file that is not a PE: the pe module's output has no rich_signature (witness of the repaired template-array defect, absent_message_array_empty)
            want.add("not_a_pe.bin")
            with open(os.path.join(d, "not_a_pe.bin"), "wb") as f: f.write(b"not a pe file")
        for old in os.listdir(d):
            if old not in want: os.remove(os.path.join(d, old))
    return out


def classify(case):
    label = str(case.get("label", "?")).split(" ")[0]
    if case.get("crashed"):
        return "C12:crash:" + label
    if label.startswith("block-scanner:fresh-vs-converted"):
        return "C12:block-scanner:fresh-vs-converted"
    return "C12:" + label


def run_k(run, tier, seed, drv):
    samples = prepare_samples(drv)
    n = 16 if tier == "quick" else 400          # synthetic scan sequences (3 scans = 3 cases each)
    info = standard_k(run, drv, "C12", "c12", ["--seed", seed, "--n", n, "--samples", samples], "K_C12_struct_lookup", classify)
    info["rule"] = RULE
    return info


MANIFEST = {
    "level_text": ("Machine-checked proof (Coq) over a model of how yara-x turns a module's protobuf output into the structures that conditions read: for every descriptor, "
                   "message and field path, walking the index path computed at compile time (from the descriptor, with the generated enum/function fields) through the "
                   "structure built at scan time from the message yields exactly the value stored in the message under that field name (lookup_correct); indexes do not "
                   "depend on the generated enum fields; absent proto2 fields are undefined (proto3: documented defaults), arrays of absent messages are empty; array length/order and map entries equal the "
                   "message's. The model is compared with the implementation on thousands of generated conditions over synthetic test_proto2/test_proto3 outputs and over "
                   "the outputs of built-in modules on sample files, computed by the module and supplied through set_module_output."),
    "level_note": ("The model is hand-written (no translator): a change in structure.rs/emit.rs/wasm lookup code is caught by the verdict comparison, not by a proof. "
                   "Evaluation of the comparison operators themselves belongs to C02. The compile-time template item of repeated message fields (generate_compile_time_fields) "
                   "is modelled; the input of the repaired defect (pe.rich_signature.tools on a non-PE file) stays in the corpus."),
    "technique": "Coq proof over a hand-written executable model + differential verdict comparison (vm_compute)",
    "design_ref": "DESIGN.md section 4, C12",
}
