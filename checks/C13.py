from checks.common import *

SPEC = {
    "translators": ["gen_conc", "gen_scanstate"],
    "bins": ["c13"],
    "model_targets": ["Conc/InterleaveCheck.vo", "Gen/ScanState.vo"],
    "proof_targets": ["Conc/InterleaveProofs.vo"],
    "assumptions": [
        "every access to the shared state (engine OnceLock, INIT_HEARTBEAT Once, HEARTBEAT_COUNTER, engine epoch) is an atomic step of the model; data races on `static mut ENGINE`, the lifetime transmutes around the wasmtime store and wasmtime's own internals are run-time behaviour that a model cannot exhibit: for those the claim rests on the sampled real schedules only (partial)",
        "a scan is abstracted to a list of private work items folded with an arbitrary function, with poll points that compare the shared counter / epoch with the scanner's own deadlines; the theorems hold for every such function and every program",
        "Rules are immutable after build and every scanner owns its store and memory (lib/src/compiler/mod.rs, scanner/context.rs): not modelled, covered by the differential runs",
        "real thread schedules are sampled by the operating system (2..16 threads in a fresh child process per session), not steered; the Coq model is run on the recorded history under a pseudo-random schedule",
        "a scanner that has a timeout may legitimately return Timeout at any poll once its own deadline (whole seconds, heartbeat granularity) has passed; such results are accepted; a Timeout without a deadline of its own, or with a deadline of more seconds than heartbeat periods can have elapsed in the session (wall seconds + 1 + simulated ticks), is a violation",
    ],
    "trusted_base": ["Gen/ConcGen.v: DEFAULT_SCAN_TIMEOUT, the timeout_secs formula, the poll comparison and the heartbeat period, regenerated from lib/src/scanner/context.rs; the translator also checks the shapes of the deadline assignment, the heartbeat loop, INIT_HEARTBEAT/ENGINE statics",
                     "Gen/ConcGen.v shared_writes: every call site of increment_epoch / write to HEARTBEAT_COUNTER / set_epoch_deadline in lib/src (hook files verif_*.rs and the runtime abstraction lib/src/wasm/runtime/ excluded) with target and place; Props/C13.v proves clock_single_writer = true from it and instantiates the model's scanner-writes-the-engine-clock switch with its negation",
                     "hook Scanner::verif_timeout_at_poll / verif_timeout_fired (cfg yara_x_verif, builder-c04's tick hook) for the deterministic session",
                     "Gen/ScanState.v (translate/gen_scanstate.py, shared with C04): per thread-local module cache, whether the staleness test first_use_in_scan precedes every access; Props/C13.v thread_local_caches_are_scan_scoped",
                     "thread-local module caches exercised by the sessions: hash (main runs) and math's distribution cache (module output supplied by the user, ranges >= 4096 bytes, same-sized buffers), with two scanners alternating on each thread; the format modules' caches (pe/elf/macho/dex/crx hashes) are covered by the generated fact only; Scanner is not Send, so scanners never migrate between threads"],
}

RULE = ("first, a deterministic session through the tick hook (scanner::verif_state): scanner A is made to time out in its pattern search 400 times "
        "(its own 1 s deadline passes at its first ac_search_loop poll) while scanner B on another thread (timeout 700 s) evaluates a ~2 s condition loop: B must complete with its solo result, "
        "400 simulated + a few real ticks cannot reach its deadline; then sessions in fresh child processes: 2..16 threads x 5-18 seeded operations each (Scanner::new / drop, scan of one of 9 generated buffers (three of the same size 8192 with different content) with one of TWO scanners alternating on the thread, on the shared Rules, optionally with the math module's output supplied by the user, "
        "with no timeout / 1 s / 3 s / 1000 s, a scan of a rule that never finishes with a 1-2 s timeout, Compiler::build of one of 3 source variants followed by a scan, "
        "Rules::deserialize_from followed by a scan); rules: 12 templates (text/regexp/hex/xor/wide/nocase patterns, loops, filesize, private, hash module); half of the sessions are cold: "
        "the first use of the process-wide engine (deserialize/build in all threads behind a barrier) and of the heartbeat thread (first timeout scans racing) happens in the concurrent phase "
        "and the sequential oracle is computed afterwards, otherwise before. Compared: canonical dump (matching rules with every match offset/length/xor key, non-matching rules) of every scan "
        "vs the same scan done sequentially. Distinct by (session seed, threads, cold).")


def classify(case):
    return "C13:" + str(case.get("class", "?"))


def run_k(run, tier, seed, drv):
    n = 20 if tier == "quick" else 300
    info = standard_k(run, drv, "C13", "c13", ["--seed", seed, "--n", n], "K_C13_interleave", classify)
    info["rule"] = RULE
    return info


MANIFEST = {
    "level_text": ("Machine-checked proof (Coq) over a labelled transition system of N threads with private scanner state (own deadline, own progress, own results) "
                   "and the process-wide shared state (engine, heartbeat counter, engine epoch, the two once-initialisations): for every number of threads, every program, "
                   "every private computation and every interleaving with the heartbeat, the projection on one scanner is a solo run of that scanner under the ticks it observed "
                   "(projection), every scan returns its solo result unless its OWN deadline passed (noninterference, own_deadline_only), a scanner without timeout cannot time out "
                   "in fewer than DEFAULT_SCAN_TIMEOUT ticks, other scanners' deadlines never change a scanner's state (deadline_is_private), and engine / heartbeat are initialised at most once. "
                   "DEFAULT_SCAN_TIMEOUT, the deadline formula and the poll comparison are regenerated from the Rust source on every run. Real concurrent sessions (fresh child process, "
                   "2..16 threads, scans with and without timeouts, builds, deserializations, first use of engine and heartbeat inside the concurrent phase) are compared scan by scan "
                   "with the sequential oracle and with the model's prediction of the allowed result classes."),
    "level_note": ("Partial: data races on `static mut ENGINE`, lifetime transmutes and wasmtime internals are run-time behaviour that the model cannot exhibit; for them the check only "
                   "samples real schedules. Trusted: Coq kernel, gen_conc.py, the harness and its canonical dump. Thread-local module caches: hash and math (with supplied module output) are exercised with two scanners alternating per thread; the format modules' caches rest on the generated staleness-test table only."),
    "technique": "Coq proof (projection / invariants) over an interleaving LTS with source-generated constants + differential concurrent sessions vs a sequential oracle",
    "design_ref": "DESIGN.md section 4, C13",
}
