from checks.common import *

SPEC = {
    "translators": ["gen_scanstate"],
    "bins": ["c14"],
    "model_targets": ["Pat/BlocksCheck.vo"],
    "proof_targets": ["Pat/BlocksProofs.vo", "Pat/BlocksPipelineProofs.vo", "Scanner/StateProofs.vo"],
    "assumptions": [
        "the pattern search on a block inside blocks::Scanner is the same function as the search yara_x::Scanner runs on that block alone (filesize pruning never applies to pattern-only rules; the header pre-filter only to the block at base 0, where both agree) - this is what K compares on every generated case",
        "MatchList::add keeps one match per start offset; for blocks_union which of two matches with the same start survives is left open (the theorem holds for every policy); the exact, position-dependent behaviour with bases is modelled by add_b (same-start arms generated from the source) and compared with the real MatchList through the hook",
        "unconfirmed chain matches are cleared between blocks (generated: blocks::Scanner::scan body), so a chain never completes across blocks; modelled by scan_one being applied to each block separately",
        "snippet retention (Match::data, context window) is not modelled in Coq; its specification is evaluated on the implementation's outputs (S)",
    ],
    "trusted_base": ["Gen/ScanState.v for the whole-file part (see C04) and for how verify_anchored_patterns makes the anchor relative to the block (overflowing_sub + skip)"],
}

RULE = ("virtual files of 120-620 bytes assembled from instances and near-misses of 2-5 patterns drawn from 13 kinds (text, nocase, wide, fullword, xor, "
        "hex with jumps, chained hex and regexp patterns (jump range > 200: [0-300], .{0,300}), greedy regexps, word boundaries, wildcards, base64), at offset 0 and at the last byte too; "
        "partitions with 0-5 random cuts (through matches), dropped segments (gaps), segments extended by up to 11 bytes, arbitrary overlapping blocks, a shorter/longer block at the base "
        "of another, repeated blocks, empty blocks (also at a used base), no block at all, shuffled delivery; context size 0/3/16; block scanner fresh / converted from a used Scanner / reused after a "
        "finished sequence; rules using `$p`, `$p at K`, `$p in (a..b)`, `#p >= n`; in two thirds of the cases 1-2 rules `$a at N or $b [or true]` whose literal is anchored "
        "(N in {0,1,2,4,7} or random), with copies of the literal placed after N at which blocks are made to start, and blocks with base = N, N+1, N-1: "
        "the anchored pattern must be reported exactly when the literal is at N inside a delivered block, nowhere else; one third of the cases are "
        "directed straddle scenarios: an occurrence of a greedy / variable-length pattern (/abc+/, /x[0-9]{2,5}/, /foo(barbaz|bar)/, /w[0-9]*/, /Q.*Z/, "
        "hex with a jump) crosses the END of one block (shorter match at the same start) and lies inside another overlapping block with a different base, "
        "with unrelated occurrences at higher and lower offsets in further blocks, delivered in any order; range(), data() and data_with_context() of every "
        "reported match are read and compared with the file's bytes. Half of the ordinary cases add 1-2 rules `$a at 0 and $b` / `$a at n and $b` / `$a in (0..n) and $b` ($b = the pattern of a plain rule): the conditions from which "
        "the compiler derives header constraints and fixed-offset checks; $b occurs in blocks with base != 0, the base-0 block matches / does not match / is absent / is "
        "shorter than the header, any delivery order. Plus n/4 sequences of MatchList::add calls with bases through the hook, compared call by call "
        "with the model (add_b). Reference: yara_x::Scanner::scan on every block alone. "
        "Plus 30 whole-file cases (filesize, uintN, hash, module fields, math x three histories). Distinct by (patterns, blocks, file prefix).")


def classify(case):
    if case.get("whole_file"):
        return f"C14:whole-file:{case.get('notion')}:{case.get('history')}"
    if "panic" in case:
        if case.get("blocks") == "[]":
            return "C14:panic:finish-without-any-block"
        if "Option::unwrap()" in str(case.get("panic")):
            return "C14:panic:unwrap-none-reading-results"
        return "C14:panic:block-scan"
    hr = case.get("header_rules") or []
    bad = [h for h in hr if h.get("matched") != h.get("expected")]
    if bad:
        if all(h.get("kind") == 0 and h.get("base0_block_shorter_than_header") and h.get("expected") and not h.get("matched") for h in bad):
            return "C14:header-pruning:block-at-base-0-shorter-than-header"
        return "C14:header-rule-verdict"
    return "C14:union-property"


def run_k(run, tier, seed, drv):
    n = 400 if tier == "quick" else 6000
    info = standard_k(run, drv, "C14", "c14", ["--seed", seed, "--n", n], "K_C14_blocks_union", classify, max_report=50)
    info["rule"] = RULE
    return info


MANIFEST = {
    "level_text": ("Machine-checked proof (Coq) that, for every per-block search function, every same-start policy and every list of (base, block) "
                   "pairs (any order, gaps, overlaps, empty and repeated blocks), the block scanner's matches are per-block matches shifted by the "
                   "block's base, with exactly the shifted start offsets (none lost, none spanning two blocks); for the literal family the per-block "
                   "search is the concrete pipeline model (offset-translation theorem: the pipeline on a block at base b = the pipeline on the block "
                   "alone, shifted by b); MatchList::add with block bases and the snippet collection are modelled arm by arm (same-start arms and the "
                   "anchor rule generated from the source): every listed match is, as a whole, a match of one delivered block and a stored snippet "
                   "covers it; the model is compared with "
                   "blocks::Scanner on generated partitions, and the property (including Match::data bytes, context windows clipped to the block, "
                   "absolute offsets for at/in/#) is evaluated on the implementation's outputs against yara_x::Scanner run on each block alone. "
                   "The whole-file clause is derived from the source-generated state model of C04: proved for every history (filesize, module "
                   "fields, hash/math caches are as in a fresh block scanner when a sequence starts)."),
    "level_note": ("Trusted: Coq kernel, harness, translator (whole-file part). The per-block search is concrete only for the literal family (C01's pipeline model); "
                   "for regexps and chained patterns it is the abstract scan_one, tied to the implementation differentially (directed straddle and "
                   "chain scenarios). Seven defects found by this check were "
                   "repaired (whole-file notions defined in block mode, panics with no block / overlapping blocks / a shorter block at the same "
                   "base); per-thread caches of format modules that are not scan-scoped remain a known finding of C04."),
    "technique": "Coq proof over a rebase/merge model with an abstract per-block search + differential comparison against per-block scans (vm_compute) + source-generated state model",
    "design_ref": "DESIGN.md section 4, C14",
}
