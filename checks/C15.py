from checks.common import *

SPEC = {
    "translators": ["gen_fmtrules"],
    "bins": ["c15"],
    "model_targets": ["Fmt/FmtCheck.vo", "Gen/FmtRules.vo", "Fmt/Pipeline.vo", "Fmt/Stages.vo"],
    "proof_targets": ["Fmt/ProcessorProofs.vo", "Fmt/BubbleProofs.vo", "Fmt/FmtRulesProofs.vo", "Fmt/StagesProofs.vo", "Fmt/PipelineProofs.vo", "Fmt/YrFmtProofs.vo"],
    "generated_obligations": ["safe_stages_b Gen.FmtRules.stages = true", "forallb bubble_safe_b Gen.FmtRules.bubbles = true", "ok_pipeline false Gen.FmtRules.pipeline = true", "forallb line_break_stage_sees_comments Gen.FmtRules.stages = true"],
    "assumptions": [
        "proved for the Processor engine and the Bubble stage as modelled in Fmt/Processor.v and Fmt/Bubble.v (tied to the code by differential runs of the real engine through the cfg(yara_x_verif) hook fmt/src/verif_fmt.rs); rule conditions are arbitrary functions of the context that entail the conjuncts extracted by the translator",
        "the five stages that are not rule-based (CommentProcessor, FormatHexPatterns, Align, AddIndentation, RemoveTrailingSpaces) are modelled by hand as coded (Fmt/Stages.v, byte-exact tokens) and compared with the real stages token for token through the hook; the end-to-end theorem is about completed runs of the composition of the stage models in the order extracted from format_impl: that no stage panics, that Processor stages terminate and that Align never ends its stream early (an alignment block that expands to nothing makes the real iterator return None with input left) are hypotheses of the theorem, evaluated on the implementation only, as are idempotence and the front end (tokenizer/CST -> tokens); the back end write_to (column bookkeeping in BYTES, re-indentation of the continuation lines of comments) is modelled as coded (Stages.write_to) and compared byte for byte with the real one through the hook, but not part of the end-to-end theorem",
        "the end-to-end theorem reads comments as their sequence of lines without leading whitespace (the indentation of continuation lines), independent of how consecutive comments are grouped into tokens, and assumes the initial stream has no typed comment tokens (Tokens only produces raw Comment tokens)",
        "significant tokens are compared as (SyntaxKind, text) of the yara_x_parser token stream, comments modulo the indentation of continuation lines and the kind of line break inside them",
        "input tab sizes 1, 2, 4, 8 (a tab size of 0 is accepted by the API but makes the formatter's own tab-indented output unreadable to it; not counted)",
    ],
    "trusted_base": ["Gen/FmtCats.v, Gen/FmtRules.v: token categories, per-rule action and drop guards of every Processor stage, Bubble classes; regenerated from fmt/src/tokens/mod.rs, fmt/src/processor/mod.rs, fmt/src/lib.rs",
                     "fmt/src/verif_fmt.rs (hook): data view of tokens, Processor, Bubble, the five hand-written stages and write_to",
                     "`yr` built from /repo/cli into .cache/target-cli (shared with C20), when it builds in time"],
}

RULE = ("CFmt: sources built from lexeme lists (imports, includes, 1-4 rules with tags, meta, text/hex/regexp patterns with modifiers, "
        "conditions of depth 1-5 incl. for/of/with/at/in, field access, string operators) joined by 5 spacing styles (tidy, messy, "
        "heavily commented with //, /* */ and multi-line comments in every gap, one-line, CRLF+tabs, Unicode spaces), non-ASCII in comments "
        "and literals; 1 in 14 sources has tail comments continued by aligned comment lines with tab/space indentation, formatted with the "
        "matching tab size and mostly Indentation::Tabs, or multi-line /* */ comments after code on the same line (incl. non-ASCII literals "
        "before them), or a /* */ comment right after `strings:` / `meta:` with the definitions on the same line; "
        "20% token-level mutations (delete/dup/swap/garbage/truncate), 10% byte-level mutations incl. invalid UTF-8; each under 2 rows of a "
        "pairwise covering array over the 7 boolean options x 6 indentations x 4 input tab sizes (+ random rows); checked per case: no "
        "panic/hang, significant tokens of output = input, modified flag = (output != input), second pass changes nothing, input and output compile alike (same error codes, or same verdicts and matches on 3 buffers; every third case in the quick tier). "
        "CYr: the real `yr fmt` (built from /repo/cli) with a generated configuration file and -t, in place and --check, 1-3 files per "
        "invocation (already formatted; output shorter than the input: deep indentation, trailing spaces, blank lines; longer; aligned "
        "comments; invalid UTF-8), against the model of cli/src/commands/fmt.rs: each file afterwards = the library's output iff modified, "
        "else untouched (modification time), exit status. "
        "CStage: the real CommentProcessor (5 tab sizes; half of the streams directed at its column bookkeeping: tab/space indentation, code, "
        "a comment, follow-up comments placed in the same column counting tabs as tab_size / as 1 / off by one) / FormatHexPatterns / Align / AddIndentation (5 settings) / RemoveTrailingSpaces vs "
        "Fmt/Stages.v token for token, and the real write_to vs Stages.write_to byte for byte (token streams after the real comment stage, with "
        "tabs, indentation-free multi-line comments after non-ASCII text), on real token streams (raw, or after the real comment and whitespace-dropping stages) with control "
        "tokens, spaces and line breaks sprinkled in (alignment blocks incl. unbalanced/nested/empty ones). "
        "CProc/CBubble/CCats: the real Processor/Bubble/Token::category (hook) vs the Coq model on real token streams of small sources with "
        "1-4 generated rules (conditions over token(+-1..3).is/eq/in_rule with and/or/not; drop/copy/insert incl. Begin/End) and 8 "
        "pass-through categories. Distinct = distinct source texts.")


def classify(case):
    if case.get("kind") == "yr-fmt":
        return "C15:" + case.get("class", "yr-fmt")
    if case.get("kind") != "fmt":
        return "C15:model-vs-implementation:" + str(case.get("kind"))
    return "C15:" + (case.get("class") or "unclassified")


def run_k(run, tier, seed, drv):
    from checks.C20 import build_yr
    yr, yrc, yout, ydt = build_yr(drv, 400 if tier == "quick" else 2400)   # seconds when the cache is warm
    if tier == "quick":
        args = ["--seed", seed, "--n", 1100, "--n-proc", 320, "--n-stage", 420, "--opts", 2, "--behaviour-every", 3]
    else:
        args = ["--seed", seed, "--n", 24000, "--n-proc", 5000, "--n-stage", 6000, "--opts", 4]
    if yr:
        args += ["--yr", yr, "--n-yr", 25 if tier == "quick" else 400]
    info = standard_k(run, drv, "C15", "c15", args, "K_C15_processor_bubble_stages_categories_yr_fmt", classify, max_report=80)
    if not yr:
        run.notes.append({"yr_not_built": f"`cargo build -p yara-x-cli` did not finish (rc={yrc}, {ydt:.0f}s): `yr fmt` was not compared with the formatter in this run; {yout[-300:]}"})
        if tier != "quick":
            info["broken"].append(("K_C15_yr_fmt", f"the `yr` binary could not be built from /repo/cli (rc={yrc}): {yout[-400:]}"))
    info["rule"] = RULE
    return info


def replay(d, drv):
    import tempfile, json, os
    case = d.get("case", d)
    with tempfile.NamedTemporaryFile("w", suffix=".json", delete=False) as f:
        json.dump(case, f)
    rc, out, _ = drv.sh([drv.hbin("c15"), "--probe", f.name], timeout=120)
    os.unlink(f.name)
    print(out)
    return rc


MANIFEST = {
    "level_text": ("Machine-checked proof (Coq) that every stage of the formatter's pipeline preserves the significant content of every "
                   "token stream, and END-TO-END that the composition of all stages - in the order and under the options extracted from "
                   "format_impl on every run - does, for every option combination, tab size and indentation: the rule engine (Processor) "
                   "for every rule list satisfying a decidable safety predicate that the 21 extracted rule lists are shown to satisfy by "
                   "computation (a rule that drops a non-whitespace token, inserts a significant one or swaps breaks the proof), the 3 "
                   "Bubble stages, and the five hand-written stages (CommentProcessor, FormatHexPatterns, Align, AddIndentation, "
                   "RemoveTrailingSpaces) modelled as coded on byte-exact tokens; text tokens are preserved exactly, comments as their "
                   "sequence of lines modulo leading whitespace. The `modified` flag is proved to be output != input (byte comparison, "
                   "shape re-read from the source). Every stage model is compared with the real stage token for token on real token "
                   "streams; the whole-formatter clauses (token sequence in = out, idempotence, modified flag, same compiled behaviour, "
                   "no panic/hang) are evaluated on the implementation over generated sources x a pairwise covering array of the options."),
    "level_note": ("Partial: the end-to-end theorem is about completed runs (hypotheses: no stage panics, Processor stages terminate, "
                   "Align does not end its stream early - it can, when an alignment block expands to nothing; not observed through the "
                   "Formatter); conditions of Processor rules are abstracted to the extracted conjuncts; the tokenizer/CST front end is "
                   "outside the model, write_to is modelled and compared but not in the theorem; idempotence is tested, not proved, and fails on the unchanged tree in several "
                   "comment-related shapes and on sources with syntax errors (known findings). Trusted: Coq kernel, translator "
                   "gen_fmtrules.py, the harness, the hook fmt/src/verif_fmt.rs."),
    "technique": "Coq proof over an engine model with source-generated rule descriptions + differential correspondence (vm_compute) + property evaluation on the implementation",
    "design_ref": "DESIGN.md section 4, C15",
}
