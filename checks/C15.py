from checks.common import *

SPEC = {
    "translators": ["gen_fmtrules"],
    "bins": ["c15"],
    "model_targets": ["Fmt/FmtCheck.vo", "Gen/FmtRules.vo"],
    "proof_targets": ["Fmt/ProcessorProofs.vo", "Fmt/BubbleProofs.vo", "Fmt/FmtRulesProofs.vo"],
    "generated_obligations": ["safe_stages_b Gen.FmtRules.stages = true", "forallb bubble_safe_b Gen.FmtRules.bubbles = true"],
    "assumptions": [
        "proved for the Processor engine and the Bubble stage as modelled in Fmt/Processor.v and Fmt/Bubble.v (tied to the code by differential runs of the real engine through the cfg(yara_x_verif) hook fmt/src/verif_fmt.rs); rule conditions are arbitrary functions of the context that entail the conjuncts extracted by the translator",
        "the five stages that are not rule-based (CommentProcessor, FormatHexPatterns, Align, AddIndentation, RemoveTrailingSpaces) are not modelled: token preservation across the whole pipeline, idempotence, the modified flag and termination are evaluated on the implementation only",
        "significant tokens are compared as (SyntaxKind, text) of the yara_x_parser token stream, comments modulo the indentation of continuation lines and the kind of line break inside them",
        "input tab sizes 1, 2, 4, 8 (a tab size of 0 is accepted by the API but makes the formatter's own tab-indented output unreadable to it; not counted)",
    ],
    "trusted_base": ["Gen/FmtCats.v, Gen/FmtRules.v: token categories, per-rule action and drop guards of every Processor stage, Bubble classes; regenerated from fmt/src/tokens/mod.rs, fmt/src/processor/mod.rs, fmt/src/lib.rs",
                     "fmt/src/verif_fmt.rs (hook): data view of tokens, Processor and Bubble"],
}

RULE = ("CFmt: sources built from lexeme lists (imports, includes, 1-4 rules with tags, meta, text/hex/regexp patterns with modifiers, "
        "conditions of depth 1-5 incl. for/of/with/at/in, field access, string operators) joined by 5 spacing styles (tidy, messy, "
        "heavily commented with //, /* */ and multi-line comments in every gap, one-line, CRLF+tabs), non-ASCII in comments and literals; "
        "20% token-level mutations (delete/dup/swap/garbage/truncate), 10% byte-level mutations incl. invalid UTF-8; each under 2 rows of a "
        "pairwise covering array over the 7 boolean options x 6 indentations x 4 input tab sizes (+ random rows); checked per case: no "
        "panic/hang, significant tokens of output = input, modified flag = (output != input), second pass changes nothing, input and output compile alike (same error codes, or same verdicts and matches on 3 buffers). "
        "CProc/CBubble/CCats: the real Processor/Bubble/Token::category (hook) vs the Coq model on real token streams of small sources with "
        "1-4 generated rules (conditions over token(+-1..3).is/eq/in_rule with and/or/not; drop/copy/insert incl. Begin/End) and 8 "
        "pass-through categories. Distinct = distinct source texts.")


def classify(case):
    if case.get("kind") != "fmt":
        return "C15:model-vs-implementation:" + str(case.get("kind"))
    return "C15:" + (case.get("class") or "unclassified")


def run_k(run, tier, seed, drv):
    if tier == "quick":
        args = ["--seed", seed, "--n", 1200, "--n-proc", 500, "--opts", 2]
    else:
        args = ["--seed", seed, "--n", 24000, "--n-proc", 6000, "--opts", 4]
    info = standard_k(run, drv, "C15", "c15", args, "K_C15_processor_bubble_categories", classify, max_report=60)
    info["rule"] = RULE
    return info


def replay(d, drv):
    import tempfile, json, os
    case = d.get("case", d)
    with tempfile.NamedTemporaryFile("w", suffix=".json", delete=False) as f:
        json.dump(case, f)
    rc, out, _ = drv.sh([drv.hbin("c15"), "--probe", f.name], timeout=120)
    os.unlink(f.name)
    print(out)
    return rc


MANIFEST = {
    "level_text": ("Machine-checked proof (Coq) that the formatter's rule engine (Processor) and its Bubble stage, for every token "
                   "stream, every pass-through category and every rule list / class pair satisfying a decidable safety predicate, "
                   "yield exactly the significant tokens of their input in the same order (and a prefix of them if the engine "
                   "panics); the rules and classes of all 21 Processor stages and 3 Bubble stages are regenerated from "
                   "fmt/src/lib.rs on every run and shown to satisfy the predicate by computation, so a rule that drops a "
                   "non-whitespace token, inserts a significant one or swaps breaks the proof. The engine models are compared "
                   "with the real engine on real token streams. The whole-formatter clauses (token sequence in = out, "
                   "idempotence, modified flag, no panic/hang) are evaluated on the implementation over generated sources x a "
                   "pairwise covering array of the options."),
    "level_note": ("Partial: idempotence, the modified flag, termination and the five non-rule-based stages (comments, hex re-flow, "
                   "alignment, indentation, trailing spaces) are tested on the implementation, not proved. Idempotence fails on the "
                   "unchanged tree in several comment-related shapes and on sources with syntax errors (known findings). Trusted: "
                   "Coq kernel, translator gen_fmtrules.py, the harness, the hook fmt/src/verif_fmt.rs."),
    "technique": "Coq proof over an engine model with source-generated rule descriptions + differential correspondence (vm_compute) + property evaluation on the implementation",
    "design_ref": "DESIGN.md section 4, C15",
}
