from checks.common import *

SPEC = {
    "translators": ["gen_scanstate"],
    "bins": ["c16"],
    "model_targets": ["Scanner/TimeoutCheck.vo"],
    "proof_targets": ["Scanner/TimeoutProofs.vo", "Scanner/StateProofs.vo"],
    "assumptions": [
        "the heartbeat thread advances HEARTBEAT_COUNTER and the engine epoch together (one line apart in the source; the window between the two updates is not modelled)",
        "where the emitted code consults the epoch (function entries, loop back-edges) and how promptly wasmtime delivers the trap is the runtime's business: the model proves the outcome for EVERY placement of epoch checks; the harness tries both extremes for its prediction",
        "a scan is modelled as a sequence of epoch checks, host calls and at most one effective search; results are the contributions in order",
        "C04's assumptions for reset_after_timeout_clean",
    ],
    "trusted_base": ["Gen/ScanState.v: DEFAULT_SCAN_TIMEOUT, the clamp formula shape, the two `>=` polls of ac_search_loop, the reactions to a timeout in search_for_patterns / the host function / eval_conditions",
                     "hook lib/src/verif_state.rs: tick() at the poll sites makes exactly one scanner's deadline pass by doing what the heartbeat thread does"],
}

RULE = ("3 rule sets x 9 buffers x {contiguous, block}: a dry run records the interruption sites (atom-hit polls, host calls); for every k up to "
        "the number of sites + 1 (sampled to 24 per scan when there are more; all first/last ones kept) the deadline is made to pass at site k. "
        "Observed: the scan's result (Timeout or a dump compared with the uninterrupted one), the next scan on the same scanner vs a fresh "
        "scanner, a scanner without timeout on the same thread. Thorough adds runs against the real 1 s heartbeat (a condition looping for minutes, "
        "timeout 1 s: must end with Timeout within 10 s). Every case is distinct (rule set, buffer, mode, k).")


def classify(case):
    mode = "block" if case.get("block_mode") else "contiguous"
    if case.get("result_part") != "ok":
        return f"C16:{case.get('result_part')}:{mode}"
    if case.get("next_diff") != "same":
        return f"C16:next-scan-differs:{mode}:{case.get('next_diff')}"
    if case.get("other") != "same":
        return f"C16:other-scanner-affected:{mode}"
    return "C16:unclassified"


def run_k(run, tier, seed, drv):
    args = ["--seed", seed, "--max-k", 24] if tier == "quick" else ["--seed", seed, "--max-k", 400, "--real", 3]
    info = standard_k(run, drv, "C16", "c16", args, "K_C16_timeout_machine", classify, max_report=50)
    info["rule"] = RULE
    return info


MANIFEST = {
    "level_text": ("Machine-checked proof (Coq) over a timeout machine (shared clock, per-scanner deadlines, poll sites; the reactions to a timeout "
                   "are booleans regenerated from the Rust source): for every scan, timeout and heartbeat schedule the result is Timeout or the "
                   "complete result, never a partial one; a passed deadline stops the scan at the next consultation; the deadline arithmetic "
                   "cannot overflow; a scanner without timeout is not interrupted; the scan after a timeout starts from a fresh scanner's state "
                   "(C04's invariant). A hook makes one scanner's deadline pass at the k-th interruption site, for every k, and the machine's "
                   "prediction (must time out / must complete / either) is compared with the implementation; results, the next scan and a "
                   "second scanner are compared with uninterrupted runs."),
    "level_note": ("Trusted: Coq kernel, translator, harness, hook. Partial: promptness inside the emitted code (where wasmtime checks the "
                   "epoch) is exercised by real-heartbeat runs in the thorough tier only. The defect found by this check (stale snippets after a timed-out "
                   "finish in block mode) was repaired."),
    "technique": "Coq proof over a timeout machine with source-generated reactions + deterministic expiry injection at every poll site (hook) + differential comparison",
    "design_ref": "DESIGN.md section 4, C16",
}
