from checks.common import *

SPEC = {
    "translators": ["gen_tracking"],
    "bins": ["c17"],
    "model_targets": ["Scanner/TrackingCheck.vo"],
    "proof_targets": ["Scanner/PrivIterProofs.vo", "Scanner/TrackingProofs.vo"],
    "assumptions": [
        "rule conditions are abstracted to a verdict function of (rule id, rule bitmap); the theorems hold for every such function",
        "the order in which emitted code evaluates rules (ascending id, namespace blocks left on a failing global rule) is modelled by hand and tied to the code by K",
        "memory safety of the bitmap accesses is not modelled",
    ],
    "trusted_base": ["Gen/TrackingGen.v: iterator length formulas and the rule_no_match call policy, regenerated from lib/src/scanner/mod.rs and lib/src/wasm/builder.rs"],
}

RULE = ("rule sets with 1-4 namespaces, 0-25 rules each, random global/private flags, constant conditions and references to "
        "earlier rules of the namespace, 0-4 (private) patterns per rule; contiguous and block mode; traced: len() before every "
        "next() of matching_rules / non_matching_rules / patterns under both include_private settings. Non-trivial: >= 2 rules; "
        "distinct by rule-set structure.")


def classify(case):
    return "C17:iterator-contract:" + ("block" if case.get("block_mode") else "contiguous")


def run_k(run, tier, seed, drv):
    n = 600 if tier == "quick" else 12000
    info = standard_k(run, drv, "C17", "c17", ["--seed", seed, "--n", n], "K_C17_tracking", classify)
    info["rule"] = RULE
    return info

MANIFEST = {
    "level_text": ("Machine-checked proof (Coq) that, for every rule list, every verdict function and every include_private "
                   "setting, the MatchingRules/NonMatchingRules/Patterns iterators announce exactly the number of items "
                   "they still yield at every step, never underflow, hide private items unless asked, and that matching and "
                   "non-matching rules partition the rule ids. The iterator length formulas and the rule_no_match call policy "
                   "are regenerated from the Rust source on every run; the hand-written tracking model is compared with the "
                   "implementation's traces on generated rule sets (contiguous and block mode)."),
    "level_note": ("Trusted: Coq kernel, the translator gen_tracking.py, the harness and the hand-written model of "
                   "track_rule_match/track_rule_no_match/finish_rule evaluation order (tied by differential traces). "
                   "Match data/context-window faithfulness is covered by C01/C14 checks, not here."),
    "technique": "Coq proof over a model with source-generated definitions + differential correspondence (vm_compute)",
    "design_ref": "DESIGN.md section 4, C17",
}
