from checks.common import *

SPEC = {
    "translators": ["gen_tracking"],
    "bins": ["c17", "c17m"],
    "model_targets": ["Scanner/TrackingCheck.vo", "Scanner/SnippetsCheck.vo"],
    "proof_targets": ["Scanner/PrivIterProofs.vo", "Scanner/TrackingProofs.vo", "Scanner/ResultsProofs.vo", "Scanner/SnippetsProofs.vo", "Scanner/MatchesIterProofs.vo"],
    "assumptions": [
        "rule conditions are abstracted to a verdict function of (rule id, rule bitmap); the theorems hold for every such function",
        "the order in which emitted code evaluates rules (ascending id, namespace blocks left on a failing global rule) is modelled by hand and tied to the code by K",
        "memory safety of the bitmap accesses is not modelled",
    ],
    "trusted_base": ["Gen/TrackingGen.v: iterator length formulas and the rule_no_match call policy, regenerated from lib/src/scanner/mod.rs and lib/src/wasm/builder.rs; the shape of Matches::next / Matches::len / Pattern::matches regenerated from lib/src/models.rs"],
}

RULE = ("rule sets with 1-4 namespaces, 0-25 rules each, random global/private flags, constant conditions and references to "
        "earlier rules of the namespace, 0-4 (private) patterns per rule; contiguous and block mode; traced: len() before every "
        "next() of matching_rules / non_matching_rules / patterns under both include_private settings. Non-trivial: >= 2 rules; "
        "distinct by rule-set structure.")


RULE_M = (" Match data: 1-4 literal patterns over buffers of 8-64 bytes built from the patterns' own tokens so that matches are close together; "
          "contiguous scans and block scans (1-24 byte blocks, gaps, arbitrary first base, sometimes delivered in reverse order); match_context_size in "
          "{0,1,2,3,4,5,8,16,1000}; observed per match: range, data(), data_with_context(). Non-trivial: >= 2 matches.")


def classify(case):
    return "C17:iterator-contract:" + ("block" if case.get("block_mode") else "contiguous")


def classify_m(case):
    return "C17:match-data:" + ("contiguous" if case.get("single") else "block") + ":ctx=" + str(case.get("context_size"))


def merge(a, b):
    out = dict(a)
    for k in ("evaluations", "distinct_nontrivial", "traces_validated_against_impl", "k_disagreements", "s_violations"):
        out[k] = a.get(k, 0) + b.get(k, 0)
    out["samples"] = (a.get("samples") or [])[:2] + (b.get("samples") or [])[:2]
    out["distribution"] = {"iterators": a.get("distribution"), "match_data": b.get("distribution")}
    out["broken"] = a.get("broken", []) + b.get("broken", [])
    out["violations"] = a.get("violations", []) + b.get("violations", [])
    return out


def run_k(run, tier, seed, drv):
    n = 600 if tier == "quick" else 12000
    a = standard_k(run, drv, "C17", "c17", ["--seed", seed, "--n", n], "K_C17_tracking", classify)
    m = 500 if tier == "quick" else 10000
    b = standard_k(run, drv, "C17m", "c17m", ["--seed", seed, "--n", m], "K_C17_snippets", classify_m)
    info = merge(a, b)
    info["rule"] = RULE + RULE_M
    return info

MANIFEST = {
    "level_text": ("Machine-checked proof (Coq) that, for every rule list, every verdict function and every include_private "
                   "setting, the MatchingRules/NonMatchingRules/Patterns iterators announce exactly the number of items "
                   "they still yield at every step, never underflow, hide private items unless asked, and that matching and "
                   "non-matching rules partition the rule ids; and that every match is reported with exactly the requested context clipped to the data "
                   "(contiguous) or to its own block (block mode, any list of disjoint blocks), with the block's bytes at that range. The iterator length formulas and the rule_no_match call policy "
                   "are regenerated from the Rust source on every run; the hand-written tracking model is compared with the "
                   "implementation's traces on generated rule sets (contiguous and block mode)."),
    "level_note": ("Trusted: Coq kernel, the translator gen_tracking.py, the harness and the hand-written model of "
                   "track_rule_match/track_rule_no_match/finish_rule evaluation order (tied by differential traces). "
                   "Match data/context windows: get_with_context and the block scanner's snippet retention are modelled by hand and tied by differential cases; blocks are assumed pairwise disjoint in the block-mode theorem."),
    "technique": "Coq proof over a model with source-generated definitions + differential correspondence (vm_compute)",
    "design_ref": "DESIGN.md section 4, C17",
}
