from checks.common import *
import re

SPEC = {
    "translators": ["gen_walk"],
    "bins": ["c18"],
    "model_targets": ["Cli/WalkCheck.vo"],
    "proof_targets": ["Cli/WalkProofs.vo"],
    "assumptions": [
        "the walk is modelled as a labelled transition system whose steps are the blocking channel operations of cli/src/walk.rs (one step = one send/recv, the scan of one file, or a thread returning); crossbeam channels are assumed to be FIFO queues with the documented blocking/disconnect behaviour; threads are assumed to run (fairness is not needed: the theorems are about every finite schedule and every maximal one ends)",
        "the directory iterator (globwalk/walkdir) is abstracted to the list of entries it yields; the scan of a file is abstracted to an arbitrary function file -> result lines (the theorems hold for every such function); what the real scanner returns per file is compared with the library API by the harness",
        "real thread schedules are sampled by the operating system, not steered: the harness runs the real yr binary with 1..32 threads on generated trees; the Coq model is run under a pseudo-random schedule derived from the case seed and must print the same multiset",
        "sending Message::Error and Message::Abort are two channel operations in the code and one model step; console.log messages, json output and the second (post-join) output channel are not modelled; the option plumbing (--define, --tag, --negate, --count, ...) is outside the channel model: it is covered by the translator's shape check of the per-worker scanner initialisation and by the option-matrix runs (source vs compiled vs library)",
        "a run that hits the 60 s limit is repeated (3 attempts) and only reported as a hang if it hangs every time; single stalls are counted in the distribution",
        "after an Abort (only with --timeout) nothing is claimed about WHICH lines are printed; the process must still terminate: the model proves it for the receiver fact of the source (no_deadlock) and the abort probe checks it on the real binary",
    ],
    "trusted_base": ["Gen/WalkGen.v: channel capacity, fallback thread count and the `main keeps the paths Receiver` fact, regenerated from cli/src/walk.rs; the translator also checks 22 syntactic shapes of walk.rs / scan.rs / main.rs the model relies on, including that the per-thread initialisation closure of scan.rs applies every --define (set_global loop) and the scan options to each worker's own scanner",
                     "the yr binary is built from /repo's working tree by `cargo build --offline -p yara-x-cli` (hooks off) before the harness runs"],
}

RULE = ("generated directory trees (0-600 files, nested directories up to depth 4, 15% empty files, names with spaces / non-ASCII / leading dot, "
        "20% of the trees larger than the paths channel; streams: stable, entries unreadable for the scanning user (chmod 000 files and directories, yr run as uid 65534), "
        "files removed after yr printed its first line, file names that are not UTF-8) x 2-11 generated rules (text/hex/regexp/filesize/count/private) x "
        "--threads 1..32 x text|ndjson x source|`yr compile`+--compiled-rules x --recursive / --recursive=K / none; the output is parsed into a multiset of "
        "(file, rule) lines (ndjson: (file, rule set), one line per file) and compared with per-file scans through the library API and with the --threads 1 run; "
        "the Coq model is run with the same thread count under a seeded pseudo-random schedule. Option matrix (30% of the trees + a fixed first case): rules over external variables of every type (int/string/bool/float), tags, meta, a private rule, a module; `yr compile` with compile-time --define values, then `yr scan <opts> rules.yar` vs `yr scan <opts> --compiled-rules rules.yarc` with scan-time --define values that differ, x --tag / --negate / --count / --max-matches-per-pattern / --print-strings[=N] / --print-meta / --print-tags / --print-namespace / --path-as-namespace / --ignore-module (compile vs scan) / --skip-larger / --recursive[=K] / --scan-list / text|ndjson / threads 1..32: the two outputs must be equal as sorted lines and both equal the per-file library oracle computed with the SAME globals and scan options. First, as regression corpus: the abort probe (capacity+1 / capacity+2 files, -p 1 -a 1, a rule that never ends: must exit) and a tree with non-UTF-8 file names (printed lossily, U+FFFD, in both formats). "
        "Non-trivial: >= 2 files in scope and >= 2 threads; distinct by (tree, threads, format, rules form).")



def classify(case):
    if case.get("kind") == "abort-probe":
        return "C18:probe:" + str(case.get("class"))
    return "C18:" + str(case.get("class", "?"))


def build_yr(drv, timeout=3000):
    """the real CLI, from /repo's working tree, hooks off"""
    with drv.Lock("cargo"):
        rc, out, dt = drv.sh(["cargo", "build", "--offline", "-p", "yara-x-cli"], cwd=drv.REPO, timeout=timeout,
                             env={"RUSTFLAGS": ""})
    return rc, out, dt


def generated_capacity(drv):
    txt = open(os.path.join(drv.COQ, "Gen", "WalkGen.v"), encoding="utf-8").read()
    m = re.search(r"Definition paths_channel_capacity : nat := (\d+)\.", txt)
    return int(m.group(1)) if m else None


def run_k(run, tier, seed, drv):
    rc, out, dt = build_yr(drv)
    yr = os.path.join(drv.REPO, "target", "debug", "yr")
    if rc != 0 or not os.path.exists(yr):
        return {"broken": [("yr-build", f"cargo build -p yara-x-cli failed rc={rc}: {out[-1200:]}")], "violations": []}
    cap = generated_capacity(drv)
    if cap is None:
        return {"broken": [("translator gen_walk", "Gen/WalkGen.v has no paths_channel_capacity")], "violations": []}
    n = 90 if tier == "quick" else 2400
    info = standard_k(run, drv, "C18", "c18", ["--seed", seed, "--n", n, "--yr", yr, "--cap", cap], "K_C18_walk", classify)
    info["rule"] = RULE
    return info


MANIFEST = {
    "level_text": ("Machine-checked proof (Coq) over a labelled transition system of cli/src/walk.rs (walker thread, bounded paths channel, N workers, "
                   "unbounded message channel, printer, abort and panic paths): for every number of workers N >= 1, every channel capacity, every list of "
                   "directory entries, every per-file result function and every schedule, a completed run without abort has handled every walked file "
                   "exactly once and printed exactly the union of each file's own result lines (multiset equality, each line tagged with its file); "
                   "no non-final state is stuck, aborted runs included (for the receiver fact of the source; without it the hang is proved reachable), and every schedule is finite (decreasing measure). The channel capacity "
                   "and the structural facts the model relies on are regenerated from the Rust source on every run. The real yr binary is run on generated "
                   "trees with 1..32 threads, text and ndjson, source and compiled rules, and its output multiset is compared with per-file library scans, "
                   "with the single-thread run, and with the Coq model run under a seeded pseudo-random schedule."),
    "level_note": ("Partial: real thread schedules are sampled, not steered; the proof is about the model of the channel protocol, tied to the source by "
                   "the translator's shape checks and by differential runs. Trusted: Coq kernel, gen_walk.py, the harness (tree generator, output parser), "
                   "crossbeam channel semantics, globwalk. After an abort (--timeout) only termination is claimed, not the set of printed lines. "
                   "Two defects found by this check were repaired (686deaba hang after abort, 20aad900 ndjson panic on non-UTF-8 names); both stay in the corpus as regression cases."),
    "technique": "Coq proof (invariants + measure) over an LTS with source-generated constants + differential runs of the real binary vs library oracle and vs the executable model",
    "design_ref": "DESIGN.md section 4, C18",
}
