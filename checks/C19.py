from checks.common import *
import re

SPEC = {
    "translators": ["gen_capi"],
    "bins": ["c19"],
    "model_targets": ["Capi/CapiCheck.vo"],
    "proof_targets": ["Capi/LastErrorProofs.vo"],
    "assumptions": [
        "a call is modelled by the return path it takes: (result, effect on the calling thread's slot) as extracted syntactically from capi/src by gen_capi.py (last _yrx_set_last_error executed on the path, helper functions expanded); what the wrapped yara_x call does is outside the model and covered by the parity comparison",
        "callbacks passed to the API do not change the last-error slot behind the enclosing call's back (the harness records as events only calls whose callbacks do not re-enter the API)",
        "the unit of yrx_scanner_set_timeout is checked as a generated fact only (Duration constructor in the wrapper vs the unit stated in the header comment): the configured duration cannot be read back through the C API and a wall-clock comparison would be slow and flaky",
        "which codes carry detail (SYNTAX_ERROR, VARIABLE_ERROR, SCAN_ERROR, SCAN_TIMEOUT, INVALID_UTF8, SERIALIZATION_ERROR) is read from the header comments; INVALID_ARGUMENT / INVALID_STATE / NO_METADATA / NOT_SUPPORTED are self-describing",
        "thread-locality of the slot is taken from the `thread_local!` declaration (generated last_error_storage) and validated by two-thread runs",
        "module outputs cannot be read back through the C API; parity of module data is checked through rule verdicts after yrx_scanner_set_module_output",
    ],
    "trusted_base": ["Gen/CapiEffects.v: YRX_RESULT variants, exported functions, per-function return paths with last-error effects, storage class of LAST_ERROR, message conversion, the flag -> Compiler method table of _yrx_compiler_create, the operations of every wrapper on the pending module data and the value-plumbing tables (out parameters, YRX_* structure literals, callback loops, CString sources, metadata arms, global setters), regenerated from capi/src/*.rs (flag values cross-checked with capi/include/yara_x.h)",
                     "extern declarations of the yrx_compiler_* functions in harness/src/bin/c19.rs (capi's `compiler` module is private; signatures copied from capi/src/compiler.rs)"],
}

RULE = ("pending-inputs sequences (about 1 case in 10): one scanner, 7-20 steps of yrx_scanner_set_module_data (cuckoo report A/B; the buffer is overwritten by the caller after the next "
        "scan), set_module_output (test_proto2 with int32_one 7/9), set_global_int and scans through yrx_scanner_scan, yrx_scanner_scan_file, scan_block/finish, then the refused calls of "
        "block mode; every scan's verdicts show which report / output / global it saw; replayed by the pending-inputs model over the generated module_data operation table and mirrored by "
        "the Rust API (ScanOptions per call). corpus of crash probes first; then per case either (parity, 60%) a generated rule set (1-3 sources in 0-3 namespaces, 1-4 rules each with tags, metadata of every type, "
        "text/hex/regexp patterns with modifiers, conditions over patterns, filesize, earlier rules and 0-4 globals of type bool/int/float/string/json defined through "
        "yrx_compiler_define_global_*, a compiler created with flags 0 / one flag / any of the 64 combinations of COLORIZE_ERRORS, RELAXED_RE_SYNTAX, ERROR_ON_SLOW_PATTERN, "
        "ERROR_ON_SLOW_LOOP, ENABLE_CONDITION_OPTIMIZATION, DISABLE_INCLUDES (the Rust compiler configured through the methods the header documents) with probe sources that make "
        "each flag observable (slow hex/regexp pattern, slow loop, invalid escape and `{}` in a regexp, include of an existing / a missing file through add_include_dir, syntax error, "
        "optimizable condition: accepted/rejected, error and warning codes, full error message, colour), the probes added again after yrx_compiler_build to the same compiler, optionally one failing source, scanner-level overrides through yrx_scanner_set_global_* incl. wrong type / unknown name, 1-4 buffers built "
        "from pattern instances, optional block scan, fast scan, max matches, serialize/deserialize round trip, test_proto2 output through yrx_scanner_set_module_output) run through "
        "the C API with callbacks and through the Rust API; or (plumbing, 40%) 10-40 random yrx_* operations per thread incl. null handles, invalid UTF-8, bad JSON, unknown/duplicate "
        "globals, wrong types, failing sources, garbage rule bytes, missing files, block-mode misuse, rare 1 s timeouts, on 1 thread, 2 threads in lock step (other thread's slot read "
        "around every call) or 2 concurrent threads. Non-trivial: a parity case in which some rule matched / a sequence with at least one detail-carrying error; distinct by "
        "sources+buffers / by (function, code) sequence.")


def classify(case):
    if case.get("crashed"):
        site = "?"
        for t in case.get("trace", []):
            m = re.search(r"panicked at (?:\S*?/)?((?:capi|lib|parser|fmt|cli)/[^:]+):\d+:\d+:\s*(.*)", t) or re.search(r"panicked at ([^:]+):\d+:\d+:\s*(.*)", t)
            if m:
                msg = re.sub(r"[^A-Za-z]+", "-", m.group(2))[:40].strip("-")
                site = m.group(1) + ":" + msg
                break
        return "C19:crash:" + site
    tags = []
    if case.get("c") != case.get("rust"): tags.append("dumps-differ")
    for e in case.get("events", []):
        c = e.get("code")
        if c in (1, 2, 3, 4, 6, 8) and e.get("after") is None: tags.append("no-message:" + e["fn"])
        if e.get("other") and e["other"][0] != e["other"][1]: tags.append("other-thread-slot-changed:" + e["fn"])
        if e.get("after") and ("t%d_" % (1 - e["tid"])) in e["after"]: tags.append("foreign-message:" + e["fn"])
        if c is not None and c > 10: tags.append("not-a-result-code:" + e["fn"])
    return "C19:" + ",".join(sorted(set(tags)) or ["?"])


def run_k(run, tier, seed, drv):
    n = 400 if tier == "quick" else 12000
    info = standard_k(run, drv, "C19", "c19", ["--seed", seed, "--n", n], "K_C19_effect_table_replay", classify)
    info["rule"] = RULE
    # observation only (DESIGN.md C19): YRX_SUCCESS paths that do not clear the slot
    try:
        import gen_capi
        variants, storage, conv, table, feats = gen_capi.analyse()
        obs = gen_capi.observations(variants, table)
        run.notes.append({"observation": "success_clears is not demanded by C19; functions returning YRX_SUCCESS without clearing the calling thread's last error "
                                         "(the header of yrx_last_error says the pointer is null after a successful call)",
                          "count": len(obs), "functions": [o.split(":")[0] for o in obs]})
    except Exception as e:  # the translator already ran in step 1; a failure here is reported there
        run.notes.append({"observation_error": str(e)})
    return info


MANIFEST = {
    "level_text": ("Machine-checked proof (Coq) over a model of the per-thread last-error slot whose per-function return paths (result code, effect on the slot), "
                   "result-code enumeration, storage class and message conversion are regenerated from capi/src on every run: for every history of calls on any threads a call "
                   "never changes another thread's slot and a thread's slot depends only on its own calls (thread_isolation, message_provenance); every return path of every "
                   "exported function yields a YRX_RESULT or belongs to a non-result function (codes_total); every path returning a detail-carrying code sets the message "
                   "(failure_with_detail_sets, failure_slot); every yrx_compiler_create flag switches the compiler option it is named after and survives yrx_compiler_build "
                   "(compiler_flags_named_identically); the Rust expression behind every C-visible value is the documented one (value_plumbing_ok: identifiers, match offset/length "
                   "from range().start/len(), each MetaValue variant with its own tag and union member, scan callbacks over matching_rules(), typed global setters). The generated table is replayed against recorded call sequences of the real library (1 and 2 threads, valid and "
                   "invalid calls), and compile/scan results through the C API are compared with the Rust API on generated rule sets, globals and buffers."),
    "level_note": ("Parity with the Rust API is differential (generated inputs), not a theorem. Trusted: Coq kernel, gen_capi.py (syntactic path walker; raises on shapes it cannot "
                   "classify), harness, extern declarations. The inputs of two repaired process aborts (yrx_scanner_finish without a scanned block; console.log of a string with NUL "
                   "with a console callback installed) run first in every check. 'success clears the message' is reported as an observation, not demanded."),
    "technique": "Coq proof over a source-generated effect table + differential replay of recorded call sequences + C-vs-Rust dump comparison",
    "design_ref": "DESIGN.md section 4, C19",
}
