import os
from checks.common import *

SPEC = {
    "translators": ["gen_fixapply"],
    "bins": ["c20"],
    "model_targets": ["Fix/FixCheck.vo"],
    "proof_targets": ["Fix/PatchProofs.vo", "Fix/EscapeProofs.vo"],
    "assumptions": [
        "the patch application of cli/src/commands/fix.rs is modelled by hand (Fix/Patch.v); that it sorts by span().start(), truncates the file before the slicing loop and slices as modelled is re-read from the source on every run (Gen/FixApply.v) and the model is compared with the real `yr fix warnings` on temporary copies",
        "escape / the producer's guard are regenerated from ast2ir.rs; the tokenizer rule for string literals and string_lit (cst2ast.rs) are modelled by hand (Fix/Escape.v) and exercised through the real compiler by the harness (hex-as-text fixes with every escapable byte are recompiled and scanned)",
        "semantic equivalence of the rewrites is evaluated by scanning generated buffers with the original and the fixed rules (not proved); compared for the rewrites the property lists as equivalent (text_as_hex, bool_int_comparison, consecutive_jumps, duplicate_import, ambiguous_expr); fixes of unsatisfiable_expr may change values; for deprecated_field the property is silent and the verdicts are not compared (observed: `dotnet.number_of_streams == 0` is false on a non-.NET file, its fix `dotnet.streams.len() == 0` is true)",
        "only warning patches (what `yr fix warnings` applies) are in scope; patches attached to errors (missing import, entrypoint) are not applied by the tool",
    ],
    "trusted_base": ["Gen/FixApply.v: sort key, truncate-before-write, the key under which the patches of a file are collected (path as written / canonical path), the shape of the slicing loop (checked), the escape table and the producer's guard; regenerated from cli/src/commands/fix.rs and lib/src/compiler/ir/ast2ir.rs",
                     "`yr` built from /repo/cli into .cache/target-cli (when it builds in time)"],
}

RULE = ("one source per case: a rule with two text patterns plus 1-3 fixable features drawn from: boolean==integer comparisons (8 boolean "
        "fields/functions, constant on either side, chained, in and/or/not/paren/for contexts), `0 of` over 4 sets (optionally `in`), "
        "duplicate imports (same line, with comments, three times), consecutive jumps (7 shapes, two groups per pattern), hex patterns "
        "expressible as text (random printable bytes and every escapable byte, all 95 printable bytes, `private`), deprecated dotnet "
        "fields, case-constrained hash comparisons (constants with escapes), parenthesised operands (nested, with spaces/comments/line breaks "
        "inside), optionally a second rule; corpus of directed cases first. Every sixth case is a pair of files in a temporary directory: "
        "main.yar with a fixable rule before and after `include \"common.yar\"` (3 layouts) and common.yar with a fixable rule; one case "
        "per file with the patches whose origin() is that file: each patch must name the file whose text its span covers (span text "
        "matches the diagnostic, token boundaries of that file), applying the patches per origin must leave the set compiling with the "
        "diagnostics gone, and `yr fix warnings --include-dir` on a copy must leave each file as the model says. Every sixth case (offset 3) is "
        "a compilation of 2-3 sources (separate add_source calls, two thirds with a namespace each, all importing the same modules, each "
        "with its own fixable diagnostics): one case per file; the patches applied per file must leave ALL files compiling together in the "
        "same setup with the diagnostics gone and the same scan results; `yr fix warnings [nsK:]sK.yar ...` on copies must leave each file "
        "with its fixes applied together (S) and as the model says (K); in a third of the namespace runs the first file is named once more, "
        "written `./s0.yar`, under another namespace (model: Patch.yr_file with the number of spellings). Boolean operands include ones with "
        "a raw tab inside a string literal and between tokens: the operand that a `<bool> == k` fix keeps must be the text that was written "
        "(white space outside literals aside). "
        "Per case: patches of Compiler::warnings(); bounds, token boundaries, disjointness, reference application, recompilation, "
        "remaining diagnostics, scan dumps of original vs fixed rules on 10+ buffers built from the patterns' own bytes; for a subset "
        "the real `yr fix warnings` on a temporary copy vs the Coq model. Distinct = distinct sources with >= 1 patch.")

YR_TARGET = None


def build_yr(drv, timeout):
    """cargo build of /repo/cli (binary `yr`) into .cache/target-cli; returns path or None."""
    target = os.path.join(drv.CACHE, "target-cli")
    with drv.Lock("cargo-cli"):
        rc, out, dt = drv.sh(["cargo", "build", "--offline", "-p", "yara-x-cli", "--bin", "yr"], cwd=drv.REPO,
                             env={"CARGO_TARGET_DIR": target}, timeout=timeout)
    p = os.path.join(target, "debug", "yr")
    return (p if rc == 0 and os.path.exists(p) else None), rc, out[-600:], dt


def setup(drv):
    p, rc, out, dt = build_yr(drv, 3000)
    print(f"C20: yr {'built' if p else 'NOT built'} ({dt:.0f}s)")


def classify(case):
    return "C20:" + (case.get("class") or "unclassified")


def run_k(run, tier, seed, drv):
    yr, rc, out, dt = build_yr(drv, 100 if tier == "quick" else 2400)
    n, n_yr = (520, 50) if tier == "quick" else (6000, 700)
    args = ["--seed", seed, "--n", n]
    if yr:
        args += ["--yr", yr, "--n-yr", n_yr]
    info = standard_k(run, drv, "C20", "c20", args, "K_C20_patch_application_vs_yr_fix", classify, max_report=40)
    info["rule"] = RULE
    if not yr:
        run.notes.append({"yr_not_built": f"`cargo build -p yara-x-cli` did not finish (rc={rc}, {dt:.0f}s): the model was not compared with the real `yr fix warnings` in this run; {out[-300:]}"})
        if tier != "quick":
            info["broken"].append(("K_C20_patch_application_vs_yr_fix", f"the `yr` binary could not be built from /repo/cli (rc={rc}): {out[-400:]}"))
    return info


MANIFEST = {
    "level_text": ("Machine-checked proof (Coq) that the patch application of `yr fix warnings`, as modelled from "
                   "cli/src/commands/fix.rs (sort key, truncation point and slicing loop re-read from the source on every run), applies "
                   "every list of patches that is pairwise disjoint and inside the text exactly as the reference splice does, for all "
                   "texts and patch lists; whether it can damage the file depends on a fact re-read from the source: without the guard that skips "
                   "overlapping patches the claim is refuted with a concrete witness, with the guard (repaired fix.rs) it is proved that every "
                   "patch list on every text yields a complete file equal to the splice of the patches that are kept; "
                   "and that the text literal offered for a hex pattern is tokenized as one string literal whose unescaped value is the "
                   "original byte string, for all byte strings. The model is compared with the real `yr fix warnings` binary on "
                   "temporary copies; on generated sources the patches attached to warnings are checked for bounds, token boundaries and "
                   "disjointness, applied, recompiled and the scan results of original and fixed rules compared."),
    "level_note": ("Partial: equivalence of the individual rewrites (bool==0/1, `0 of`->`none of`, merged jumps) is evaluated by "
                   "scanning, not proved (Fix/Rewrites.v of the design is not built). Known findings: the compiler still attaches "
                   "overlapping patches to chained comparisons (since 84ef5faa the tool skips the second one instead of destroying the "
                   "file); a file named twice with different spellings is patched twice by the tool (refuted: yr_file_twice_refuted; proved "
                   "for one round per file: yr_file_once); the bool/int fix turns a tab inside a string literal of its operand into a space. Repaired: file truncation + panic on overlapping patches, `0 of` evaluated as always true (its `none of` fix changed verdicts), "
                   "`module.func() == 0` fix dropping the module prefix, case-constraint fix re-quoting an unescaped constant. "
                   "Trusted: Coq kernel, translator gen_fixapply.py, the harness, the hand-written tokenizer/string_lit model."),
    "technique": "Coq proof over a model with source-generated facts + differential correspondence against the built CLI (vm_compute) + property evaluation on the implementation",
    "design_ref": "DESIGN.md section 4, C20",
}
