"""Helpers shared by the per-property check modules."""
import os, json, subprocess, hashlib


def run_harness(drv, bin_name, args, timeout=3000, env=None):
    rc, out, dt = drv.sh([drv.hbin(bin_name)] + [str(a) for a in args], timeout=timeout, env=env)
    return rc, out, dt


def last_json_line(out):
    for line in reversed(out.strip().split("\n")):
        line = line.strip()
        if line.startswith("{") and line.endswith("}"):
            try:
                return json.loads(line)
            except Exception:
                continue
    return None


def standard_k(run, drv, pid, sub, args, name, classify=None, timeout=3000, max_report=5):
    """Run harness binary `sub` writing cases into .cache/cases/<pid>, evaluate
    the shards in Coq and turn the outcome into the k_info dict used by the driver.
    classify(case_json) -> fingerprint string for S-violations."""
    casedir = os.path.join(drv.CACHE, "cases", pid)
    os.makedirs(casedir, exist_ok=True)
    rc, out, dt = run_harness(drv, sub, args + ["--out", casedir], timeout=timeout)
    info = {"broken": [], "violations": []}
    stats = last_json_line(out)
    if rc != 0 or stats is None:
        info["broken"].append((f"harness:{sub}", f"rc={rc}: {out[-1200:]}"))
        return info
    info.update({k: stats[k] for k in ("evaluations", "distinct_nontrivial", "samples", "distribution") if k in stats})
    info["traces_validated_against_impl"] = stats.get("evaluations", 0)
    res = drv.run_shards(casedir)
    for e in res["errors"]:
        info["broken"].append((name, e))
    seen = set()
    for (s, i) in res["s_fail"]:
        case = drv.load_case(casedir, s, i)
        fp = classify(case) if classify else "spec-violated"
        if fp in seen: continue
        seen.add(fp)
        if len(info["violations"]) < max_report:
            info["violations"].append({"fingerprint": fp, "tag": hashlib.sha1((fp + json.dumps(case, sort_keys=True)).encode()).hexdigest()[:10],
                                       "kind": "specification violated on the implementation's output", "case": case,
                                       "replay_hint": "python3 check.py replay <this file>"})
    s_set = set(res["s_fail"])
    konly = [x for x in res["k_fail"] if x not in s_set]
    if konly:
        s, i = konly[0]
        case = drv.load_case(casedir, s, i)
        info["broken"].append((name, f"model and implementation disagree on {len(konly)} case(s) where the specification still holds; first: {json.dumps(case)[:1500]}"))
    info["k_disagreements"] = len(res["k_fail"])
    info["s_violations"] = len(res["s_fail"])
    return info
