Base/Utf8.vo Base/Utf8.glob Base/Utf8.v.beautified Base/Utf8.required_vo: Base/Utf8.v 
Base/Utf8.vio: Base/Utf8.v 
Base/Utf8.vos Base/Utf8.vok Base/Utf8.required_vos: Base/Utf8.v 
Base/Utf8Proofs.vo Base/Utf8Proofs.glob Base/Utf8Proofs.v.beautified Base/Utf8Proofs.required_vo: Base/Utf8Proofs.v Base/Utf8.vo
Base/Utf8Proofs.vio: Base/Utf8Proofs.v Base/Utf8.vio
Base/Utf8Proofs.vos Base/Utf8Proofs.vok Base/Utf8Proofs.required_vos: Base/Utf8Proofs.v Base/Utf8.vos
Capi/CapiCheck.vo Capi/CapiCheck.glob Capi/CapiCheck.v.beautified Capi/CapiCheck.required_vo: Capi/CapiCheck.v Gen/CapiEffects.vo Capi/LastError.vo Capi/Pending.vo
Capi/CapiCheck.vio: Capi/CapiCheck.v Gen/CapiEffects.vio Capi/LastError.vio Capi/Pending.vio
Capi/CapiCheck.vos Capi/CapiCheck.vok Capi/CapiCheck.required_vos: Capi/CapiCheck.v Gen/CapiEffects.vos Capi/LastError.vos Capi/Pending.vos
Capi/Flags.vo Capi/Flags.glob Capi/Flags.v.beautified Capi/Flags.required_vo: Capi/Flags.v Gen/CapiEffects.vo
Capi/Flags.vio: Capi/Flags.v Gen/CapiEffects.vio
Capi/Flags.vos Capi/Flags.vok Capi/Flags.required_vos: Capi/Flags.v Gen/CapiEffects.vos
Capi/LastError.vo Capi/LastError.glob Capi/LastError.v.beautified Capi/LastError.required_vo: Capi/LastError.v Gen/CapiEffects.vo
Capi/LastError.vio: Capi/LastError.v Gen/CapiEffects.vio
Capi/LastError.vos Capi/LastError.vok Capi/LastError.required_vos: Capi/LastError.v Gen/CapiEffects.vos
Capi/LastErrorProofs.vo Capi/LastErrorProofs.glob Capi/LastErrorProofs.v.beautified Capi/LastErrorProofs.required_vo: Capi/LastErrorProofs.v Gen/CapiEffects.vo Capi/LastError.vo Capi/Flags.vo Capi/Values.vo Capi/Pending.vo
Capi/LastErrorProofs.vio: Capi/LastErrorProofs.v Gen/CapiEffects.vio Capi/LastError.vio Capi/Flags.vio Capi/Values.vio Capi/Pending.vio
Capi/LastErrorProofs.vos Capi/LastErrorProofs.vok Capi/LastErrorProofs.required_vos: Capi/LastErrorProofs.v Gen/CapiEffects.vos Capi/LastError.vos Capi/Flags.vos Capi/Values.vos Capi/Pending.vos
Capi/Pending.vo Capi/Pending.glob Capi/Pending.v.beautified Capi/Pending.required_vo: Capi/Pending.v Gen/CapiEffects.vo Capi/LastError.vo
Capi/Pending.vio: Capi/Pending.v Gen/CapiEffects.vio Capi/LastError.vio
Capi/Pending.vos Capi/Pending.vok Capi/Pending.required_vos: Capi/Pending.v Gen/CapiEffects.vos Capi/LastError.vos
Capi/Values.vo Capi/Values.glob Capi/Values.v.beautified Capi/Values.required_vo: Capi/Values.v Gen/CapiEffects.vo Capi/Flags.vo
Capi/Values.vio: Capi/Values.v Gen/CapiEffects.vio Capi/Flags.vio
Capi/Values.vos Capi/Values.vok Capi/Values.required_vos: Capi/Values.v Gen/CapiEffects.vos Capi/Flags.vos
Cli/Walk.vo Cli/Walk.glob Cli/Walk.v.beautified Cli/Walk.required_vo: Cli/Walk.v 
Cli/Walk.vio: Cli/Walk.v 
Cli/Walk.vos Cli/Walk.vok Cli/Walk.required_vos: Cli/Walk.v 
Cli/WalkCheck.vo Cli/WalkCheck.glob Cli/WalkCheck.v.beautified Cli/WalkCheck.required_vo: Cli/WalkCheck.v Cli/Walk.vo Gen/WalkGen.vo
Cli/WalkCheck.vio: Cli/WalkCheck.v Cli/Walk.vio Gen/WalkGen.vio
Cli/WalkCheck.vos Cli/WalkCheck.vok Cli/WalkCheck.required_vos: Cli/WalkCheck.v Cli/Walk.vos Gen/WalkGen.vos
Cli/WalkProofs.vo Cli/WalkProofs.glob Cli/WalkProofs.v.beautified Cli/WalkProofs.required_vo: Cli/WalkProofs.v Cli/Walk.vo
Cli/WalkProofs.vio: Cli/WalkProofs.v Cli/Walk.vio
Cli/WalkProofs.vos Cli/WalkProofs.vok Cli/WalkProofs.required_vos: Cli/WalkProofs.v Cli/Walk.vos
Codec/CodecCheck.vo Codec/CodecCheck.glob Codec/CodecCheck.v.beautified Codec/CodecCheck.required_vo: Codec/CodecCheck.v Gen/CodecGen.vo Codec/Reader.vo Codec/Varint.vo Codec/Universe.vo Codec/Header.vo Codec/RulesShape.vo
Codec/CodecCheck.vio: Codec/CodecCheck.v Gen/CodecGen.vio Codec/Reader.vio Codec/Varint.vio Codec/Universe.vio Codec/Header.vio Codec/RulesShape.vio
Codec/CodecCheck.vos Codec/CodecCheck.vok Codec/CodecCheck.required_vos: Codec/CodecCheck.v Gen/CodecGen.vos Codec/Reader.vos Codec/Varint.vos Codec/Universe.vos Codec/Header.vos Codec/RulesShape.vos
Codec/Header.vo Codec/Header.glob Codec/Header.v.beautified Codec/Header.required_vo: Codec/Header.v Gen/CodecGen.vo Codec/Reader.vo Codec/Varint.vo Codec/Universe.vo
Codec/Header.vio: Codec/Header.v Gen/CodecGen.vio Codec/Reader.vio Codec/Varint.vio Codec/Universe.vio
Codec/Header.vos Codec/Header.vok Codec/Header.required_vos: Codec/Header.v Gen/CodecGen.vos Codec/Reader.vos Codec/Varint.vos Codec/Universe.vos
Codec/HeaderProofs.vo Codec/HeaderProofs.glob Codec/HeaderProofs.v.beautified Codec/HeaderProofs.required_vo: Codec/HeaderProofs.v Gen/CodecGen.vo Codec/Reader.vo Codec/ReaderProofs.vo Codec/Varint.vo Codec/VarintProofs.vo Codec/Universe.vo Codec/UniverseProofs.vo Codec/Header.vo
Codec/HeaderProofs.vio: Codec/HeaderProofs.v Gen/CodecGen.vio Codec/Reader.vio Codec/ReaderProofs.vio Codec/Varint.vio Codec/VarintProofs.vio Codec/Universe.vio Codec/UniverseProofs.vio Codec/Header.vio
Codec/HeaderProofs.vos Codec/HeaderProofs.vok Codec/HeaderProofs.required_vos: Codec/HeaderProofs.v Gen/CodecGen.vos Codec/Reader.vos Codec/ReaderProofs.vos Codec/Varint.vos Codec/VarintProofs.vos Codec/Universe.vos Codec/UniverseProofs.vos Codec/Header.vos
Codec/Reader.vo Codec/Reader.glob Codec/Reader.v.beautified Codec/Reader.required_vo: Codec/Reader.v 
Codec/Reader.vio: Codec/Reader.v 
Codec/Reader.vos Codec/Reader.vok Codec/Reader.required_vos: Codec/Reader.v 
Codec/ReaderProofs.vo Codec/ReaderProofs.glob Codec/ReaderProofs.v.beautified Codec/ReaderProofs.required_vo: Codec/ReaderProofs.v Codec/Reader.vo
Codec/ReaderProofs.vio: Codec/ReaderProofs.v Codec/Reader.vio
Codec/ReaderProofs.vos Codec/ReaderProofs.vok Codec/ReaderProofs.required_vos: Codec/ReaderProofs.v Codec/Reader.vos
Codec/RulesShape.vo Codec/RulesShape.glob Codec/RulesShape.v.beautified Codec/RulesShape.required_vo: Codec/RulesShape.v Gen/CodecGen.vo Codec/Reader.vo Codec/Varint.vo Codec/Universe.vo Gen/RulesTyGen.vo
Codec/RulesShape.vio: Codec/RulesShape.v Gen/CodecGen.vio Codec/Reader.vio Codec/Varint.vio Codec/Universe.vio Gen/RulesTyGen.vio
Codec/RulesShape.vos Codec/RulesShape.vok Codec/RulesShape.required_vos: Codec/RulesShape.v Gen/CodecGen.vos Codec/Reader.vos Codec/Varint.vos Codec/Universe.vos Gen/RulesTyGen.vos
Codec/RulesShapeProofs.vo Codec/RulesShapeProofs.glob Codec/RulesShapeProofs.v.beautified Codec/RulesShapeProofs.required_vo: Codec/RulesShapeProofs.v Gen/CodecGen.vo Gen/RulesTyGen.vo Codec/Reader.vo Codec/Varint.vo Codec/Universe.vo Codec/RulesShape.vo
Codec/RulesShapeProofs.vio: Codec/RulesShapeProofs.v Gen/CodecGen.vio Gen/RulesTyGen.vio Codec/Reader.vio Codec/Varint.vio Codec/Universe.vio Codec/RulesShape.vio
Codec/RulesShapeProofs.vos Codec/RulesShapeProofs.vok Codec/RulesShapeProofs.required_vos: Codec/RulesShapeProofs.v Gen/CodecGen.vos Gen/RulesTyGen.vos Codec/Reader.vos Codec/Varint.vos Codec/Universe.vos Codec/RulesShape.vos
Codec/Universe.vo Codec/Universe.glob Codec/Universe.v.beautified Codec/Universe.required_vo: Codec/Universe.v Codec/Reader.vo Codec/Varint.vo
Codec/Universe.vio: Codec/Universe.v Codec/Reader.vio Codec/Varint.vio
Codec/Universe.vos Codec/Universe.vok Codec/Universe.required_vos: Codec/Universe.v Codec/Reader.vos Codec/Varint.vos
Codec/UniverseProofs.vo Codec/UniverseProofs.glob Codec/UniverseProofs.v.beautified Codec/UniverseProofs.required_vo: Codec/UniverseProofs.v Codec/Reader.vo Codec/ReaderProofs.vo Codec/Varint.vo Codec/VarintProofs.vo Codec/Universe.vo
Codec/UniverseProofs.vio: Codec/UniverseProofs.v Codec/Reader.vio Codec/ReaderProofs.vio Codec/Varint.vio Codec/VarintProofs.vio Codec/Universe.vio
Codec/UniverseProofs.vos Codec/UniverseProofs.vok Codec/UniverseProofs.required_vos: Codec/UniverseProofs.v Codec/Reader.vos Codec/ReaderProofs.vos Codec/Varint.vos Codec/VarintProofs.vos Codec/Universe.vos
Codec/Varint.vo Codec/Varint.glob Codec/Varint.v.beautified Codec/Varint.required_vo: Codec/Varint.v Codec/Reader.vo
Codec/Varint.vio: Codec/Varint.v Codec/Reader.vio
Codec/Varint.vos Codec/Varint.vok Codec/Varint.required_vos: Codec/Varint.v Codec/Reader.vos
Codec/VarintProofs.vo Codec/VarintProofs.glob Codec/VarintProofs.v.beautified Codec/VarintProofs.required_vo: Codec/VarintProofs.v Codec/Reader.vo Codec/ReaderProofs.vo Codec/Varint.vo
Codec/VarintProofs.vio: Codec/VarintProofs.v Codec/Reader.vio Codec/ReaderProofs.vio Codec/Varint.vio
Codec/VarintProofs.vos Codec/VarintProofs.vok Codec/VarintProofs.required_vos: Codec/VarintProofs.v Codec/Reader.vos Codec/ReaderProofs.vos Codec/Varint.vos
Compiler/Accounting.vo Compiler/Accounting.glob Compiler/Accounting.v.beautified Compiler/Accounting.required_vo: Compiler/Accounting.v Gen/AstBuilderArms.vo
Compiler/Accounting.vio: Compiler/Accounting.v Gen/AstBuilderArms.vio
Compiler/Accounting.vos Compiler/Accounting.vok Compiler/Accounting.required_vos: Compiler/Accounting.v Gen/AstBuilderArms.vos
Compiler/AccountingC06.vo Compiler/AccountingC06.glob Compiler/AccountingC06.v.beautified Compiler/AccountingC06.required_vo: Compiler/AccountingC06.v Gen/AstBuilderArms.vo Compiler/Accounting.vo Compiler/AccountingProofs.vo
Compiler/AccountingC06.vio: Compiler/AccountingC06.v Gen/AstBuilderArms.vio Compiler/Accounting.vio Compiler/AccountingProofs.vio
Compiler/AccountingC06.vos Compiler/AccountingC06.vok Compiler/AccountingC06.required_vos: Compiler/AccountingC06.v Gen/AstBuilderArms.vos Compiler/Accounting.vos Compiler/AccountingProofs.vos
Compiler/AccountingProofs.vo Compiler/AccountingProofs.glob Compiler/AccountingProofs.v.beautified Compiler/AccountingProofs.required_vo: Compiler/AccountingProofs.v Gen/AstBuilderArms.vo Compiler/Accounting.vo Compiler/CstAgreement.vo
Compiler/AccountingProofs.vio: Compiler/AccountingProofs.v Gen/AstBuilderArms.vio Compiler/Accounting.vio Compiler/CstAgreement.vio
Compiler/AccountingProofs.vos Compiler/AccountingProofs.vok Compiler/AccountingProofs.required_vos: Compiler/AccountingProofs.v Gen/AstBuilderArms.vos Compiler/Accounting.vos Compiler/CstAgreement.vos
Compiler/CompilerCheck.vo Compiler/CompilerCheck.glob Compiler/CompilerCheck.v.beautified Compiler/CompilerCheck.required_vo: Compiler/CompilerCheck.v Base/Utf8.vo Gen/AstBuilderArms.vo Compiler/Accounting.vo
Compiler/CompilerCheck.vio: Compiler/CompilerCheck.v Base/Utf8.vio Gen/AstBuilderArms.vio Compiler/Accounting.vio
Compiler/CompilerCheck.vos Compiler/CompilerCheck.vok Compiler/CompilerCheck.required_vos: Compiler/CompilerCheck.v Base/Utf8.vos Gen/AstBuilderArms.vos Compiler/Accounting.vos
Compiler/CstAgreement.vo Compiler/CstAgreement.glob Compiler/CstAgreement.v.beautified Compiler/CstAgreement.required_vo: Compiler/CstAgreement.v Gen/AstBuilderArms.vo
Compiler/CstAgreement.vio: Compiler/CstAgreement.v Gen/AstBuilderArms.vio
Compiler/CstAgreement.vos Compiler/CstAgreement.vok Compiler/CstAgreement.required_vos: Compiler/CstAgreement.v Gen/AstBuilderArms.vos
Compiler/Includes.vo Compiler/Includes.glob Compiler/Includes.v.beautified Compiler/Includes.required_vo: Compiler/Includes.v 
Compiler/Includes.vio: Compiler/Includes.v 
Compiler/Includes.vos Compiler/Includes.vok Compiler/Includes.required_vos: Compiler/Includes.v 
Compiler/IncludesProofs.vo Compiler/IncludesProofs.glob Compiler/IncludesProofs.v.beautified Compiler/IncludesProofs.required_vo: Compiler/IncludesProofs.v Compiler/Includes.vo
Compiler/IncludesProofs.vio: Compiler/IncludesProofs.v Compiler/Includes.vio
Compiler/IncludesProofs.vos Compiler/IncludesProofs.vok Compiler/IncludesProofs.required_vos: Compiler/IncludesProofs.v Compiler/Includes.vos
Compiler/Snapshot.vo Compiler/Snapshot.glob Compiler/Snapshot.v.beautified Compiler/Snapshot.required_vo: Compiler/Snapshot.v Gen/SnapshotGen.vo
Compiler/Snapshot.vio: Compiler/Snapshot.v Gen/SnapshotGen.vio
Compiler/Snapshot.vos Compiler/Snapshot.vok Compiler/Snapshot.required_vos: Compiler/Snapshot.v Gen/SnapshotGen.vos
Compiler/SnapshotCheck.vo Compiler/SnapshotCheck.glob Compiler/SnapshotCheck.v.beautified Compiler/SnapshotCheck.required_vo: Compiler/SnapshotCheck.v Gen/SnapshotGen.vo Compiler/Snapshot.vo
Compiler/SnapshotCheck.vio: Compiler/SnapshotCheck.v Gen/SnapshotGen.vio Compiler/Snapshot.vio
Compiler/SnapshotCheck.vos Compiler/SnapshotCheck.vok Compiler/SnapshotCheck.required_vos: Compiler/SnapshotCheck.v Gen/SnapshotGen.vos Compiler/Snapshot.vos
Compiler/SnapshotProofs.vo Compiler/SnapshotProofs.glob Compiler/SnapshotProofs.v.beautified Compiler/SnapshotProofs.required_vo: Compiler/SnapshotProofs.v Gen/SnapshotGen.vo Compiler/Snapshot.vo
Compiler/SnapshotProofs.vio: Compiler/SnapshotProofs.v Gen/SnapshotGen.vio Compiler/Snapshot.vio
Compiler/SnapshotProofs.vos Compiler/SnapshotProofs.vok Compiler/SnapshotProofs.required_vos: Compiler/SnapshotProofs.v Gen/SnapshotGen.vos Compiler/Snapshot.vos
Compiler/Suppress.vo Compiler/Suppress.glob Compiler/Suppress.v.beautified Compiler/Suppress.required_vo: Compiler/Suppress.v Gen/SnapshotGen.vo
Compiler/Suppress.vio: Compiler/Suppress.v Gen/SnapshotGen.vio
Compiler/Suppress.vos Compiler/Suppress.vok Compiler/Suppress.required_vos: Compiler/Suppress.v Gen/SnapshotGen.vos
Compiler/SuppressProofs.vo Compiler/SuppressProofs.glob Compiler/SuppressProofs.v.beautified Compiler/SuppressProofs.required_vo: Compiler/SuppressProofs.v Gen/SnapshotGen.vo Compiler/Suppress.vo
Compiler/SuppressProofs.vio: Compiler/SuppressProofs.v Gen/SnapshotGen.vio Compiler/Suppress.vio
Compiler/SuppressProofs.vos Compiler/SuppressProofs.vok Compiler/SuppressProofs.required_vos: Compiler/SuppressProofs.v Gen/SnapshotGen.vos Compiler/Suppress.vos
Conc/Interleave.vo Conc/Interleave.glob Conc/Interleave.v.beautified Conc/Interleave.required_vo: Conc/Interleave.v Gen/ConcGen.vo
Conc/Interleave.vio: Conc/Interleave.v Gen/ConcGen.vio
Conc/Interleave.vos Conc/Interleave.vok Conc/Interleave.required_vos: Conc/Interleave.v Gen/ConcGen.vos
Conc/InterleaveCheck.vo Conc/InterleaveCheck.glob Conc/InterleaveCheck.v.beautified Conc/InterleaveCheck.required_vo: Conc/InterleaveCheck.v Gen/ConcGen.vo Conc/Interleave.vo
Conc/InterleaveCheck.vio: Conc/InterleaveCheck.v Gen/ConcGen.vio Conc/Interleave.vio
Conc/InterleaveCheck.vos Conc/InterleaveCheck.vok Conc/InterleaveCheck.required_vos: Conc/InterleaveCheck.v Gen/ConcGen.vos Conc/Interleave.vos
Conc/InterleaveProofs.vo Conc/InterleaveProofs.glob Conc/InterleaveProofs.v.beautified Conc/InterleaveProofs.required_vo: Conc/InterleaveProofs.v Gen/ConcGen.vo Conc/Interleave.vo
Conc/InterleaveProofs.vio: Conc/InterleaveProofs.v Gen/ConcGen.vio Conc/Interleave.vio
Conc/InterleaveProofs.vos Conc/InterleaveProofs.vok Conc/InterleaveProofs.required_vos: Conc/InterleaveProofs.v Gen/ConcGen.vos Conc/Interleave.vos
Cond/Check.vo Cond/Check.glob Cond/Check.v.beautified Cond/Check.required_vo: Cond/Check.v Cond/Syntax.vo Cond/Sem.vo Cond/Rename.vo Cond/Quirks.vo Cond/RuleSet.vo Cond/Machine.vo Cond/Emit.vo Cond/IrTree.vo Cond/Wasm.vo
Cond/Check.vio: Cond/Check.v Cond/Syntax.vio Cond/Sem.vio Cond/Rename.vio Cond/Quirks.vio Cond/RuleSet.vio Cond/Machine.vio Cond/Emit.vio Cond/IrTree.vio Cond/Wasm.vio
Cond/Check.vos Cond/Check.vok Cond/Check.required_vos: Cond/Check.v Cond/Syntax.vos Cond/Sem.vos Cond/Rename.vos Cond/Quirks.vos Cond/RuleSet.vos Cond/Machine.vos Cond/Emit.vos Cond/IrTree.vos Cond/Wasm.vos
Cond/Emit.vo Cond/Emit.glob Cond/Emit.v.beautified Cond/Emit.required_vo: Cond/Emit.v Cond/Syntax.vo Cond/Sem.vo Cond/Quirks.vo Cond/Machine.vo Gen/EmitFacts.vo
Cond/Emit.vio: Cond/Emit.v Cond/Syntax.vio Cond/Sem.vio Cond/Quirks.vio Cond/Machine.vio Gen/EmitFacts.vio
Cond/Emit.vos Cond/Emit.vok Cond/Emit.required_vos: Cond/Emit.v Cond/Syntax.vos Cond/Sem.vos Cond/Quirks.vos Cond/Machine.vos Gen/EmitFacts.vos
Cond/EmitBase.vo Cond/EmitBase.glob Cond/EmitBase.v.beautified Cond/EmitBase.required_vo: Cond/EmitBase.v Cond/Syntax.vo Cond/Sem.vo Cond/Quirks.vo Cond/Machine.vo Cond/MachineProofs.vo Cond/Emit.vo
Cond/EmitBase.vio: Cond/EmitBase.v Cond/Syntax.vio Cond/Sem.vio Cond/Quirks.vio Cond/Machine.vio Cond/MachineProofs.vio Cond/Emit.vio
Cond/EmitBase.vos Cond/EmitBase.vok Cond/EmitBase.required_vos: Cond/EmitBase.v Cond/Syntax.vos Cond/Sem.vos Cond/Quirks.vos Cond/Machine.vos Cond/MachineProofs.vos Cond/Emit.vos
Cond/EmitProofs.vo Cond/EmitProofs.glob Cond/EmitProofs.v.beautified Cond/EmitProofs.required_vo: Cond/EmitProofs.v Cond/RunsProofs.vo Cond/Syntax.vo Cond/Sem.vo Cond/SemProofs.vo Cond/Quirks.vo Cond/QuirksProofs.vo Cond/Machine.vo Cond/MachineProofs.vo Cond/Emit.vo Cond/EmitBase.vo
Cond/EmitProofs.vio: Cond/EmitProofs.v Cond/RunsProofs.vio Cond/Syntax.vio Cond/Sem.vio Cond/SemProofs.vio Cond/Quirks.vio Cond/QuirksProofs.vio Cond/Machine.vio Cond/MachineProofs.vio Cond/Emit.vio Cond/EmitBase.vio
Cond/EmitProofs.vos Cond/EmitProofs.vok Cond/EmitProofs.required_vos: Cond/EmitProofs.v Cond/RunsProofs.vos Cond/Syntax.vos Cond/Sem.vos Cond/SemProofs.vos Cond/Quirks.vos Cond/QuirksProofs.vos Cond/Machine.vos Cond/MachineProofs.vos Cond/Emit.vos Cond/EmitBase.vos
Cond/HostCheck.vo Cond/HostCheck.glob Cond/HostCheck.v.beautified Cond/HostCheck.required_vo: Cond/HostCheck.v Cond/HostTypes.vo Cond/HostModel.vo Cond/Traps.vo Cond/StrModel.vo Gen/HostFns.vo
Cond/HostCheck.vio: Cond/HostCheck.v Cond/HostTypes.vio Cond/HostModel.vio Cond/Traps.vio Cond/StrModel.vio Gen/HostFns.vio
Cond/HostCheck.vos Cond/HostCheck.vok Cond/HostCheck.required_vos: Cond/HostCheck.v Cond/HostTypes.vos Cond/HostModel.vos Cond/Traps.vos Cond/StrModel.vos Gen/HostFns.vos
Cond/HostModel.vo Cond/HostModel.glob Cond/HostModel.v.beautified Cond/HostModel.required_vo: Cond/HostModel.v Cond/HostTypes.vo
Cond/HostModel.vio: Cond/HostModel.v Cond/HostTypes.vio
Cond/HostModel.vos Cond/HostModel.vok Cond/HostModel.required_vos: Cond/HostModel.v Cond/HostTypes.vos
Cond/HostModelProofs.vo Cond/HostModelProofs.glob Cond/HostModelProofs.v.beautified Cond/HostModelProofs.required_vo: Cond/HostModelProofs.v Cond/HostTypes.vo Cond/HostModel.vo Gen/HostFns.vo
Cond/HostModelProofs.vio: Cond/HostModelProofs.v Cond/HostTypes.vio Cond/HostModel.vio Gen/HostFns.vio
Cond/HostModelProofs.vos Cond/HostModelProofs.vok Cond/HostModelProofs.required_vos: Cond/HostModelProofs.v Cond/HostTypes.vos Cond/HostModel.vos Gen/HostFns.vos
Cond/HostTypes.vo Cond/HostTypes.glob Cond/HostTypes.v.beautified Cond/HostTypes.required_vo: Cond/HostTypes.v 
Cond/HostTypes.vio: Cond/HostTypes.v 
Cond/HostTypes.vos Cond/HostTypes.vok Cond/HostTypes.required_vos: Cond/HostTypes.v 
Cond/IdentityShape.vo Cond/IdentityShape.glob Cond/IdentityShape.v.beautified Cond/IdentityShape.required_vo: Cond/IdentityShape.v Gen/PatternIdentity.vo
Cond/IdentityShape.vio: Cond/IdentityShape.v Gen/PatternIdentity.vio
Cond/IdentityShape.vos Cond/IdentityShape.vok Cond/IdentityShape.required_vos: Cond/IdentityShape.v Gen/PatternIdentity.vos
Cond/IndepCheck.vo Cond/IndepCheck.glob Cond/IndepCheck.v.beautified Cond/IndepCheck.required_vo: Cond/IndepCheck.v Cond/Syntax.vo Cond/Sem.vo Cond/RuleSet.vo
Cond/IndepCheck.vio: Cond/IndepCheck.v Cond/Syntax.vio Cond/Sem.vio Cond/RuleSet.vio
Cond/IndepCheck.vos Cond/IndepCheck.vok Cond/IndepCheck.required_vos: Cond/IndepCheck.v Cond/Syntax.vos Cond/Sem.vos Cond/RuleSet.vos
Cond/Independence.vo Cond/Independence.glob Cond/Independence.v.beautified Cond/Independence.required_vo: Cond/Independence.v Cond/Syntax.vo Cond/Sem.vo Cond/Rename.vo
Cond/Independence.vio: Cond/Independence.v Cond/Syntax.vio Cond/Sem.vio Cond/Rename.vio
Cond/Independence.vos Cond/Independence.vok Cond/Independence.required_vos: Cond/Independence.v Cond/Syntax.vos Cond/Sem.vos Cond/Rename.vos
Cond/IndependenceProofs.vo Cond/IndependenceProofs.glob Cond/IndependenceProofs.v.beautified Cond/IndependenceProofs.required_vo: Cond/IndependenceProofs.v Cond/Syntax.vo Cond/Sem.vo Cond/Rename.vo Cond/SemProofs.vo Cond/Independence.vo
Cond/IndependenceProofs.vio: Cond/IndependenceProofs.v Cond/Syntax.vio Cond/Sem.vio Cond/Rename.vio Cond/SemProofs.vio Cond/Independence.vio
Cond/IndependenceProofs.vos Cond/IndependenceProofs.vok Cond/IndependenceProofs.required_vos: Cond/IndependenceProofs.v Cond/Syntax.vos Cond/Sem.vos Cond/Rename.vos Cond/SemProofs.vos Cond/Independence.vos
Cond/IrTree.vo Cond/IrTree.glob Cond/IrTree.v.beautified Cond/IrTree.required_vo: Cond/IrTree.v Cond/Syntax.vo Cond/Sem.vo Cond/Quirks.vo Gen/EmitFacts.vo
Cond/IrTree.vio: Cond/IrTree.v Cond/Syntax.vio Cond/Sem.vio Cond/Quirks.vio Gen/EmitFacts.vio
Cond/IrTree.vos Cond/IrTree.vok Cond/IrTree.required_vos: Cond/IrTree.v Cond/Syntax.vos Cond/Sem.vos Cond/Quirks.vos Gen/EmitFacts.vos
Cond/Machine.vo Cond/Machine.glob Cond/Machine.v.beautified Cond/Machine.required_vo: Cond/Machine.v 
Cond/Machine.vio: Cond/Machine.v 
Cond/Machine.vos Cond/Machine.vok Cond/Machine.required_vos: Cond/Machine.v 
Cond/MachineProofs.vo Cond/MachineProofs.glob Cond/MachineProofs.v.beautified Cond/MachineProofs.required_vo: Cond/MachineProofs.v Cond/Machine.vo
Cond/MachineProofs.vio: Cond/MachineProofs.v Cond/Machine.vio
Cond/MachineProofs.vos Cond/MachineProofs.vok Cond/MachineProofs.required_vos: Cond/MachineProofs.v Cond/Machine.vos
Cond/Prec.vo Cond/Prec.glob Cond/Prec.v.beautified Cond/Prec.required_vo: Cond/Prec.v Gen/BindingPower.vo Gen/DocPrecedence.vo
Cond/Prec.vio: Cond/Prec.v Gen/BindingPower.vio Gen/DocPrecedence.vio
Cond/Prec.vos Cond/Prec.vok Cond/Prec.required_vos: Cond/Prec.v Gen/BindingPower.vos Gen/DocPrecedence.vos
Cond/PrecProofs.vo Cond/PrecProofs.glob Cond/PrecProofs.v.beautified Cond/PrecProofs.required_vo: Cond/PrecProofs.v Gen/BindingPower.vo Gen/DocPrecedence.vo Cond/Prec.vo
Cond/PrecProofs.vio: Cond/PrecProofs.v Gen/BindingPower.vio Gen/DocPrecedence.vio Cond/Prec.vio
Cond/PrecProofs.vos Cond/PrecProofs.vok Cond/PrecProofs.required_vos: Cond/PrecProofs.v Gen/BindingPower.vos Gen/DocPrecedence.vos Cond/Prec.vos
Cond/Quirks.vo Cond/Quirks.glob Cond/Quirks.v.beautified Cond/Quirks.required_vo: Cond/Quirks.v Cond/Syntax.vo Cond/Sem.vo Gen/FoldFacts.vo
Cond/Quirks.vio: Cond/Quirks.v Cond/Syntax.vio Cond/Sem.vio Gen/FoldFacts.vio
Cond/Quirks.vos Cond/Quirks.vok Cond/Quirks.required_vos: Cond/Quirks.v Cond/Syntax.vos Cond/Sem.vos Gen/FoldFacts.vos
Cond/QuirksProofs.vo Cond/QuirksProofs.glob Cond/QuirksProofs.v.beautified Cond/QuirksProofs.required_vo: Cond/QuirksProofs.v Cond/Syntax.vo Cond/Sem.vo Cond/SemProofs.vo Cond/Quirks.vo
Cond/QuirksProofs.vio: Cond/QuirksProofs.v Cond/Syntax.vio Cond/Sem.vio Cond/SemProofs.vio Cond/Quirks.vio
Cond/QuirksProofs.vos Cond/QuirksProofs.vok Cond/QuirksProofs.required_vos: Cond/QuirksProofs.v Cond/Syntax.vos Cond/Sem.vos Cond/SemProofs.vos Cond/Quirks.vos
Cond/Rename.vo Cond/Rename.glob Cond/Rename.v.beautified Cond/Rename.required_vo: Cond/Rename.v Cond/Syntax.vo
Cond/Rename.vio: Cond/Rename.v Cond/Syntax.vio
Cond/Rename.vos Cond/Rename.vok Cond/Rename.required_vos: Cond/Rename.v Cond/Syntax.vos
Cond/RuleSet.vo Cond/RuleSet.glob Cond/RuleSet.v.beautified Cond/RuleSet.required_vo: Cond/RuleSet.v Cond/Syntax.vo Cond/Sem.vo
Cond/RuleSet.vio: Cond/RuleSet.v Cond/Syntax.vio Cond/Sem.vio
Cond/RuleSet.vos Cond/RuleSet.vok Cond/RuleSet.required_vos: Cond/RuleSet.v Cond/Syntax.vos Cond/Sem.vos
Cond/RuleSetProofs.vo Cond/RuleSetProofs.glob Cond/RuleSetProofs.v.beautified Cond/RuleSetProofs.required_vo: Cond/RuleSetProofs.v Cond/Syntax.vo Cond/Sem.vo Cond/RuleSet.vo
Cond/RuleSetProofs.vio: Cond/RuleSetProofs.v Cond/Syntax.vio Cond/Sem.vio Cond/RuleSet.vio
Cond/RuleSetProofs.vos Cond/RuleSetProofs.vok Cond/RuleSetProofs.required_vos: Cond/RuleSetProofs.v Cond/Syntax.vos Cond/Sem.vos Cond/RuleSet.vos
Cond/RunsProofs.vo Cond/RunsProofs.glob Cond/RunsProofs.v.beautified Cond/RunsProofs.required_vo: Cond/RunsProofs.v Cond/Syntax.vo Cond/Sem.vo Cond/Quirks.vo Cond/Machine.vo Cond/Emit.vo
Cond/RunsProofs.vio: Cond/RunsProofs.v Cond/Syntax.vio Cond/Sem.vio Cond/Quirks.vio Cond/Machine.vio Cond/Emit.vio
Cond/RunsProofs.vos Cond/RunsProofs.vok Cond/RunsProofs.required_vos: Cond/RunsProofs.v Cond/Syntax.vos Cond/Sem.vos Cond/Quirks.vos Cond/Machine.vos Cond/Emit.vos
Cond/Sem.vo Cond/Sem.glob Cond/Sem.v.beautified Cond/Sem.required_vo: Cond/Sem.v Cond/Syntax.vo
Cond/Sem.vio: Cond/Sem.v Cond/Syntax.vio
Cond/Sem.vos Cond/Sem.vok Cond/Sem.required_vos: Cond/Sem.v Cond/Syntax.vos
Cond/SemProofs.vo Cond/SemProofs.glob Cond/SemProofs.v.beautified Cond/SemProofs.required_vo: Cond/SemProofs.v Cond/Syntax.vo Cond/Sem.vo Cond/Rename.vo
Cond/SemProofs.vio: Cond/SemProofs.v Cond/Syntax.vio Cond/Sem.vio Cond/Rename.vio
Cond/SemProofs.vos Cond/SemProofs.vok Cond/SemProofs.required_vos: Cond/SemProofs.v Cond/Syntax.vos Cond/Sem.vos Cond/Rename.vos
Cond/StrModel.vo Cond/StrModel.glob Cond/StrModel.v.beautified Cond/StrModel.required_vo: Cond/StrModel.v Cond/HostTypes.vo Cond/HostModel.vo
Cond/StrModel.vio: Cond/StrModel.v Cond/HostTypes.vio Cond/HostModel.vio
Cond/StrModel.vos Cond/StrModel.vok Cond/StrModel.required_vos: Cond/StrModel.v Cond/HostTypes.vos Cond/HostModel.vos
Cond/StrModelProofs.vo Cond/StrModelProofs.glob Cond/StrModelProofs.v.beautified Cond/StrModelProofs.required_vo: Cond/StrModelProofs.v Cond/HostTypes.vo Cond/HostModel.vo Cond/StrModel.vo
Cond/StrModelProofs.vio: Cond/StrModelProofs.v Cond/HostTypes.vio Cond/HostModel.vio Cond/StrModel.vio
Cond/StrModelProofs.vos Cond/StrModelProofs.vok Cond/StrModelProofs.required_vos: Cond/StrModelProofs.v Cond/HostTypes.vos Cond/HostModel.vos Cond/StrModel.vos
Cond/Syntax.vo Cond/Syntax.glob Cond/Syntax.v.beautified Cond/Syntax.required_vo: Cond/Syntax.v 
Cond/Syntax.vio: Cond/Syntax.v 
Cond/Syntax.vos Cond/Syntax.vok Cond/Syntax.required_vos: Cond/Syntax.v 
Cond/Traps.vo Cond/Traps.glob Cond/Traps.v.beautified Cond/Traps.required_vo: Cond/Traps.v Cond/HostTypes.vo Cond/HostModel.vo
Cond/Traps.vio: Cond/Traps.v Cond/HostTypes.vio Cond/HostModel.vio
Cond/Traps.vos Cond/Traps.vok Cond/Traps.required_vos: Cond/Traps.v Cond/HostTypes.vos Cond/HostModel.vos
Cond/TrapsProofs.vo Cond/TrapsProofs.glob Cond/TrapsProofs.v.beautified Cond/TrapsProofs.required_vo: Cond/TrapsProofs.v Cond/HostTypes.vo Cond/HostModel.vo Cond/Traps.vo Gen/HostFns.vo
Cond/TrapsProofs.vio: Cond/TrapsProofs.v Cond/HostTypes.vio Cond/HostModel.vio Cond/Traps.vio Gen/HostFns.vio
Cond/TrapsProofs.vos Cond/TrapsProofs.vok Cond/TrapsProofs.required_vos: Cond/TrapsProofs.v Cond/HostTypes.vos Cond/HostModel.vos Cond/Traps.vos Gen/HostFns.vos
Cond/Wasm.vo Cond/Wasm.glob Cond/Wasm.v.beautified Cond/Wasm.required_vo: Cond/Wasm.v Cond/Syntax.vo Cond/Sem.vo Cond/Quirks.vo Cond/Machine.vo Cond/Emit.vo Gen/EmitFacts.vo
Cond/Wasm.vio: Cond/Wasm.v Cond/Syntax.vio Cond/Sem.vio Cond/Quirks.vio Cond/Machine.vio Cond/Emit.vio Gen/EmitFacts.vio
Cond/Wasm.vos Cond/Wasm.vok Cond/Wasm.required_vos: Cond/Wasm.v Cond/Syntax.vos Cond/Sem.vos Cond/Quirks.vos Cond/Machine.vos Cond/Emit.vos Gen/EmitFacts.vos
Fix/Escape.vo Fix/Escape.glob Fix/Escape.v.beautified Fix/Escape.required_vo: Fix/Escape.v Gen/FixApply.vo
Fix/Escape.vio: Fix/Escape.v Gen/FixApply.vio
Fix/Escape.vos Fix/Escape.vok Fix/Escape.required_vos: Fix/Escape.v Gen/FixApply.vos
Fix/EscapeProofs.vo Fix/EscapeProofs.glob Fix/EscapeProofs.v.beautified Fix/EscapeProofs.required_vo: Fix/EscapeProofs.v Gen/FixApply.vo Fix/Escape.vo
Fix/EscapeProofs.vio: Fix/EscapeProofs.v Gen/FixApply.vio Fix/Escape.vio
Fix/EscapeProofs.vos Fix/EscapeProofs.vok Fix/EscapeProofs.required_vos: Fix/EscapeProofs.v Gen/FixApply.vos Fix/Escape.vos
Fix/FixCheck.vo Fix/FixCheck.glob Fix/FixCheck.v.beautified Fix/FixCheck.required_vo: Fix/FixCheck.v Fix/Patch.vo
Fix/FixCheck.vio: Fix/FixCheck.v Fix/Patch.vio
Fix/FixCheck.vos Fix/FixCheck.vok Fix/FixCheck.required_vos: Fix/FixCheck.v Fix/Patch.vos
Fix/Patch.vo Fix/Patch.glob Fix/Patch.v.beautified Fix/Patch.required_vo: Fix/Patch.v Gen/FixApply.vo
Fix/Patch.vio: Fix/Patch.v Gen/FixApply.vio
Fix/Patch.vos Fix/Patch.vok Fix/Patch.required_vos: Fix/Patch.v Gen/FixApply.vos
Fix/PatchProofs.vo Fix/PatchProofs.glob Fix/PatchProofs.v.beautified Fix/PatchProofs.required_vo: Fix/PatchProofs.v Gen/FixApply.vo Fix/Patch.vo
Fix/PatchProofs.vio: Fix/PatchProofs.v Gen/FixApply.vio Fix/Patch.vio
Fix/PatchProofs.vos Fix/PatchProofs.vok Fix/PatchProofs.required_vos: Fix/PatchProofs.v Gen/FixApply.vos Fix/Patch.vos
Fmt/Bubble.vo Fmt/Bubble.glob Fmt/Bubble.v.beautified Fmt/Bubble.required_vo: Fmt/Bubble.v Fmt/Tokens.vo Gen/FmtCats.vo Fmt/Processor.vo
Fmt/Bubble.vio: Fmt/Bubble.v Fmt/Tokens.vio Gen/FmtCats.vio Fmt/Processor.vio
Fmt/Bubble.vos Fmt/Bubble.vok Fmt/Bubble.required_vos: Fmt/Bubble.v Fmt/Tokens.vos Gen/FmtCats.vos Fmt/Processor.vos
Fmt/BubbleProofs.vo Fmt/BubbleProofs.glob Fmt/BubbleProofs.v.beautified Fmt/BubbleProofs.required_vo: Fmt/BubbleProofs.v Fmt/Tokens.vo Gen/FmtCats.vo Fmt/Processor.vo Fmt/ProcessorProofs.vo Fmt/Bubble.vo
Fmt/BubbleProofs.vio: Fmt/BubbleProofs.v Fmt/Tokens.vio Gen/FmtCats.vio Fmt/Processor.vio Fmt/ProcessorProofs.vio Fmt/Bubble.vio
Fmt/BubbleProofs.vos Fmt/BubbleProofs.vok Fmt/BubbleProofs.required_vos: Fmt/BubbleProofs.v Fmt/Tokens.vos Gen/FmtCats.vos Fmt/Processor.vos Fmt/ProcessorProofs.vos Fmt/Bubble.vos
Fmt/FmtCheck.vo Fmt/FmtCheck.glob Fmt/FmtCheck.v.beautified Fmt/FmtCheck.required_vo: Fmt/FmtCheck.v Fmt/Tokens.vo Gen/FmtCats.vo Fmt/Processor.vo Fmt/Bubble.vo Fmt/Stages.vo Fmt/Pipeline.vo Gen/FmtRules.vo
Fmt/FmtCheck.vio: Fmt/FmtCheck.v Fmt/Tokens.vio Gen/FmtCats.vio Fmt/Processor.vio Fmt/Bubble.vio Fmt/Stages.vio Fmt/Pipeline.vio Gen/FmtRules.vio
Fmt/FmtCheck.vos Fmt/FmtCheck.vok Fmt/FmtCheck.required_vos: Fmt/FmtCheck.v Fmt/Tokens.vos Gen/FmtCats.vos Fmt/Processor.vos Fmt/Bubble.vos Fmt/Stages.vos Fmt/Pipeline.vos Gen/FmtRules.vos
Fmt/FmtRulesProofs.vo Fmt/FmtRulesProofs.glob Fmt/FmtRulesProofs.v.beautified Fmt/FmtRulesProofs.required_vo: Fmt/FmtRulesProofs.v Fmt/Tokens.vo Gen/FmtCats.vo Fmt/Processor.vo Fmt/ProcessorProofs.vo Fmt/Bubble.vo Fmt/BubbleProofs.vo Gen/FmtRules.vo
Fmt/FmtRulesProofs.vio: Fmt/FmtRulesProofs.v Fmt/Tokens.vio Gen/FmtCats.vio Fmt/Processor.vio Fmt/ProcessorProofs.vio Fmt/Bubble.vio Fmt/BubbleProofs.vio Gen/FmtRules.vio
Fmt/FmtRulesProofs.vos Fmt/FmtRulesProofs.vok Fmt/FmtRulesProofs.required_vos: Fmt/FmtRulesProofs.v Fmt/Tokens.vos Gen/FmtCats.vos Fmt/Processor.vos Fmt/ProcessorProofs.vos Fmt/Bubble.vos Fmt/BubbleProofs.vos Gen/FmtRules.vos
Fmt/Pipeline.vo Fmt/Pipeline.glob Fmt/Pipeline.v.beautified Fmt/Pipeline.required_vo: Fmt/Pipeline.v 
Fmt/Pipeline.vio: Fmt/Pipeline.v 
Fmt/Pipeline.vos Fmt/Pipeline.vok Fmt/Pipeline.required_vos: Fmt/Pipeline.v 
Fmt/PipelineProofs.vo Fmt/PipelineProofs.glob Fmt/PipelineProofs.v.beautified Fmt/PipelineProofs.required_vo: Fmt/PipelineProofs.v Fmt/Tokens.vo Gen/FmtCats.vo Fmt/Processor.vo Fmt/ProcessorProofs.vo Fmt/Bubble.vo Fmt/BubbleProofs.vo Fmt/Stages.vo Fmt/StagesProofs.vo Fmt/Pipeline.vo Gen/FmtRules.vo Fmt/FmtRulesProofs.vo
Fmt/PipelineProofs.vio: Fmt/PipelineProofs.v Fmt/Tokens.vio Gen/FmtCats.vio Fmt/Processor.vio Fmt/ProcessorProofs.vio Fmt/Bubble.vio Fmt/BubbleProofs.vio Fmt/Stages.vio Fmt/StagesProofs.vio Fmt/Pipeline.vio Gen/FmtRules.vio Fmt/FmtRulesProofs.vio
Fmt/PipelineProofs.vos Fmt/PipelineProofs.vok Fmt/PipelineProofs.required_vos: Fmt/PipelineProofs.v Fmt/Tokens.vos Gen/FmtCats.vos Fmt/Processor.vos Fmt/ProcessorProofs.vos Fmt/Bubble.vos Fmt/BubbleProofs.vos Fmt/Stages.vos Fmt/StagesProofs.vos Fmt/Pipeline.vos Gen/FmtRules.vos Fmt/FmtRulesProofs.vos
Fmt/Processor.vo Fmt/Processor.glob Fmt/Processor.v.beautified Fmt/Processor.required_vo: Fmt/Processor.v Fmt/Tokens.vo Gen/FmtCats.vo
Fmt/Processor.vio: Fmt/Processor.v Fmt/Tokens.vio Gen/FmtCats.vio
Fmt/Processor.vos Fmt/Processor.vok Fmt/Processor.required_vos: Fmt/Processor.v Fmt/Tokens.vos Gen/FmtCats.vos
Fmt/ProcessorProofs.vo Fmt/ProcessorProofs.glob Fmt/ProcessorProofs.v.beautified Fmt/ProcessorProofs.required_vo: Fmt/ProcessorProofs.v Fmt/Tokens.vo Gen/FmtCats.vo Fmt/Processor.vo
Fmt/ProcessorProofs.vio: Fmt/ProcessorProofs.v Fmt/Tokens.vio Gen/FmtCats.vio Fmt/Processor.vio
Fmt/ProcessorProofs.vos Fmt/ProcessorProofs.vok Fmt/ProcessorProofs.required_vos: Fmt/ProcessorProofs.v Fmt/Tokens.vos Gen/FmtCats.vos Fmt/Processor.vos
Fmt/Stages.vo Fmt/Stages.glob Fmt/Stages.v.beautified Fmt/Stages.required_vo: Fmt/Stages.v Fmt/Tokens.vo Gen/FmtCats.vo Gen/FmtComments.vo Fmt/Processor.vo
Fmt/Stages.vio: Fmt/Stages.v Fmt/Tokens.vio Gen/FmtCats.vio Gen/FmtComments.vio Fmt/Processor.vio
Fmt/Stages.vos Fmt/Stages.vok Fmt/Stages.required_vos: Fmt/Stages.v Fmt/Tokens.vos Gen/FmtCats.vos Gen/FmtComments.vos Fmt/Processor.vos
Fmt/StagesProofs.vo Fmt/StagesProofs.glob Fmt/StagesProofs.v.beautified Fmt/StagesProofs.required_vo: Fmt/StagesProofs.v Fmt/Tokens.vo Gen/FmtCats.vo Gen/FmtComments.vo Fmt/Processor.vo Fmt/ProcessorProofs.vo Fmt/Stages.vo
Fmt/StagesProofs.vio: Fmt/StagesProofs.v Fmt/Tokens.vio Gen/FmtCats.vio Gen/FmtComments.vio Fmt/Processor.vio Fmt/ProcessorProofs.vio Fmt/Stages.vio
Fmt/StagesProofs.vos Fmt/StagesProofs.vok Fmt/StagesProofs.required_vos: Fmt/StagesProofs.v Fmt/Tokens.vos Gen/FmtCats.vos Gen/FmtComments.vos Fmt/Processor.vos Fmt/ProcessorProofs.vos Fmt/Stages.vos
Fmt/Tokens.vo Fmt/Tokens.glob Fmt/Tokens.v.beautified Fmt/Tokens.required_vo: Fmt/Tokens.v 
Fmt/Tokens.vio: Fmt/Tokens.v 
Fmt/Tokens.vos Fmt/Tokens.vok Fmt/Tokens.required_vos: Fmt/Tokens.v 
Fmt/YrFmtProofs.vo Fmt/YrFmtProofs.glob Fmt/YrFmtProofs.v.beautified Fmt/YrFmtProofs.required_vo: Fmt/YrFmtProofs.v Fmt/Tokens.vo Gen/FmtRules.vo Fmt/FmtCheck.vo
Fmt/YrFmtProofs.vio: Fmt/YrFmtProofs.v Fmt/Tokens.vio Gen/FmtRules.vio Fmt/FmtCheck.vio
Fmt/YrFmtProofs.vos Fmt/YrFmtProofs.vok Fmt/YrFmtProofs.required_vos: Fmt/YrFmtProofs.v Fmt/Tokens.vos Gen/FmtRules.vos Fmt/FmtCheck.vos
Gen/AstBuilderArms.vo Gen/AstBuilderArms.glob Gen/AstBuilderArms.v.beautified Gen/AstBuilderArms.required_vo: Gen/AstBuilderArms.v 
Gen/AstBuilderArms.vio: Gen/AstBuilderArms.v 
Gen/AstBuilderArms.vos Gen/AstBuilderArms.vok Gen/AstBuilderArms.required_vos: Gen/AstBuilderArms.v 
Gen/BindingPower.vo Gen/BindingPower.glob Gen/BindingPower.v.beautified Gen/BindingPower.required_vo: Gen/BindingPower.v 
Gen/BindingPower.vio: Gen/BindingPower.v 
Gen/BindingPower.vos Gen/BindingPower.vok Gen/BindingPower.required_vos: Gen/BindingPower.v 
Gen/BoundsGen.vo Gen/BoundsGen.glob Gen/BoundsGen.v.beautified Gen/BoundsGen.required_vo: Gen/BoundsGen.v 
Gen/BoundsGen.vio: Gen/BoundsGen.v 
Gen/BoundsGen.vos Gen/BoundsGen.vok Gen/BoundsGen.required_vos: Gen/BoundsGen.v 
Gen/CapiEffects.vo Gen/CapiEffects.glob Gen/CapiEffects.v.beautified Gen/CapiEffects.required_vo: Gen/CapiEffects.v 
Gen/CapiEffects.vio: Gen/CapiEffects.v 
Gen/CapiEffects.vos Gen/CapiEffects.vok Gen/CapiEffects.required_vos: Gen/CapiEffects.v 
Gen/CodecGen.vo Gen/CodecGen.glob Gen/CodecGen.v.beautified Gen/CodecGen.required_vo: Gen/CodecGen.v 
Gen/CodecGen.vio: Gen/CodecGen.v 
Gen/CodecGen.vos Gen/CodecGen.vok Gen/CodecGen.required_vos: Gen/CodecGen.v 
Gen/ConcGen.vo Gen/ConcGen.glob Gen/ConcGen.v.beautified Gen/ConcGen.required_vo: Gen/ConcGen.v 
Gen/ConcGen.vio: Gen/ConcGen.v 
Gen/ConcGen.vos Gen/ConcGen.vok Gen/ConcGen.required_vos: Gen/ConcGen.v 
Gen/DocPrecedence.vo Gen/DocPrecedence.glob Gen/DocPrecedence.v.beautified Gen/DocPrecedence.required_vo: Gen/DocPrecedence.v 
Gen/DocPrecedence.vio: Gen/DocPrecedence.v 
Gen/DocPrecedence.vos Gen/DocPrecedence.vok Gen/DocPrecedence.required_vos: Gen/DocPrecedence.v 
Gen/EmitFacts.vo Gen/EmitFacts.glob Gen/EmitFacts.v.beautified Gen/EmitFacts.required_vo: Gen/EmitFacts.v Cond/Machine.vo
Gen/EmitFacts.vio: Gen/EmitFacts.v Cond/Machine.vio
Gen/EmitFacts.vos Gen/EmitFacts.vok Gen/EmitFacts.required_vos: Gen/EmitFacts.v Cond/Machine.vos
Gen/FastScanGen.vo Gen/FastScanGen.glob Gen/FastScanGen.v.beautified Gen/FastScanGen.required_vo: Gen/FastScanGen.v 
Gen/FastScanGen.vio: Gen/FastScanGen.v 
Gen/FastScanGen.vos Gen/FastScanGen.vok Gen/FastScanGen.required_vos: Gen/FastScanGen.v 
Gen/FixApply.vo Gen/FixApply.glob Gen/FixApply.v.beautified Gen/FixApply.required_vo: Gen/FixApply.v 
Gen/FixApply.vio: Gen/FixApply.v 
Gen/FixApply.vos Gen/FixApply.vok Gen/FixApply.required_vos: Gen/FixApply.v 
Gen/FmtCats.vo Gen/FmtCats.glob Gen/FmtCats.v.beautified Gen/FmtCats.required_vo: Gen/FmtCats.v Fmt/Tokens.vo
Gen/FmtCats.vio: Gen/FmtCats.v Fmt/Tokens.vio
Gen/FmtCats.vos Gen/FmtCats.vok Gen/FmtCats.required_vos: Gen/FmtCats.v Fmt/Tokens.vos
Gen/FmtComments.vo Gen/FmtComments.glob Gen/FmtComments.v.beautified Gen/FmtComments.required_vo: Gen/FmtComments.v 
Gen/FmtComments.vio: Gen/FmtComments.v 
Gen/FmtComments.vos Gen/FmtComments.vok Gen/FmtComments.required_vos: Gen/FmtComments.v 
Gen/FmtRules.vo Gen/FmtRules.glob Gen/FmtRules.v.beautified Gen/FmtRules.required_vo: Gen/FmtRules.v Fmt/Tokens.vo Gen/FmtCats.vo Fmt/Processor.vo Fmt/Bubble.vo Fmt/Pipeline.vo
Gen/FmtRules.vio: Gen/FmtRules.v Fmt/Tokens.vio Gen/FmtCats.vio Fmt/Processor.vio Fmt/Bubble.vio Fmt/Pipeline.vio
Gen/FmtRules.vos Gen/FmtRules.vok Gen/FmtRules.required_vos: Gen/FmtRules.v Fmt/Tokens.vos Gen/FmtCats.vos Fmt/Processor.vos Fmt/Bubble.vos Fmt/Pipeline.vos
Gen/FoldFacts.vo Gen/FoldFacts.glob Gen/FoldFacts.v.beautified Gen/FoldFacts.required_vo: Gen/FoldFacts.v 
Gen/FoldFacts.vio: Gen/FoldFacts.v 
Gen/FoldFacts.vos Gen/FoldFacts.vok Gen/FoldFacts.required_vos: Gen/FoldFacts.v 
Gen/FoldGen.vo Gen/FoldGen.glob Gen/FoldGen.v.beautified Gen/FoldGen.required_vo: Gen/FoldGen.v 
Gen/FoldGen.vio: Gen/FoldGen.v 
Gen/FoldGen.vos Gen/FoldGen.vok Gen/FoldGen.required_vos: Gen/FoldGen.v 
Gen/Grammar.vo Gen/Grammar.glob Gen/Grammar.v.beautified Gen/Grammar.required_vo: Gen/Grammar.v Parser/Machine.vo
Gen/Grammar.vio: Gen/Grammar.v Parser/Machine.vio
Gen/Grammar.vos Gen/Grammar.vok Gen/Grammar.required_vos: Gen/Grammar.v Parser/Machine.vos
Gen/HoistGen.vo Gen/HoistGen.glob Gen/HoistGen.v.beautified Gen/HoistGen.required_vo: Gen/HoistGen.v 
Gen/HoistGen.vio: Gen/HoistGen.v 
Gen/HoistGen.vos Gen/HoistGen.vok Gen/HoistGen.required_vos: Gen/HoistGen.v 
Gen/HostFns.vo Gen/HostFns.glob Gen/HostFns.v.beautified Gen/HostFns.required_vo: Gen/HostFns.v Cond/HostTypes.vo
Gen/HostFns.vio: Gen/HostFns.v Cond/HostTypes.vio
Gen/HostFns.vos Gen/HostFns.vok Gen/HostFns.required_vos: Gen/HostFns.v Cond/HostTypes.vos
Gen/JumpCoalesce.vo Gen/JumpCoalesce.glob Gen/JumpCoalesce.v.beautified Gen/JumpCoalesce.required_vo: Gen/JumpCoalesce.v 
Gen/JumpCoalesce.vio: Gen/JumpCoalesce.v 
Gen/JumpCoalesce.vos Gen/JumpCoalesce.vok Gen/JumpCoalesce.required_vos: Gen/JumpCoalesce.v 
Gen/ModCaps.vo Gen/ModCaps.glob Gen/ModCaps.v.beautified Gen/ModCaps.required_vo: Gen/ModCaps.v 
Gen/ModCaps.vio: Gen/ModCaps.v 
Gen/ModCaps.vos Gen/ModCaps.vok Gen/ModCaps.required_vos: Gen/ModCaps.v 
Gen/PatConsts.vo Gen/PatConsts.glob Gen/PatConsts.v.beautified Gen/PatConsts.required_vo: Gen/PatConsts.v 
Gen/PatConsts.vio: Gen/PatConsts.v 
Gen/PatConsts.vos Gen/PatConsts.vok Gen/PatConsts.required_vos: Gen/PatConsts.v 
Gen/PatternIdentity.vo Gen/PatternIdentity.glob Gen/PatternIdentity.v.beautified Gen/PatternIdentity.required_vo: Gen/PatternIdentity.v 
Gen/PatternIdentity.vio: Gen/PatternIdentity.v 
Gen/PatternIdentity.vos Gen/PatternIdentity.vok Gen/PatternIdentity.required_vos: Gen/PatternIdentity.v 
Gen/ProtoSchema.vo Gen/ProtoSchema.glob Gen/ProtoSchema.v.beautified Gen/ProtoSchema.required_vo: Gen/ProtoSchema.v Types/StructModel.vo
Gen/ProtoSchema.vio: Gen/ProtoSchema.v Types/StructModel.vio
Gen/ProtoSchema.vos Gen/ProtoSchema.vok Gen/ProtoSchema.required_vos: Gen/ProtoSchema.v Types/StructModel.vos
Gen/RulesTyGen.vo Gen/RulesTyGen.glob Gen/RulesTyGen.v.beautified Gen/RulesTyGen.required_vo: Gen/RulesTyGen.v Codec/Reader.vo Codec/Varint.vo Codec/Universe.vo
Gen/RulesTyGen.vio: Gen/RulesTyGen.v Codec/Reader.vio Codec/Varint.vio Codec/Universe.vio
Gen/RulesTyGen.vos Gen/RulesTyGen.vok Gen/RulesTyGen.required_vos: Gen/RulesTyGen.v Codec/Reader.vos Codec/Varint.vos Codec/Universe.vos
Gen/ScanState.vo Gen/ScanState.glob Gen/ScanState.v.beautified Gen/ScanState.required_vo: Gen/ScanState.v 
Gen/ScanState.vio: Gen/ScanState.v 
Gen/ScanState.vos Gen/ScanState.vok Gen/ScanState.required_vos: Gen/ScanState.v 
Gen/SnapshotGen.vo Gen/SnapshotGen.glob Gen/SnapshotGen.v.beautified Gen/SnapshotGen.required_vo: Gen/SnapshotGen.v 
Gen/SnapshotGen.vio: Gen/SnapshotGen.v 
Gen/SnapshotGen.vos Gen/SnapshotGen.vok Gen/SnapshotGen.required_vos: Gen/SnapshotGen.v 
Gen/TokenizerGen.vo Gen/TokenizerGen.glob Gen/TokenizerGen.v.beautified Gen/TokenizerGen.required_vo: Gen/TokenizerGen.v Parser/Tokenizer.vo Gen/Grammar.vo
Gen/TokenizerGen.vio: Gen/TokenizerGen.v Parser/Tokenizer.vio Gen/Grammar.vio
Gen/TokenizerGen.vos Gen/TokenizerGen.vok Gen/TokenizerGen.required_vos: Gen/TokenizerGen.v Parser/Tokenizer.vos Gen/Grammar.vos
Gen/TrackingGen.vo Gen/TrackingGen.glob Gen/TrackingGen.v.beautified Gen/TrackingGen.required_vo: Gen/TrackingGen.v Scanner/PrivIter.vo Scanner/Tracking.vo
Gen/TrackingGen.vio: Gen/TrackingGen.v Scanner/PrivIter.vio Scanner/Tracking.vio
Gen/TrackingGen.vos Gen/TrackingGen.vok Gen/TrackingGen.required_vos: Gen/TrackingGen.v Scanner/PrivIter.vos Scanner/Tracking.vos
Gen/WalkGen.vo Gen/WalkGen.glob Gen/WalkGen.v.beautified Gen/WalkGen.required_vo: Gen/WalkGen.v 
Gen/WalkGen.vio: Gen/WalkGen.v 
Gen/WalkGen.vos Gen/WalkGen.vok Gen/WalkGen.required_vos: Gen/WalkGen.v 
Modules/Caps.vo Modules/Caps.glob Modules/Caps.v.beautified Modules/Caps.required_vo: Modules/Caps.v Gen/ModCaps.vo
Modules/Caps.vio: Modules/Caps.v Gen/ModCaps.vio
Modules/Caps.vos Modules/Caps.vok Modules/Caps.required_vos: Modules/Caps.v Gen/ModCaps.vos
Modules/CapsProofs.vo Modules/CapsProofs.glob Modules/CapsProofs.v.beautified Modules/CapsProofs.required_vo: Modules/CapsProofs.v Gen/ModCaps.vo Modules/Caps.vo
Modules/CapsProofs.vio: Modules/CapsProofs.v Gen/ModCaps.vio Modules/Caps.vio
Modules/CapsProofs.vos Modules/CapsProofs.vok Modules/CapsProofs.required_vos: Modules/CapsProofs.v Gen/ModCaps.vos Modules/Caps.vos
Modules/Cores.vo Modules/Cores.glob Modules/Cores.v.beautified Modules/Cores.required_vo: Modules/Cores.v 
Modules/Cores.vio: Modules/Cores.v 
Modules/Cores.vos Modules/Cores.vok Modules/Cores.required_vos: Modules/Cores.v 
Modules/CoresProofs.vo Modules/CoresProofs.glob Modules/CoresProofs.v.beautified Modules/CoresProofs.required_vo: Modules/CoresProofs.v Modules/Cores.vo
Modules/CoresProofs.vio: Modules/CoresProofs.v Modules/Cores.vio
Modules/CoresProofs.vos Modules/CoresProofs.vok Modules/CoresProofs.required_vos: Modules/CoresProofs.v Modules/Cores.vos
Modules/Leb.vo Modules/Leb.glob Modules/Leb.v.beautified Modules/Leb.required_vo: Modules/Leb.v 
Modules/Leb.vio: Modules/Leb.v 
Modules/Leb.vos Modules/Leb.vok Modules/Leb.required_vos: Modules/Leb.v 
Modules/LebProofs.vo Modules/LebProofs.glob Modules/LebProofs.v.beautified Modules/LebProofs.required_vo: Modules/LebProofs.v Modules/Leb.vo
Modules/LebProofs.vio: Modules/LebProofs.v Modules/Leb.vio
Modules/LebProofs.vos Modules/LebProofs.vok Modules/LebProofs.required_vos: Modules/LebProofs.v Modules/Leb.vos
Modules/ModCheck.vo Modules/ModCheck.glob Modules/ModCheck.v.beautified Modules/ModCheck.required_vo: Modules/ModCheck.v Modules/Rva.vo Modules/Leb.vo Modules/VarInt.vo Modules/Cores.vo
Modules/ModCheck.vio: Modules/ModCheck.v Modules/Rva.vio Modules/Leb.vio Modules/VarInt.vio Modules/Cores.vio
Modules/ModCheck.vos Modules/ModCheck.vok Modules/ModCheck.required_vos: Modules/ModCheck.v Modules/Rva.vos Modules/Leb.vos Modules/VarInt.vos Modules/Cores.vos
Modules/Rva.vo Modules/Rva.glob Modules/Rva.v.beautified Modules/Rva.required_vo: Modules/Rva.v 
Modules/Rva.vio: Modules/Rva.v 
Modules/Rva.vos Modules/Rva.vok Modules/Rva.required_vos: Modules/Rva.v 
Modules/RvaProofs.vo Modules/RvaProofs.glob Modules/RvaProofs.v.beautified Modules/RvaProofs.required_vo: Modules/RvaProofs.v Modules/Rva.vo
Modules/RvaProofs.vio: Modules/RvaProofs.v Modules/Rva.vio
Modules/RvaProofs.vos Modules/RvaProofs.vok Modules/RvaProofs.required_vos: Modules/RvaProofs.v Modules/Rva.vos
Modules/VarInt.vo Modules/VarInt.glob Modules/VarInt.v.beautified Modules/VarInt.required_vo: Modules/VarInt.v 
Modules/VarInt.vio: Modules/VarInt.v 
Modules/VarInt.vos Modules/VarInt.vok Modules/VarInt.required_vos: Modules/VarInt.v 
Modules/VarIntProofs.vo Modules/VarIntProofs.glob Modules/VarIntProofs.v.beautified Modules/VarIntProofs.required_vo: Modules/VarIntProofs.v Modules/VarInt.vo
Modules/VarIntProofs.vio: Modules/VarIntProofs.v Modules/VarInt.vio
Modules/VarIntProofs.vos Modules/VarIntProofs.vok Modules/VarIntProofs.required_vos: Modules/VarIntProofs.v Modules/VarInt.vos
Opt/Bounds.vo Opt/Bounds.glob Opt/Bounds.v.beautified Opt/Bounds.required_vo: Opt/Bounds.v Gen/BoundsGen.vo
Opt/Bounds.vio: Opt/Bounds.v Gen/BoundsGen.vio
Opt/Bounds.vos Opt/Bounds.vok Opt/Bounds.required_vos: Opt/Bounds.v Gen/BoundsGen.vos
Opt/BoundsProofs.vo Opt/BoundsProofs.glob Opt/BoundsProofs.v.beautified Opt/BoundsProofs.required_vo: Opt/BoundsProofs.v Gen/BoundsGen.vo Opt/Bounds.vo
Opt/BoundsProofs.vio: Opt/BoundsProofs.v Gen/BoundsGen.vio Opt/Bounds.vio
Opt/BoundsProofs.vos Opt/BoundsProofs.vok Opt/BoundsProofs.required_vos: Opt/BoundsProofs.v Gen/BoundsGen.vos Opt/Bounds.vos
Opt/FastScan.vo Opt/FastScan.glob Opt/FastScan.v.beautified Opt/FastScan.required_vo: Opt/FastScan.v Gen/FastScanGen.vo
Opt/FastScan.vio: Opt/FastScan.v Gen/FastScanGen.vio
Opt/FastScan.vos Opt/FastScan.vok Opt/FastScan.required_vos: Opt/FastScan.v Gen/FastScanGen.vos
Opt/FastScanProofs.vo Opt/FastScanProofs.glob Opt/FastScanProofs.v.beautified Opt/FastScanProofs.required_vo: Opt/FastScanProofs.v Gen/FastScanGen.vo Opt/FastScan.vo
Opt/FastScanProofs.vio: Opt/FastScanProofs.v Gen/FastScanGen.vio Opt/FastScan.vio
Opt/FastScanProofs.vos Opt/FastScanProofs.vok Opt/FastScanProofs.required_vos: Opt/FastScanProofs.v Gen/FastScanGen.vos Opt/FastScan.vos
Opt/Fold.vo Opt/Fold.glob Opt/Fold.v.beautified Opt/Fold.required_vo: Opt/Fold.v Gen/FoldGen.vo
Opt/Fold.vio: Opt/Fold.v Gen/FoldGen.vio
Opt/Fold.vos Opt/Fold.vok Opt/Fold.required_vos: Opt/Fold.v Gen/FoldGen.vos
Opt/FoldProofs.vo Opt/FoldProofs.glob Opt/FoldProofs.v.beautified Opt/FoldProofs.required_vo: Opt/FoldProofs.v Gen/FoldGen.vo Opt/Fold.vo
Opt/FoldProofs.vio: Opt/FoldProofs.v Gen/FoldGen.vio Opt/Fold.vio
Opt/FoldProofs.vos Opt/FoldProofs.vok Opt/FoldProofs.required_vos: Opt/FoldProofs.v Gen/FoldGen.vos Opt/Fold.vos
Opt/Hoist.vo Opt/Hoist.glob Opt/Hoist.v.beautified Opt/Hoist.required_vo: Opt/Hoist.v Gen/HoistGen.vo
Opt/Hoist.vio: Opt/Hoist.v Gen/HoistGen.vio
Opt/Hoist.vos Opt/Hoist.vok Opt/Hoist.required_vos: Opt/Hoist.v Gen/HoistGen.vos
Opt/HoistProofs.vo Opt/HoistProofs.glob Opt/HoistProofs.v.beautified Opt/HoistProofs.required_vo: Opt/HoistProofs.v Gen/HoistGen.vo Opt/Hoist.vo
Opt/HoistProofs.vio: Opt/HoistProofs.v Gen/HoistGen.vio Opt/Hoist.vio
Opt/HoistProofs.vos Opt/HoistProofs.vok Opt/HoistProofs.required_vos: Opt/HoistProofs.v Gen/HoistGen.vos Opt/Hoist.vos
Opt/OptCheck.vo Opt/OptCheck.glob Opt/OptCheck.v.beautified Opt/OptCheck.required_vo: Opt/OptCheck.v Gen/FoldGen.vo Opt/Fold.vo Gen/BoundsGen.vo Opt/Bounds.vo Gen/FastScanGen.vo Opt/FastScan.vo Gen/HoistGen.vo Opt/Hoist.vo
Opt/OptCheck.vio: Opt/OptCheck.v Gen/FoldGen.vio Opt/Fold.vio Gen/BoundsGen.vio Opt/Bounds.vio Gen/FastScanGen.vio Opt/FastScan.vio Gen/HoistGen.vio Opt/Hoist.vio
Opt/OptCheck.vos Opt/OptCheck.vok Opt/OptCheck.required_vos: Opt/OptCheck.v Gen/FoldGen.vos Opt/Fold.vos Gen/BoundsGen.vos Opt/Bounds.vos Gen/FastScanGen.vos Opt/FastScan.vos Gen/HoistGen.vos Opt/Hoist.vos
Parser/Machine.vo Parser/Machine.glob Parser/Machine.v.beautified Parser/Machine.required_vo: Parser/Machine.v 
Parser/Machine.vio: Parser/Machine.v 
Parser/Machine.vos Parser/Machine.vok Parser/Machine.required_vos: Parser/Machine.v 
Parser/MachineExamples.vo Parser/MachineExamples.glob Parser/MachineExamples.v.beautified Parser/MachineExamples.required_vo: Parser/MachineExamples.v Parser/Machine.vo Parser/MachineProofs.vo Gen/Grammar.vo
Parser/MachineExamples.vio: Parser/MachineExamples.v Parser/Machine.vio Parser/MachineProofs.vio Gen/Grammar.vio
Parser/MachineExamples.vos Parser/MachineExamples.vok Parser/MachineExamples.required_vos: Parser/MachineExamples.v Parser/Machine.vos Parser/MachineProofs.vos Gen/Grammar.vos
Parser/MachineProofs.vo Parser/MachineProofs.glob Parser/MachineProofs.v.beautified Parser/MachineProofs.required_vo: Parser/MachineProofs.v Parser/Machine.vo
Parser/MachineProofs.vio: Parser/MachineProofs.v Parser/Machine.vio
Parser/MachineProofs.vos Parser/MachineProofs.vok Parser/MachineProofs.required_vos: Parser/MachineProofs.v Parser/Machine.vos
Parser/ParserCheck.vo Parser/ParserCheck.glob Parser/ParserCheck.v.beautified Parser/ParserCheck.required_vo: Parser/ParserCheck.v Parser/Machine.vo Parser/Position.vo Gen/Grammar.vo
Parser/ParserCheck.vio: Parser/ParserCheck.v Parser/Machine.vio Parser/Position.vio Gen/Grammar.vio
Parser/ParserCheck.vos Parser/ParserCheck.vok Parser/ParserCheck.required_vos: Parser/ParserCheck.v Parser/Machine.vos Parser/Position.vos Gen/Grammar.vos
Parser/Position.vo Parser/Position.glob Parser/Position.v.beautified Parser/Position.required_vo: Parser/Position.v 
Parser/Position.vio: Parser/Position.v 
Parser/Position.vos Parser/Position.vok Parser/Position.required_vos: Parser/Position.v 
Parser/PositionProofs.vo Parser/PositionProofs.glob Parser/PositionProofs.v.beautified Parser/PositionProofs.required_vo: Parser/PositionProofs.v Parser/Position.vo
Parser/PositionProofs.vio: Parser/PositionProofs.v Parser/Position.vio
Parser/PositionProofs.vos Parser/PositionProofs.vok Parser/PositionProofs.required_vos: Parser/PositionProofs.v Parser/Position.vos
Parser/Tokenizer.vo Parser/Tokenizer.glob Parser/Tokenizer.v.beautified Parser/Tokenizer.required_vo: Parser/Tokenizer.v Base/Utf8.vo
Parser/Tokenizer.vio: Parser/Tokenizer.v Base/Utf8.vio
Parser/Tokenizer.vos Parser/Tokenizer.vok Parser/Tokenizer.required_vos: Parser/Tokenizer.v Base/Utf8.vos
Parser/TokenizerCheck.vo Parser/TokenizerCheck.glob Parser/TokenizerCheck.v.beautified Parser/TokenizerCheck.required_vo: Parser/TokenizerCheck.v Parser/Machine.vo Parser/Tokenizer.vo Gen/Grammar.vo Gen/TokenizerGen.vo Parser/ParserCheck.vo
Parser/TokenizerCheck.vio: Parser/TokenizerCheck.v Parser/Machine.vio Parser/Tokenizer.vio Gen/Grammar.vio Gen/TokenizerGen.vio Parser/ParserCheck.vio
Parser/TokenizerCheck.vos Parser/TokenizerCheck.vok Parser/TokenizerCheck.required_vos: Parser/TokenizerCheck.v Parser/Machine.vos Parser/Tokenizer.vos Gen/Grammar.vos Gen/TokenizerGen.vos Parser/ParserCheck.vos
Parser/TokenizerInst.vo Parser/TokenizerInst.glob Parser/TokenizerInst.v.beautified Parser/TokenizerInst.required_vo: Parser/TokenizerInst.v Parser/Tokenizer.vo Parser/TokenizerProofs.vo Gen/Grammar.vo Gen/TokenizerGen.vo
Parser/TokenizerInst.vio: Parser/TokenizerInst.v Parser/Tokenizer.vio Parser/TokenizerProofs.vio Gen/Grammar.vio Gen/TokenizerGen.vio
Parser/TokenizerInst.vos Parser/TokenizerInst.vok Parser/TokenizerInst.required_vos: Parser/TokenizerInst.v Parser/Tokenizer.vos Parser/TokenizerProofs.vos Gen/Grammar.vos Gen/TokenizerGen.vos
Parser/TokenizerProofs.vo Parser/TokenizerProofs.glob Parser/TokenizerProofs.v.beautified Parser/TokenizerProofs.required_vo: Parser/TokenizerProofs.v Base/Utf8.vo Parser/Tokenizer.vo
Parser/TokenizerProofs.vio: Parser/TokenizerProofs.v Base/Utf8.vio Parser/Tokenizer.vio
Parser/TokenizerProofs.vos Parser/TokenizerProofs.vok Parser/TokenizerProofs.required_vos: Parser/TokenizerProofs.v Base/Utf8.vos Parser/Tokenizer.vos
Pat/Atoms.vo Pat/Atoms.glob Pat/Atoms.v.beautified Pat/Atoms.required_vo: Pat/Atoms.v Pat/Syntax.vo Pat/Sem.vo Pat/Matcher.vo Pat/Modifiers.vo Pat/Base64.vo
Pat/Atoms.vio: Pat/Atoms.v Pat/Syntax.vio Pat/Sem.vio Pat/Matcher.vio Pat/Modifiers.vio Pat/Base64.vio
Pat/Atoms.vos Pat/Atoms.vok Pat/Atoms.required_vos: Pat/Atoms.v Pat/Syntax.vos Pat/Sem.vos Pat/Matcher.vos Pat/Modifiers.vos Pat/Base64.vos
Pat/AtomsProofs.vo Pat/AtomsProofs.glob Pat/AtomsProofs.v.beautified Pat/AtomsProofs.required_vo: Pat/AtomsProofs.v Pat/Syntax.vo Pat/Sem.vo Pat/Matcher.vo Pat/Modifiers.vo Pat/ModifiersProofs.vo Pat/Base64.vo Pat/Atoms.vo
Pat/AtomsProofs.vio: Pat/AtomsProofs.v Pat/Syntax.vio Pat/Sem.vio Pat/Matcher.vio Pat/Modifiers.vio Pat/ModifiersProofs.vio Pat/Base64.vio Pat/Atoms.vio
Pat/AtomsProofs.vos Pat/AtomsProofs.vok Pat/AtomsProofs.required_vos: Pat/AtomsProofs.v Pat/Syntax.vos Pat/Sem.vos Pat/Matcher.vos Pat/Modifiers.vos Pat/ModifiersProofs.vos Pat/Base64.vos Pat/Atoms.vos
Pat/Base64.vo Pat/Base64.glob Pat/Base64.v.beautified Pat/Base64.required_vo: Pat/Base64.v Pat/Syntax.vo Pat/Modifiers.vo
Pat/Base64.vio: Pat/Base64.v Pat/Syntax.vio Pat/Modifiers.vio
Pat/Base64.vos Pat/Base64.vok Pat/Base64.required_vos: Pat/Base64.v Pat/Syntax.vos Pat/Modifiers.vos
Pat/Base64Proofs.vo Pat/Base64Proofs.glob Pat/Base64Proofs.v.beautified Pat/Base64Proofs.required_vo: Pat/Base64Proofs.v Pat/Syntax.vo Pat/Sem.vo Pat/Matcher.vo Pat/Modifiers.vo Pat/ModifiersProofs.vo Pat/Base64.vo
Pat/Base64Proofs.vio: Pat/Base64Proofs.v Pat/Syntax.vio Pat/Sem.vio Pat/Matcher.vio Pat/Modifiers.vio Pat/ModifiersProofs.vio Pat/Base64.vio
Pat/Base64Proofs.vos Pat/Base64Proofs.vok Pat/Base64Proofs.required_vos: Pat/Base64Proofs.v Pat/Syntax.vos Pat/Sem.vos Pat/Matcher.vos Pat/Modifiers.vos Pat/ModifiersProofs.vos Pat/Base64.vos
Pat/Blocks.vo Pat/Blocks.glob Pat/Blocks.v.beautified Pat/Blocks.required_vo: Pat/Blocks.v Gen/ScanState.vo
Pat/Blocks.vio: Pat/Blocks.v Gen/ScanState.vio
Pat/Blocks.vos Pat/Blocks.vok Pat/Blocks.required_vos: Pat/Blocks.v Gen/ScanState.vos
Pat/BlocksCheck.vo Pat/BlocksCheck.glob Pat/BlocksCheck.v.beautified Pat/BlocksCheck.required_vo: Pat/BlocksCheck.v Pat/Blocks.vo Gen/ScanState.vo Scanner/State.vo
Pat/BlocksCheck.vio: Pat/BlocksCheck.v Pat/Blocks.vio Gen/ScanState.vio Scanner/State.vio
Pat/BlocksCheck.vos Pat/BlocksCheck.vok Pat/BlocksCheck.required_vos: Pat/BlocksCheck.v Pat/Blocks.vos Gen/ScanState.vos Scanner/State.vos
Pat/BlocksPipeline.vo Pat/BlocksPipeline.glob Pat/BlocksPipeline.v.beautified Pat/BlocksPipeline.required_vo: Pat/BlocksPipeline.v Pat/Syntax.vo Pat/MatchList.vo Pat/Atoms.vo Pat/Pipeline.vo Pat/Blocks.vo
Pat/BlocksPipeline.vio: Pat/BlocksPipeline.v Pat/Syntax.vio Pat/MatchList.vio Pat/Atoms.vio Pat/Pipeline.vio Pat/Blocks.vio
Pat/BlocksPipeline.vos Pat/BlocksPipeline.vok Pat/BlocksPipeline.required_vos: Pat/BlocksPipeline.v Pat/Syntax.vos Pat/MatchList.vos Pat/Atoms.vos Pat/Pipeline.vos Pat/Blocks.vos
Pat/BlocksPipelineProofs.vo Pat/BlocksPipelineProofs.glob Pat/BlocksPipelineProofs.v.beautified Pat/BlocksPipelineProofs.required_vo: Pat/BlocksPipelineProofs.v Pat/Syntax.vo Pat/MatchList.vo Pat/Atoms.vo Pat/Pipeline.vo Pat/Blocks.vo Pat/BlocksProofs.vo Pat/BlocksPipeline.vo
Pat/BlocksPipelineProofs.vio: Pat/BlocksPipelineProofs.v Pat/Syntax.vio Pat/MatchList.vio Pat/Atoms.vio Pat/Pipeline.vio Pat/Blocks.vio Pat/BlocksProofs.vio Pat/BlocksPipeline.vio
Pat/BlocksPipelineProofs.vos Pat/BlocksPipelineProofs.vok Pat/BlocksPipelineProofs.required_vos: Pat/BlocksPipelineProofs.v Pat/Syntax.vos Pat/MatchList.vos Pat/Atoms.vos Pat/Pipeline.vos Pat/Blocks.vos Pat/BlocksProofs.vos Pat/BlocksPipeline.vos
Pat/BlocksProofs.vo Pat/BlocksProofs.glob Pat/BlocksProofs.v.beautified Pat/BlocksProofs.required_vo: Pat/BlocksProofs.v Gen/ScanState.vo Pat/Blocks.vo
Pat/BlocksProofs.vio: Pat/BlocksProofs.v Gen/ScanState.vio Pat/Blocks.vio
Pat/BlocksProofs.vos Pat/BlocksProofs.vok Pat/BlocksProofs.required_vos: Pat/BlocksProofs.v Gen/ScanState.vos Pat/Blocks.vos
Pat/C01Check.vo Pat/C01Check.glob Pat/C01Check.v.beautified Pat/C01Check.required_vo: Pat/C01Check.v Gen/PatConsts.vo Pat/Syntax.vo Pat/Sem.vo Pat/Matcher.vo Pat/Modifiers.vo Pat/MatchList.vo Pat/Base64.vo Pat/Atoms.vo Pat/Pipeline.vo Pat/ChainRun.vo Pat/Chain.vo
Pat/C01Check.vio: Pat/C01Check.v Gen/PatConsts.vio Pat/Syntax.vio Pat/Sem.vio Pat/Matcher.vio Pat/Modifiers.vio Pat/MatchList.vio Pat/Base64.vio Pat/Atoms.vio Pat/Pipeline.vio Pat/ChainRun.vio Pat/Chain.vio
Pat/C01Check.vos Pat/C01Check.vok Pat/C01Check.required_vos: Pat/C01Check.v Gen/PatConsts.vos Pat/Syntax.vos Pat/Sem.vos Pat/Matcher.vos Pat/Modifiers.vos Pat/MatchList.vos Pat/Base64.vos Pat/Atoms.vos Pat/Pipeline.vos Pat/ChainRun.vos Pat/Chain.vos
Pat/C01CheckProofs.vo Pat/C01CheckProofs.glob Pat/C01CheckProofs.v.beautified Pat/C01CheckProofs.required_vo: Pat/C01CheckProofs.v Gen/PatConsts.vo Pat/Syntax.vo Pat/Sem.vo Pat/Matcher.vo Pat/MatcherProofs.vo Pat/Modifiers.vo Pat/ModifiersProofs.vo Pat/MatchList.vo Pat/Atoms.vo Pat/Pipeline.vo Pat/PipelineProofs.vo Pat/C01Check.vo
Pat/C01CheckProofs.vio: Pat/C01CheckProofs.v Gen/PatConsts.vio Pat/Syntax.vio Pat/Sem.vio Pat/Matcher.vio Pat/MatcherProofs.vio Pat/Modifiers.vio Pat/ModifiersProofs.vio Pat/MatchList.vio Pat/Atoms.vio Pat/Pipeline.vio Pat/PipelineProofs.vio Pat/C01Check.vio
Pat/C01CheckProofs.vos Pat/C01CheckProofs.vok Pat/C01CheckProofs.required_vos: Pat/C01CheckProofs.v Gen/PatConsts.vos Pat/Syntax.vos Pat/Sem.vos Pat/Matcher.vos Pat/MatcherProofs.vos Pat/Modifiers.vos Pat/ModifiersProofs.vos Pat/MatchList.vos Pat/Atoms.vos Pat/Pipeline.vos Pat/PipelineProofs.vos Pat/C01Check.vos
Pat/Chain.vo Pat/Chain.glob Pat/Chain.v.beautified Pat/Chain.required_vo: Pat/Chain.v Gen/PatConsts.vo Pat/Syntax.vo Pat/Sem.vo
Pat/Chain.vio: Pat/Chain.v Gen/PatConsts.vio Pat/Syntax.vio Pat/Sem.vio
Pat/Chain.vos Pat/Chain.vok Pat/Chain.required_vos: Pat/Chain.v Gen/PatConsts.vos Pat/Syntax.vos Pat/Sem.vos
Pat/ChainCompleteProofs.vo Pat/ChainCompleteProofs.glob Pat/ChainCompleteProofs.v.beautified Pat/ChainCompleteProofs.required_vo: Pat/ChainCompleteProofs.v Pat/Syntax.vo Pat/Sem.vo Pat/Matcher.vo Pat/MatcherProofs.vo Pat/Modifiers.vo Pat/MatchList.vo Pat/MatchListProofs.vo Pat/Chain.vo Pat/ChainProofs.vo Pat/ChainRun.vo Pat/ChainRunProofs.vo
Pat/ChainCompleteProofs.vio: Pat/ChainCompleteProofs.v Pat/Syntax.vio Pat/Sem.vio Pat/Matcher.vio Pat/MatcherProofs.vio Pat/Modifiers.vio Pat/MatchList.vio Pat/MatchListProofs.vio Pat/Chain.vio Pat/ChainProofs.vio Pat/ChainRun.vio Pat/ChainRunProofs.vio
Pat/ChainCompleteProofs.vos Pat/ChainCompleteProofs.vok Pat/ChainCompleteProofs.required_vos: Pat/ChainCompleteProofs.v Pat/Syntax.vos Pat/Sem.vos Pat/Matcher.vos Pat/MatcherProofs.vos Pat/Modifiers.vos Pat/MatchList.vos Pat/MatchListProofs.vos Pat/Chain.vos Pat/ChainProofs.vos Pat/ChainRun.vos Pat/ChainRunProofs.vos
Pat/ChainEndProofs.vo Pat/ChainEndProofs.glob Pat/ChainEndProofs.v.beautified Pat/ChainEndProofs.required_vo: Pat/ChainEndProofs.v Pat/Syntax.vo Pat/Sem.vo Pat/Matcher.vo Pat/MatcherProofs.vo Pat/Modifiers.vo Pat/MatchList.vo Pat/MatchListProofs.vo Pat/Chain.vo Pat/ChainProofs.vo Pat/ChainRun.vo Pat/ChainRunProofs.vo Pat/ChainCompleteProofs.vo
Pat/ChainEndProofs.vio: Pat/ChainEndProofs.v Pat/Syntax.vio Pat/Sem.vio Pat/Matcher.vio Pat/MatcherProofs.vio Pat/Modifiers.vio Pat/MatchList.vio Pat/MatchListProofs.vio Pat/Chain.vio Pat/ChainProofs.vio Pat/ChainRun.vio Pat/ChainRunProofs.vio Pat/ChainCompleteProofs.vio
Pat/ChainEndProofs.vos Pat/ChainEndProofs.vok Pat/ChainEndProofs.required_vos: Pat/ChainEndProofs.v Pat/Syntax.vos Pat/Sem.vos Pat/Matcher.vos Pat/MatcherProofs.vos Pat/Modifiers.vos Pat/MatchList.vos Pat/MatchListProofs.vos Pat/Chain.vos Pat/ChainProofs.vos Pat/ChainRun.vos Pat/ChainRunProofs.vos Pat/ChainCompleteProofs.vos
Pat/ChainProofs.vo Pat/ChainProofs.glob Pat/ChainProofs.v.beautified Pat/ChainProofs.required_vo: Pat/ChainProofs.v Gen/PatConsts.vo Pat/Syntax.vo Pat/Sem.vo Pat/Matcher.vo Pat/MatcherProofs.vo Pat/Chain.vo
Pat/ChainProofs.vio: Pat/ChainProofs.v Gen/PatConsts.vio Pat/Syntax.vio Pat/Sem.vio Pat/Matcher.vio Pat/MatcherProofs.vio Pat/Chain.vio
Pat/ChainProofs.vos Pat/ChainProofs.vok Pat/ChainProofs.required_vos: Pat/ChainProofs.v Gen/PatConsts.vos Pat/Syntax.vos Pat/Sem.vos Pat/Matcher.vos Pat/MatcherProofs.vos Pat/Chain.vos
Pat/ChainRun.vo Pat/ChainRun.glob Pat/ChainRun.v.beautified Pat/ChainRun.required_vo: Pat/ChainRun.v Pat/Syntax.vo Pat/Sem.vo Pat/Matcher.vo Pat/Modifiers.vo Pat/MatchList.vo Pat/Atoms.vo Pat/Pipeline.vo Pat/Chain.vo
Pat/ChainRun.vio: Pat/ChainRun.v Pat/Syntax.vio Pat/Sem.vio Pat/Matcher.vio Pat/Modifiers.vio Pat/MatchList.vio Pat/Atoms.vio Pat/Pipeline.vio Pat/Chain.vio
Pat/ChainRun.vos Pat/ChainRun.vok Pat/ChainRun.required_vos: Pat/ChainRun.v Pat/Syntax.vos Pat/Sem.vos Pat/Matcher.vos Pat/Modifiers.vos Pat/MatchList.vos Pat/Atoms.vos Pat/Pipeline.vos Pat/Chain.vos
Pat/ChainRunProofs.vo Pat/ChainRunProofs.glob Pat/ChainRunProofs.v.beautified Pat/ChainRunProofs.required_vo: Pat/ChainRunProofs.v Gen/PatConsts.vo Pat/Syntax.vo Pat/Sem.vo Pat/Matcher.vo Pat/MatcherProofs.vo Pat/Modifiers.vo Pat/MatchList.vo Pat/MatchListProofs.vo Pat/Atoms.vo Pat/Pipeline.vo Pat/PipelineProofs.vo Pat/Chain.vo Pat/ChainProofs.vo Pat/ChainRun.vo
Pat/ChainRunProofs.vio: Pat/ChainRunProofs.v Gen/PatConsts.vio Pat/Syntax.vio Pat/Sem.vio Pat/Matcher.vio Pat/MatcherProofs.vio Pat/Modifiers.vio Pat/MatchList.vio Pat/MatchListProofs.vio Pat/Atoms.vio Pat/Pipeline.vio Pat/PipelineProofs.vio Pat/Chain.vio Pat/ChainProofs.vio Pat/ChainRun.vio
Pat/ChainRunProofs.vos Pat/ChainRunProofs.vok Pat/ChainRunProofs.required_vos: Pat/ChainRunProofs.v Gen/PatConsts.vos Pat/Syntax.vos Pat/Sem.vos Pat/Matcher.vos Pat/MatcherProofs.vos Pat/Modifiers.vos Pat/MatchList.vos Pat/MatchListProofs.vos Pat/Atoms.vos Pat/Pipeline.vos Pat/PipelineProofs.vos Pat/Chain.vos Pat/ChainProofs.vos Pat/ChainRun.vos
Pat/Jumps.vo Pat/Jumps.glob Pat/Jumps.v.beautified Pat/Jumps.required_vo: Pat/Jumps.v Gen/JumpCoalesce.vo Pat/Syntax.vo
Pat/Jumps.vio: Pat/Jumps.v Gen/JumpCoalesce.vio Pat/Syntax.vio
Pat/Jumps.vos Pat/Jumps.vok Pat/Jumps.required_vos: Pat/Jumps.v Gen/JumpCoalesce.vos Pat/Syntax.vos
Pat/JumpsProofs.vo Pat/JumpsProofs.glob Pat/JumpsProofs.v.beautified Pat/JumpsProofs.required_vo: Pat/JumpsProofs.v Gen/JumpCoalesce.vo Pat/Syntax.vo Pat/Sem.vo Pat/Matcher.vo Pat/MatcherProofs.vo Pat/Jumps.vo
Pat/JumpsProofs.vio: Pat/JumpsProofs.v Gen/JumpCoalesce.vio Pat/Syntax.vio Pat/Sem.vio Pat/Matcher.vio Pat/MatcherProofs.vio Pat/Jumps.vio
Pat/JumpsProofs.vos Pat/JumpsProofs.vok Pat/JumpsProofs.required_vos: Pat/JumpsProofs.v Gen/JumpCoalesce.vos Pat/Syntax.vos Pat/Sem.vos Pat/Matcher.vos Pat/MatcherProofs.vos Pat/Jumps.vos
Pat/MatchList.vo Pat/MatchList.glob Pat/MatchList.v.beautified Pat/MatchList.required_vo: Pat/MatchList.v Gen/PatConsts.vo
Pat/MatchList.vio: Pat/MatchList.v Gen/PatConsts.vio
Pat/MatchList.vos Pat/MatchList.vok Pat/MatchList.required_vos: Pat/MatchList.v Gen/PatConsts.vos
Pat/MatchListProofs.vo Pat/MatchListProofs.glob Pat/MatchListProofs.v.beautified Pat/MatchListProofs.required_vo: Pat/MatchListProofs.v Gen/PatConsts.vo Pat/MatchList.vo
Pat/MatchListProofs.vio: Pat/MatchListProofs.v Gen/PatConsts.vio Pat/MatchList.vio
Pat/MatchListProofs.vos Pat/MatchListProofs.vok Pat/MatchListProofs.required_vos: Pat/MatchListProofs.v Gen/PatConsts.vos Pat/MatchList.vos
Pat/Matcher.vo Pat/Matcher.glob Pat/Matcher.v.beautified Pat/Matcher.required_vo: Pat/Matcher.v Pat/Syntax.vo Pat/Sem.vo
Pat/Matcher.vio: Pat/Matcher.v Pat/Syntax.vio Pat/Sem.vio
Pat/Matcher.vos Pat/Matcher.vok Pat/Matcher.required_vos: Pat/Matcher.v Pat/Syntax.vos Pat/Sem.vos
Pat/MatcherProofs.vo Pat/MatcherProofs.glob Pat/MatcherProofs.v.beautified Pat/MatcherProofs.required_vo: Pat/MatcherProofs.v Pat/Syntax.vo Pat/Sem.vo Pat/Matcher.vo
Pat/MatcherProofs.vio: Pat/MatcherProofs.v Pat/Syntax.vio Pat/Sem.vio Pat/Matcher.vio
Pat/MatcherProofs.vos Pat/MatcherProofs.vok Pat/MatcherProofs.required_vos: Pat/MatcherProofs.v Pat/Syntax.vos Pat/Sem.vos Pat/Matcher.vos
Pat/Modifiers.vo Pat/Modifiers.glob Pat/Modifiers.v.beautified Pat/Modifiers.required_vo: Pat/Modifiers.v Pat/Syntax.vo Pat/Sem.vo Pat/Matcher.vo
Pat/Modifiers.vio: Pat/Modifiers.v Pat/Syntax.vio Pat/Sem.vio Pat/Matcher.vio
Pat/Modifiers.vos Pat/Modifiers.vok Pat/Modifiers.required_vos: Pat/Modifiers.v Pat/Syntax.vos Pat/Sem.vos Pat/Matcher.vos
Pat/ModifiersProofs.vo Pat/ModifiersProofs.glob Pat/ModifiersProofs.v.beautified Pat/ModifiersProofs.required_vo: Pat/ModifiersProofs.v Pat/Syntax.vo Pat/Sem.vo Pat/Matcher.vo Pat/MatcherProofs.vo Pat/Modifiers.vo
Pat/ModifiersProofs.vio: Pat/ModifiersProofs.v Pat/Syntax.vio Pat/Sem.vio Pat/Matcher.vio Pat/MatcherProofs.vio Pat/Modifiers.vio
Pat/ModifiersProofs.vos Pat/ModifiersProofs.vok Pat/ModifiersProofs.required_vos: Pat/ModifiersProofs.v Pat/Syntax.vos Pat/Sem.vos Pat/Matcher.vos Pat/MatcherProofs.vos Pat/Modifiers.vos
Pat/Pipeline.vo Pat/Pipeline.glob Pat/Pipeline.v.beautified Pat/Pipeline.required_vo: Pat/Pipeline.v Pat/Syntax.vo Pat/Sem.vo Pat/Matcher.vo Pat/Modifiers.vo Pat/Base64.vo Pat/MatchList.vo Pat/Atoms.vo
Pat/Pipeline.vio: Pat/Pipeline.v Pat/Syntax.vio Pat/Sem.vio Pat/Matcher.vio Pat/Modifiers.vio Pat/Base64.vio Pat/MatchList.vio Pat/Atoms.vio
Pat/Pipeline.vos Pat/Pipeline.vok Pat/Pipeline.required_vos: Pat/Pipeline.v Pat/Syntax.vos Pat/Sem.vos Pat/Matcher.vos Pat/Modifiers.vos Pat/Base64.vos Pat/MatchList.vos Pat/Atoms.vos
Pat/PipelineB64CompleteProofs.vo Pat/PipelineB64CompleteProofs.glob Pat/PipelineB64CompleteProofs.v.beautified Pat/PipelineB64CompleteProofs.required_vo: Pat/PipelineB64CompleteProofs.v Pat/Syntax.vo Pat/Sem.vo Pat/Matcher.vo Pat/Modifiers.vo Pat/ModifiersProofs.vo Pat/Base64.vo Pat/Base64Proofs.vo Pat/MatchList.vo Pat/Atoms.vo Pat/Pipeline.vo Pat/PipelineProofs.vo Pat/PipelineB64Proofs.vo
Pat/PipelineB64CompleteProofs.vio: Pat/PipelineB64CompleteProofs.v Pat/Syntax.vio Pat/Sem.vio Pat/Matcher.vio Pat/Modifiers.vio Pat/ModifiersProofs.vio Pat/Base64.vio Pat/Base64Proofs.vio Pat/MatchList.vio Pat/Atoms.vio Pat/Pipeline.vio Pat/PipelineProofs.vio Pat/PipelineB64Proofs.vio
Pat/PipelineB64CompleteProofs.vos Pat/PipelineB64CompleteProofs.vok Pat/PipelineB64CompleteProofs.required_vos: Pat/PipelineB64CompleteProofs.v Pat/Syntax.vos Pat/Sem.vos Pat/Matcher.vos Pat/Modifiers.vos Pat/ModifiersProofs.vos Pat/Base64.vos Pat/Base64Proofs.vos Pat/MatchList.vos Pat/Atoms.vos Pat/Pipeline.vos Pat/PipelineProofs.vos Pat/PipelineB64Proofs.vos
Pat/PipelineB64Proofs.vo Pat/PipelineB64Proofs.glob Pat/PipelineB64Proofs.v.beautified Pat/PipelineB64Proofs.required_vo: Pat/PipelineB64Proofs.v Pat/Syntax.vo Pat/Sem.vo Pat/Matcher.vo Pat/Modifiers.vo Pat/ModifiersProofs.vo Pat/Base64.vo Pat/MatchList.vo Pat/Atoms.vo Pat/Pipeline.vo Pat/PipelineProofs.vo
Pat/PipelineB64Proofs.vio: Pat/PipelineB64Proofs.v Pat/Syntax.vio Pat/Sem.vio Pat/Matcher.vio Pat/Modifiers.vio Pat/ModifiersProofs.vio Pat/Base64.vio Pat/MatchList.vio Pat/Atoms.vio Pat/Pipeline.vio Pat/PipelineProofs.vio
Pat/PipelineB64Proofs.vos Pat/PipelineB64Proofs.vok Pat/PipelineB64Proofs.required_vos: Pat/PipelineB64Proofs.v Pat/Syntax.vos Pat/Sem.vos Pat/Matcher.vos Pat/Modifiers.vos Pat/ModifiersProofs.vos Pat/Base64.vos Pat/MatchList.vos Pat/Atoms.vos Pat/Pipeline.vos Pat/PipelineProofs.vos
Pat/PipelineProofs.vo Pat/PipelineProofs.glob Pat/PipelineProofs.v.beautified Pat/PipelineProofs.required_vo: Pat/PipelineProofs.v Pat/Syntax.vo Pat/Sem.vo Pat/Matcher.vo Pat/MatcherProofs.vo Pat/Modifiers.vo Pat/ModifiersProofs.vo Pat/Base64.vo Pat/MatchList.vo Pat/MatchListProofs.vo Pat/Atoms.vo Pat/Pipeline.vo
Pat/PipelineProofs.vio: Pat/PipelineProofs.v Pat/Syntax.vio Pat/Sem.vio Pat/Matcher.vio Pat/MatcherProofs.vio Pat/Modifiers.vio Pat/ModifiersProofs.vio Pat/Base64.vio Pat/MatchList.vio Pat/MatchListProofs.vio Pat/Atoms.vio Pat/Pipeline.vio
Pat/PipelineProofs.vos Pat/PipelineProofs.vok Pat/PipelineProofs.required_vos: Pat/PipelineProofs.v Pat/Syntax.vos Pat/Sem.vos Pat/Matcher.vos Pat/MatcherProofs.vos Pat/Modifiers.vos Pat/ModifiersProofs.vos Pat/Base64.vos Pat/MatchList.vos Pat/MatchListProofs.vos Pat/Atoms.vos Pat/Pipeline.vos
Pat/Sem.vo Pat/Sem.glob Pat/Sem.v.beautified Pat/Sem.required_vo: Pat/Sem.v Pat/Syntax.vo
Pat/Sem.vio: Pat/Sem.v Pat/Syntax.vio
Pat/Sem.vos Pat/Sem.vok Pat/Sem.required_vos: Pat/Sem.v Pat/Syntax.vos
Pat/Syntax.vo Pat/Syntax.glob Pat/Syntax.v.beautified Pat/Syntax.required_vo: Pat/Syntax.v 
Pat/Syntax.vio: Pat/Syntax.v 
Pat/Syntax.vos Pat/Syntax.vok Pat/Syntax.required_vos: Pat/Syntax.v 
Pat/Teddy.vo Pat/Teddy.glob Pat/Teddy.v.beautified Pat/Teddy.required_vo: Pat/Teddy.v 
Pat/Teddy.vio: Pat/Teddy.v 
Pat/Teddy.vos Pat/Teddy.vok Pat/Teddy.required_vos: Pat/Teddy.v 
Pat/TeddyProofs.vo Pat/TeddyProofs.glob Pat/TeddyProofs.v.beautified Pat/TeddyProofs.required_vo: Pat/TeddyProofs.v Pat/Teddy.vo
Pat/TeddyProofs.vio: Pat/TeddyProofs.v Pat/Teddy.vio
Pat/TeddyProofs.vos Pat/TeddyProofs.vok Pat/TeddyProofs.required_vos: Pat/TeddyProofs.v Pat/Teddy.vos
Scanner/MatchesIter.vo Scanner/MatchesIter.glob Scanner/MatchesIter.v.beautified Scanner/MatchesIter.required_vo: Scanner/MatchesIter.v 
Scanner/MatchesIter.vio: Scanner/MatchesIter.v 
Scanner/MatchesIter.vos Scanner/MatchesIter.vok Scanner/MatchesIter.required_vos: Scanner/MatchesIter.v 
Scanner/MatchesIterProofs.vo Scanner/MatchesIterProofs.glob Scanner/MatchesIterProofs.v.beautified Scanner/MatchesIterProofs.required_vo: Scanner/MatchesIterProofs.v Scanner/MatchesIter.vo Gen/TrackingGen.vo
Scanner/MatchesIterProofs.vio: Scanner/MatchesIterProofs.v Scanner/MatchesIter.vio Gen/TrackingGen.vio
Scanner/MatchesIterProofs.vos Scanner/MatchesIterProofs.vok Scanner/MatchesIterProofs.required_vos: Scanner/MatchesIterProofs.v Scanner/MatchesIter.vos Gen/TrackingGen.vos
Scanner/PrivIter.vo Scanner/PrivIter.glob Scanner/PrivIter.v.beautified Scanner/PrivIter.required_vo: Scanner/PrivIter.v 
Scanner/PrivIter.vio: Scanner/PrivIter.v 
Scanner/PrivIter.vos Scanner/PrivIter.vok Scanner/PrivIter.required_vos: Scanner/PrivIter.v 
Scanner/PrivIterProofs.vo Scanner/PrivIterProofs.glob Scanner/PrivIterProofs.v.beautified Scanner/PrivIterProofs.required_vo: Scanner/PrivIterProofs.v Scanner/PrivIter.vo
Scanner/PrivIterProofs.vio: Scanner/PrivIterProofs.v Scanner/PrivIter.vio
Scanner/PrivIterProofs.vos Scanner/PrivIterProofs.vok Scanner/PrivIterProofs.required_vos: Scanner/PrivIterProofs.v Scanner/PrivIter.vos
Scanner/Results.vo Scanner/Results.glob Scanner/Results.v.beautified Scanner/Results.required_vo: Scanner/Results.v Scanner/PrivIter.vo Scanner/Tracking.vo Gen/TrackingGen.vo
Scanner/Results.vio: Scanner/Results.v Scanner/PrivIter.vio Scanner/Tracking.vio Gen/TrackingGen.vio
Scanner/Results.vos Scanner/Results.vok Scanner/Results.required_vos: Scanner/Results.v Scanner/PrivIter.vos Scanner/Tracking.vos Gen/TrackingGen.vos
Scanner/ResultsProofs.vo Scanner/ResultsProofs.glob Scanner/ResultsProofs.v.beautified Scanner/ResultsProofs.required_vo: Scanner/ResultsProofs.v Scanner/PrivIter.vo Scanner/PrivIterProofs.vo Scanner/Tracking.vo Gen/TrackingGen.vo Scanner/Results.vo Scanner/TrackingProofs.vo
Scanner/ResultsProofs.vio: Scanner/ResultsProofs.v Scanner/PrivIter.vio Scanner/PrivIterProofs.vio Scanner/Tracking.vio Gen/TrackingGen.vio Scanner/Results.vio Scanner/TrackingProofs.vio
Scanner/ResultsProofs.vos Scanner/ResultsProofs.vok Scanner/ResultsProofs.required_vos: Scanner/ResultsProofs.v Scanner/PrivIter.vos Scanner/PrivIterProofs.vos Scanner/Tracking.vos Gen/TrackingGen.vos Scanner/Results.vos Scanner/TrackingProofs.vos
Scanner/Snippets.vo Scanner/Snippets.glob Scanner/Snippets.v.beautified Scanner/Snippets.required_vo: Scanner/Snippets.v 
Scanner/Snippets.vio: Scanner/Snippets.v 
Scanner/Snippets.vos Scanner/Snippets.vok Scanner/Snippets.required_vos: Scanner/Snippets.v 
Scanner/SnippetsCheck.vo Scanner/SnippetsCheck.glob Scanner/SnippetsCheck.v.beautified Scanner/SnippetsCheck.required_vo: Scanner/SnippetsCheck.v Scanner/Snippets.vo
Scanner/SnippetsCheck.vio: Scanner/SnippetsCheck.v Scanner/Snippets.vio
Scanner/SnippetsCheck.vos Scanner/SnippetsCheck.vok Scanner/SnippetsCheck.required_vos: Scanner/SnippetsCheck.v Scanner/Snippets.vos
Scanner/SnippetsProofs.vo Scanner/SnippetsProofs.glob Scanner/SnippetsProofs.v.beautified Scanner/SnippetsProofs.required_vo: Scanner/SnippetsProofs.v Scanner/Snippets.vo
Scanner/SnippetsProofs.vio: Scanner/SnippetsProofs.v Scanner/Snippets.vio
Scanner/SnippetsProofs.vos Scanner/SnippetsProofs.vok Scanner/SnippetsProofs.required_vos: Scanner/SnippetsProofs.v Scanner/Snippets.vos
Scanner/State.vo Scanner/State.glob Scanner/State.v.beautified Scanner/State.required_vo: Scanner/State.v Gen/ScanState.vo
Scanner/State.vio: Scanner/State.v Gen/ScanState.vio
Scanner/State.vos Scanner/State.vok Scanner/State.required_vos: Scanner/State.v Gen/ScanState.vos
Scanner/StateCheck.vo Scanner/StateCheck.glob Scanner/StateCheck.v.beautified Scanner/StateCheck.required_vo: Scanner/StateCheck.v Gen/ScanState.vo Scanner/State.vo
Scanner/StateCheck.vio: Scanner/StateCheck.v Gen/ScanState.vio Scanner/State.vio
Scanner/StateCheck.vos Scanner/StateCheck.vok Scanner/StateCheck.required_vos: Scanner/StateCheck.v Gen/ScanState.vos Scanner/State.vos
Scanner/StateProofs.vo Scanner/StateProofs.glob Scanner/StateProofs.v.beautified Scanner/StateProofs.required_vo: Scanner/StateProofs.v Gen/ScanState.vo Scanner/State.vo
Scanner/StateProofs.vio: Scanner/StateProofs.v Gen/ScanState.vio Scanner/State.vio
Scanner/StateProofs.vos Scanner/StateProofs.vok Scanner/StateProofs.required_vos: Scanner/StateProofs.v Gen/ScanState.vos Scanner/State.vos
Scanner/Timeout.vo Scanner/Timeout.glob Scanner/Timeout.v.beautified Scanner/Timeout.required_vo: Scanner/Timeout.v Gen/ScanState.vo Scanner/State.vo
Scanner/Timeout.vio: Scanner/Timeout.v Gen/ScanState.vio Scanner/State.vio
Scanner/Timeout.vos Scanner/Timeout.vok Scanner/Timeout.required_vos: Scanner/Timeout.v Gen/ScanState.vos Scanner/State.vos
Scanner/TimeoutCheck.vo Scanner/TimeoutCheck.glob Scanner/TimeoutCheck.v.beautified Scanner/TimeoutCheck.required_vo: Scanner/TimeoutCheck.v Gen/ScanState.vo Scanner/State.vo Scanner/Timeout.vo Scanner/StateCheck.vo
Scanner/TimeoutCheck.vio: Scanner/TimeoutCheck.v Gen/ScanState.vio Scanner/State.vio Scanner/Timeout.vio Scanner/StateCheck.vio
Scanner/TimeoutCheck.vos Scanner/TimeoutCheck.vok Scanner/TimeoutCheck.required_vos: Scanner/TimeoutCheck.v Gen/ScanState.vos Scanner/State.vos Scanner/Timeout.vos Scanner/StateCheck.vos
Scanner/TimeoutProofs.vo Scanner/TimeoutProofs.glob Scanner/TimeoutProofs.v.beautified Scanner/TimeoutProofs.required_vo: Scanner/TimeoutProofs.v Gen/ScanState.vo Scanner/State.vo Scanner/Timeout.vo
Scanner/TimeoutProofs.vio: Scanner/TimeoutProofs.v Gen/ScanState.vio Scanner/State.vio Scanner/Timeout.vio
Scanner/TimeoutProofs.vos Scanner/TimeoutProofs.vok Scanner/TimeoutProofs.required_vos: Scanner/TimeoutProofs.v Gen/ScanState.vos Scanner/State.vos Scanner/Timeout.vos
Scanner/Tracking.vo Scanner/Tracking.glob Scanner/Tracking.v.beautified Scanner/Tracking.required_vo: Scanner/Tracking.v Scanner/PrivIter.vo
Scanner/Tracking.vio: Scanner/Tracking.v Scanner/PrivIter.vio
Scanner/Tracking.vos Scanner/Tracking.vok Scanner/Tracking.required_vos: Scanner/Tracking.v Scanner/PrivIter.vos
Scanner/TrackingCheck.vo Scanner/TrackingCheck.glob Scanner/TrackingCheck.v.beautified Scanner/TrackingCheck.required_vo: Scanner/TrackingCheck.v Scanner/PrivIter.vo Scanner/Tracking.vo Gen/TrackingGen.vo Scanner/Results.vo
Scanner/TrackingCheck.vio: Scanner/TrackingCheck.v Scanner/PrivIter.vio Scanner/Tracking.vio Gen/TrackingGen.vio Scanner/Results.vio
Scanner/TrackingCheck.vos Scanner/TrackingCheck.vok Scanner/TrackingCheck.required_vos: Scanner/TrackingCheck.v Scanner/PrivIter.vos Scanner/Tracking.vos Gen/TrackingGen.vos Scanner/Results.vos
Scanner/TrackingProofs.vo Scanner/TrackingProofs.glob Scanner/TrackingProofs.v.beautified Scanner/TrackingProofs.required_vo: Scanner/TrackingProofs.v Scanner/PrivIter.vo Scanner/PrivIterProofs.vo Scanner/Tracking.vo Gen/TrackingGen.vo Scanner/Results.vo
Scanner/TrackingProofs.vio: Scanner/TrackingProofs.v Scanner/PrivIter.vio Scanner/PrivIterProofs.vio Scanner/Tracking.vio Gen/TrackingGen.vio Scanner/Results.vio
Scanner/TrackingProofs.vos Scanner/TrackingProofs.vok Scanner/TrackingProofs.required_vos: Scanner/TrackingProofs.v Scanner/PrivIter.vos Scanner/PrivIterProofs.vos Scanner/Tracking.vos Gen/TrackingGen.vos Scanner/Results.vos
Types/ProtoSchemaProofs.vo Types/ProtoSchemaProofs.glob Types/ProtoSchemaProofs.v.beautified Types/ProtoSchemaProofs.required_vo: Types/ProtoSchemaProofs.v Types/StructModel.vo Types/StructModelProofs.vo Gen/ProtoSchema.vo Types/StructCheck.vo
Types/ProtoSchemaProofs.vio: Types/ProtoSchemaProofs.v Types/StructModel.vio Types/StructModelProofs.vio Gen/ProtoSchema.vio Types/StructCheck.vio
Types/ProtoSchemaProofs.vos Types/ProtoSchemaProofs.vok Types/ProtoSchemaProofs.required_vos: Types/ProtoSchemaProofs.v Types/StructModel.vos Types/StructModelProofs.vos Gen/ProtoSchema.vos Types/StructCheck.vos
Types/StructCheck.vo Types/StructCheck.glob Types/StructCheck.v.beautified Types/StructCheck.required_vo: Types/StructCheck.v Types/StructModel.vo Gen/ProtoSchema.vo
Types/StructCheck.vio: Types/StructCheck.v Types/StructModel.vio Gen/ProtoSchema.vio
Types/StructCheck.vos Types/StructCheck.vok Types/StructCheck.required_vos: Types/StructCheck.v Types/StructModel.vos Gen/ProtoSchema.vos
Types/StructModel.vo Types/StructModel.glob Types/StructModel.v.beautified Types/StructModel.required_vo: Types/StructModel.v 
Types/StructModel.vio: Types/StructModel.v 
Types/StructModel.vos Types/StructModel.vok Types/StructModel.required_vos: Types/StructModel.v 
Types/StructModelProofs.vo Types/StructModelProofs.glob Types/StructModelProofs.v.beautified Types/StructModelProofs.required_vo: Types/StructModelProofs.v Types/StructModel.vo
Types/StructModelProofs.vio: Types/StructModelProofs.v Types/StructModel.vio
Types/StructModelProofs.vos Types/StructModelProofs.vok Types/StructModelProofs.required_vos: Types/StructModelProofs.v Types/StructModel.vos
