Gen/TrackingGen.vo Gen/TrackingGen.glob Gen/TrackingGen.v.beautified Gen/TrackingGen.required_vo: Gen/TrackingGen.v Scanner/PrivIter.vo Scanner/Tracking.vo
Gen/TrackingGen.vio: Gen/TrackingGen.v Scanner/PrivIter.vio Scanner/Tracking.vio
Gen/TrackingGen.vos Gen/TrackingGen.vok Gen/TrackingGen.required_vos: Gen/TrackingGen.v Scanner/PrivIter.vos Scanner/Tracking.vos
Scanner/PrivIter.vo Scanner/PrivIter.glob Scanner/PrivIter.v.beautified Scanner/PrivIter.required_vo: Scanner/PrivIter.v 
Scanner/PrivIter.vio: Scanner/PrivIter.v 
Scanner/PrivIter.vos Scanner/PrivIter.vok Scanner/PrivIter.required_vos: Scanner/PrivIter.v 
Scanner/PrivIterProofs.vo Scanner/PrivIterProofs.glob Scanner/PrivIterProofs.v.beautified Scanner/PrivIterProofs.required_vo: Scanner/PrivIterProofs.v Scanner/PrivIter.vo
Scanner/PrivIterProofs.vio: Scanner/PrivIterProofs.v Scanner/PrivIter.vio
Scanner/PrivIterProofs.vos Scanner/PrivIterProofs.vok Scanner/PrivIterProofs.required_vos: Scanner/PrivIterProofs.v Scanner/PrivIter.vos
Scanner/Results.vo Scanner/Results.glob Scanner/Results.v.beautified Scanner/Results.required_vo: Scanner/Results.v Scanner/PrivIter.vo Scanner/Tracking.vo Gen/TrackingGen.vo
Scanner/Results.vio: Scanner/Results.v Scanner/PrivIter.vio Scanner/Tracking.vio Gen/TrackingGen.vio
Scanner/Results.vos Scanner/Results.vok Scanner/Results.required_vos: Scanner/Results.v Scanner/PrivIter.vos Scanner/Tracking.vos Gen/TrackingGen.vos
Scanner/ResultsProofs.vo Scanner/ResultsProofs.glob Scanner/ResultsProofs.v.beautified Scanner/ResultsProofs.required_vo: Scanner/ResultsProofs.v Scanner/PrivIter.vo Scanner/PrivIterProofs.vo Scanner/Tracking.vo Gen/TrackingGen.vo Scanner/Results.vo Scanner/TrackingProofs.vo
Scanner/ResultsProofs.vio: Scanner/ResultsProofs.v Scanner/PrivIter.vio Scanner/PrivIterProofs.vio Scanner/Tracking.vio Gen/TrackingGen.vio Scanner/Results.vio Scanner/TrackingProofs.vio
Scanner/ResultsProofs.vos Scanner/ResultsProofs.vok Scanner/ResultsProofs.required_vos: Scanner/ResultsProofs.v Scanner/PrivIter.vos Scanner/PrivIterProofs.vos Scanner/Tracking.vos Gen/TrackingGen.vos Scanner/Results.vos Scanner/TrackingProofs.vos
Scanner/Tracking.vo Scanner/Tracking.glob Scanner/Tracking.v.beautified Scanner/Tracking.required_vo: Scanner/Tracking.v Scanner/PrivIter.vo
Scanner/Tracking.vio: Scanner/Tracking.v Scanner/PrivIter.vio
Scanner/Tracking.vos Scanner/Tracking.vok Scanner/Tracking.required_vos: Scanner/Tracking.v Scanner/PrivIter.vos
Scanner/TrackingCheck.vo Scanner/TrackingCheck.glob Scanner/TrackingCheck.v.beautified Scanner/TrackingCheck.required_vo: Scanner/TrackingCheck.v Scanner/PrivIter.vo Scanner/Tracking.vo Gen/TrackingGen.vo Scanner/Results.vo
Scanner/TrackingCheck.vio: Scanner/TrackingCheck.v Scanner/PrivIter.vio Scanner/Tracking.vio Gen/TrackingGen.vio Scanner/Results.vio
Scanner/TrackingCheck.vos Scanner/TrackingCheck.vok Scanner/TrackingCheck.required_vos: Scanner/TrackingCheck.v Scanner/PrivIter.vos Scanner/Tracking.vos Gen/TrackingGen.vos Scanner/Results.vos
Scanner/TrackingProofs.vo Scanner/TrackingProofs.glob Scanner/TrackingProofs.v.beautified Scanner/TrackingProofs.required_vo: Scanner/TrackingProofs.v Scanner/PrivIter.vo Scanner/PrivIterProofs.vo Scanner/Tracking.vo Gen/TrackingGen.vo Scanner/Results.vo
Scanner/TrackingProofs.vio: Scanner/TrackingProofs.v Scanner/PrivIter.vio Scanner/PrivIterProofs.vio Scanner/Tracking.vio Gen/TrackingGen.vio Scanner/Results.vio
Scanner/TrackingProofs.vos Scanner/TrackingProofs.vok Scanner/TrackingProofs.required_vos: Scanner/TrackingProofs.v Scanner/PrivIter.vos Scanner/PrivIterProofs.vos Scanner/Tracking.vos Gen/TrackingGen.vos Scanner/Results.vos
