Codec/Header.vo Codec/Header.glob Codec/Header.v.beautified Codec/Header.required_vo: Codec/Header.v Gen/CodecGen.vo Codec/Reader.vo Codec/Varint.vo Codec/Universe.vo
Codec/Header.vio: Codec/Header.v Gen/CodecGen.vio Codec/Reader.vio Codec/Varint.vio Codec/Universe.vio
Codec/Header.vos Codec/Header.vok Codec/Header.required_vos: Codec/Header.v Gen/CodecGen.vos Codec/Reader.vos Codec/Varint.vos Codec/Universe.vos
Codec/HeaderProofs.vo Codec/HeaderProofs.glob Codec/HeaderProofs.v.beautified Codec/HeaderProofs.required_vo: Codec/HeaderProofs.v Gen/CodecGen.vo Codec/Reader.vo Codec/ReaderProofs.vo Codec/Varint.vo Codec/VarintProofs.vo Codec/Universe.vo Codec/UniverseProofs.vo Codec/Header.vo
Codec/HeaderProofs.vio: Codec/HeaderProofs.v Gen/CodecGen.vio Codec/Reader.vio Codec/ReaderProofs.vio Codec/Varint.vio Codec/VarintProofs.vio Codec/Universe.vio Codec/UniverseProofs.vio Codec/Header.vio
Codec/HeaderProofs.vos Codec/HeaderProofs.vok Codec/HeaderProofs.required_vos: Codec/HeaderProofs.v Gen/CodecGen.vos Codec/Reader.vos Codec/ReaderProofs.vos Codec/Varint.vos Codec/VarintProofs.vos Codec/Universe.vos Codec/UniverseProofs.vos Codec/Header.vos
Codec/Reader.vo Codec/Reader.glob Codec/Reader.v.beautified Codec/Reader.required_vo: Codec/Reader.v 
Codec/Reader.vio: Codec/Reader.v 
Codec/Reader.vos Codec/Reader.vok Codec/Reader.required_vos: Codec/Reader.v 
Codec/ReaderProofs.vo Codec/ReaderProofs.glob Codec/ReaderProofs.v.beautified Codec/ReaderProofs.required_vo: Codec/ReaderProofs.v Codec/Reader.vo
Codec/ReaderProofs.vio: Codec/ReaderProofs.v Codec/Reader.vio
Codec/ReaderProofs.vos Codec/ReaderProofs.vok Codec/ReaderProofs.required_vos: Codec/ReaderProofs.v Codec/Reader.vos
Codec/Universe.vo Codec/Universe.glob Codec/Universe.v.beautified Codec/Universe.required_vo: Codec/Universe.v Codec/Reader.vo Codec/Varint.vo
Codec/Universe.vio: Codec/Universe.v Codec/Reader.vio Codec/Varint.vio
Codec/Universe.vos Codec/Universe.vok Codec/Universe.required_vos: Codec/Universe.v Codec/Reader.vos Codec/Varint.vos
Codec/UniverseProofs.vo Codec/UniverseProofs.glob Codec/UniverseProofs.v.beautified Codec/UniverseProofs.required_vo: Codec/UniverseProofs.v Codec/Reader.vo Codec/ReaderProofs.vo Codec/Varint.vo Codec/VarintProofs.vo Codec/Universe.vo
Codec/UniverseProofs.vio: Codec/UniverseProofs.v Codec/Reader.vio Codec/ReaderProofs.vio Codec/Varint.vio Codec/VarintProofs.vio Codec/Universe.vio
Codec/UniverseProofs.vos Codec/UniverseProofs.vok Codec/UniverseProofs.required_vos: Codec/UniverseProofs.v Codec/Reader.vos Codec/ReaderProofs.vos Codec/Varint.vos Codec/VarintProofs.vos Codec/Universe.vos
Codec/Varint.vo Codec/Varint.glob Codec/Varint.v.beautified Codec/Varint.required_vo: Codec/Varint.v Codec/Reader.vo
Codec/Varint.vio: Codec/Varint.v Codec/Reader.vio
Codec/Varint.vos Codec/Varint.vok Codec/Varint.required_vos: Codec/Varint.v Codec/Reader.vos
Codec/VarintProofs.vo Codec/VarintProofs.glob Codec/VarintProofs.v.beautified Codec/VarintProofs.required_vo: Codec/VarintProofs.v Codec/Reader.vo Codec/ReaderProofs.vo Codec/Varint.vo
Codec/VarintProofs.vio: Codec/VarintProofs.v Codec/Reader.vio Codec/ReaderProofs.vio Codec/Varint.vio
Codec/VarintProofs.vos Codec/VarintProofs.vok Codec/VarintProofs.required_vos: Codec/VarintProofs.v Codec/Reader.vos Codec/ReaderProofs.vos Codec/Varint.vos
Compiler/Snapshot.vo Compiler/Snapshot.glob Compiler/Snapshot.v.beautified Compiler/Snapshot.required_vo: Compiler/Snapshot.v Gen/SnapshotGen.vo
Compiler/Snapshot.vio: Compiler/Snapshot.v Gen/SnapshotGen.vio
Compiler/Snapshot.vos Compiler/Snapshot.vok Compiler/Snapshot.required_vos: Compiler/Snapshot.v Gen/SnapshotGen.vos
Compiler/SnapshotCheck.vo Compiler/SnapshotCheck.glob Compiler/SnapshotCheck.v.beautified Compiler/SnapshotCheck.required_vo: Compiler/SnapshotCheck.v Gen/SnapshotGen.vo Compiler/Snapshot.vo
Compiler/SnapshotCheck.vio: Compiler/SnapshotCheck.v Gen/SnapshotGen.vio Compiler/Snapshot.vio
Compiler/SnapshotCheck.vos Compiler/SnapshotCheck.vok Compiler/SnapshotCheck.required_vos: Compiler/SnapshotCheck.v Gen/SnapshotGen.vos Compiler/Snapshot.vos
Compiler/SnapshotProofs.vo Compiler/SnapshotProofs.glob Compiler/SnapshotProofs.v.beautified Compiler/SnapshotProofs.required_vo: Compiler/SnapshotProofs.v Gen/SnapshotGen.vo Compiler/Snapshot.vo
Compiler/SnapshotProofs.vio: Compiler/SnapshotProofs.v Gen/SnapshotGen.vio Compiler/Snapshot.vio
Compiler/SnapshotProofs.vos Compiler/SnapshotProofs.vok Compiler/SnapshotProofs.required_vos: Compiler/SnapshotProofs.v Gen/SnapshotGen.vos Compiler/Snapshot.vos
Cond/Check.vo Cond/Check.glob Cond/Check.v.beautified Cond/Check.required_vo: Cond/Check.v Cond/Syntax.vo Cond/Sem.vo Cond/Quirks.vo Cond/RuleSet.vo
Cond/Check.vio: Cond/Check.v Cond/Syntax.vio Cond/Sem.vio Cond/Quirks.vio Cond/RuleSet.vio
Cond/Check.vos Cond/Check.vok Cond/Check.required_vos: Cond/Check.v Cond/Syntax.vos Cond/Sem.vos Cond/Quirks.vos Cond/RuleSet.vos
Cond/Quirks.vo Cond/Quirks.glob Cond/Quirks.v.beautified Cond/Quirks.required_vo: Cond/Quirks.v Cond/Syntax.vo Cond/Sem.vo
Cond/Quirks.vio: Cond/Quirks.v Cond/Syntax.vio Cond/Sem.vio
Cond/Quirks.vos Cond/Quirks.vok Cond/Quirks.required_vos: Cond/Quirks.v Cond/Syntax.vos Cond/Sem.vos
Cond/RuleSet.vo Cond/RuleSet.glob Cond/RuleSet.v.beautified Cond/RuleSet.required_vo: Cond/RuleSet.v Cond/Syntax.vo Cond/Sem.vo
Cond/RuleSet.vio: Cond/RuleSet.v Cond/Syntax.vio Cond/Sem.vio
Cond/RuleSet.vos Cond/RuleSet.vok Cond/RuleSet.required_vos: Cond/RuleSet.v Cond/Syntax.vos Cond/Sem.vos
Cond/Sem.vo Cond/Sem.glob Cond/Sem.v.beautified Cond/Sem.required_vo: Cond/Sem.v Cond/Syntax.vo
Cond/Sem.vio: Cond/Sem.v Cond/Syntax.vio
Cond/Sem.vos Cond/Sem.vok Cond/Sem.required_vos: Cond/Sem.v Cond/Syntax.vos
Cond/Syntax.vo Cond/Syntax.glob Cond/Syntax.v.beautified Cond/Syntax.required_vo: Cond/Syntax.v 
Cond/Syntax.vio: Cond/Syntax.v 
Cond/Syntax.vos Cond/Syntax.vok Cond/Syntax.required_vos: Cond/Syntax.v 
Fmt/Bubble.vo Fmt/Bubble.glob Fmt/Bubble.v.beautified Fmt/Bubble.required_vo: Fmt/Bubble.v Fmt/Tokens.vo Gen/FmtCats.vo Fmt/Processor.vo
Fmt/Bubble.vio: Fmt/Bubble.v Fmt/Tokens.vio Gen/FmtCats.vio Fmt/Processor.vio
Fmt/Bubble.vos Fmt/Bubble.vok Fmt/Bubble.required_vos: Fmt/Bubble.v Fmt/Tokens.vos Gen/FmtCats.vos Fmt/Processor.vos
Fmt/BubbleProofs.vo Fmt/BubbleProofs.glob Fmt/BubbleProofs.v.beautified Fmt/BubbleProofs.required_vo: Fmt/BubbleProofs.v Fmt/Tokens.vo Gen/FmtCats.vo Fmt/Processor.vo Fmt/ProcessorProofs.vo Fmt/Bubble.vo
Fmt/BubbleProofs.vio: Fmt/BubbleProofs.v Fmt/Tokens.vio Gen/FmtCats.vio Fmt/Processor.vio Fmt/ProcessorProofs.vio Fmt/Bubble.vio
Fmt/BubbleProofs.vos Fmt/BubbleProofs.vok Fmt/BubbleProofs.required_vos: Fmt/BubbleProofs.v Fmt/Tokens.vos Gen/FmtCats.vos Fmt/Processor.vos Fmt/ProcessorProofs.vos Fmt/Bubble.vos
Fmt/FmtCheck.vo Fmt/FmtCheck.glob Fmt/FmtCheck.v.beautified Fmt/FmtCheck.required_vo: Fmt/FmtCheck.v Fmt/Tokens.vo Gen/FmtCats.vo Fmt/Processor.vo Fmt/Bubble.vo
Fmt/FmtCheck.vio: Fmt/FmtCheck.v Fmt/Tokens.vio Gen/FmtCats.vio Fmt/Processor.vio Fmt/Bubble.vio
Fmt/FmtCheck.vos Fmt/FmtCheck.vok Fmt/FmtCheck.required_vos: Fmt/FmtCheck.v Fmt/Tokens.vos Gen/FmtCats.vos Fmt/Processor.vos Fmt/Bubble.vos
Fmt/FmtRulesProofs.vo Fmt/FmtRulesProofs.glob Fmt/FmtRulesProofs.v.beautified Fmt/FmtRulesProofs.required_vo: Fmt/FmtRulesProofs.v Fmt/Tokens.vo Gen/FmtCats.vo Fmt/Processor.vo Fmt/ProcessorProofs.vo Fmt/Bubble.vo Fmt/BubbleProofs.vo Gen/FmtRules.vo
Fmt/FmtRulesProofs.vio: Fmt/FmtRulesProofs.v Fmt/Tokens.vio Gen/FmtCats.vio Fmt/Processor.vio Fmt/ProcessorProofs.vio Fmt/Bubble.vio Fmt/BubbleProofs.vio Gen/FmtRules.vio
Fmt/FmtRulesProofs.vos Fmt/FmtRulesProofs.vok Fmt/FmtRulesProofs.required_vos: Fmt/FmtRulesProofs.v Fmt/Tokens.vos Gen/FmtCats.vos Fmt/Processor.vos Fmt/ProcessorProofs.vos Fmt/Bubble.vos Fmt/BubbleProofs.vos Gen/FmtRules.vos
Fmt/Processor.vo Fmt/Processor.glob Fmt/Processor.v.beautified Fmt/Processor.required_vo: Fmt/Processor.v Fmt/Tokens.vo Gen/FmtCats.vo
Fmt/Processor.vio: Fmt/Processor.v Fmt/Tokens.vio Gen/FmtCats.vio
Fmt/Processor.vos Fmt/Processor.vok Fmt/Processor.required_vos: Fmt/Processor.v Fmt/Tokens.vos Gen/FmtCats.vos
Fmt/ProcessorProofs.vo Fmt/ProcessorProofs.glob Fmt/ProcessorProofs.v.beautified Fmt/ProcessorProofs.required_vo: Fmt/ProcessorProofs.v Fmt/Tokens.vo Gen/FmtCats.vo Fmt/Processor.vo
Fmt/ProcessorProofs.vio: Fmt/ProcessorProofs.v Fmt/Tokens.vio Gen/FmtCats.vio Fmt/Processor.vio
Fmt/ProcessorProofs.vos Fmt/ProcessorProofs.vok Fmt/ProcessorProofs.required_vos: Fmt/ProcessorProofs.v Fmt/Tokens.vos Gen/FmtCats.vos Fmt/Processor.vos
Fmt/Tokens.vo Fmt/Tokens.glob Fmt/Tokens.v.beautified Fmt/Tokens.required_vo: Fmt/Tokens.v 
Fmt/Tokens.vio: Fmt/Tokens.v 
Fmt/Tokens.vos Fmt/Tokens.vok Fmt/Tokens.required_vos: Fmt/Tokens.v 
Gen/CodecGen.vo Gen/CodecGen.glob Gen/CodecGen.v.beautified Gen/CodecGen.required_vo: Gen/CodecGen.v 
Gen/CodecGen.vio: Gen/CodecGen.v 
Gen/CodecGen.vos Gen/CodecGen.vok Gen/CodecGen.required_vos: Gen/CodecGen.v 
Gen/FmtCats.vo Gen/FmtCats.glob Gen/FmtCats.v.beautified Gen/FmtCats.required_vo: Gen/FmtCats.v Fmt/Tokens.vo
Gen/FmtCats.vio: Gen/FmtCats.v Fmt/Tokens.vio
Gen/FmtCats.vos Gen/FmtCats.vok Gen/FmtCats.required_vos: Gen/FmtCats.v Fmt/Tokens.vos
Gen/FmtRules.vo Gen/FmtRules.glob Gen/FmtRules.v.beautified Gen/FmtRules.required_vo: Gen/FmtRules.v Fmt/Tokens.vo Gen/FmtCats.vo Fmt/Processor.vo Fmt/Bubble.vo
Gen/FmtRules.vio: Gen/FmtRules.v Fmt/Tokens.vio Gen/FmtCats.vio Fmt/Processor.vio Fmt/Bubble.vio
Gen/FmtRules.vos Gen/FmtRules.vok Gen/FmtRules.required_vos: Gen/FmtRules.v Fmt/Tokens.vos Gen/FmtCats.vos Fmt/Processor.vos Fmt/Bubble.vos
Gen/Grammar.vo Gen/Grammar.glob Gen/Grammar.v.beautified Gen/Grammar.required_vo: Gen/Grammar.v Parser/Machine.vo
Gen/Grammar.vio: Gen/Grammar.v Parser/Machine.vio
Gen/Grammar.vos Gen/Grammar.vok Gen/Grammar.required_vos: Gen/Grammar.v Parser/Machine.vos
Gen/PatConsts.vo Gen/PatConsts.glob Gen/PatConsts.v.beautified Gen/PatConsts.required_vo: Gen/PatConsts.v 
Gen/PatConsts.vio: Gen/PatConsts.v 
Gen/PatConsts.vos Gen/PatConsts.vok Gen/PatConsts.required_vos: Gen/PatConsts.v 
Gen/ScanState.vo Gen/ScanState.glob Gen/ScanState.v.beautified Gen/ScanState.required_vo: Gen/ScanState.v 
Gen/ScanState.vio: Gen/ScanState.v 
Gen/ScanState.vos Gen/ScanState.vok Gen/ScanState.required_vos: Gen/ScanState.v 
Gen/SnapshotGen.vo Gen/SnapshotGen.glob Gen/SnapshotGen.v.beautified Gen/SnapshotGen.required_vo: Gen/SnapshotGen.v 
Gen/SnapshotGen.vio: Gen/SnapshotGen.v 
Gen/SnapshotGen.vos Gen/SnapshotGen.vok Gen/SnapshotGen.required_vos: Gen/SnapshotGen.v 
Gen/TrackingGen.vo Gen/TrackingGen.glob Gen/TrackingGen.v.beautified Gen/TrackingGen.required_vo: Gen/TrackingGen.v Scanner/PrivIter.vo Scanner/Tracking.vo
Gen/TrackingGen.vio: Gen/TrackingGen.v Scanner/PrivIter.vio Scanner/Tracking.vio
Gen/TrackingGen.vos Gen/TrackingGen.vok Gen/TrackingGen.required_vos: Gen/TrackingGen.v Scanner/PrivIter.vos Scanner/Tracking.vos
Parser/Machine.vo Parser/Machine.glob Parser/Machine.v.beautified Parser/Machine.required_vo: Parser/Machine.v 
Parser/Machine.vio: Parser/Machine.v 
Parser/Machine.vos Parser/Machine.vok Parser/Machine.required_vos: Parser/Machine.v 
Parser/ParserCheck.vo Parser/ParserCheck.glob Parser/ParserCheck.v.beautified Parser/ParserCheck.required_vo: Parser/ParserCheck.v Parser/Machine.vo Parser/Position.vo Gen/Grammar.vo
Parser/ParserCheck.vio: Parser/ParserCheck.v Parser/Machine.vio Parser/Position.vio Gen/Grammar.vio
Parser/ParserCheck.vos Parser/ParserCheck.vok Parser/ParserCheck.required_vos: Parser/ParserCheck.v Parser/Machine.vos Parser/Position.vos Gen/Grammar.vos
Parser/Position.vo Parser/Position.glob Parser/Position.v.beautified Parser/Position.required_vo: Parser/Position.v 
Parser/Position.vio: Parser/Position.v 
Parser/Position.vos Parser/Position.vok Parser/Position.required_vos: Parser/Position.v 
Pat/MatchList.vo Pat/MatchList.glob Pat/MatchList.v.beautified Pat/MatchList.required_vo: Pat/MatchList.v Gen/PatConsts.vo
Pat/MatchList.vio: Pat/MatchList.v Gen/PatConsts.vio
Pat/MatchList.vos Pat/MatchList.vok Pat/MatchList.required_vos: Pat/MatchList.v Gen/PatConsts.vos
Pat/MatchListProofs.vo Pat/MatchListProofs.glob Pat/MatchListProofs.v.beautified Pat/MatchListProofs.required_vo: Pat/MatchListProofs.v Gen/PatConsts.vo Pat/MatchList.vo
Pat/MatchListProofs.vio: Pat/MatchListProofs.v Gen/PatConsts.vio Pat/MatchList.vio
Pat/MatchListProofs.vos Pat/MatchListProofs.vok Pat/MatchListProofs.required_vos: Pat/MatchListProofs.v Gen/PatConsts.vos Pat/MatchList.vos
Pat/Matcher.vo Pat/Matcher.glob Pat/Matcher.v.beautified Pat/Matcher.required_vo: Pat/Matcher.v Pat/Syntax.vo Pat/Sem.vo
Pat/Matcher.vio: Pat/Matcher.v Pat/Syntax.vio Pat/Sem.vio
Pat/Matcher.vos Pat/Matcher.vok Pat/Matcher.required_vos: Pat/Matcher.v Pat/Syntax.vos Pat/Sem.vos
Pat/MatcherProofs.vo Pat/MatcherProofs.glob Pat/MatcherProofs.v.beautified Pat/MatcherProofs.required_vo: Pat/MatcherProofs.v Pat/Syntax.vo Pat/Sem.vo Pat/Matcher.vo
Pat/MatcherProofs.vio: Pat/MatcherProofs.v Pat/Syntax.vio Pat/Sem.vio Pat/Matcher.vio
Pat/MatcherProofs.vos Pat/MatcherProofs.vok Pat/MatcherProofs.required_vos: Pat/MatcherProofs.v Pat/Syntax.vos Pat/Sem.vos Pat/Matcher.vos
Pat/Modifiers.vo Pat/Modifiers.glob Pat/Modifiers.v.beautified Pat/Modifiers.required_vo: Pat/Modifiers.v Pat/Syntax.vo Pat/Sem.vo Pat/Matcher.vo
Pat/Modifiers.vio: Pat/Modifiers.v Pat/Syntax.vio Pat/Sem.vio Pat/Matcher.vio
Pat/Modifiers.vos Pat/Modifiers.vok Pat/Modifiers.required_vos: Pat/Modifiers.v Pat/Syntax.vos Pat/Sem.vos Pat/Matcher.vos
Pat/ModifiersProofs.vo Pat/ModifiersProofs.glob Pat/ModifiersProofs.v.beautified Pat/ModifiersProofs.required_vo: Pat/ModifiersProofs.v Pat/Syntax.vo Pat/Sem.vo Pat/Matcher.vo Pat/MatcherProofs.vo Pat/Modifiers.vo
Pat/ModifiersProofs.vio: Pat/ModifiersProofs.v Pat/Syntax.vio Pat/Sem.vio Pat/Matcher.vio Pat/MatcherProofs.vio Pat/Modifiers.vio
Pat/ModifiersProofs.vos Pat/ModifiersProofs.vok Pat/ModifiersProofs.required_vos: Pat/ModifiersProofs.v Pat/Syntax.vos Pat/Sem.vos Pat/Matcher.vos Pat/MatcherProofs.vos Pat/Modifiers.vos
Pat/Sem.vo Pat/Sem.glob Pat/Sem.v.beautified Pat/Sem.required_vo: Pat/Sem.v Pat/Syntax.vo
Pat/Sem.vio: Pat/Sem.v Pat/Syntax.vio
Pat/Sem.vos Pat/Sem.vok Pat/Sem.required_vos: Pat/Sem.v Pat/Syntax.vos
Pat/Syntax.vo Pat/Syntax.glob Pat/Syntax.v.beautified Pat/Syntax.required_vo: Pat/Syntax.v 
Pat/Syntax.vio: Pat/Syntax.v 
Pat/Syntax.vos Pat/Syntax.vok Pat/Syntax.required_vos: Pat/Syntax.v 
Scanner/PrivIter.vo Scanner/PrivIter.glob Scanner/PrivIter.v.beautified Scanner/PrivIter.required_vo: Scanner/PrivIter.v 
Scanner/PrivIter.vio: Scanner/PrivIter.v 
Scanner/PrivIter.vos Scanner/PrivIter.vok Scanner/PrivIter.required_vos: Scanner/PrivIter.v 
Scanner/PrivIterProofs.vo Scanner/PrivIterProofs.glob Scanner/PrivIterProofs.v.beautified Scanner/PrivIterProofs.required_vo: Scanner/PrivIterProofs.v Scanner/PrivIter.vo
Scanner/PrivIterProofs.vio: Scanner/PrivIterProofs.v Scanner/PrivIter.vio
Scanner/PrivIterProofs.vos Scanner/PrivIterProofs.vok Scanner/PrivIterProofs.required_vos: Scanner/PrivIterProofs.v Scanner/PrivIter.vos
Scanner/Results.vo Scanner/Results.glob Scanner/Results.v.beautified Scanner/Results.required_vo: Scanner/Results.v Scanner/PrivIter.vo Scanner/Tracking.vo Gen/TrackingGen.vo
Scanner/Results.vio: Scanner/Results.v Scanner/PrivIter.vio Scanner/Tracking.vio Gen/TrackingGen.vio
Scanner/Results.vos Scanner/Results.vok Scanner/Results.required_vos: Scanner/Results.v Scanner/PrivIter.vos Scanner/Tracking.vos Gen/TrackingGen.vos
Scanner/ResultsProofs.vo Scanner/ResultsProofs.glob Scanner/ResultsProofs.v.beautified Scanner/ResultsProofs.required_vo: Scanner/ResultsProofs.v Scanner/PrivIter.vo Scanner/PrivIterProofs.vo Scanner/Tracking.vo Gen/TrackingGen.vo Scanner/Results.vo Scanner/TrackingProofs.vo
Scanner/ResultsProofs.vio: Scanner/ResultsProofs.v Scanner/PrivIter.vio Scanner/PrivIterProofs.vio Scanner/Tracking.vio Gen/TrackingGen.vio Scanner/Results.vio Scanner/TrackingProofs.vio
Scanner/ResultsProofs.vos Scanner/ResultsProofs.vok Scanner/ResultsProofs.required_vos: Scanner/ResultsProofs.v Scanner/PrivIter.vos Scanner/PrivIterProofs.vos Scanner/Tracking.vos Gen/TrackingGen.vos Scanner/Results.vos Scanner/TrackingProofs.vos
Scanner/Tracking.vo Scanner/Tracking.glob Scanner/Tracking.v.beautified Scanner/Tracking.required_vo: Scanner/Tracking.v Scanner/PrivIter.vo
Scanner/Tracking.vio: Scanner/Tracking.v Scanner/PrivIter.vio
Scanner/Tracking.vos Scanner/Tracking.vok Scanner/Tracking.required_vos: Scanner/Tracking.v Scanner/PrivIter.vos
Scanner/TrackingCheck.vo Scanner/TrackingCheck.glob Scanner/TrackingCheck.v.beautified Scanner/TrackingCheck.required_vo: Scanner/TrackingCheck.v Scanner/PrivIter.vo Scanner/Tracking.vo Gen/TrackingGen.vo Scanner/Results.vo
Scanner/TrackingCheck.vio: Scanner/TrackingCheck.v Scanner/PrivIter.vio Scanner/Tracking.vio Gen/TrackingGen.vio Scanner/Results.vio
Scanner/TrackingCheck.vos Scanner/TrackingCheck.vok Scanner/TrackingCheck.required_vos: Scanner/TrackingCheck.v Scanner/PrivIter.vos Scanner/Tracking.vos Gen/TrackingGen.vos Scanner/Results.vos
Scanner/TrackingProofs.vo Scanner/TrackingProofs.glob Scanner/TrackingProofs.v.beautified Scanner/TrackingProofs.required_vo: Scanner/TrackingProofs.v Scanner/PrivIter.vo Scanner/PrivIterProofs.vo Scanner/Tracking.vo Gen/TrackingGen.vo Scanner/Results.vo
Scanner/TrackingProofs.vio: Scanner/TrackingProofs.v Scanner/PrivIter.vio Scanner/PrivIterProofs.vio Scanner/Tracking.vio Gen/TrackingGen.vio Scanner/Results.vio
Scanner/TrackingProofs.vos Scanner/TrackingProofs.vok Scanner/TrackingProofs.required_vos: Scanner/TrackingProofs.v Scanner/PrivIter.vos Scanner/PrivIterProofs.vos Scanner/Tracking.vos Gen/TrackingGen.vos Scanner/Results.vos
