(* Model of Rust's UTF-8 validation error (std::str::from_utf8 / bstr::to_str:
   Utf8Error::{valid_up_to, error_len}, maximal-subpart rule), of String::from_utf8_lossy,
   and of the span Compiler::add_source builds for an invalid source
   (lib/src/compiler/mod.rs: `span_start + error_len.next_multiple_of(3)`).
   Bytes are N. Definitions only; proofs in Utf8Proofs.v. *)
From Coq Require Import List NArith Bool Arith.
Import ListNotations.
Local Open Scope N_scope.

Definition between (lo x hi : N) : bool := (lo <=? x) && (x <=? hi).
Definition is_cont (b : N) : bool := between 128 b 191.

(* length of the well-formed sequence a lead byte announces (Unicode table 3-7); 0 = not a lead *)
Definition width (b0 : N) : nat :=
  if b0 <? 128 then 1%nat
  else if between 194 b0 223 then 2%nat
  else if between 224 b0 239 then 3%nat
  else if between 240 b0 244 then 4%nat
  else 0%nat.

(* admissible second byte *)
Definition second_ok (b0 b1 : N) : bool :=
  if b0 =? 224 then between 160 b1 191
  else if b0 =? 237 then between 128 b1 159
  else if b0 =? 240 then between 144 b1 191
  else if b0 =? 244 then between 128 b1 143
  else is_cont b1.

(* from_utf8: None = valid; Some (valid_up_to, error_len) otherwise.
   error_len = None means "unexpected end of input". *)
Fixpoint validate (l : list N) (off : N) : option (N * option N) :=
  match l with
  | [] => None
  | b0 :: r0 =>
    match width b0 with
    | 1%nat => validate r0 (off + 1)
    | 0%nat => Some (off, Some 1)
    | w =>
      match r0 with
      | [] => Some (off, None)
      | b1 :: r1 =>
        if negb (second_ok b0 b1) then Some (off, Some 1) else
        if Nat.eqb w 2 then validate r1 (off + 2) else
        match r1 with
        | [] => Some (off, None)
        | b2 :: r2 =>
          if negb (is_cont b2) then Some (off, Some 2) else
          if Nat.eqb w 3 then validate r2 (off + 3) else
          match r2 with
          | [] => Some (off, None)
          | b3 :: r3 => if negb (is_cont b3) then Some (off, Some 3) else validate r3 (off + 4)
          end
        end
      end
    end
  end.

Definition REPL : list N := [239; 191; 189].   (* U+FFFD *)

(* String::from_utf8_lossy: every maximal invalid subpart becomes one U+FFFD *)
Fixpoint lossy (l : list N) : list N :=
  match l with
  | [] => []
  | b0 :: r0 =>
    match width b0 with
    | 1%nat => b0 :: lossy r0
    | 0%nat => REPL ++ lossy r0
    | w =>
      match r0 with
      | [] => REPL
      | b1 :: r1 =>
        if negb (second_ok b0 b1) then REPL ++ lossy r0 else
        if Nat.eqb w 2 then b0 :: b1 :: lossy r1 else
        match r1 with
        | [] => REPL
        | b2 :: r2 =>
          if negb (is_cont b2) then REPL ++ lossy r1 else
          if Nat.eqb w 3 then b0 :: b1 :: b2 :: lossy r2 else
          match r2 with
          | [] => REPL
          | b3 :: r3 => if negb (is_cont b3) then REPL ++ lossy r2 else b0 :: b1 :: b2 :: b3 :: lossy r3
          end
        end
      end
    end
  end.

(* usize::next_multiple_of(3) *)
Definition next_multiple_of_3 (n : N) : N := ((n + 2) / 3) * 3.

(* the span add_source reports for an invalid source *)
Definition error_span (e : N * option N) : N * N :=
  let '(v, el) := e in
  (v, match el with Some n => v + next_multiple_of_3 n | None => v end).

(* str::is_char_boundary *)
Definition is_char_boundary (s : list N) (i : N) : bool :=
  match nth_error s (N.to_nat i) with
  | None => i =? N.of_nat (length s)
  | Some b => negb (is_cont b)
  end.

Definition span_ok (s : list N) (sp : N * N) : bool :=
  (fst sp <=? snd sp) && (snd sp <=? N.of_nat (length s)) &&
  is_char_boundary s (fst sp) && is_char_boundary s (snd sp).
