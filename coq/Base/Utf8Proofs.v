(* The span add_source reports for a source that is not valid UTF-8 lies inside the lossily
   converted source (what the report builder renders), on character boundaries; it covers
   exactly the first replacement character (or is empty at the end for a truncated sequence). *)
From Coq Require Import List NArith Bool Arith Lia.
From YV Require Import Base.Utf8.
Import ListNotations.
Local Open Scope N_scope.

Definition head_not_cont (s : list N) : Prop :=
  match s with [] => True | b :: _ => is_cont b = false end.

Lemma width_lead_not_cont : forall b, width b <> 0%nat -> is_cont b = false.
Proof.
  intros b H. unfold width, is_cont, between in *.
  destruct (b <? 128) eqn:E1.
  - apply N.ltb_lt in E1. apply andb_false_iff. left. apply N.leb_gt. lia.
  - destruct ((194 <=? b) && (b <=? 223)) eqn:E2.
    + apply andb_true_iff in E2. destruct E2 as [E2 _]. apply N.leb_le in E2.
      apply andb_false_iff. right. apply N.leb_gt. lia.
    + destruct ((224 <=? b) && (b <=? 239)) eqn:E3.
      * apply andb_true_iff in E3. destruct E3 as [E3 _]. apply N.leb_le in E3.
        apply andb_false_iff. right. apply N.leb_gt. lia.
      * destruct ((240 <=? b) && (b <=? 244)) eqn:E4; [|congruence].
        apply andb_true_iff in E4. destruct E4 as [E4 _]. apply N.leb_le in E4.
        apply andb_false_iff. right. apply N.leb_gt. lia.
Qed.

Lemma lossy_head : forall l, head_not_cont (lossy l).
Proof.
  intros l. destruct l as [|b0 r0]; [exact I|]. cbn [lossy].
  destruct (width b0) as [|[|w]] eqn:W.
  - reflexivity.
  - cbn. apply width_lead_not_cont. congruence.
  - assert (Hb : is_cont b0 = false) by (apply width_lead_not_cont; congruence).
    repeat match goal with
    | |- context [match ?l with [] => _ | _ :: _ => _ end] => is_var l; destruct l
    | |- context [if ?c then _ else _] => destruct c
    end; cbn; try reflexivity; exact Hb.
Qed.

Definition shape (l : list N) (off v : N) (el : option N) : Prop :=
  exists A B, lossy l = A ++ REPL ++ B /\ off + N.of_nat (length A) = v /\
              (el = None -> B = []) /\ (forall n, el = Some n -> n = 1 \/ n = 2 \/ n = 3) /\
              head_not_cont B.

Lemma shape_here : forall l off el B,
  lossy l = REPL ++ B -> (el = None -> B = []) -> (forall n, el = Some n -> n = 1 \/ n = 2 \/ n = 3) ->
  head_not_cont B -> shape l off off el.
Proof.
  intros. exists [], B. repeat split; auto. cbn. lia.
Qed.

Lemma shape_cons : forall (pre : list N) l l' off v el,
  lossy l = pre ++ lossy l' -> shape l' (off + N.of_nat (length pre)) v el -> shape l off v el.
Proof.
  intros pre l l' off v el E (A & B & E' & Hv & H1 & H2 & H3).
  exists (pre ++ A), B. repeat split; auto.
  - rewrite E, E'. now rewrite app_assoc.
  - rewrite app_length, Nat2N.inj_add. lia.
Qed.

Lemma validate_shape : forall n l, (length l <= n)%nat -> forall off v el,
  validate l off = Some (v, el) -> shape l off v el.
Proof.
  induction n as [|n IH]; intros l L off v el H.
  - destruct l; [discriminate|cbn in L; lia].
  - destruct l as [|b0 r0]; [discriminate|]. cbn [length] in L.
    cbn [validate] in H.
    destruct (width b0) as [|[|w]] eqn:W.
    + inversion H; subst. eapply shape_here with (B := lossy r0).
      * cbn [lossy]. now rewrite W.
      * discriminate.
      * intros n0 E. inversion E. auto.
      * apply lossy_head.
    + eapply shape_cons with (pre := [b0]) (l' := r0).
      * cbn [lossy]. now rewrite W.
      * apply IH; [lia|]. cbn [length]. exact H.
    + destruct r0 as [|b1 r1].
      { inversion H; subst. eapply shape_here with (B := []); auto.
        - cbn [lossy]. now rewrite W.
        - discriminate.
        - exact I. }
      cbn [length] in L.
      destruct (negb (second_ok b0 b1)) eqn:S1.
      { inversion H; subst. eapply shape_here with (B := lossy (b1 :: r1)).
        - cbn [lossy]. rewrite W, S1. reflexivity.
        - discriminate.
        - intros n0 E. inversion E. auto.
        - apply lossy_head. }
      destruct (Nat.eqb (S (S w)) 2) eqn:W2.
      { eapply shape_cons with (pre := [b0; b1]) (l' := r1).
        - cbn [lossy]. rewrite W, S1, W2. reflexivity.
        - apply IH; [lia|]. cbn [length]. exact H. }
      destruct r1 as [|b2 r2].
      { inversion H; subst. eapply shape_here with (B := []); auto.
        - cbn [lossy]. rewrite W, S1, W2. reflexivity.
        - discriminate.
        - exact I. }
      cbn [length] in L.
      destruct (negb (is_cont b2)) eqn:S2.
      { inversion H; subst. eapply shape_here with (B := lossy (b2 :: r2)).
        - cbn [lossy]. rewrite W, S1, W2, S2. reflexivity.
        - discriminate.
        - intros n0 E. inversion E. auto.
        - apply lossy_head. }
      destruct (Nat.eqb (S (S w)) 3) eqn:W3.
      { eapply shape_cons with (pre := [b0; b1; b2]) (l' := r2).
        - cbn [lossy]. rewrite W, S1, W2, S2, W3. reflexivity.
        - apply IH; [lia|]. cbn [length]. exact H. }
      destruct r2 as [|b3 r3].
      { inversion H; subst. eapply shape_here with (B := []); auto.
        - cbn [lossy]. rewrite W, S1, W2, S2, W3. reflexivity.
        - discriminate.
        - exact I. }
      cbn [length] in L.
      destruct (negb (is_cont b3)) eqn:S3.
      { inversion H; subst. eapply shape_here with (B := lossy (b3 :: r3)).
        - cbn [lossy]. rewrite W, S1, W2, S2, W3, S3. reflexivity.
        - discriminate.
        - intros n0 E. inversion E. auto.
        - apply lossy_head. }
      eapply shape_cons with (pre := [b0; b1; b2; b3]) (l' := r3).
      * cbn [lossy]. rewrite W, S1, W2, S2, W3, S3. reflexivity.
      * apply IH; [lia|]. cbn [length]. exact H.
Qed.

Lemma boundary_at_app : forall (A s : list N),
  head_not_cont s -> is_char_boundary (A ++ s) (N.of_nat (length A)) = true.
Proof.
  intros A s H. unfold is_char_boundary. rewrite Nat2N.id.
  rewrite nth_error_app2 by lia. rewrite Nat.sub_diag.
  destruct s as [|b s']; cbn [nth_error].
  - rewrite app_nil_r. apply N.eqb_refl.
  - cbn in H. now rewrite H.
Qed.

Theorem invalid_utf8_span_ok : forall l e,
  validate l 0 = Some e -> span_ok (lossy l) (error_span e) = true.
Proof.
  intros l [v el] H.
  destruct (validate_shape (length l) l (le_n _) 0 v el H) as (A & B & E & Hv & H1 & H2 & H3).
  cbn [N.add] in Hv. subst v. unfold span_ok, error_span. rewrite E. cbn [fst snd].
  destruct el as [n|].
  - assert (Hn : next_multiple_of_3 n = 3).
    { destruct (H2 n eq_refl) as [->|[->| ->]]; reflexivity. }
    rewrite Hn.
    replace (N.of_nat (length A) + 3) with (N.of_nat (length (A ++ REPL))) by (rewrite app_length, Nat2N.inj_add; reflexivity).
    repeat (apply andb_true_iff; split).
    + apply N.leb_le. rewrite app_length, Nat2N.inj_add. lia.
    + apply N.leb_le. rewrite !app_length, !Nat2N.inj_add. lia.
    + apply boundary_at_app. reflexivity.
    + rewrite app_assoc. apply boundary_at_app. exact H3.
  - rewrite (H1 eq_refl), app_nil_r.
    repeat (apply andb_true_iff; split).
    + apply N.leb_le. lia.
    + apply N.leb_le. rewrite app_length, Nat2N.inj_add. lia.
    + apply boundary_at_app. reflexivity.
    + apply boundary_at_app. reflexivity.
Qed.

(* the valid prefix is copied unchanged, so the offsets of the error in the raw source and in
   the rendered (lossy) source coincide *)
Example utf8_examples :
  validate [114; 255; 97] 0 = Some (1, Some 1) /\
  validate [226; 130] 0 = Some (0, None) /\
  validate [97; 226; 130; 98] 0 = Some (1, Some 2) /\
  validate [240; 159; 152; 98] 0 = Some (0, Some 3) /\
  validate [237; 160; 128] 0 = Some (0, Some 1) /\
  validate [240; 159; 152; 128; 226; 130; 172] 0 = None /\
  lossy [97; 226; 130; 98] = [97; 239; 191; 189; 98] /\
  error_span (1, Some 2) = (1, 4).
Proof. vm_compute. repeat split. Qed.
