(* Correspondence cases for C19.

   The harness (harness/src/bin/c19.rs) drives the C API of /repo and records
   - per top-level yrx_* call: thread, function, result code (C value), the
     calling thread's last-error slot before and after (message texts interned
     to numbers), the other thread's slot before and after (lock-step mode) and
     whether the message read on this thread mentions the other thread's names;
   - for parity cases: pairs (dump through the C API, dump through the Rust API)
     of rule listings and scans.

   K ([check_case]): the model replays the recorded calls with the GENERATED
   table: every observed (code, slot change) is one of the function's return
   paths, the model's slots agree with what was read at every step, and the
   other thread's slot is what the model says (untouched).
   S ([spec_case]): the property on the implementation's own output: no crash,
   errors are codes, codes that carry detail come with a message on the calling
   thread, the other thread's slot does not move and never shows this thread's
   message, and the C dumps equal the Rust dumps.

   Assumption of the replay: the callbacks passed to the recorded calls do not
   call back into the API (the harness records only such calls as events). *)
From Coq Require Import List NArith ZArith Bool.
From YV Require Import Gen.CapiEffects Capi.LastError Capi.Pending.
Import ListNotations.
Local Open Scope N_scope.

Definition opt_eqb (a b : option N) : bool :=
  match a, b with
  | None, None => true
  | Some x, Some y => N.eqb x y
  | _, _ => false
  end.

Record obs := mkObs {
  o_tid : N;
  o_fn : fn;
  o_code : option N;                         (* None: the function does not return YRX_RESULT *)
  o_before : option N;
  o_after : option N;
  o_other : option (option N * option N);    (* the other thread's slot before / after (lock-step mode) *)
  o_foreign : bool }.                        (* the message read here names the other thread's objects *)

Definition code_of_num (n : N) : option code := find (fun c => N.eqb (code_num c) n) all_codes.

Definition rk_matches (r : rkind) (oc : option N) : bool :=
  match r, oc with
  | RCode c, Some n => N.eqb (code_num c) n
  | ROther, None => true
  | _, _ => false
  end.

Definition other_of (t : N) : N := if N.eqb t 0 then 1 else 0.

Fixpoint replay (s : slots) (evs : list obs) : bool :=
  match evs with
  | [] => true
  | o :: rest =>
      let t := o_tid o in
      let m := match o_after o with Some x => x | None => 0 end in
      opt_eqb (s t) (o_before o) &&
      match find (fun p => rk_matches (fst p) (o_code o) &&
                           opt_eqb (apply_eff (snd p) m (s t)) (o_after o)) (paths_of (o_fn o)) with
      | None => false
      | Some p =>
          let s' := step s (mkCall t (o_fn o) p m) in
          match o_other o with
          | None => true
          | Some (b, a) => opt_eqb (s (other_of t)) b && opt_eqb (s' (other_of t)) a
          end && replay s' rest
      end
  end.

(* ---- parity dumps ---- *)
Inductive metaval := MInt (z : Z) | MFloat (bits : N) | MBool (b : bool) | MStr (s : N) | MBytes (s : N).
Record rdump := mkRule {
  r_ns : N; r_id : N; r_tags : list N;
  r_meta : list (N * metaval);
  r_pats : list (N * list (N * N)) }.
(* status: 0 ok, 1 compile error, 2 scan error, 3 timeout, 4 invalid state, 5 other *)
Record sdump := mkScan { d_status : N; d_extra : list N; d_rules : list rdump }.

Fixpoint list_eqb {A} (e : A -> A -> bool) (a b : list A) : bool :=
  match a, b with
  | [], [] => true
  | x :: a', y :: b' => e x y && list_eqb e a' b'
  | _, _ => false
  end.
Definition metaval_eqb (a b : metaval) : bool :=
  match a, b with
  | MInt x, MInt y => Z.eqb x y
  | MFloat x, MFloat y => N.eqb x y
  | MBool x, MBool y => Bool.eqb x y
  | MStr x, MStr y => N.eqb x y
  | MBytes x, MBytes y => N.eqb x y
  | _, _ => false
  end.
Definition rdump_eqb (a b : rdump) : bool :=
  N.eqb (r_ns a) (r_ns b) && N.eqb (r_id a) (r_id b) && list_eqb N.eqb (r_tags a) (r_tags b) &&
  list_eqb (fun x y => N.eqb (fst x) (fst y) && metaval_eqb (snd x) (snd y)) (r_meta a) (r_meta b) &&
  list_eqb (fun x y => N.eqb (fst x) (fst y) &&
                       list_eqb (fun p q => N.eqb (fst p) (fst q) && N.eqb (snd p) (snd q)) (snd x) (snd y))
           (r_pats a) (r_pats b).
Definition sdump_eqb (a b : sdump) : bool :=
  N.eqb (d_status a) (d_status b) && list_eqb N.eqb (d_extra a) (d_extra b) &&
  list_eqb rdump_eqb (d_rules a) (d_rules b).

Record case := mkCase {
  k_events : list obs;
  k_crashed : bool;
  k_pairs : list (sdump * sdump);
  (* a sequence of set_module_data / set_module_output / set_global / scanning calls on ONE scanner with,
     per scanning call, which module data, module output and global value its verdicts show *)
  k_pending : list pstep }.

Definition check_case (k : case) : bool :=
  replay empty_slots (k_events k) && preplay (pinit 0%N) (k_pending k).

Definition is_some (a : option N) : bool := match a with Some _ => true | None => false end.

Definition ev_spec (o : obs) : bool :=
  match o_code o with
  | None => true
  | Some n => match code_of_num n with
              | Some c => negb (carries_detail c) || is_some (o_after o)
              | None => false            (* not a YRX_RESULT value *)
              end
  end &&
  match o_other o with
  | None => true
  | Some (b, a) => opt_eqb b a
  end &&
  negb (o_foreign o).

Definition spec_case (k : case) : bool :=
  negb (k_crashed k) && forallb ev_spec (k_events k) &&
  forallb (fun p => sdump_eqb (fst p) (snd p)) (k_pairs k).
