(* C19 - flags of yrx_compiler_create.  The header names each flag after the
   compiler option it switches; [expected_method] states that naming rule:
     YRX_<NAME>          -> Compiler::<name>(true)
     YRX_ENABLE_<NAME>   -> Compiler::<name>(true)
     YRX_DISABLE_<NAME>  -> Compiler::enable_<name>(false)
   [Gen.CapiEffects.compiler_flags] is what _yrx_compiler_create does.
   Definitions only. *)
From Coq Require Import List String Ascii NArith Bool.
From YV Require Import Gen.CapiEffects.
Import ListNotations.
Local Open Scope string_scope.

Definition lower_ascii (c : ascii) : ascii :=
  let n := N_of_ascii c in
  if andb (N.leb 65 n) (N.leb n 90) then ascii_of_N (n + 32) else c.
Fixpoint lower (s : string) : string :=
  match s with EmptyString => EmptyString | String c r => String (lower_ascii c) (lower r) end.

(* [strip p s] = Some rest when s = p ++ rest *)
Fixpoint strip (p s : string) : option string :=
  match p, s with
  | EmptyString, _ => Some s
  | String a p', String b s' => if Ascii.eqb a b then strip p' s' else None
  | _, EmptyString => None
  end.

Definition expected_method (flag : string) : option (string * bool) :=
  match strip "YRX_" flag with
  | None => None
  | Some name =>
      let n := lower name in
      match strip "enable_" n, strip "disable_" n with
      | Some r, _ => Some (r, true)
      | None, Some r => Some ("enable_" ++ r, false)
      | None, None => Some (n, true)
      end
  end.

Definition flag_ok (f : string * N * string * bool) : bool :=
  let '(c, v, m, a) := f in
  match expected_method c with
  | Some (em, ea) => String.eqb m em && Bool.eqb a ea
  | None => false
  end.

(* every value is a single bit and no two flags share a bit *)
Definition single_bit (v : N) : bool := negb (N.eqb v 0) && N.eqb (N.land v (v - 1)) 0.
Fixpoint bits_disjoint (l : list N) : bool :=
  match l with
  | [] => true
  | v :: r => forallb (fun w => N.eqb (N.land v w) 0) r && bits_disjoint r
  end.

Definition flags_table_ok : bool :=
  forallb flag_ok compiler_flags &&
  forallb (fun f => single_bit (snd (fst (fst f)))) compiler_flags &&
  bits_disjoint (map (fun f => snd (fst (fst f))) compiler_flags) &&
  match compiler_flags_unhandled with [] => true | _ => false end &&
  build_recreates_with_flags.
