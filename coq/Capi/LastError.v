(* C19 - the per-thread last-error slot of the C API (capi/src/lib.rs):

     thread_local! { static LAST_ERROR: RefCell<Option<CString>> = .. }
     fn _yrx_set_last_error<E: ToString>(err: Option<E>) {
         LAST_ERROR.set(err.map(|err| CString::new(err.to_string()).unwrap()))
     }
     pub unsafe extern "C" fn yrx_last_error() -> *const c_char  (read only)

   Every exported function is a set of return paths (generated table
   [Gen.CapiEffects.paths_of]); a path yields a result and leaves the calling
   thread's slot cleared, set to the message of the failing operation, or as
   it was.  How the slot is stored ([last_error_storage]) and how messages are
   converted ([set_conversion]) are generated from the source too.

   Definitions only; proofs are in LastErrorProofs.v. *)
From Coq Require Import List NArith Bool.
From YV Require Import Gen.CapiEffects.
Import ListNotations.
Local Open Scope N_scope.

Definition tid := N.
(* identity of a message text (the harness interns the texts it reads) *)
Definition msg := N.
Definition slots := tid -> option msg.
Definition empty_slots : slots := fun _ => None.

Definition apply_eff (e : eff) (m : msg) (old : option msg) : option msg :=
  match e with
  | SetNone => None
  | SetSome => Some m
  | Unchanged => old
  end.

(* one completed call: the calling thread, the function, the return path it
   took and the message produced by the failing operation (used by SetSome) *)
Record call := mkCall { c_tid : tid; c_fn : fn; c_path : rkind * eff; c_msg : msg }.

(* which slots a write performed by thread [caller] reaches *)
Definition writes (st : storage) (caller t : tid) : bool :=
  match st with
  | ThreadLocal => N.eqb caller t
  | Global => true
  end.

Definition step_st (st : storage) (s : slots) (c : call) : slots :=
  fun t => if writes st (c_tid c) t then apply_eff (snd (c_path c)) (c_msg c) (s t) else s t.
Definition step : slots -> call -> slots := step_st last_error_storage.
Definition run (s : slots) (h : list call) : slots := fold_left step h s.

(* the sub-history of one thread *)
Definition own (t : tid) (h : list call) : list call := filter (fun c => N.eqb (c_tid c) t) h.

(* --- the generated table -------------------------------------------------- *)
Definition code_eqb (a b : code) : bool := N.eqb (code_num a) (code_num b).
Definition eff_eqb (a b : eff) : bool :=
  match a, b with
  | SetNone, SetNone | SetSome, SetSome | Unchanged, Unchanged => true
  | _, _ => false
  end.
Definition rkind_eqb (a b : rkind) : bool :=
  match a, b with
  | RCode x, RCode y => code_eqb x y
  | ROther, ROther => true
  | _, _ => false
  end.
Definition path_eqb (a b : rkind * eff) : bool := rkind_eqb (fst a) (fst b) && eff_eqb (snd a) (snd b).

(* the call took one of the return paths the source has *)
Definition admissible (c : call) : bool := existsb (path_eqb (c_path c)) (paths_of (c_fn c)).

(* result codes whose cause is not determined by the code itself: the header
   describes them as "an error occurred while ..." and the detail is the
   last-error message.  YRX_INVALID_ARGUMENT ("usually a nil pointer"),
   YRX_INVALID_STATE, YRX_NO_METADATA and YRX_NOT_SUPPORTED are
   self-describing and are returned without touching the slot. *)
Definition carries_detail (c : code) : bool :=
  match c with
  | YRX_SYNTAX_ERROR | YRX_VARIABLE_ERROR | YRX_SCAN_ERROR | YRX_SCAN_TIMEOUT
  | YRX_INVALID_UTF8 | YRX_SERIALIZATION_ERROR => true
  | YRX_SUCCESS | YRX_INVALID_ARGUMENT | YRX_INVALID_STATE | YRX_NO_METADATA
  | YRX_NOT_SUPPORTED => false
  end.

(* decidable table conditions *)
Definition codes_total_fn (f : fn) : bool :=
  negb (match paths_of f with [] => true | _ => false end) &&
  forallb (fun p => match fst p with
                    | RCode _ => returns_result f
                    | ROther => negb (returns_result f)
                    end) (paths_of f).
Definition detail_sets_fn (f : fn) : bool :=
  forallb (fun p => match fst p with
                    | RCode c => negb (carries_detail c) || eff_eqb (snd p) SetSome
                    | ROther => true
                    end) (paths_of f).

(* observation only (the header of yrx_last_error promises it, C19 does not):
   functions with a YRX_SUCCESS path that does not clear the slot *)
Definition success_clears_fn (f : fn) : bool :=
  forallb (fun p => match fst p with
                    | RCode c => negb (code_eqb c YRX_SUCCESS) || eff_eqb (snd p) SetNone
                    | ROther => true
                    end) (paths_of f).
Definition success_not_clearing : list fn := filter (fun f => negb (success_clears_fn f)) all_fns.

(* --- message conversion ---------------------------------------------------- *)
(* CString::new(bytes) fails on an interior NUL; `.unwrap()` turns that into a
   panic, which aborts the process at the extern "C" boundary. *)
Definition to_cstring (cv : conversion) (m : list N) : option (list N) :=
  match cv with
  | CStringNewUnwrap => if existsb (N.eqb 0) m then None else Some m
  end.
