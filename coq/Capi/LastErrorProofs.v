(* Proofs about Capi/LastError.v. *)
From Coq Require Import List NArith Bool Lia.
From YV Require Import Gen.CapiEffects Capi.LastError.
Import ListNotations.
Local Open Scope N_scope.

(* the slot is thread-local in the source read by the translator *)
Lemma storage_is_thread_local : last_error_storage = ThreadLocal.
Proof. reflexivity. Qed.

(* frame: a call leaves the slot of every other thread alone *)
Lemma step_frame : forall s c t, t <> c_tid c -> step s c t = s t.
Proof.
  intros s c t H. unfold step, step_st. rewrite storage_is_thread_local. cbn [writes].
  destruct (N.eqb_spec (c_tid c) t) as [E|E]; [congruence|reflexivity].
Qed.

Lemma step_own : forall s c, step s c (c_tid c) = apply_eff (snd (c_path c)) (c_msg c) (s (c_tid c)).
Proof.
  intros s c. unfold step, step_st. rewrite storage_is_thread_local. cbn [writes].
  now rewrite N.eqb_refl.
Qed.

(* step only looks at the slot it computes *)
Lemma step_ext : forall s1 s2 c t, s1 t = s2 t -> step s1 c t = step s2 c t.
Proof. intros s1 s2 c t H. unfold step, step_st. now rewrite H. Qed.

Lemma run_app : forall h1 h2 s, run s (h1 ++ h2) = run (run s h1) h2.
Proof. intros. unfold run. apply fold_left_app. Qed.

Lemma run_ext : forall h s1 s2 t, s1 t = s2 t -> run s1 h t = run s2 h t.
Proof.
  induction h as [|c h IH]; intros s1 s2 t H; [exact H|].
  cbn [run fold_left]. apply IH. now apply step_ext.
Qed.

(* the slot of thread t after a history is the slot after t's own calls *)
Lemma run_own : forall h s t, run s h t = run s (own t h) t.
Proof.
  induction h as [|c h IH]; intros s t; [reflexivity|].
  cbn [own filter]. destruct (N.eqb_spec (c_tid c) t) as [E|E].
  - cbn [run fold_left]. apply IH.
  - change (run s (c :: h) t) with (run (step s c) h t).
    rewrite IH. fold (own t h). apply run_ext. apply step_frame. congruence.
Qed.

Lemma thread_isolation_lemma :
  (forall h s c b, b <> c_tid c -> run s (h ++ [c]) b = run s h b) /\
  (forall h s b, run s h b = run s (own b h) b).
Proof.
  split.
  - intros h s c b H. rewrite run_app. cbn [run fold_left]. now apply step_frame.
  - exact run_own.
Qed.

(* with a process-wide static the frame property is false: the theorem above
   really depends on the generated [last_error_storage] *)
Lemma isolation_fails_for_global_storage :
  exists s c t, t <> c_tid c /\ step_st Global s c t <> s t.
Proof.
  exists empty_slots, (mkCall 0 F_yrx_compile (RCode YRX_SYNTAX_ERROR, SetSome) 7), 1.
  split; [discriminate|]. vm_compute. discriminate.
Qed.

(* a message found in a slot was put there by a call of that very thread *)
Lemma message_provenance_lemma : forall h s t m,
  run s h t = Some m ->
  s t = Some m \/ exists c, In c h /\ c_tid c = t /\ snd (c_path c) = SetSome /\ c_msg c = m.
Proof.
  induction h as [|c h IH]; intros s t m H; [left; exact H|].
  change (run s (c :: h) t) with (run (step s c) h t) in H.
  destruct (IH _ _ _ H) as [H1|[c' [Hin [Ht [He Hm]]]]].
  - destruct (N.eq_dec t (c_tid c)) as [E|E].
    + subst t. rewrite step_own in H1. destruct (snd (c_path c)) eqn:Ee; cbn [apply_eff] in H1.
      * discriminate.
      * right. exists c. split; [left; reflexivity|]. repeat split; try assumption. congruence.
      * left. exact H1.
    + rewrite step_frame in H1 by exact E. left. exact H1.
  - right. exists c'. split; [right; exact Hin|]. repeat split; assumption.
Qed.

(* --- the generated table --------------------------------------------------- *)
Lemma codes_total_table : forall f, codes_total_fn f = true.
Proof. destruct f; vm_compute; reflexivity. Qed.

Lemma detail_sets_table : forall f, detail_sets_fn f = true.
Proof. destruct f; vm_compute; reflexivity. Qed.

Lemma all_fns_complete : forall f, existsb (fun g => N.eqb (fn_num f) (fn_num g)) all_fns = true.
Proof. destruct f; vm_compute; reflexivity. Qed.

Lemma codes_total_lemma : forall f,
  paths_of f <> [] /\
  forall p, In p (paths_of f) ->
    if returns_result f then exists c, fst p = RCode c /\ In c all_codes else fst p = ROther.
Proof.
  intros f. pose proof (codes_total_table f) as H. unfold codes_total_fn in H.
  apply andb_true_iff in H. destruct H as [H1 H2]. split.
  - destruct (paths_of f); [discriminate|discriminate].
  - intros p Hp. rewrite forallb_forall in H2. specialize (H2 p Hp).
    destruct (fst p) as [c|]; destruct (returns_result f); try discriminate; try reflexivity.
    exists c. split; [reflexivity|]. destruct c; vm_compute; tauto.
Qed.

Lemma eff_eqb_eq : forall a b, eff_eqb a b = true -> a = b.
Proof. destruct a, b; cbn; congruence. Qed.

Lemma failure_with_detail_lemma : forall f c e,
  In (RCode c, e) (paths_of f) -> carries_detail c = true -> e = SetSome.
Proof.
  intros f c e Hin Hd. pose proof (detail_sets_table f) as H. unfold detail_sets_fn in H.
  rewrite forallb_forall in H. specialize (H _ Hin). cbn [fst snd] in H.
  rewrite Hd in H. cbn [negb orb] in H. now apply eff_eqb_eq.
Qed.

Lemma code_num_inj : forall a b, code_num a = code_num b -> a = b.
Proof. destruct a, b; cbn; intros H; try reflexivity; discriminate H. Qed.

Lemma path_eqb_eq : forall a b, path_eqb a b = true -> a = b.
Proof.
  intros [ra ea] [rb eb] H. unfold path_eqb in H. cbn [fst snd] in H.
  apply andb_true_iff in H. destruct H as [H1 H2]. apply eff_eqb_eq in H2. subst eb.
  destruct ra as [x|], rb as [y|]; cbn [rkind_eqb] in H1; try discriminate; [|reflexivity].
  unfold code_eqb in H1. apply N.eqb_eq in H1. apply code_num_inj in H1. now subst.
Qed.

Lemma admissible_in : forall c, admissible c = true -> In (c_path c) (paths_of (c_fn c)).
Proof.
  intros c H. unfold admissible in H. apply existsb_exists in H.
  destruct H as [p [Hin He]]. apply path_eqb_eq in He. now rewrite He.
Qed.

(* semantic form: after an admissible call that returns a code carrying
   detail, the calling thread's slot holds the message of that very call *)
Lemma failure_slot_lemma : forall s cl c,
  admissible cl = true -> fst (c_path cl) = RCode c -> carries_detail c = true ->
  step s cl (c_tid cl) = Some (c_msg cl).
Proof.
  intros s cl c Ha Hc Hd. rewrite step_own.
  apply admissible_in in Ha. destruct (c_path cl) as [r e] eqn:E. cbn [fst snd] in *. subst r.
  rewrite (failure_with_detail_lemma _ _ _ Ha Hd). reflexivity.
Qed.

(* --- message conversion ---------------------------------------------------- *)
Lemma to_cstring_total_lemma : forall m,
  forallb (fun b => negb (N.eqb b 0)) m = true -> to_cstring set_conversion m = Some m.
Proof.
  intros m H. unfold to_cstring, set_conversion.
  replace (existsb (N.eqb 0) m) with false; [reflexivity|].
  symmetry. induction m as [|b m IH]; [reflexivity|].
  cbn [forallb existsb] in *. apply andb_true_iff in H. destruct H as [H1 H2].
  rewrite (IH H2). rewrite N.eqb_sym. destruct (N.eqb b 0); [discriminate|reflexivity].
Qed.

(* a message with an interior NUL makes _yrx_set_last_error panic *)
Lemma to_cstring_partial : exists m, to_cstring set_conversion m = None.
Proof. exists [102; 0; 111]. reflexivity. Qed.

(* --- flags of yrx_compiler_create (finite fact over the generated table) ----- *)
From YV Require Import Capi.Flags.

Lemma flags_table_ok_now : flags_table_ok = true.
Proof. vm_compute. reflexivity. Qed.

Lemma flags_named_lemma : forall c v m a,
  In (c, v, m, a) compiler_flags -> expected_method c = Some (m, a).
Proof.
  intros c v m a Hin. pose proof flags_table_ok_now as H. unfold flags_table_ok in H.
  do 4 (apply andb_true_iff in H; destruct H as [H ?]).
  rewrite forallb_forall in H. specialize (H _ Hin). cbn [flag_ok] in H.
  destruct (expected_method c) as [[em ea]|]; [|discriminate].
  apply andb_true_iff in H. destruct H as [Hm Ha].
  apply String.eqb_eq in Hm. apply Bool.eqb_prop in Ha. now subst.
Qed.

(* --- value plumbing (finite facts over the generated tables) ------------------ *)
From Coq Require Import String.
From YV Require Import Capi.Values.

Lemma values_table_ok_now : values_table_ok = true.
Proof. vm_compute. reflexivity. Qed.

Lemma values_parts :
  out_params_ok = true /\ structs_ok = true /\ buffers_ok = true /\ loops_ok = true /\
  c_strings_ok = true /\ meta_ok = true /\ setters_ok = true /\ inner_calls_ok = true.
Proof. repeat split; vm_compute; reflexivity. Qed.

(* a match handed to the callback carries the start and the length of the match's range *)
Lemma match_fields_lemma : forall f e,
  In ("yrx_pattern_iter_matches", "YRX_MATCH", f, e)%string struct_fields ->
  (f = "offset" /\ e = "m.range().start")%string \/ (f = "length" /\ e = "m.range().len()")%string.
Proof.
  intros f e H. vm_compute in H.
  repeat (destruct H as [H|H]; [inversion H; subst; try (left; split; reflexivity); try (right; split; reflexivity)|]);
  try contradiction.
Qed.

(* every MetaValue variant has its own tag and fills the union member named after it *)
Lemma meta_arms_lemma : forall v tag mem payload,
  In (v, tag, mem, payload) meta_arms ->
  In (v, tag, payload) expected_meta /\ member_of_tag tag = Some mem.
Proof.
  intros v tag mem payload H. vm_compute in H.
  repeat (destruct H as [H|H]; [inversion H; subst; split; [vm_compute; tauto|reflexivity]|]).
  contradiction.
Qed.

(* --- pending per-scan inputs ---------------------------------------------------- *)
From YV Require Import Capi.Pending.

Lemma pending_table_ok_now : pending_table_ok = true.
Proof. vm_compute. reflexivity. Qed.

(* YRX_INVALID_STATE is returned exactly by the functions the header documents *)
Lemma state_guards_lemma : forall f : fn,
  has_invalid_state f = true <-> In (fn_name f) documented_invalid_state.
Proof.
  intros f. split.
  - intros H. destruct f; vm_compute in H; try discriminate H; vm_compute; tauto.
  - intros H. destruct f; vm_compute in H; vm_compute; try reflexivity;
      repeat (destruct H as [H|H]; [discriminate H|]); contradiction.
Qed.

(* after any whole-buffer scanning call, accepted or refused, no module data is pending *)
Lemma scan_consumes_data_lemma : forall s k, whole_buffer k = true -> p_data (scan_next s k) = None.
Proof.
  intros s k H. destruct k; try discriminate H; unfold scan_next; cbn [whole_buffer p_data];
    (replace (consumes_data _) with true by (vm_compute; reflexivity)); reflexivity.
Qed.

Definition sets_data (st : pstep) : bool := match st with PSetData _ _ => true | _ => false end.
Fixpoint prun (s : pstate) (l : list pstep) : pstate :=
  match l with [] => s | st :: r => prun (pstep_next s st) r end.

Lemma no_data_preserved : forall l s,
  p_data s = None -> forallb (fun st => negb (sets_data st)) l = true -> p_data (prun s l) = None.
Proof.
  induction l as [|st r IH]; intros s Hs Hl; [exact Hs|].
  cbn [forallb] in Hl. apply andb_true_iff in Hl. destruct Hl as [H1 H2].
  cbn [prun]. apply IH; [|exact H2].
  destruct st as [d a|o a|g a|k inv d o g]; cbn [sets_data negb] in H1; try discriminate H1; cbn [pstep_next].
  - destruct (p_block s); [exact Hs|exact Hs].
  - destruct a; exact Hs.
  - unfold scan_next. destruct (whole_buffer k); cbn [p_data]; [destruct (consumes_data _); [reflexivity|exact Hs]|exact Hs].
Qed.

(* no stale data: for every history, a whole-buffer scan that follows another one
   without a set_module_data in between observes no module data *)
Lemma no_stale_data_lemma : forall h1 k1 h2 k2 s,
  whole_buffer k1 = true -> whole_buffer k2 = true ->
  forallb (fun st => negb (sets_data st)) h2 = true ->
  let s' := prun (scan_next (prun s h1) k1) h2 in
  snd (fst (scan_obs s' k2)) = 0%N.
Proof.
  intros h1 k1 h2 k2 s H1 H2 Hh s'.
  assert (Hd : p_data s' = None).
  { apply no_data_preserved; [now apply scan_consumes_data_lemma|exact Hh]. }
  unfold scan_obs. rewrite H2. destruct (p_block s'); [reflexivity|]. cbn [fst snd].
  rewrite Hd. destruct (reads_data _); reflexivity.
Qed.
