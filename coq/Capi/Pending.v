(* C19 - pending per-scan inputs of a YRX_SCANNER.

   yrx_scanner_set_module_data stores (module -> data) in the scanner; the header
   says "Once yrx_scanner_scan is executed, the module's metadata is consumed and
   will be empty unless set again" - the Rust API takes the data per call
   (ScanOptions).  Which wrapper reads / drains the stored data is generated from
   capi/src/scanner.rs ([Gen.CapiEffects.module_data_ops]).  Module OUTPUT set
   with yrx_scanner_set_module_output is consumed by the next whole-buffer scan
   inside the library; globals persist.  Both set_module_* calls are refused
   (YRX_INVALID_STATE) once the scanner is in block mode; block scans run no
   module main (the model makes no claim about module functions there).

   One module (cuckoo) carries data in the harness, so the pending data is an
   [option N] (which report); 0 = nothing observed.  Definitions only. *)
From Coq Require Import List String NArith Bool.
From YV Require Import Gen.CapiEffects Capi.LastError.
Import ListNotations.
Local Open Scope string_scope.

Fixpoint assoc_ops (f : string) (l : list (string * list string)) : list string :=
  match l with
  | [] => []
  | (k, v) :: r => if String.eqb k f then v else assoc_ops f r
  end.
Definition has_op (f op : string) : bool := existsb (String.eqb op) (assoc_ops f module_data_ops).
(* the scan hands the stored data to the module / removes it from the scanner *)
Definition reads_data (f : string) : bool := has_op f "drain" || has_op f "iter".
Definition consumes_data (f : string) : bool := has_op f "drain" || has_op f "clear".

Inductive scan_kind := KScan | KScanFile | KScanBlock | KFinish.
Definition scan_fn (k : scan_kind) : string :=
  match k with
  | KScan => "yrx_scanner_scan" | KScanFile => "yrx_scanner_scan_file"
  | KScanBlock => "yrx_scanner_scan_block" | KFinish => "yrx_scanner_finish"
  end.
Definition whole_buffer (k : scan_kind) : bool := match k with KScan | KScanFile => true | _ => false end.

Record pstate := mkP { p_data : option N; p_out : option N; p_glob : N; p_block : bool }.
Definition pinit (g : N) : pstate := mkP None None g false.

Inductive pstep :=
  | PSetData (d : N) (accepted : bool)          (* yrx_scanner_set_module_data *)
  | PSetOut (o : N) (accepted : bool)           (* yrx_scanner_set_module_output *)
  | PSetGlob (g : N) (accepted : bool)          (* yrx_scanner_set_global_int: accepted in every state *)
  | PScanStep (k : scan_kind) (invalid_state : bool) (obs_data obs_out obs_glob : N).

(* what a scanning call observes (0 = nothing) and the state it leaves *)
Definition scan_obs (s : pstate) (k : scan_kind) : bool * N * N :=
  if whole_buffer k then
    if p_block s then (true, 0%N, 0%N)          (* refused: YRX_INVALID_STATE *)
    else (false,
          (if reads_data (scan_fn k) then match p_data s with Some d => d | None => 0%N end else 0%N),
          match p_out s with Some o => o | None => 0%N end)
  else (false, 0%N, 0%N).
Definition scan_next (s : pstate) (k : scan_kind) : pstate :=
  if whole_buffer k then
    mkP (if consumes_data (scan_fn k) then None else p_data s)
        (if p_block s then p_out s else None) (p_glob s) (p_block s)
  else mkP (p_data s) (p_out s) (p_glob s) true.

Definition pstep_ok (s : pstate) (st : pstep) : bool :=
  match st with
  | PSetData _ acc => Bool.eqb acc (negb (p_block s))
  | PSetOut _ acc => Bool.eqb acc (negb (p_block s))
  | PSetGlob _ acc => acc
  | PScanStep k inv d o g =>
      let '(inv', d', o') := scan_obs s k in
      Bool.eqb inv inv' &&
      (inv ||
       if whole_buffer k then N.eqb d d' && N.eqb o o' && N.eqb g (p_glob s)
       else
         (* block scans run no module main: what the module functions return there (state left by
            earlier scans) is the subject of C04/C14, not of the C wrappers; scan_block yields no
            verdicts at all, finish shows the global *)
         match k with KFinish => N.eqb g (p_glob s) | _ => true end)
  end.
Definition pstep_next (s : pstate) (st : pstep) : pstate :=
  match st with
  | PSetData d _ => if p_block s then s else mkP (Some d) (p_out s) (p_glob s) false
  | PSetOut o _ => if p_block s then s else mkP (p_data s) (Some o) (p_glob s) false
  | PSetGlob g acc => if acc then mkP (p_data s) (p_out s) g (p_block s) else s
  | PScanStep k _ _ _ _ => scan_next s k
  end.
Fixpoint preplay (s : pstate) (l : list pstep) : bool :=
  match l with
  | [] => true
  | st :: r => pstep_ok s st && preplay (pstep_next s st) r
  end.

(* ---- which functions refuse which state ----
   The functions that have a YRX_INVALID_STATE return path in the generated effect table, against the
   set the header documents: the functions whose own comment (or the comment of yrx_scanner_scan_block,
   for yrx_scanner_scan) says so, plus the other standard scanning call, yrx_scanner_scan_file
   ("a scanner that was already in multi-block mode has been used as a standard scanner"). *)
Definition has_invalid_state (f : fn) : bool :=
  existsb (fun p => match fst p with RCode c => code_eqb c YRX_INVALID_STATE | ROther => false end) (paths_of f).
Definition invalid_state_fns : list string := map fn_name (filter has_invalid_state all_fns).
Definition documented_invalid_state : list string := header_invalid_state ++ ["yrx_scanner_scan_file"].
Definition subset_s (a b : list string) : bool := forallb (fun x => existsb (String.eqb x) b) a.
Definition state_guards_ok : bool :=
  subset_s invalid_state_fns documented_invalid_state && subset_s documented_invalid_state invalid_state_fns.

(* the documented behaviour, as a decidable condition on the generated table *)
Definition pending_table_ok : bool :=
  forallb (fun k => reads_data (scan_fn k) && consumes_data (scan_fn k)) [KScan; KScanFile] &&
  forallb (fun k => negb (reads_data (scan_fn k)) && negb (consumes_data (scan_fn k))) [KScanBlock; KFinish] &&
  has_op "yrx_scanner_set_module_data" "insert" &&
  state_guards_ok.
