(* C19 - value plumbing of the C wrappers.  [Gen.CapiEffects] holds, extracted
   from capi/src, the Rust expression every C-visible value is filled from;
   this file states what those expressions have to be (from the documentation
   in capi/include/yara_x.h: a match's offset/length are those of the match's
   range, identifiers are the rule's / pattern's own, each metadata variant has
   its own type tag and the union member named after the tag, the scan
   callback runs over the matching rules, set_global_<t> passes a value of type
   t on unchanged) as decidable checks over the generated tables.
   Definitions only. *)
From Coq Require Import List String Bool.
From YV Require Import Gen.CapiEffects Capi.Flags.
Import ListNotations.
Local Open Scope string_scope.

Definition eq3 (a b : string * string * string) : bool :=
  let '(a1, a2, a3) := a in let '(b1, b2, b3) := b in
  String.eqb a1 b1 && String.eqb a2 b2 && String.eqb a3 b3.
Definition eq4 (a b : string * string * string * string) : bool :=
  let '(a1, a2, a3, a4) := a in let '(b1, b2, b3, b4) := b in
  String.eqb a1 b1 && String.eqb a2 b2 && String.eqb a3 b3 && String.eqb a4 b4.
Definition eq5 (a b : string * string * string * string * string) : bool :=
  let '(a1, a2, a3, a4, a5) := a in let '(b1, b2, b3, b4, b5) := b in
  String.eqb a1 b1 && String.eqb a2 b2 && String.eqb a3 b3 && String.eqb a4 b4 && String.eqb a5 b5.

Fixpoint list_eqb {A} (e : A -> A -> bool) (a b : list A) : bool :=
  match a, b with
  | [], [] => true
  | x :: a', y :: b' => e x y && list_eqb e a' b'
  | _, _ => false
  end.
Fixpoint nodup_str (l : list string) : bool :=
  match l with [] => true | x :: r => negb (existsb (String.eqb x) r) && nodup_str r end.

(* --- identifiers and namespaces: pointer and length of the same accessor --- *)
Definition fn_of3 (r : string * string * string) := fst (fst r).
Definition out_params_of (f : string) := filter (fun r => String.eqb (fn_of3 r) f) out_params.
Definition expected_out_params : list (string * list (string * string * string)) :=
  [("yrx_rule_identifier", [("yrx_rule_identifier", "ident", "rule.0.identifier().as_ptr()");
                            ("yrx_rule_identifier", "len", "rule.0.identifier().len()")]);
   ("yrx_rule_namespace", [("yrx_rule_namespace", "ns", "rule.0.namespace().as_ptr()");
                           ("yrx_rule_namespace", "len", "rule.0.namespace().len()")]);
   ("yrx_pattern_identifier", [("yrx_pattern_identifier", "ident", "pattern.0.identifier().as_ptr()");
                               ("yrx_pattern_identifier", "len", "pattern.0.identifier().len()")])].
Definition out_params_ok : bool :=
  forallb (fun e => list_eqb eq3 (out_params_of (fst e)) (snd e)) expected_out_params.

(* --- structures handed to callbacks --- *)
Definition struct_of_fn (f s : string) :=
  filter (fun r => let '(a, b, _, _) := r in String.eqb a f && String.eqb b s) struct_fields.
Definition expected_structs : list (string * string * list (string * string * string * string)) :=
  [("yrx_pattern_iter_matches", "YRX_MATCH",
      [("yrx_pattern_iter_matches", "YRX_MATCH", "offset", "m.range().start");
       ("yrx_pattern_iter_matches", "YRX_MATCH", "length", "m.range().len()")]);
   ("yrx_rule_iter_metadata", "YRX_METADATA",
      [("yrx_rule_iter_metadata", "YRX_METADATA", "identifier", "identifier.as_ptr()");
       ("yrx_rule_iter_metadata", "YRX_METADATA", "value_type", "ty");
       ("yrx_rule_iter_metadata", "YRX_METADATA", "value", "val")]);
   ("yrx_rule_iter_metadata", "YRX_METADATA_BYTES",
      [("yrx_rule_iter_metadata", "YRX_METADATA_BYTES", "length", "v.len()");
       ("yrx_rule_iter_metadata", "YRX_METADATA_BYTES", "data", "v.as_ptr()")])].
(* the literals of a structure in a function have exactly these field expressions (a structure may be
   built at several places of the function) *)
Definition structs_ok : bool :=
  forallb (fun e => let '(f, s, rows) := e in
                    forallb (fun r => existsb (eq4 r) rows) (struct_of_fn f s) &&
                    forallb (fun r => existsb (eq4 r) (struct_of_fn f s)) rows) expected_structs.

(* every YRX_BUFFER takes pointer and length from the same vector *)
Definition buffer_rows (f v : string) : list (string * string * string * string) :=
  [(f, "YRX_BUFFER", "data", v ++ ".as_mut_ptr()"); (f, "YRX_BUFFER", "length", v ++ ".len()")].
Definition buffers_ok : bool :=
  list_eqb eq4 (struct_of_fn "yrx_compiler_errors_json" "YRX_BUFFER") (buffer_rows "yrx_compiler_errors_json" "json") &&
  list_eqb eq4 (struct_of_fn "yrx_compiler_warnings_json" "YRX_BUFFER") (buffer_rows "yrx_compiler_warnings_json" "json") &&
  list_eqb eq4 (struct_of_fn "yrx_rules_serialize" "YRX_BUFFER") (buffer_rows "yrx_rules_serialize" "serialized").

(* --- what the callbacks run over --- *)
Definition expected_loops : list (string * string * string * string) :=
  [("yrx_rules_iter", "r", "rules.inner().iter()", "&ruleas*constYRX_RULE");
   ("yrx_rules_iter_imports", "import", "rules.inner().imports()", "import.as_ptr()");
   ("yrx_scanner_scan", "r", "results.matching_rules()", "&YRX_RULE::new(r)");
   ("yrx_scanner_scan_file", "r", "results.matching_rules()", "&YRX_RULE::new(r)");
   ("yrx_scanner_finish", "r", "results.matching_rules()", "&YRX_RULE::new(r)");
   ("yrx_rule_iter_metadata", "(identifier,value)", "rule.0.metadata()", "&YRX_METADATA{..}");
   ("yrx_rule_iter_patterns", "pattern", "rule.0.patterns()", "&YRX_PATTERN::new(pattern)");
   ("yrx_rule_iter_tags", "tag", "rule.0.tags()", "tag_name.as_ptr()");
   ("yrx_pattern_iter_matches", "m", "pattern.0.matches()", "&YRX_MATCH{..}")].
Definition loops_ok : bool :=
  forallb (fun e => existsb (eq4 e) callback_loops) expected_loops &&
  (* and no function listed above has another callback loop *)
  forallb (fun g => negb (existsb (fun e => String.eqb (fst (fst (fst e))) (fst (fst (fst g)))) expected_loops)
                    || existsb (eq4 g) expected_loops) callback_loops.

Definition expected_c_strings : list (string * string * string) :=
  [("yrx_rules_iter_imports", "import", "import");
   ("yrx_rule_iter_metadata", "identifier", "identifier");
   ("yrx_rule_iter_tags", "tag_name", "tag.identifier()")].
Definition c_strings_ok : bool := forallb (fun e => existsb (eq3 e) c_strings) expected_c_strings.

(* --- metadata: variant -> tag -> union member -> payload --- *)
Definition expected_meta : list (string * string * string) :=
  [("Integer", "YRX_I64", "v");
   ("Float", "YRX_F64", "v");
   ("Bool", "YRX_BOOLEAN", "v");
   ("String", "YRX_STRING", "CString::new(v).unwrap().as_ptr()");
   ("Bytes", "YRX_BYTES", "YRX_METADATA_BYTES{length:v.len(),data:v.as_ptr(),}")].
(* the union member is named after the tag: YRX_I64 -> i64, YRX_BOOLEAN -> boolean, ... *)
Definition member_of_tag (tag : string) : option string := option_map lower (strip "YRX_" tag).
Definition meta_arm_ok (a : string * string * string * string) : bool :=
  let '(variant, tag, member, payload) := a in
  existsb (eq3 (variant, tag, payload)) expected_meta &&
  match member_of_tag tag with Some m => String.eqb m member | None => false end.
Definition meta_ok : bool :=
  forallb meta_arm_ok meta_arms &&
  (* every variant of yara_x::MetaValue is handled, once, in declaration order *)
  list_eqb String.eqb (map (fun a => fst (fst (fst a))) meta_arms) metavalue_variants &&
  (* distinct tags, all of them declared, distinct members *)
  nodup_str (map (fun a => snd (fst (fst a))) meta_arms) &&
  forallb (fun a => existsb (String.eqb (snd (fst (fst a)))) metadata_type_tags) meta_arms &&
  nodup_str (map (fun a => snd (fst a)) meta_arms) &&
  nodup_str metadata_type_tags &&
  (* the String arm converts with CString::new(v).unwrap(), which panics (= aborts the process at the
     extern "C" boundary) on a string containing NUL: the arm must be preceded by the guarded arm
     that exposes such a string as bytes (which carry their length), and that is the only guarded arm *)
  list_eqb eq5 meta_guarded_arms
    [("String", "v.contains('__')", "YRX_BYTES", "bytes", "YRX_METADATA_BYTES{length:v.len(),data:v.as_ptr(),}")].

(* --- globals: yrx_{compiler_define,scanner_set}_global_<t> passes a value of type t on --- *)
Definition expected_setter (suffix : string) : option (string * string) :=
  if String.eqb suffix "int" then Some ("i64", "")
  else if String.eqb suffix "bool" then Some ("bool", "")
  else if String.eqb suffix "float" then Some ("f64", "")
  else if String.eqb suffix "str" then Some ("*constc_char", "utf8")
  else if String.eqb suffix "json" then Some ("*constc_char", "utf8+json")
  else None.
Definition setter_ok (r : string * string * string * string * string) : bool :=
  let '(f, ty, helper, arg, conv) := r in
  let by_prefix p h :=
    match strip p f with
    | Some suffix => match expected_setter suffix with
                     | Some (ety, econv) => String.eqb ty ety && String.eqb conv econv && String.eqb helper h
                     | None => false
                     end
    | None => false
    end in
  String.eqb arg "value" &&
  (by_prefix "yrx_scanner_set_global_" "yrx_scanner_set_global" ||
   by_prefix "yrx_compiler_define_global_" "yrx_compiler_define_global").
Definition setters_ok : bool :=
  forallb setter_ok global_setters &&
  Nat.eqb (List.length global_setters) 10 &&
  nodup_str (map (fun r => fst (fst (fst (fst r)))) global_setters) &&
  list_eqb eq4 global_helpers [("yrx_scanner_set_global", "set_global", "ident", "value");
                               ("yrx_compiler_define_global", "define_global", "ident", "value")].

(* --- simple setters: the argument is handed to the Rust object unchanged; the timeout is converted
   with the constructor of the unit the header documents ("Sets a timeout (in seconds)") --- *)
Definition duration_of_unit (u : string) : option string :=
  if String.eqb u "seconds" then Some "Duration::from_secs(timeout)"
  else if String.eqb u "milliseconds" then Some "Duration::from_millis(timeout)"
  else None.
Definition calls_of (f : string) := filter (fun r => String.eqb (fst (fst r)) f) inner_calls.
Definition expected_inner_calls : list (string * string * string) :=
  [("yrx_scanner_fast_scan", "fast_scan", "yes");
   ("yrx_scanner_max_matches_per_pattern", "max_matches_per_pattern", "n");
   ("yrx_compiler_max_warnings", "max_warnings", "n");
   ("yrx_compiler_new_namespace", "new_namespace", "namespace");
   ("yrx_compiler_ignore_module", "ignore_module", "module");
   ("yrx_compiler_ban_module", "ban_module", "module,err_title,err_msg");
   ("yrx_compiler_enable_feature", "enable_feature", "feature");
   ("yrx_compiler_add_include_dir", "add_include_dir", "dir")].
Definition inner_calls_ok : bool :=
  forallb (fun e => list_eqb eq3 (calls_of (fst (fst e))) [e]) expected_inner_calls &&
  match duration_of_unit header_timeout_unit with
  | Some d => list_eqb eq3 (calls_of "yrx_scanner_set_timeout") [("yrx_scanner_set_timeout", "set_timeout", d)]
  | None => false
  end.

Definition values_table_ok : bool :=
  out_params_ok && structs_ok && buffers_ok && loops_ok && c_strings_ok && meta_ok && setters_ok && inner_calls_ok.
