(* C18 - model of cli/src/walk.rs `ParWalker::walk` as used by `yr scan`
   (cli/src/commands/scan.rs).  Definitions only; proofs in WalkProofs.v.

   Threads of the real program and what they are here:

   walker   `self.walker.walk(|p| paths_send.send(p), |err| ...)` inside the
            last `s.spawn`: for every directory entry either a file path is
            sent into the BOUNDED channel `paths` (blocks while the channel is
            full) or, for an entry that cannot be read, the error callback
            sends `Message::Error` and the walk continues (the callback only
            returns Err for ScanError::Timeout, which the walker never
            produces).  When the walk is over the closure returns: `paths_send`
            and the walker's `msg_send` are dropped (the channel is "closed").
   worker i `for path in paths_recv { action(..); if let Err(e) = res && error(e).is_err() { send(Abort); break } }`
            where action (scan.rs) = scan the file, then `on_file_scanned`
            sends one `Message::Info` per result line with `.send(..).unwrap()`;
            a scan error (unreadable file) is returned BEFORE anything is sent,
            the error callback sends `Message::Error` and returns Ok, except for
            a timeout where it returns Err: the worker sends Abort and leaves
            the loop.  `recv` blocks while the channel is empty and the sender
            is alive; the loop ends when the channel is empty and closed.
   printer  `output_messages` on the main thread: Info/Error are printed, Abort
            or "all senders dropped and queue empty" ends the loop, after which
            `msg_recv` is dropped: a later `.send(..).unwrap()` of an Info line
            panics, and main.rs installs a panic hook that exits the process.
   main     keeps the ORIGINAL `paths_recv` (only clones are moved into the
            workers) until the scope ends, i.e. until every thread was joined
            ([keeps_rx], generated from the source): `paths_send.send` can
            therefore never fail with SendError while main waits in `join`.

   One model step = one blocking channel operation (or the scan of a file).
   Sending Error and Abort are two sends in the code and one step here. *)
From Coq Require Import List Bool Arith Lia.
Import ListNotations.

Section Walk.
  Variable file : Type.
  Variable result : Type.              (* one output line of a file (text: one per rule; ndjson: one per file) *)
  Variable results : file -> list result.   (* what the action sends for a file whose scan succeeds *)
  Variable cap : nat.                  (* capacity of the paths channel *)
  Variable keeps_rx : bool.            (* main keeps a Receiver of the paths channel alive while joining *)

  Inductive item := IFile (f : file) | IErr (e : nat).      (* what the directory iterator yields *)

  Inductive errsrc := EWalk (e : nat) | EFile (f : file) | ETimeout (f : file) | ESend.
  Inductive msg := MInfo (f : file) (r : result) | MErr (e : errsrc) | MAbort.

  Inductive wk :=
  | WIdle                                  (* blocked in / about to call recv *)
  | WScan (f : file)                       (* inside scanner.scan_file *)
  | WEmit (f : file) (rs : list result)    (* inside on_file_scanned, rs still to send *)
  | WExited.                               (* closure returned: its Receiver and Sender clones dropped *)

  (* outcome of a scan, chosen by the environment *)
  Inductive choice := COk | CFail | CTimeout.

  Inductive label := LWalker | LPrinter | LWorker (i : nat) (c : choice).

  Record state := mkState {
    to_walk : list item;          (* entries the directory iterator has not produced yet *)
    walker_done : bool;           (* walker closure returned (paths channel closed) *)
    chan : list file;             (* paths channel, FIFO, at most cap *)
    workers : list wk;
    outq : list msg;              (* message channel (unbounded), FIFO *)
    printer_on : bool;            (* output_messages still running (msg_recv alive) *)
    printed : list msg;           (* what reached stdout/stderr, most recent first *)
    aborted : bool;               (* some thread sent Abort *)
    crashed : bool;               (* a thread panicked: the panic hook exited the process *)
    (* ghost history *)
    g_scanned : list file;        (* scan returned Ok *)
    g_failed : list file;         (* scan returned a non-timeout error *)
    g_lost : list file;           (* scan returned Timeout *)
    g_senderr : list errsrc       (* walker gave up with SendError *)
  }.

  Definition init (n : nat) (items : list item) : state :=
    mkState items false [] (repeat WIdle n) [] true [] false false [] [] [] [].

  Fixpoint upd {A} (i : nat) (x : A) (l : list A) : list A :=
    match l, i with
    | [], _ => []
    | _ :: t, O => x :: t
    | h :: t, S j => h :: upd j x t
    end.

  Definition wk_exited (w : wk) : bool := match w with WExited => true | _ => false end.

  Definition all_senders_dropped (s : state) : bool :=
    walker_done s && forallb wk_exited (workers s).

  Definition receivers_alive (s : state) : bool :=
    keeps_rx || existsb (fun w => negb (wk_exited w)) (workers s).

  Definition set_workers (s : state) (ws : list wk) : state :=
    mkState (to_walk s) (walker_done s) (chan s) ws (outq s) (printer_on s) (printed s)
            (aborted s) (crashed s) (g_scanned s) (g_failed s) (g_lost s) (g_senderr s).

  Definition step_walker (s : state) : option state :=
    if walker_done s then None else
    match to_walk s with
    | [] =>
        Some (mkState [] true (chan s) (workers s) (outq s) (printer_on s) (printed s)
                      (aborted s) (crashed s) (g_scanned s) (g_failed s) (g_lost s) (g_senderr s))
    | IErr e :: rest =>
        Some (mkState rest false (chan s) (workers s) (outq s ++ [MErr (EWalk e)]) (printer_on s) (printed s)
                      (aborted s) (crashed s) (g_scanned s) (g_failed s) (g_lost s) (g_senderr s))
    | IFile f :: rest =>
        if receivers_alive s then
          if length (chan s) <? cap then
            Some (mkState rest false (chan s ++ [f]) (workers s) (outq s) (printer_on s) (printed s)
                          (aborted s) (crashed s) (g_scanned s) (g_failed s) (g_lost s) (g_senderr s))
          else None                                   (* send blocks: channel full *)
        else
          (* every Receiver is gone: send fails, the walk stops, the error is reported *)
          Some (mkState (IFile f :: rest) true (chan s) (workers s) (outq s ++ [MErr ESend]) (printer_on s) (printed s)
                        (aborted s) (crashed s) (g_scanned s) (g_failed s) (g_lost s) (ESend :: g_senderr s))
    end.

  Definition step_printer (s : state) : option state :=
    if printer_on s then
      match outq s with
      | MAbort :: q =>
          Some (mkState (to_walk s) (walker_done s) (chan s) (workers s) q false (printed s)
                        (aborted s) (crashed s) (g_scanned s) (g_failed s) (g_lost s) (g_senderr s))
      | m :: q =>
          Some (mkState (to_walk s) (walker_done s) (chan s) (workers s) q true (m :: printed s)
                        (aborted s) (crashed s) (g_scanned s) (g_failed s) (g_lost s) (g_senderr s))
      | [] =>
          if all_senders_dropped s then
            Some (mkState (to_walk s) (walker_done s) (chan s) (workers s) [] false (printed s)
                          (aborted s) (crashed s) (g_scanned s) (g_failed s) (g_lost s) (g_senderr s))
          else None                                   (* recv_timeout keeps waiting *)
      end
    else None.

  Definition step_worker (s : state) (i : nat) (c : choice) : option state :=
    match nth_error (workers s) i with
    | None => None
    | Some WExited => None
    | Some WIdle =>
        match c with
        | COk =>
          match chan s with
          | f :: q =>
              Some (mkState (to_walk s) (walker_done s) q (upd i (WScan f) (workers s)) (outq s) (printer_on s) (printed s)
                            (aborted s) (crashed s) (g_scanned s) (g_failed s) (g_lost s) (g_senderr s))
          | [] =>
              if walker_done s then Some (set_workers s (upd i WExited (workers s)))
              else None                               (* recv blocks: empty, sender alive *)
          end
        | _ => None
        end
    | Some (WScan f) =>
        match c with
        | COk =>
            Some (mkState (to_walk s) (walker_done s) (chan s) (upd i (WEmit f (results f)) (workers s)) (outq s)
                          (printer_on s) (printed s) (aborted s) (crashed s)
                          (f :: g_scanned s) (g_failed s) (g_lost s) (g_senderr s))
        | CFail =>
            Some (mkState (to_walk s) (walker_done s) (chan s) (upd i WIdle (workers s)) (outq s ++ [MErr (EFile f)])
                          (printer_on s) (printed s) (aborted s) (crashed s)
                          (g_scanned s) (f :: g_failed s) (g_lost s) (g_senderr s))
        | CTimeout =>
            Some (mkState (to_walk s) (walker_done s) (chan s) (upd i WExited (workers s))
                          (outq s ++ [MErr (ETimeout f); MAbort])
                          (printer_on s) (printed s) true (crashed s)
                          (g_scanned s) (g_failed s) (f :: g_lost s) (g_senderr s))
        end
    | Some (WEmit f rs) =>
        match c with
        | COk =>
          match rs with
          | [] => Some (set_workers s (upd i WIdle (workers s)))
          | r :: rs' =>
              if printer_on s then
                Some (mkState (to_walk s) (walker_done s) (chan s) (upd i (WEmit f rs') (workers s)) (outq s ++ [MInfo f r])
                              (printer_on s) (printed s) (aborted s) (crashed s)
                              (g_scanned s) (g_failed s) (g_lost s) (g_senderr s))
              else
                (* msg_recv dropped: `.send(..).unwrap()` panics, the hook exits the process *)
                Some (mkState (to_walk s) (walker_done s) (chan s) (workers s) (outq s)
                              (printer_on s) (printed s) (aborted s) true
                              (g_scanned s) (g_failed s) (g_lost s) (g_senderr s))
          end
        | _ => None
        end
    end.

  Definition step (s : state) (l : label) : option state :=
    if crashed s then None else
    match l with
    | LWalker => step_walker s
    | LPrinter => step_printer s
    | LWorker i c => step_worker s i c
    end.

  Fixpoint exec (tr : list label) (s : state) : option state :=
    match tr with
    | [] => Some s
    | l :: tr' => match step s l with Some s' => exec tr' s' | None => None end
    end.

  (* every thread has returned (or the process has exited) *)
  Definition terminal (s : state) : bool :=
    crashed s || (walker_done s && forallb wk_exited (workers s) && negb (printer_on s)).

  (* ---- projections used by the statements ---- *)
  Fixpoint files_of (l : list item) : list file :=
    match l with [] => [] | IFile f :: t => f :: files_of t | IErr _ :: t => files_of t end.
  Fixpoint werrs_of (l : list item) : list errsrc :=
    match l with [] => [] | IFile _ :: t => werrs_of t | IErr e :: t => EWalk e :: werrs_of t end.
  Fixpoint infos (l : list msg) : list (file * result) :=
    match l with [] => [] | MInfo f r :: t => (f, r) :: infos t | _ :: t => infos t end.
  Fixpoint errs (l : list msg) : list errsrc :=
    match l with [] => [] | MErr e :: t => e :: errs t | _ :: t => errs t end.
  Definition tagged (f : file) : list (file * result) := map (pair f) (results f).
  Definition expected (fs : list file) : list (file * result) := flat_map tagged fs.

  Definition scanning (w : wk) : list file := match w with WScan f => [f] | _ => [] end.
  Definition pending (w : wk) : list (file * result) :=
    match w with WEmit f rs => map (pair f) rs | _ => [] end.

  (* ---- termination measure ---- *)
  Definition wfile (f : file) : nat := 2 * length (results f) + 3.
  Definition witem (it : item) : nat := match it with IFile f => wfile f + 1 | IErr _ => 2 end.
  Definition wwk (w : wk) : nat :=
    match w with WIdle => 1 | WScan f => wfile f | WEmit _ rs => 2 * length rs + 2 | WExited => 0 end.
  Definition sum {A} (w : A -> nat) (l : list A) : nat := fold_right (fun x a => w x + a) 0 l.
  Definition measure (s : state) : nat :=
    sum witem (to_walk s) + (if walker_done s then 0 else 2) + sum wfile (chan s) + sum wwk (workers s)
    + length (outq s) + (if printer_on s then 1 else 0) + (if crashed s then 0 else 1).

  (* ---- an executable scheduler ----
     A schedule is a list of numbers; the k-th number picks a thread among
     those that have an enabled step; the outcome of a scan is taken from
     [fate]. *)
  Inductive thread := TWalker | TPrinter | TWorker (i : nat).

  Definition threads (n : nat) : list thread := TWalker :: TPrinter :: map TWorker (seq 0 n).

  Definition label_of (fate : file -> choice) (s : state) (t : thread) : label :=
    match t with
    | TWalker => LWalker
    | TPrinter => LPrinter
    | TWorker i => LWorker i (match nth_error (workers s) i with Some (WScan f) => fate f | _ => COk end)
    end.

  Definition is_some {A} (o : option A) : bool := match o with Some _ => true | None => false end.

  Definition enabled (fate : file -> choice) (s : state) : list thread :=
    filter (fun t => is_some (step s (label_of fate s t))) (threads (length (workers s))).

  Fixpoint run_schedule (fate : file -> choice) (picks : list nat) (s : state) : state :=
    match picks with
    | [] => s
    | k :: ks =>
        match enabled fate s with
        | [] => s
        | t0 :: en =>
            match step s (label_of fate s (nth (k mod (S (length en))) (t0 :: en) t0)) with
            | Some s' => run_schedule fate ks s'
            | None => s
            end
        end
    end.

  (* the labels the scheduler took, for the soundness statement *)
  Fixpoint schedule_trace (fate : file -> choice) (picks : list nat) (s : state) : list label :=
    match picks with
    | [] => []
    | k :: ks =>
        match enabled fate s with
        | [] => []
        | t0 :: en =>
            let l := label_of fate s (nth (k mod (S (length en))) (t0 :: en) t0) in
            match step s l with
            | Some s' => l :: schedule_trace fate ks s'
            | None => []
            end
        end
    end.
End Walk.

Arguments IFile {file}. Arguments IErr {file}.
Arguments MInfo {file result}. Arguments MErr {file result}. Arguments MAbort {file result}.
Arguments EWalk {file}. Arguments EFile {file}. Arguments ETimeout {file}. Arguments ESend {file}.
Arguments WIdle {file result}. Arguments WScan {file result}. Arguments WEmit {file result}. Arguments WExited {file result}.
