(* Correspondence cases for C18.  One case = one run of the real `yr scan`
   binary over a generated directory tree with a given thread count / output
   format / rules form, parsed into a multiset of (file, payload) lines:
     text    payload = id of a matching rule (one line per matching rule)
     ndjson  payload = bit mask of the matching rules (one line per file, also
             for files without matches)
   [table] maps every file of the tree to the payloads the LIBRARY API gives
   for it (scanning the file on its own in the harness process).

   S ([spec_case]): the property on the implementation's own output: the
   multiset printed equals the library oracle and the single-thread run; for
   files deleted while the walk was running: at most once, and right if present.
   K ([check_case]): the walk model (Cli/Walk.v) instantiated with the generated
   channel capacity, the case's thread count and [table] as result function,
   run under a pseudo-random schedule derived from the case seed, ends in a
   final state whose printed multiset is the one the implementation printed.
   Real thread schedules are sampled by the OS, not steered by the model. *)
From Coq Require Import List NArith Bool Arith Sorting.Mergesort Orders.
From YV Require Import Cli.Walk Gen.WalkGen.
Import ListNotations.
Local Open Scope N_scope.

Record run := mkRun {
  threads : nat;                       (* --threads *)
  table : list (N * list N);           (* file id -> expected payloads (library oracle) *)
  mutated : list N;                    (* files removed while the walk was in progress, or unreadable for the scanning user *)
  errored : list N;                    (* files for which yr printed an error line *)
  observed : list (N * N);             (* (file, payload) lines printed by the run *)
  single : list (N * N);               (* the same tree, --threads 1, before any removal *)
  exit_ok : bool;                      (* both runs exited with status 0 before the time limit *)
  seed : N
}.

(* the abort probe: one worker, n files, every scan times out (-a 1 with a rule that never ends) *)
Record probe := mkProbe {
  p_files : nat;                       (* number of files in the directory *)
  p_hung : bool                        (* the process was still alive, idle, long after the timeout *)
}.

(* ---- multisets of pairs as sorted lists of codes ---- *)
Module NOrder <: TotalLeBool.
  Definition t := N.
  Definition leb := N.leb.
  Theorem leb_total : forall a1 a2, leb a1 a2 = true \/ leb a2 a1 = true.
  Proof.
    intros a1 a2. unfold leb. destruct (N.leb a1 a2) eqn:E; auto. right.
    apply N.leb_le. apply N.leb_gt in E. apply N.lt_le_incl. exact E.
  Qed.
End NOrder.
Module NSort := Sort NOrder.

Definition code (p : N * N) : N := fst p * 4294967296 + snd p.
Definition canon (l : list (N * N)) : list N := NSort.sort (map code l).
Fixpoint list_eqb (a b : list N) : bool :=
  match a, b with
  | [], [] => true
  | x :: a', y :: b' => N.eqb x y && list_eqb a' b'
  | _, _ => false
  end.
Definition mseq (a b : list (N * N)) : bool := list_eqb (canon a) (canon b).

Definition memN (x : N) (l : list N) : bool := existsb (N.eqb x) l.

Fixpoint lookup (f : N) (t : list (N * list N)) : list N :=
  match t with [] => [] | (g, rs) :: t' => if N.eqb f g then rs else lookup f t' end.

Definition expected_of (t : list (N * list N)) : list (N * N) :=
  flat_map (fun e => map (pair (fst e)) (snd e)) t.

Definition lines_of (f : N) (l : list (N * N)) : list (N * N) := filter (fun p => N.eqb (fst p) f) l.

(* ---- S ---- *)
(* [lines] is right for the tree: files that were not touched appear exactly as
   the oracle says (nothing lost, duplicated or attributed to another file);
   a file that was removed / made unreadable is not seen at all, or reported as
   an error, or reported right -- never both, never twice *)
Definition lines_ok (k : run) (errs : list N) (lines : list (N * N)) : bool :=
  let stable := filter (fun e => negb (memN (fst e) (mutated k))) (table k) in
  mseq (filter (fun p => negb (memN (fst p) (mutated k))) lines) (expected_of stable)
  && forallb (fun f =>
       let ls := lines_of f lines in
       if memN f errs then match ls with [] => true | _ => false end
       else match ls with [] => true | _ => mseq ls (map (pair f) (lookup f (table k))) end)
     (mutated k).

Definition spec_run (k : run) : bool :=
  exit_ok k
  (* the run under test *)
  && lines_ok k (errored k) (observed k)
  (* the single-thread run agrees with the library oracle as well *)
  && lines_ok k [] (single k)
  (* error lines only for files that were removed or unreadable *)
  && forallb (fun f => memN f (mutated k)) (errored k).

(* ---- K ---- *)
Definition results_of (k : run) (f : N) : list N := lookup f (table k).
Definition fate_of (k : run) (f : N) : choice := if memN f (errored k) then CFail else COk.

(* files the walker produced, as far as the output tells: every untouched file,
   and the removed ones that still show up (lines or error) *)
Definition items_of (k : run) : list (item N) :=
  map (fun e => IFile (fst e))
      (filter (fun e => negb (memN (fst e) (mutated k))
                        || memN (fst e) (errored k)
                        || match lines_of (fst e) (observed k) with [] => false | _ => true end)
              (table k)).

Fixpoint picks (s : N) (n : nat) : list nat :=
  match n with
  | O => []
  | S n' =>
      let s' := (s * 6364136223846793005 + 1442695040888963407) mod 18446744073709551616 in
      N.to_nat ((s' / 8589934592) mod 1024) :: picks s' n'
  end.

Definition model_run (k : run) : state N N :=
  let s0 := init N N (threads k) (items_of k) in
  run_schedule N N (results_of k) paths_channel_capacity main_keeps_paths_receiver
               (fate_of k) (picks (seed k) (measure N N (results_of k) s0)) s0.

Fixpoint failed_files (l : list (errsrc N)) : list N :=
  match l with [] => [] | EFile f :: t => f :: failed_files t | _ :: t => failed_files t end.

Definition check_run (k : run) : bool :=
  let s := model_run k in
  terminal N N s && negb (aborted N N s)
  && mseq (infos N N (printed N N s)) (observed k)
  && list_eqb (NSort.sort (failed_files (errs N N (printed N N s)))) (NSort.sort (errored k)).

(* ---- the abort probe ----
   Model: one worker, [n] files, the first scan times out.  The schedule is
   the one the real program is forced into: after the timeout every later scan
   would time out as well, but the only worker has already left its loop. *)
Definition probe_model_hangs (n : nat) : bool :=
  let s0 := init N N 1 (map (fun i => IFile (N.of_nat i)) (seq 0 n)) in
  let tr := [LWalker; LWorker 0 COk; LWorker 0 CTimeout] ++ repeat LWalker n ++ [LPrinter; LPrinter; LPrinter] in
  (* run as far as the trace is enabled, skipping disabled labels *)
  let s := fold_left (fun s l => match step N N (fun _ => []) paths_channel_capacity main_keeps_paths_receiver s l with
                                 | Some s' => s' | None => s end) tr s0 in
  negb (terminal N N s)
  && forallb (fun l => negb (is_some (step N N (fun _ => []) paths_channel_capacity main_keeps_paths_receiver s l)))
             [LWalker; LPrinter; LWorker 0 COk; LWorker 0 CFail; LWorker 0 CTimeout].

Definition check_probe (p : probe) : bool := Bool.eqb (p_hung p) (probe_model_hangs (p_files p)).

(* ---- what the driver evaluates ---- *)
Inductive case := CRun (k : run) | CProbe (p : probe).

Definition check_case (c : case) : bool :=
  match c with CRun k => check_run k | CProbe p => check_probe p end.

(* The probe runs `yr scan --timeout` on capacity + 1 / capacity + 2 files with
   one worker whose first scan times out: the process must exit (regression
   case of the hang repaired by 686deaba: a hang means files that are never
   reported and a scanner that never returns). *)
Definition spec_case (c : case) : bool :=
  match c with CRun k => spec_run k | CProbe p => negb (p_hung p) end.
