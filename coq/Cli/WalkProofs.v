(* C18 - theorems about the walk model (Cli/Walk.v): for every number of
   workers, every channel capacity, every list of directory entries, every
   result function and every schedule. *)
From Coq Require Import List Bool Arith Lia Permutation.
From YV Require Import Cli.Walk.
Import ListNotations.

Section WalkProofs.
  Variable file : Type.
  Variable result : Type.
  Variable results : file -> list result.
  Variable cap : nat.
  Variable keeps_rx : bool.
  Variable file_dec : forall x y : file, {x = y} + {x <> y}.
  Variable result_dec : forall x y : result, {x = y} + {x <> y}.

  Notation state := (state file result).
  Notation step := (step file result results cap keeps_rx).
  Notation exec := (exec file result results cap keeps_rx).
  Notation measure := (measure file result results).
  Notation init := (init file result).
  Notation terminal := (terminal file result).
  Notation expected := (expected file result results).
  Notation tagged := (tagged file result results).
  Notation wwk := (wwk file result results).
  Notation wfile := (wfile file result results).
  Notation witem := (witem file result results).

  Definition pair_dec : forall x y : file * result, {x = y} + {x <> y}.
  Proof. decide equality. Defined.
  Definition errsrc_dec : forall x y : errsrc file, {x = y} + {x <> y}.
  Proof. decide equality; apply Nat.eq_dec. Defined.

  Notation cf := (count_occ file_dec).
  Notation cp := (count_occ pair_dec).
  Notation ce := (count_occ errsrc_dec).

  (* ------------------------------------------------------------ lists *)
  Lemma upd_at : forall A (l1 : list A) a l2 x, upd (length l1) x (l1 ++ a :: l2) = l1 ++ x :: l2.
  Proof. induction l1; simpl; intros; [|rewrite IHl1]; auto. Qed.

  Lemma sum_app : forall A (w : A -> nat) l1 l2, sum w (l1 ++ l2) = sum w l1 + sum w l2.
  Proof. induction l1; simpl; intros; [|rewrite IHl1]; lia. Qed.

  Lemma infos_app : forall l1 l2 : list (msg file result), infos file result (l1 ++ l2) = infos file result l1 ++ infos file result l2.
  Proof. induction l1 as [|[| |] t IH]; simpl; intros; rewrite ?IH; auto. Qed.
  Lemma errs_app : forall l1 l2 : list (msg file result), errs file result (l1 ++ l2) = errs file result l1 ++ errs file result l2.
  Proof. induction l1 as [|[| |] t IH]; simpl; intros; rewrite ?IH; auto. Qed.

  Lemma flat_map_app' : forall A B (g : A -> list B) l1 l2, flat_map g (l1 ++ l2) = flat_map g l1 ++ flat_map g l2.
  Proof. intros. apply flat_map_app. Qed.

  Lemma forallb_app' : forall A (p : A -> bool) l1 l2, forallb p (l1 ++ l2) = forallb p l1 && forallb p l2.
  Proof. intros. apply forallb_app. Qed.

  (* ------------------------------------------------------------ step inversion *)
  Ltac crush_match H :=
    repeat match type of H with
           | context [match ?x with _ => _ end] => destruct x eqn:?; try discriminate H
           end.

  (* ------------------------------------------------------------ termination *)
  Theorem step_decreases : forall s l s', step s l = Some s' -> measure s' < measure s.
  Proof.
    intros s l s' H. unfold Walk.step in H.
    destruct s as [tw wd ch ws oq pon pr ab cr gs gf gl ge]; simpl in H.
    destruct cr; [discriminate|].
    destruct l as [| |i c].
    - unfold step_walker in H; simpl in H. crush_match H; inversion H; subst; clear H;
        unfold Walk.measure; simpl; rewrite ?sum_app, ?app_length; simpl; unfold Walk.wfile; lia.
    - unfold step_printer in H; simpl in H. crush_match H; inversion H; subst; clear H;
        unfold Walk.measure; simpl; lia.
    - unfold step_worker in H; simpl in H.
      destruct (nth_error ws i) as [w|] eqn:Hn; [|discriminate].
      apply nth_error_split in Hn as (l1 & l2 & -> & <-).
      crush_match H; inversion H; subst; clear H;
        unfold Walk.measure, set_workers; simpl; rewrite ?upd_at; rewrite ?sum_app, ?app_length; simpl;
        rewrite ?sum_app; simpl; unfold Walk.wfile; simpl; try lia.
  Qed.

  (* ------------------------------------------------------------ invariants *)
  Notation files_of := (files_of file).
  Notation werrs_of := (werrs_of file).
  Notation infos := (infos file result).
  Notation errs := (errs file result).
  Notation scanning := (scanning file result).
  Notation pending := (pending file result).
  Notation wk_exited := (wk_exited file result).

  (* conservation of files, of result lines and of error lines: unconditional *)
  Record inv_count (items : list (item file)) (s : state) : Prop := {
    inv_files : forall x,
      cf (files_of (to_walk _ _ s)) x + cf (chan _ _ s) x + cf (flat_map scanning (workers _ _ s)) x
      + cf (g_scanned _ _ s) x + cf (g_failed _ _ s) x + cf (g_lost _ _ s) x = cf (files_of items) x;
    inv_infos : forall x,
      cp (infos (printed _ _ s)) x + cp (infos (outq _ _ s)) x + cp (flat_map pending (workers _ _ s)) x
      = cp (expected (g_scanned _ _ s)) x;
    inv_errs : forall x,
      ce (errs (printed _ _ s)) x + ce (errs (outq _ _ s)) x + ce (werrs_of (to_walk _ _ s)) x
      = ce (map EFile (g_failed _ _ s)) x + ce (map ETimeout (g_lost _ _ s)) x + ce (werrs_of items) x
        + ce (g_senderr _ _ s) x
  }.

  (* what holds as long as nobody has sent Abort *)
  Record inv_clean (n : nat) (s : state) : Prop := {
    inv_len : length (workers _ _ s) = n;
    inv_c : aborted _ _ s = false ->
      crashed _ _ s = false /\ g_lost _ _ s = [] /\ g_senderr _ _ s = [] /\ ~ In MAbort (outq _ _ s) /\
      (walker_done _ _ s = true -> to_walk _ _ s = []) /\
      (existsb wk_exited (workers _ _ s) = true -> walker_done _ _ s = true /\ chan _ _ s = []) /\
      (printer_on _ _ s = false ->
         walker_done _ _ s = true /\ forallb wk_exited (workers _ _ s) = true /\ outq _ _ s = [])
  }.

  Ltac norm :=
    simpl; rewrite ?upd_at;
    repeat (progress (simpl; rewrite ?flat_map_app', ?infos_app, ?errs_app, ?map_app, ?forallb_app', ?existsb_app,
                             ?count_occ_app)).
  Ltac norm_in H :=
    simpl in H; rewrite ?upd_at in H;
    repeat (progress (simpl in H; rewrite ?flat_map_app', ?infos_app, ?errs_app, ?map_app, ?forallb_app', ?existsb_app,
                             ?count_occ_app in H)).
  Ltac dec_lia :=
    repeat match goal with
           | |- context [if ?d then _ else _] => destruct d; try congruence
           | H : context [if ?d then _ else _] |- _ => destruct d; try congruence
           end; try lia.

  Lemma scanning_repeat_idle : forall n, flat_map scanning (repeat WIdle n) = [].
  Proof. induction n; simpl; auto. Qed.
  Lemma pending_repeat_idle : forall n, flat_map pending (repeat WIdle n) = [].
  Proof. induction n; simpl; auto. Qed.

  Lemma init_inv_count : forall n items, inv_count items (init n items).
  Proof.
    intros. split; intro x; simpl; rewrite ?scanning_repeat_idle, ?pending_repeat_idle; simpl; lia.
  Qed.

  Lemma existsb_repeat_idle : forall n, existsb wk_exited (repeat WIdle n) = false.
  Proof. induction n; simpl; auto. Qed.

  Lemma init_inv_clean : forall n items, inv_clean n (init n items).
  Proof.
    intros. split; simpl.
    - apply repeat_length.
    - intros _. rewrite existsb_repeat_idle. repeat split; auto; try discriminate.
  Qed.

  Lemma step_inv_count : forall items s l s', inv_count items s -> step s l = Some s' -> inv_count items s'.
  Proof.
    intros items s l s' [Hf Hi He] H. unfold Walk.step in H.
    destruct s as [tw wd ch ws oq pon pr ab cr gs gf gl ge]; simpl in *.
    destruct cr; [discriminate|].
    destruct l as [| |i c].
    - unfold step_walker in H; simpl in H. crush_match H; inversion H; subst; clear H;
        (split; intro x; [specialize (Hf x) | specialize (Hi x) | specialize (He x)]);
        norm; norm_in Hf; norm_in Hi; norm_in He; dec_lia.
    - unfold step_printer in H; simpl in H. crush_match H; inversion H; subst; clear H;
        (split; intro x; [specialize (Hf x) | specialize (Hi x) | specialize (He x)]);
        norm; norm_in Hf; norm_in Hi; norm_in He; dec_lia.
    - unfold step_worker in H; simpl in H.
      destruct (nth_error ws i) as [w|] eqn:Hn; [|discriminate].
      apply nth_error_split in Hn as (l1 & l2 & -> & <-).
      crush_match H; inversion H; subst; clear H; unfold set_workers;
        (split; intro x; [specialize (Hf x) | specialize (Hi x) | specialize (He x)]);
        norm; norm_in Hf; norm_in Hi; norm_in He; unfold Walk.tagged in *; dec_lia.
  Qed.

  Lemma all_exited_some_exited : forall ws : list (wk file result),
    existsb (fun w => negb (wk_exited w)) ws = false -> ws <> [] -> existsb wk_exited ws = true.
  Proof.
    destruct ws as [|w t]; [congruence|]. simpl. intros H _.
    apply orb_false_iff in H as [H _]. destruct w; simpl in *; auto; discriminate.
  Qed.

  Lemma forallb_exists_false : forall ws : list (wk file result),
    forallb wk_exited ws = true -> existsb (fun w => negb (wk_exited w)) ws = false.
  Proof. induction ws as [|w t IH]; simpl; auto. intros H. apply andb_true_iff in H as [-> H]. simpl. auto. Qed.

  Ltac bool_hyps :=
    repeat match goal with
           | H : _ && _ = true |- _ => apply andb_true_iff in H; destruct H
           | H : _ || _ = false |- _ => apply orb_false_iff in H; destruct H
           | H : negb _ = true |- _ => apply negb_true_iff in H
           | H : negb _ = false |- _ => apply negb_false_iff in H
           end.

  Lemma step_inv_clean : forall n s l s', n >= 1 -> inv_clean n s -> step s l = Some s' -> inv_clean n s'.
  Proof.
    intros n s l s' Hn [Hl Hc] H. unfold Walk.step in H.
    destruct s as [tw wd ch ws oq pon pr ab cr gs gf gl ge]; simpl in *.
    destruct cr; [discriminate|].
    destruct l as [| |i c].
    - unfold step_walker in H; simpl in H. crush_match H; inversion H; subst; clear H;
        (split; [auto|]); simpl; intro Hab; destruct (Hc Hab) as (C1 & C2 & C3 & C4 & C5 & C6 & C7);
        repeat split; auto; try congruence; intros;
        try (destruct (C6 ltac:(assumption)); congruence);
        try (destruct (C7 ltac:(assumption)) as (? & ? & ?); congruence);
        try (rewrite in_app_iff; simpl; intuition congruence).
      (* send failure: impossible while nobody aborted *)
      all: unfold receivers_alive in *; simpl in *; bool_hyps;
        assert (existsb wk_exited ws = true) by (apply all_exited_some_exited; auto; destruct ws; simpl in *; [lia|congruence]);
        destruct (C6 ltac:(assumption)); congruence.
    - unfold step_printer in H; simpl in H. crush_match H; inversion H; subst; clear H;
        (split; [auto|]); simpl; intro Hab; destruct (Hc Hab) as (C1 & C2 & C3 & C4 & C5 & C6 & C7);
        simpl in *; try (exfalso; apply C4; left; reflexivity);
        repeat split; auto; try congruence; intros; try discriminate;
        try (intro; apply C4; right; assumption);
        unfold all_senders_dropped in *; simpl in *; bool_hyps; auto;
        try (destruct (C6 ltac:(assumption)); (congruence || assumption)).
    - unfold step_worker in H; simpl in H.
      destruct (nth_error ws i) as [w|] eqn:Hnth; [|discriminate].
      apply nth_error_split in Hnth as (l1 & l2 & -> & <-).
      crush_match H; inversion H; subst; clear H; unfold set_workers;
        (split; [simpl; rewrite ?upd_at; rewrite ?app_length in *; simpl in *; auto|]);
        simpl; intro Hab; try discriminate; destruct (Hc Hab) as (C1 & C2 & C3 & C4 & C5 & C6 & C7);
        norm; norm_in C6; norm_in C7;
        repeat split; auto; try congruence; intros; bool_hyps;
        try (rewrite in_app_iff; simpl; intuition congruence);
        try (destruct (C6 ltac:(assumption)); congruence);
        try (destruct (C7 ltac:(assumption)) as (? & ? & ?); bool_hyps; congruence).
  Qed.

  (* ------------------------------------------------------------ executions *)
  Definition inv (n : nat) (items : list (item file)) (s : state) : Prop :=
    inv_count items s /\ inv_clean n s.

  Lemma exec_inv : forall n items tr s s', n >= 1 -> inv n items s -> exec tr s = Some s' -> inv n items s'.
  Proof.
    induction tr as [|l tr IH]; simpl; intros s s' Hn Hi H.
    - inversion H; subst; auto.
    - destruct (step s l) as [s1|] eqn:E; [|discriminate].
      apply (IH s1); auto. destruct Hi. split; [eapply step_inv_count | eapply step_inv_clean]; eauto.
  Qed.

  Lemma reachable_inv : forall n items tr s, n >= 1 -> exec tr (init n items) = Some s -> inv n items s.
  Proof.
    intros. eapply exec_inv; eauto. split; [apply init_inv_count | apply init_inv_clean].
  Qed.

  (* every schedule is finite: its length is bounded by the measure of the start state *)
  Theorem exec_terminates : forall tr s s', exec tr s = Some s' -> length tr + measure s' <= measure s.
  Proof.
    induction tr as [|l tr IH]; simpl; intros s s' H.
    - inversion H; subst; lia.
    - destruct (step s l) as [s1|] eqn:E; [|discriminate].
      apply step_decreases in E. apply IH in H. lia.
  Qed.

  Lemma forallb_existsb : forall A (p : A -> bool) l, forallb p l = true -> l <> [] -> existsb p l = true.
  Proof. destruct l; simpl; intros; [congruence|]. apply andb_true_iff in H as [-> _]. auto. Qed.

  Lemma exited_scanning : forall ws, forallb wk_exited ws = true -> flat_map scanning ws = [].
  Proof. induction ws as [|[]]; simpl; intros; auto; try discriminate. Qed.
  Lemma exited_pending : forall ws, forallb wk_exited ws = true -> flat_map pending ws = [].
  Proof. induction ws as [|[]]; simpl; intros; auto; try discriminate. Qed.

  (* EXACTLY ONCE.  In every completed run in which nobody aborted: every file
     the walk produced was handled exactly once (scanned, or reported as
     failed), the result lines printed are exactly the result lines of the
     scanned files, each tagged with its own file, and the error lines are
     exactly those of the failed files and of the unreadable entries. *)
  Theorem exactly_once : forall n items tr s,
    n >= 1 -> exec tr (init n items) = Some s -> terminal s = true -> aborted _ _ s = false ->
    Permutation (g_scanned _ _ s ++ g_failed _ _ s) (files_of items) /\
    Permutation (infos (printed _ _ s)) (expected (g_scanned _ _ s)) /\
    Permutation (errs (printed _ _ s)) (map EFile (g_failed _ _ s) ++ werrs_of items).
  Proof.
    intros n items tr s Hn He Ht Hab.
    destruct (reachable_inv _ _ _ _ Hn He) as [[Hf Hi Her] [Hl Hc]].
    destruct (Hc Hab) as (C1 & C2 & C3 & C4 & C5 & C6 & C7).
    unfold Walk.terminal in Ht. rewrite C1 in Ht. simpl in Ht. bool_hyps.
    destruct (C7 ltac:(assumption)) as (_ & _ & Hq).
    assert (Hch : chan _ _ s = []).
    { apply C6. apply forallb_existsb; auto. intro E. rewrite E in Hl. simpl in Hl. lia. }
    rewrite (C5 ltac:(assumption)) in *. rewrite Hq, Hch, C2, C3 in *.
    rewrite exited_scanning in Hf by assumption. rewrite exited_pending in Hi by assumption.
    repeat split.
    - apply (Permutation_count_occ file_dec). intro x. specialize (Hf x). rewrite count_occ_app. simpl in *. lia.
    - apply (Permutation_count_occ pair_dec). intro x. specialize (Hi x). simpl in *. lia.
    - apply (Permutation_count_occ errsrc_dec). intro x. specialize (Her x). rewrite count_occ_app. simpl in *. lia.
  Qed.

  (* schedules in which every scan succeeds *)
  Definition ok_label (l : label) : bool := match l with LWorker _ CFail | LWorker _ CTimeout => false | _ => true end.

  Lemma step_ok_label : forall s l s', step s l = Some s' -> ok_label l = true ->
    aborted _ _ s' = aborted _ _ s /\ g_failed _ _ s' = g_failed _ _ s.
  Proof.
    intros s l s' H Hok. unfold Walk.step in H.
    destruct s as [tw wd ch ws oq pon pr ab cr gs gf gl ge]; simpl in *.
    destruct cr; [discriminate|].
    destruct l as [| |i c].
    - unfold step_walker in H; simpl in H. crush_match H; inversion H; subst; auto.
    - unfold step_printer in H; simpl in H. crush_match H; inversion H; subst; auto.
    - unfold step_worker in H; simpl in H. crush_match H; inversion H; subst; auto; discriminate.
  Qed.

  Lemma exec_ok_labels : forall tr s s', exec tr s = Some s' -> forallb ok_label tr = true ->
    aborted _ _ s' = aborted _ _ s /\ g_failed _ _ s' = g_failed _ _ s.
  Proof.
    induction tr as [|l tr IH]; simpl; intros s s' H Hok.
    - inversion H; auto.
    - destruct (step s l) as [s1|] eqn:E; [|discriminate]. bool_hyps.
      destruct (step_ok_label _ _ _ E) as [A B]; auto. destruct (IH _ _ H) as [A' B']; auto. split; congruence.
  Qed.

  (* the form used for `yr scan` on a tree that does not change: no scan
     fails, nobody times out; the printed result lines are, as a multiset,
     exactly the union over the input files of each file's own lines *)
  Corollary exactly_once_all_ok : forall n items tr s,
    n >= 1 -> exec tr (init n items) = Some s -> terminal s = true -> forallb ok_label tr = true ->
    Permutation (g_scanned _ _ s) (files_of items) /\
    Permutation (infos (printed _ _ s)) (expected (files_of items)).
  Proof.
    intros n items tr s Hn He Ht Hok.
    destruct (exec_ok_labels _ _ _ He Hok) as [A B]. simpl in A, B.
    destruct (exactly_once _ _ _ _ Hn He Ht A) as (P1 & P2 & _).
    rewrite B, app_nil_r in P1. split; auto.
    eapply Permutation_trans; [exact P2|]. unfold Walk.expected. apply Permutation_flat_map. exact P1.
  Qed.

  (* ------------------------------------------------------------ progress *)
  Notation label_of := (label_of file result).
  Notation enabled := (enabled file result results cap keeps_rx).
  Notation run_schedule := (run_schedule file result results cap keeps_rx).
  Notation schedule_trace := (schedule_trace file result results cap keeps_rx).

  (* the only way to be stuck without being finished: the walker is blocked on
     a full paths channel that nobody will ever drain, because every worker
     has left its loop while main still holds a Receiver *)
  Definition hang (s : state) : Prop :=
    walker_done _ _ s = false /\ (exists f rest, to_walk _ _ s = IFile f :: rest) /\
    cap <= length (chan _ _ s) /\ forallb wk_exited (workers _ _ s) = true /\ keeps_rx = true.

  Lemma forallb_false_nth : forall A (p : A -> bool) l, forallb p l = false ->
    exists i w, nth_error l i = Some w /\ p w = false.
  Proof.
    induction l as [|h t IH]; simpl; intros; [discriminate|].
    destruct (p h) eqn:E.
    - destruct (IH H) as (i & w & A1 & A2). exists (S i), w. auto.
    - exists 0, h. auto.
  Qed.

  Lemma in_threads_worker : forall n i, i < n -> In (TWorker i) (threads n).
  Proof. intros. unfold threads. right. right. apply in_map. apply in_seq. lia. Qed.

  Lemma worker_can_step : forall fate (s : state) i w,
    crashed _ _ s = false -> nth_error (workers _ _ s) i = Some w -> wk_exited w = false ->
    (chan _ _ s <> [] \/ walker_done _ _ s = true) ->
    is_some (step s (label_of fate s (TWorker i))) = true.
  Proof.
    intros fate s i w Hc Hn Hw Hx. unfold Walk.step, Walk.label_of. rewrite Hc. unfold step_worker. rewrite Hn.
    destruct w as [|f|f [|r rs]|]; simpl in *; try discriminate; auto.
    - destruct (chan _ _ s) eqn:E; auto. destruct Hx as [Hx|Hx]; [congruence|]. rewrite Hx. auto.
    - destruct (fate f); auto.
    - destruct (printer_on _ _ s); auto.
  Qed.

  Theorem progress_or_hang : forall fate (s : state),
    cap >= 1 -> terminal s = false ->
    (exists t, In t (threads (length (workers _ _ s))) /\ is_some (step s (label_of fate s t)) = true) \/ hang s.
  Proof.
    intros fate s Hcap Ht. unfold Walk.terminal in Ht. apply orb_false_iff in Ht as [Hc Ht].
    destruct (forallb wk_exited (workers _ _ s)) eqn:Hall.
    - (* every worker has exited *)
      destruct (walker_done _ _ s) eqn:Hwd; simpl in Ht.
      + (* only the printer is left *)
        apply negb_false_iff in Ht. left. exists TPrinter. split; [right; left; auto|].
        unfold Walk.step, Walk.label_of. rewrite Hc. unfold step_printer. rewrite Ht.
        destruct (outq _ _ s) as [|[| |] q]; auto. unfold all_senders_dropped. rewrite Hwd, Hall. auto.
      + destruct (to_walk _ _ s) as [|[f|e] rest] eqn:Htw.
        * left. exists TWalker. split; [left; auto|]. unfold Walk.step, Walk.label_of. rewrite Hc. unfold step_walker. rewrite Hwd, Htw. auto.
        * destruct (receivers_alive _ _ keeps_rx s) eqn:Hra.
          -- destruct (length (chan _ _ s) <? cap) eqn:Hlt.
             ++ left. exists TWalker. split; [left; auto|]. unfold Walk.step, Walk.label_of. rewrite Hc. unfold step_walker. rewrite Hwd, Htw, Hra, Hlt. auto.
             ++ right. apply Nat.ltb_ge in Hlt. repeat split; eauto.
                unfold receivers_alive in Hra. rewrite (forallb_exists_false _ Hall) in Hra.
                destruct keeps_rx; auto.
          -- left. exists TWalker. split; [left; auto|]. unfold Walk.step, Walk.label_of. rewrite Hc. unfold step_walker. rewrite Hwd, Htw, Hra. auto.
        * left. exists TWalker. split; [left; auto|]. unfold Walk.step, Walk.label_of. rewrite Hc. unfold step_walker. rewrite Hwd, Htw. auto.
    - (* some worker i is still in its loop *)
      destruct (forallb_false_nth _ _ _ Hall) as (i & w & Hn & Hw).
      assert (Hi : i < length (workers _ _ s)) by (apply nth_error_Some; congruence).
      destruct (walker_done _ _ s) eqn:Hwd.
      + left. exists (TWorker i). split; [apply in_threads_worker; auto|]. eapply worker_can_step; eauto.
      + destruct (chan _ _ s) as [|g q] eqn:Hch.
        * (* the walker is not blocked on an empty channel *)
          left. exists TWalker. split; [left; auto|]. unfold Walk.step, Walk.label_of. rewrite Hc. unfold step_walker. rewrite Hwd.
          destruct (to_walk _ _ s) as [|[f|e] rest]; auto.
          destruct (receivers_alive _ _ keeps_rx s); auto. rewrite Hch. simpl.
          destruct cap; [lia|]. auto.
        * left. exists (TWorker i). split; [apply in_threads_worker; auto|]. eapply worker_can_step; eauto.
          left. congruence.
  Qed.

  Lemma not_hang_if_clean : forall n s, n >= 1 -> inv_clean n s -> aborted _ _ s = false -> ~ hang s.
  Proof.
    intros n s Hn [Hl Hc] Hab (Hwd & _ & _ & Hall & _).
    destruct (Hc Hab) as (_ & _ & _ & _ & _ & C6 & _).
    destruct C6 as [C6 _]; [|congruence].
    apply forallb_existsb; auto. intro E. rewrite E in Hl. simpl in Hl. lia.
  Qed.

  (* NO DEADLOCK.  As long as nobody aborted, every reachable state that is not
     final has an enabled transition; together with [exec_terminates] every
     maximal schedule is finite and ends in a final state. *)
  Theorem no_deadlock : forall n items tr s,
    n >= 1 -> cap >= 1 -> exec tr (init n items) = Some s ->
    aborted _ _ s = false -> terminal s = false ->
    exists l s', step s l = Some s'.
  Proof.
    intros n items tr s Hn Hcap He Hab Ht.
    destruct (reachable_inv _ _ _ _ Hn He) as [_ Hcl].
    destruct (progress_or_hang (fun _ => COk) s Hcap Ht) as [(t & _ & Hs)|Hh].
    - destruct (step s (label_of (fun _ => COk) s t)) eqn:E; [|discriminate]. eauto.
    - exfalso. eapply (not_hang_if_clean n); eauto.
  Qed.

  (* ... and in general (aborted runs included) a stuck state that is not final is the hang *)
  Theorem stuck_is_hang : forall s,
    cap >= 1 -> terminal s = false -> (forall l, step s l = None) -> hang s.
  Proof.
    intros s Hcap Ht Hst. destruct (progress_or_hang (fun _ => COk) s Hcap Ht) as [(t & _ & Hs)|Hh]; auto.
    rewrite Hst in Hs. discriminate.
  Qed.

  (* NO DEADLOCK, ABORTED RUNS INCLUDED, when main does not keep a Receiver of
     the paths channel: the hang needs [keeps_rx = true], so EVERY state that is
     not final (reachable or not, aborted or not) has an enabled step: after
     the last worker left its loop the walker's send fails and the walk ends. *)
  Theorem no_deadlock_receiver_dropped : forall s,
    keeps_rx = false -> cap >= 1 -> terminal s = false -> exists l s', step s l = Some s'.
  Proof.
    intros s Hk Hcap Ht.
    destruct (progress_or_hang (fun _ => COk) s Hcap Ht) as [(t & _ & Hs)|Hh].
    - destruct (step s (label_of (fun _ => COk) s t)) eqn:E; [|discriminate]. eauto.
    - destruct Hh as (_ & _ & _ & _ & Hk'). congruence.
  Qed.

  (* ------------------------------------------------------------ the scheduler *)
  Theorem run_schedule_sound : forall fate picks s,
    exec (schedule_trace fate picks s) s = Some (run_schedule fate picks s).
  Proof.
    induction picks as [|k ks IH]; intros; [reflexivity|].
    cbn [Walk.run_schedule Walk.schedule_trace].
    destruct (enabled fate s) as [|t0 en]; [reflexivity|]. cbv zeta.
    destruct (step s (label_of fate s (nth (k mod S (length en)) (t0 :: en) t0))) eqn:E; [|reflexivity].
    cbn [Walk.exec]. rewrite E. apply IH.
  Qed.

  Lemma step_aborted : forall s l s', step s l = Some s' -> aborted _ _ s' = true ->
    aborted _ _ s = true \/ exists i, l = LWorker i CTimeout.
  Proof.
    intros s l s' H Hab. unfold Walk.step in H.
    destruct s as [tw wd ch ws oq pon pr ab cr gs gf gl ge]; simpl in *.
    destruct cr; [discriminate|].
    destruct l as [| |i c].
    - unfold step_walker in H; simpl in H. crush_match H; inversion H; subst; auto.
    - unfold step_printer in H; simpl in H. crush_match H; inversion H; subst; auto.
    - unfold step_worker in H; simpl in H. crush_match H; inversion H; subst; simpl in *; eauto.
  Qed.

  Lemma label_of_no_timeout : forall fate s t i, (forall f, fate f <> CTimeout) -> label_of fate s t <> LWorker i CTimeout.
  Proof.
    intros fate s t i Hf. destruct t; simpl; try discriminate.
    destruct (nth_error (workers _ _ s) i0) as [[]|]; try discriminate.
    intro E. inversion E. eapply Hf; eauto.
  Qed.

  Lemma run_schedule_completes : forall fate n picks s,
    n >= 1 -> cap >= 1 -> (forall f, fate f <> CTimeout) ->
    inv_clean n s -> aborted _ _ s = false -> measure s <= length picks ->
    terminal (run_schedule fate picks s) = true /\ aborted _ _ (run_schedule fate picks s) = false.
  Proof.
    intros fate n picks. induction picks as [|k ks IH]; intros s Hn Hcap Hf Hcl Hab Hm.
    - exfalso. destruct Hcl as [_ Hc]. destruct (Hc Hab) as (C1 & _). unfold Walk.measure in Hm. rewrite C1 in Hm. simpl in Hm. lia.
    - cbn [Walk.run_schedule]. destruct (enabled fate s) as [|t0 en] eqn:Een.
      + split; auto. destruct (terminal s) eqn:Ht; auto. exfalso.
        destruct (progress_or_hang fate s Hcap Ht) as [(t & Hin & Hs)|Hh].
        * assert (In t (enabled fate s)) by (unfold Walk.enabled; apply filter_In; auto).
          rewrite Een in H. inversion H.
        * eapply (not_hang_if_clean n); eauto.
      + assert (Hin : In (nth (k mod S (length en)) (t0 :: en) t0) (enabled fate s)).
        { rewrite Een. apply nth_In. change (length (t0 :: en)) with (S (length en)). apply Nat.mod_upper_bound. lia. }
        unfold Walk.enabled in Hin. apply filter_In in Hin as [_ Hs].
        destruct (step s (label_of fate s (nth (k mod S (length en)) (t0 :: en) t0))) as [s1|] eqn:E; [|discriminate].
        apply IH; auto.
        * eapply step_inv_clean; eauto.
        * destruct (aborted _ _ s1) eqn:A; auto. destruct (step_aborted _ _ _ E A) as [X|(i & X)]; [congruence|].
          exfalso. eapply label_of_no_timeout; eauto.
        * apply step_decreases in E. simpl in Hm. lia.
  Qed.

  (* the executable scheduler, given enough picks, always drives the model to
     a final state without abort (so the statements above are not vacuous and
     the state K compares with the implementation is a completed run) *)
  Theorem run_schedule_terminal : forall fate n items picks,
    n >= 1 -> cap >= 1 -> (forall f, fate f <> CTimeout) ->
    measure (init n items) <= length picks ->
    terminal (run_schedule fate picks (init n items)) = true /\
    aborted _ _ (run_schedule fate picks (init n items)) = false.
  Proof. intros. apply (run_schedule_completes fate n); auto. apply init_inv_clean. Qed.

  (* ------------------------------------------------------------ the hang is reachable *)
  Lemma receivers_alive_keeps : forall s : state, keeps_rx = true -> receivers_alive _ _ keeps_rx s = true.
  Proof. intros s H. unfold receivers_alive. rewrite H. reflexivity. Qed.

  Lemma walker_fill : forall f0 k ch rest ws oq pon pr ab gs gf gl ge,
    keeps_rx = true -> length ch + k <= cap ->
    exec (repeat LWalker k)
         (mkState file result (repeat (IFile f0) k ++ rest) false ch ws oq pon pr ab false gs gf gl ge)
    = Some (mkState file result rest false (ch ++ repeat f0 k) ws oq pon pr ab false gs gf gl ge).
  Proof.
    induction k as [|k IH]; intros ch rest ws oq pon pr ab gs gf gl ge Hk Hle.
    - simpl. rewrite app_nil_r. reflexivity.
    - cbn [repeat Walk.exec app]. unfold Walk.step. cbn [crashed]. unfold step_walker.
      cbn [walker_done to_walk chan]. rewrite receivers_alive_keeps by assumption.
      replace (length ch <? cap) with true by (symmetry; apply Nat.ltb_lt; lia).
      cbn [workers outq printer_on printed aborted crashed g_scanned g_failed g_lost g_senderr].
      rewrite IH; auto.
      + rewrite <- app_assoc. reflexivity.
      + rewrite app_length. simpl. lia.
  Qed.

  (* DEADLOCK AFTER ABORT (for every capacity): one worker, cap + 2 files, the
     first scan times out.  The worker leaves its loop, the walker fills the
     channel and blocks for ever on the next send, because main still holds
     the original Receiver ([keeps_rx]) while it waits in join. *)
  Theorem abort_hang_reachable : forall f0 : file,
    keeps_rx = true -> cap >= 1 ->
    exists tr s,
      exec tr (init 1 (repeat (IFile f0) (cap + 2))) = Some s /\
      terminal s = false /\ (forall l, step s l = None) /\ hang s /\ aborted _ _ s = true.
  Proof.
    intros f0 Hk Hcap.
    exists ([LWalker; LWorker 0 COk; LWorker 0 CTimeout] ++ repeat LWalker cap ++ [LPrinter; LPrinter]).
    eexists. split.
    - replace (cap + 2) with (S (cap + 1)) by lia.
      cbn [repeat app Walk.exec]. unfold Walk.step at 1. cbn [crashed init]. unfold step_walker.
      cbn [walker_done to_walk chan init]. rewrite receivers_alive_keeps by assumption. cbn [length].
      replace (0 <? cap) with true by (symmetry; apply Nat.ltb_lt; lia).
      cbn. 
      replace (cap + 1) with (cap + 1 + 0) by lia. rewrite <- (repeat_app (IFile f0) cap 1) || idtac.
      replace (repeat (@IFile file f0) (cap + 1 + 0)) with (repeat (@IFile file f0) cap ++ [IFile f0]).
      2:{ replace (cap + 1 + 0) with (cap + 1) by lia. rewrite repeat_app. reflexivity. }
      (* the cap sends, then the printer consumes Error and Abort *)
      match goal with
      | |- exec (repeat LWalker cap ++ ?tl) ?st = _ =>
          assert (X : forall tr1 tr2 (a b : state), exec tr1 a = Some b -> exec (tr1 ++ tr2) a = exec tr2 b)
      end.
      { induction tr1 as [|l tr1 IH]; simpl; intros tr2 a b H.
        - inversion H; auto.
        - destruct (step a l); [|discriminate]. eauto. }
      erewrite X; [|apply walker_fill; auto; simpl; lia].
      cbn. reflexivity.
    - cbn [app]. split; [reflexivity|]. split; [|split].
      + intros [| |[|[|i]] c]; unfold Walk.step; cbn; auto.
        rewrite receivers_alive_keeps by assumption. rewrite repeat_length.
        destruct cap as [|c']; [lia|]. replace (S c' <=? c') with false by (symmetry; apply Nat.leb_gt; lia). reflexivity.
      + unfold hang. cbn. rewrite repeat_length. repeat split; eauto.
      + reflexivity.
  Qed.
End WalkProofs.
