(* Correspondence cases for C08.  The harness (harness/src/bin/c08.rs) writes
   what the implementation did; [check_case] recomputes it with the model (K),
   [spec_case] evaluates the property on the implementation's own output (S). *)
From Coq Require Import List NArith ZArith Bool.
From YV Require Import Gen.CodecGen Codec.Reader Codec.Varint Codec.Universe Codec.Header Codec.RulesShape.
Import ListNotations.

(* outcome of the real bincode decoder on some bytes *)
Inductive dout := DoOk (v : val) (n : nat) | DoEof | DoInvalid | DoPanic.

(* outcome class of Rules::deserialize *)
Inductive ocl :=
| OOk | OPanic
| OFormat                               (* SerializationError::InvalidFormat *)
| OVersion (expected actual : N)        (* SerializationError::InvalidVersion *)
| ODecodeEof                            (* DecodeError(UnexpectedEnd) *)
| ODecodeOther                          (* any other bincode DecodeError *)
| OOther.                               (* InvalidWASM / IoError / ... *)

(* outcome of Rules::deserialize on a damaged blob, observed from outside the process *)
Inductive fcl :=
| FErr                 (* an error was returned *)
| FOkSame              (* accepted, and every table equals the original's (digest) *)
| FOkDiff              (* accepted with different content: the format has no checksum *)
| FPanic | FAbort      (* panic caught in the child / child killed by a signal *)
| FMem.                (* peak resident memory above the bound *)
Definition fcl_ok (f : fcl) : bool := match f with FErr | FOkSame | FOkDiff => true | _ => false end.

Definition ocl_eqb (a b : ocl) : bool :=
  match a, b with
  | OOk, OOk | OPanic, OPanic | OFormat, OFormat | ODecodeEof, ODecodeEof
  | ODecodeOther, ODecodeOther | OOther, OOther => true
  | OVersion e1 a1, OVersion e2 a2 => N.eqb e1 e2 && N.eqb a1 a2
  | _, _ => false
  end.
Definition is_err (o : ocl) : bool := match o with OOk | OPanic => false | _ => true end.

Definition ocl_of_header (h : option derr) : ocl :=
  match h with
  | None => OOk                          (* header accepted; payload intact *)
  | Some InvalidFormat => OFormat
  | Some (InvalidVersion a) => OVersion version a
  | Some (DecodeError Eof) => ODecodeEof
  | Some (DecodeError Invalid) => ODecodeOther
  | Some PostError => OOther
  end.

(* HeaderProofs.short_rejected: class of the k-byte prefix of an accepted blob *)
Definition predict_prefix (k : N) : ocl :=
  if N.ltb k (N.of_nat data_offset) then OFormat else ODecodeEof.

Inductive case :=
(* (a) real bincode encoding [bs] of value [v] of shape [t] *)
| CEnc (t : ty) (v : val) (bs : list N)
(* (a) real bincode decoding of arbitrary (truncated / altered) bytes *)
| CDec (t : ty) (bs : list N) (o : dout)
(* (b) behaviour of R, deserialize(serialize R) and the second round trip:
   first bytes of the blob, did both deserializations succeed, static dumps
   equal, scan dumps equal (all buffers), the three blobs equal (byte for byte,
   or up to the order of hash-map entries: FxHashMap iteration order is not
   preserved by a round trip),
   serialize_into/deserialize_from agree with serialize/deserialize, the digests of every
   table the scanner reads (hook Rules::verif_c08_digest, no serde involved) are equal *)
| CBehav (hdr : list N) (deser_ok static_eq scans_eq reser_eq stream_api_eq digest_eq : bool)
(* (c) prefixes of a real blob: result on the full blob, then tested ranges
   [lo, hi] of prefix lengths sharing one outcome class *)
| CPrefix (hdr : list N) (bloblen : N) (full : ocl) (segs : list (N * N * ocl))
(* (c) blob with byte [pos] of the header replaced by b, payload intact *)
| CHeader (hdr : list N) (pos : nat) (alts : list (N * ocl))
(* (c) a blob with a foreign header: its first bytes (all of it when shorter
   than 16; HeaderProofs.header_check_prefix) and its outcome *)
| CForeign (first : list N) (o : ocl)
(* (d) a complete real blob: decoded by the model decoder of the shape of
   `struct Rules`; must be consumed exactly, be well-typed, and re-encode to the
   same bytes *)
| CBlob (bs : list N)
(* (d) the globals blob found inside a real blob (Rules::serialized_globals): decoded by the
   model decoder of the generated shape of types::Struct, exactly, and re-encoded *)
| CGlobals (bs : list N)
(* (c') single-bit flips in a real blob, run in a child process with an address-space bound:
   [frames] = (offset, length) of every framing integer of the payload found by the harness's
   walker; [flips] = a sample (position, new byte, outcome) also decoded by the model *)
| CFlipModel (bs : list N) (frames : list (N * N)) (flips : list (N * N * ocl))
(* (c') all flips performed on one blob: (position, bit, outcome) *)
| CBodyFlips (flips : list (N * N * fcl))
(* bytes appended to a valid blob (not part of the property; the model says
   they are ignored) *)
| CTrailing (o : ocl).

Definition dout_matches (r : res val) (o : dout) : bool :=
  match r, o with
  | Ok v n, DoOk v' n' => val_eqb v v' && Nat.eqb n n'
  | Err Eof, DoEof => true
  | Err Invalid, DoInvalid => true
  | _, _ => false
  end.

Definition check_case (c : case) : bool :=
  match c with
  | CEnc t v bs =>
      wt t v && bytes_eqb (encode v) bs && dout_matches (run (decode t) bs) (DoOk v (length bs))
  | CDec t bs o => dout_matches (run (decode t) bs) o
  | CBehav hdr d s1 s2 r a g => bytes_eqb hdr header && d && s1 && s2 && r && a && g
  | CPrefix hdr len full segs =>
      bytes_eqb hdr header && ocl_eqb full OOk &&
      forallb (fun s => let '(lo, hi, o) := s in
                 N.leb lo hi && N.ltb hi len &&
                 ocl_eqb (predict_prefix lo) o && ocl_eqb (predict_prefix hi) o) segs
  | CHeader hdr pos alts =>
      bytes_eqb hdr header &&
      forallb (fun a => let '(b, o) := a in ocl_eqb (ocl_of_header (header_check (upd pos b hdr))) o) alts
  | CForeign first o =>
      match header_check first with
      | None => false                    (* not foreign: generator error *)
      | h => ocl_eqb (ocl_of_header h) o
      end
  | CBlob bs =>
      match deserialize (decode rules_ty) (fun _ => true) bs with
      | DOk v n => Nat.eqb n (length bs) && wt rules_ty v && bytes_eqb (serialize (encode v)) bs
      | DErr _ => false
      end
  | CFlipModel bs fr flips =>
      match deserialize (decode rules_ty) (fun _ => true) bs with
      | DOk v n =>
          Nat.eqb n (length bs) &&
          (* the harness located the framing integers where the model has them *)
          (fix eqb (a : list (nat * nat)) (b : list (N * N)) : bool :=
             match a, b with
             | [], [] => true
             | (o1, l1) :: a', (o2, l2) :: b' => N.eqb (N.of_nat o1) o2 && N.eqb (N.of_nat l1) l2 && eqb a' b'
             | _, _ => false
             end) (fst (frames v data_offset)) fr &&
          (* the model's verdict on each damaged blob against the implementation's: end of input
             and invalid data must agree; what the model accepts may still be refused by the
             post-decode steps the model does not have (daachorse, WASM, bitvec checks) *)
          forallb (fun f => let '(pos, b, o) := f in
                     match deserialize (decode rules_ty) (fun _ => true) (upd (N.to_nat pos) b bs) with
                     | DErr (DecodeError Eof) => ocl_eqb o ODecodeEof
                     | DErr (DecodeError Invalid) => ocl_eqb o ODecodeOther
                     | DErr e => ocl_eqb o (ocl_of_header (Some e))
                     | DOk _ _ => negb (ocl_eqb o OPanic) && negb (ocl_eqb o ODecodeEof)
                     end) flips
      | DErr _ => false
      end
  | CBodyFlips flips => forallb (fun f => fcl_ok (snd f)) flips
  | CGlobals bs =>
      match run (decode globals_ty) bs with
      | Ok v n => Nat.eqb n (length bs) && wt globals_ty v && bytes_eqb (encode v) bs
      | Err _ => false
      end
  | CTrailing o => ocl_eqb o OOk
  end.

Definition spec_case (c : case) : bool :=
  match c with
  | CEnc _ _ _ | CDec _ _ _ | CBlob _ | CGlobals _ => true
  | CFlipModel _ _ flips => forallb (fun f => negb (ocl_eqb (snd f) OPanic)) flips
  | CBodyFlips flips => forallb (fun f => fcl_ok (snd f)) flips
  | CBehav _ d s1 s2 r a g => d && s1 && s2 && r && a && g
  | CPrefix _ _ full segs => ocl_eqb full OOk && forallb (fun s => is_err (snd s)) segs
  | CHeader _ _ alts => forallb (fun a => is_err (snd a)) alts
  | CForeign _ o => is_err o
  | CTrailing o => negb (ocl_eqb o OPanic)
  end.
