(* C08 - the blob format of Rules::serialize_into / Rules::deserialize
   (lib/src/compiler/rules.rs).  Every constant, the order of the header items,
   the byte orders and the comparison operators of the header checks come from
   Gen/CodecGen.v, i.e. from the current source.

     serialize_into:  write_all(MAGIC); write_all(VERSION.to_le_bytes()); bincode(self)
     deserialize:     len < data_offset || bytes[0..version_offset] != MAGIC -> InvalidFormat
                      from_le_bytes(bytes[version_offset..data_offset]) != VERSION -> InvalidVersion
                      bincode::decode_from_slice(&bytes[data_offset..])  (consumed length ignored)
                      profiling flag / WASM rebuild / sub-pattern bound     -> error or Ok

   The payload decoder [d] and the post-decode validation [post] are parameters:
   the theorems hold for every sequential decoder, hence for bincode's decoder
   of `Rules` whatever its fields are.  Definitions only. *)
From Coq Require Import List NArith Bool.
From YV Require Import Gen.CodecGen Codec.Reader Codec.Varint Codec.Universe.
Import ListNotations.

Definition cmp_nat (c : cmp) (a b : nat) : bool :=
  match c with
  | CLt => Nat.ltb a b | CLe => Nat.leb a b | CGt => Nat.ltb b a | CGe => Nat.leb b a
  | CEq => Nat.eqb a b | CNe => negb (Nat.eqb a b)
  end.
Definition cmp_N (c : cmp) (a b : N) : bool :=
  match c with
  | CLt => N.ltb a b | CLe => N.leb a b | CGt => N.ltb b a | CGe => N.leb b a
  | CEq => N.eqb a b | CNe => negb (N.eqb a b)
  end.
(* slices only support == and != *)
Definition cmp_bytes (c : cmp) (a b : bytes) : bool :=
  match c with CEq => bytes_eqb a b | CNe => negb (bytes_eqb a b) | _ => false end.

Definition int_bytes (e : endian) (k : nat) (n : N) : bytes :=
  match e with LE => le_bytes k n | BE => be_bytes k n end.
Definition int_val (e : endian) (bs : bytes) : N :=
  match e with LE => le_val bs | BE => be_val bs end.

(* ---- serialize_into ---- *)
Definition version_bytes : bytes := int_bytes ser_version_endian version_const_width version.
Definition item_bytes (body : bytes) (it : hdr_item) : bytes :=
  match it with HMagic => magic | HVersion => version_bytes | HBody => body end.
Definition serialize (body : bytes) : bytes := flat_map (item_bytes body) ser_layout.
Definition header : bytes := serialize [].

(* ---- deserialize ---- *)
Definition version_offset : nat := length magic.
Definition data_offset : nat := version_offset + de_offset_width.

Inductive derr := InvalidFormat | InvalidVersion (actual : N) | DecodeError (e : err) | PostError.
Inductive dres (A : Type) : Type := DOk (a : A) (n : nat) | DErr (e : derr).
Arguments DOk {A} a n.
Arguments DErr {A} e.

Definition version_field (blob : bytes) : N :=
  int_val de_version_endian (firstn (data_offset - version_offset) (skipn version_offset blob)).

Definition header_check (blob : bytes) : option derr :=
  if cmp_nat de_format_len_cmp (length blob) data_offset
     || cmp_bytes de_format_magic_cmp (firstn version_offset blob) magic
  then Some InvalidFormat
  else if cmp_N de_version_cmp (version_field blob) version
  then Some (InvalidVersion (version_field blob))
  else None.

Definition deserialize {A} (d : dec A) (post : A -> bool) (blob : bytes) : dres A :=
  match header_check blob with
  | Some e => DErr e
  | None =>
      match run d (skipn data_offset blob) with
      | Err e => DErr (DecodeError e)
      | Ok a n => if post a then DOk a (data_offset + n) else DErr PostError
      end
  end.

(* replace the byte at position i *)
Fixpoint upd {A} (i : nat) (x : A) (l : list A) : list A :=
  match l, i with
  | [], _ => []
  | _ :: l', O => x :: l'
  | y :: l', S i' => y :: upd i' x l'
  end.

(* post-decode validation of the largest SubPatternId used by an atom against
   sub_patterns.len(): [true] = the blob is rejected *)
Definition subpattern_bound_reject (n_sub_patterns max_id : N) : bool :=
  cmp_N de_subpattern_bound_cmp n_sub_patterns max_id.

(* facts about the generated definitions the theorems rely on; each is
   re-established by computation in HeaderProofs.v on every run *)
Definition endian_eqb (a b : endian) : bool :=
  match a, b with LE, LE | BE, BE => true | _, _ => false end.
Definition intenc_eqb (a b : intenc) : bool :=
  match a, b with Varint, Varint | Fixint, Fixint => true | _, _ => false end.
Definition cfg_eqb (a b : bincfg) : bool :=
  endian_eqb (cfg_endian a) (cfg_endian b) && intenc_eqb (cfg_int a) (cfg_int b) && Bool.eqb (cfg_limit a) (cfg_limit b).
Definition modelled_cfg : bincfg := mkCfg LE Varint false.   (* config::standard() *)
