(* C08 - theorems about the blob format (Header.v) for EVERY payload decoder. *)
From Coq Require Import List NArith Bool Lia PeanoNat.
From YV Require Import Gen.CodecGen Codec.Reader Codec.ReaderProofs Codec.Varint Codec.VarintProofs
  Codec.Universe Codec.UniverseProofs Codec.Header.
Import ListNotations.

(* ---- the shape of the current source (re-checked by computation on every run) ---- *)
Lemma gen_layout : ser_layout = [HMagic; HVersion; HBody]. Proof. reflexivity. Qed.
Lemma gen_endian_agree : ser_version_endian = de_version_endian. Proof. reflexivity. Qed.
Lemma gen_width_const : version_const_width = de_version_width. Proof. reflexivity. Qed.
Lemma gen_width_offset : de_offset_width = de_version_width. Proof. reflexivity. Qed.
Lemma gen_format_len_cmp : de_format_len_cmp = CLt. Proof. reflexivity. Qed.
Lemma gen_format_magic_cmp : de_format_magic_cmp = CNe. Proof. reflexivity. Qed.
Lemma gen_version_cmp : de_version_cmp = CNe. Proof. reflexivity. Qed.
Lemma gen_version_fits : (version < 256 ^ N.of_nat version_const_width)%N. Proof. vm_compute. reflexivity. Qed.
Lemma gen_magic_bytes : forallb byte_ok magic = true. Proof. vm_compute. reflexivity. Qed.
(* the bincode configuration modelled by Varint.v / Universe.v is the one in use,
   on both sides, for the rules and for the globals blob *)
Lemma gen_configs :
  ser_body_cfg = modelled_cfg /\ de_body_cfg = modelled_cfg /\
  globals_ser_cfg = modelled_cfg /\ globals_de_cfg = modelled_cfg.
Proof. repeat split; reflexivity. Qed.

(* what is not stored is rebuilt by deserialize: the compiled WASM module (when absent) and
   the Teddy searcher (always); that the rebuilt parts equal the original's is compared on the
   implementation (digest) *)
Lemma gen_rebuilds : de_rebuilds_wasm = true /\ de_rebuilds_teddy = true.
Proof. split; reflexivity. Qed.

(* ---- auxiliary ---- *)
Lemma bytes_eqb_eq : forall a b, bytes_eqb a b = true <-> a = b.
Proof.
  induction a as [|x a IH]; destruct b as [|y b]; cbn [bytes_eqb]; split; intros H; try discriminate; try reflexivity.
  - apply andb_true_iff in H. destruct H as [H1 H2]. apply N.eqb_eq in H1. apply IH in H2. congruence.
  - inversion H; subst. rewrite N.eqb_refl. cbn. apply IH. reflexivity.
Qed.

Lemma firstn_add : forall A a b (l : list A), firstn (a + b) l = firstn a l ++ firstn b (skipn a l).
Proof.
  induction a as [|a IH]; intros b l; [reflexivity|].
  destruct l as [|x l]; cbn [plus firstn skipn app]; [destruct b; reflexivity|]. f_equal. apply IH.
Qed.

Lemma forallb_firstn : forall A (p : A -> bool) n l, forallb p l = true -> forallb p (firstn n l) = true.
Proof.
  induction n as [|n IH]; intros l H; [reflexivity|]. destruct l as [|x l]; [reflexivity|].
  cbn [forallb firstn] in *. apply andb_true_iff in H. destruct H as [H1 H2]. rewrite H1. cbn. apply IH. assumption.
Qed.
Lemma forallb_skipn : forall A (p : A -> bool) n l, forallb p l = true -> forallb p (skipn n l) = true.
Proof.
  induction n as [|n IH]; intros l H; [assumption|]. destruct l as [|x l]; [reflexivity|].
  cbn [forallb skipn] in *. apply andb_true_iff in H. destruct H as [H1 H2]. apply IH. assumption.
Qed.

Lemma le_val_inj : forall a b, length a = length b ->
  forallb byte_ok a = true -> forallb byte_ok b = true -> le_val a = le_val b -> a = b.
Proof.
  induction a as [|x a IH]; destruct b as [|y b]; intros L Fa Fb E; try discriminate; [reflexivity|].
  cbn [forallb] in Fa, Fb. apply andb_true_iff in Fa, Fb. destruct Fa as [Xa Fa], Fb as [Yb Fb].
  unfold byte_ok in Xa, Yb. apply N.ltb_lt in Xa, Yb. cbn [le_val] in E. cbn [length] in L.
  assert (x = y) by lia. assert (le_val a = le_val b) by lia. subst. f_equal. apply IH; try assumption; lia.
Qed.

Lemma forallb_rev : forall A (p : A -> bool) l, forallb p (rev l) = forallb p l.
Proof.
  intros. induction l as [|x l IH]; [reflexivity|]. cbn [rev forallb]. rewrite forallb_app, IH. cbn. rewrite andb_true_r. apply andb_comm.
Qed.

Lemma int_val_inj : forall e a b, length a = length b ->
  forallb byte_ok a = true -> forallb byte_ok b = true -> int_val e a = int_val e b -> a = b.
Proof.
  intros [|] a b L Fa Fb E; cbn [int_val] in E; [apply le_val_inj; assumption|].
  unfold be_val in E. apply le_val_inj in E; [|rewrite !rev_length; assumption|rewrite forallb_rev; assumption|rewrite forallb_rev; assumption].
  rewrite <- (rev_involutive a), <- (rev_involutive b). congruence.
Qed.

Lemma int_val_int_bytes : forall e k n, (n < 256 ^ N.of_nat k)%N -> int_val e (int_bytes e k n) = n.
Proof.
  intros [|] k n H; cbn [int_val int_bytes]; [apply le_val_le_bytes; assumption|].
  unfold be_val, be_bytes. rewrite rev_involutive. apply le_val_le_bytes; assumption.
Qed.

Lemma int_bytes_length : forall e k n, length (int_bytes e k n) = k.
Proof. intros [|] k n; cbn [int_bytes]; [|unfold be_bytes; rewrite rev_length]; apply le_bytes_length. Qed.

Lemma int_bytes_ok : forall e k n, forallb byte_ok (int_bytes e k n) = true.
Proof.
  intros e k n. assert (forallb byte_ok (le_bytes k n) = true).
  { apply forallb_forall. intros x Hx. pose proof (le_bytes_ok k n) as F. rewrite Forall_forall in F. apply F. assumption. }
  destruct e; cbn [int_bytes]; [assumption|]. unfold be_bytes. rewrite forallb_rev. assumption.
Qed.

Lemma version_bytes_length : length version_bytes = de_offset_width.
Proof. unfold version_bytes. rewrite int_bytes_length, gen_width_const, gen_width_offset. reflexivity. Qed.

Lemma offset_diff : data_offset - version_offset = de_offset_width.
Proof. unfold data_offset. lia. Qed.

Lemma serialize_eq : forall body, serialize body = magic ++ version_bytes ++ body.
Proof. intros. unfold serialize. rewrite gen_layout. cbn [flat_map item_bytes]. rewrite app_nil_r. reflexivity. Qed.

Lemma header_eq : header = magic ++ version_bytes.
Proof. unfold header. rewrite serialize_eq, app_nil_r. reflexivity. Qed.

Lemma header_length : length header = data_offset.
Proof. rewrite header_eq, app_length, version_bytes_length. reflexivity. Qed.

Lemma serialize_header : forall body, serialize body = header ++ body.
Proof. intros. rewrite serialize_eq, header_eq, app_assoc. reflexivity. Qed.

Lemma version_field_version_bytes : int_val de_version_endian version_bytes = version.
Proof. unfold version_bytes. rewrite gen_endian_agree. apply int_val_int_bytes. apply gen_version_fits. Qed.

(* what header_check tests, with the generated operators resolved *)
Lemma header_check_spec : forall blob,
  header_check blob =
  if Nat.ltb (length blob) data_offset || negb (bytes_eqb (firstn version_offset blob) magic)
  then Some InvalidFormat
  else if negb (N.eqb (version_field blob) version) then Some (InvalidVersion (version_field blob)) else None.
Proof.
  intros. unfold header_check. rewrite gen_format_len_cmp, gen_format_magic_cmp, gen_version_cmp. reflexivity.
Qed.

Lemma header_check_none : forall blob, header_check blob = None ->
  data_offset <= length blob /\ firstn version_offset blob = magic /\ version_field blob = version.
Proof.
  intros blob H. rewrite header_check_spec in H.
  destruct (Nat.ltb_spec (length blob) data_offset); [discriminate|]. cbn [orb] in H.
  destruct (bytes_eqb (firstn version_offset blob) magic) eqn:M; [|discriminate]. cbn [negb] in H.
  destruct (N.eqb_spec (version_field blob) version); [|discriminate].
  repeat split; try assumption. apply bytes_eqb_eq. assumption.
Qed.

(* the header check only looks at the first data_offset bytes *)
Lemma header_check_prefix : forall blob k, data_offset <= k ->
  header_check (firstn k blob) = header_check blob.
Proof.
  intros blob k Hk. rewrite !header_check_spec.
  assert (VO : version_offset <= data_offset) by (unfold data_offset; lia).
  assert (F1 : firstn version_offset (firstn k blob) = firstn version_offset blob).
  { rewrite firstn_firstn. f_equal. lia. }
  assert (F2 : version_field (firstn k blob) = version_field blob).
  { unfold version_field. f_equal. rewrite skipn_firstn_comm, firstn_firstn. f_equal.
    rewrite offset_diff. unfold data_offset in Hk. lia. }
  rewrite F1, F2, firstn_length.
  destruct (Nat.ltb_spec (length blob) data_offset) as [L|L].
  - replace (Nat.ltb (Nat.min k (length blob)) data_offset) with true by (symmetry; apply PeanoNat.Nat.ltb_lt; lia). reflexivity.
  - replace (Nat.ltb (Nat.min k (length blob)) data_offset) with false by (symmetry; apply PeanoNat.Nat.ltb_ge; lia). reflexivity.
Qed.

(* ------------------------------------------------------------------ *)
(* foreign magic / too short for a header *)
Theorem foreign_magic_rejected : forall A (d : dec A) post blob,
  firstn version_offset blob <> magic -> deserialize d post blob = DErr InvalidFormat.
Proof.
  intros A d post blob H. unfold deserialize. rewrite header_check_spec.
  destruct (bytes_eqb (firstn version_offset blob) magic) eqn:M.
  - apply bytes_eqb_eq in M. contradiction.
  - cbn [negb]. rewrite orb_true_r. reflexivity.
Qed.

Theorem short_header_rejected : forall A (d : dec A) post blob,
  length blob < data_offset -> deserialize d post blob = DErr InvalidFormat.
Proof.
  intros A d post blob H. unfold deserialize. rewrite header_check_spec.
  replace (Nat.ltb (length blob) data_offset) with true by (symmetry; apply PeanoNat.Nat.ltb_lt; assumption).
  reflexivity.
Qed.

(* right magic, other version *)
Theorem foreign_version_rejected : forall A (d : dec A) post blob,
  data_offset <= length blob -> firstn version_offset blob = magic -> version_field blob <> version ->
  deserialize d post blob = DErr (InvalidVersion (version_field blob)).
Proof.
  intros A d post blob L M V. unfold deserialize. rewrite header_check_spec.
  replace (Nat.ltb (length blob) data_offset) with false by (symmetry; apply PeanoNat.Nat.ltb_ge; assumption).
  rewrite M. replace (bytes_eqb magic magic) with true by (symmetry; apply bytes_eqb_eq; reflexivity).
  cbn [orb negb]. destruct (N.eqb_spec (version_field blob) version); [contradiction|reflexivity].
Qed.

(* any blob whose first data_offset bytes are not exactly the header is
   rejected by the header check alone (the payload is never looked at) *)
Theorem foreign_header_rejected : forall A (d : dec A) post blob,
  forallb byte_ok blob = true -> firstn data_offset blob <> header ->
  deserialize d post blob = DErr InvalidFormat \/
  (version_field blob <> version /\ deserialize d post blob = DErr (InvalidVersion (version_field blob))).
Proof.
  intros A d post blob OK H.
  destruct (Nat.ltb_spec (length blob) data_offset) as [L|L]; [left; apply short_header_rejected; assumption|].
  destruct (bytes_eqb (firstn version_offset blob) magic) eqn:M.
  2:{ left. apply foreign_magic_rejected. intros E. apply bytes_eqb_eq in E. congruence. }
  apply bytes_eqb_eq in M.
  destruct (N.eqb_spec (version_field blob) version) as [V|V].
  2:{ right. split; [assumption|]. apply foreign_version_rejected; assumption. }
  exfalso. apply H. unfold data_offset. rewrite firstn_add, M, header_eq. f_equal.
  unfold version_field in V. rewrite offset_diff in V.
  apply (int_val_inj de_version_endian).
  - rewrite firstn_length, skipn_length, version_bytes_length. unfold data_offset in L. lia.
  - apply forallb_firstn, forallb_skipn. assumption.
  - unfold version_bytes. apply int_bytes_ok.
  - rewrite V. symmetry. apply version_field_version_bytes.
Qed.

(* ------------------------------------------------------------------ *)
(* truncation: whatever blob is accepted, and whatever the payload decoder is,
   every strict prefix of the consumed bytes is rejected: as "not a rules file"
   while the header is incomplete, as a decode error "unexpected end"
   afterwards.  Never accepted. *)
Theorem short_rejected : forall A (d : dec A) post blob a n,
  deserialize d post blob = DOk a n ->
  forall k, k < n ->
  deserialize d post (firstn k blob) =
  DErr (if Nat.ltb k data_offset then InvalidFormat else DecodeError Eof).
Proof.
  intros A d post blob a n H k Hk. unfold deserialize in H.
  destruct (header_check blob) eqn:HC; [discriminate|].
  destruct (run d (skipn data_offset blob)) as [a0 n0|e] eqn:R; [|discriminate].
  destruct (post a0); [|discriminate].
  assert (E : a0 = a /\ n = data_offset + n0).
  { revert H. generalize (data_offset + n0). intros m E. inversion E. split; reflexivity. }
  destruct E as [Ea En]. subst a0. subst n. clear H.
  destruct (header_check_none _ HC) as [L _].
  destruct (Nat.ltb_spec k data_offset) as [K|K].
  - apply short_header_rejected. rewrite firstn_length. lia.
  - unfold deserialize. rewrite header_check_prefix, HC by assumption.
    rewrite skipn_firstn_comm.
    rewrite (strict_prefix_rejected _ _ _ _ _ R (k - data_offset)) by lia. reflexivity.
Qed.

Corollary short_never_accepted : forall A (d : dec A) post blob a n,
  deserialize d post blob = DOk a n -> forall k, k < n ->
  forall a' n', deserialize d post (firstn k blob) <> DOk a' n'.
Proof. intros. rewrite (short_rejected _ _ _ _ _ _ H k H0). discriminate. Qed.

(* ------------------------------------------------------------------ *)
(* acceptance of what serialize_into wrote *)
Lemma header_check_serialize : forall body junk, header_check (serialize body ++ junk) = None.
Proof.
  intros. rewrite header_check_spec, serialize_eq.
  assert (L : data_offset <= length ((magic ++ version_bytes ++ body) ++ junk)).
  { rewrite !app_length, version_bytes_length. unfold data_offset, version_offset. lia. }
  replace (Nat.ltb _ data_offset) with false by (symmetry; apply Nat.ltb_ge; assumption).
  assert (M : firstn version_offset ((magic ++ version_bytes ++ body) ++ junk) = magic).
  { rewrite <- app_assoc. unfold version_offset. rewrite firstn_app, firstn_all, Nat.sub_diag. cbn [firstn]. apply app_nil_r. }
  rewrite M. replace (bytes_eqb magic magic) with true by (symmetry; apply bytes_eqb_eq; reflexivity).
  cbn [orb negb].
  assert (V : version_field ((magic ++ version_bytes ++ body) ++ junk) = version).
  { unfold version_field. rewrite offset_diff, <- !app_assoc. unfold version_offset.
    rewrite skipn_app, skipn_all, Nat.sub_diag. cbn [skipn app].
    rewrite <- version_bytes_length, firstn_app, firstn_all, Nat.sub_diag. cbn [firstn]. rewrite app_nil_r.
    apply version_field_version_bytes. }
  rewrite V, N.eqb_refl. reflexivity.
Qed.

Lemma skipn_serialize : forall body junk, skipn data_offset (serialize body ++ junk) = body ++ junk.
Proof.
  intros. rewrite serialize_header, <- app_assoc, <- header_length.
  rewrite skipn_app, skipn_all, Nat.sub_diag. reflexivity.
Qed.

Lemma serialize_length : forall body, length (serialize body) = data_offset + length body.
Proof. intros. rewrite serialize_header, app_length, header_length. reflexivity. Qed.

Theorem deserialize_accepts : forall A (d : dec A) post body junk a,
  run d (body ++ junk) = Ok a (length body) -> post a = true ->
  deserialize d post (serialize body ++ junk) = DOk a (length (serialize body)).
Proof.
  intros A d post body junk a R P. unfold deserialize.
  rewrite header_check_serialize, skipn_serialize, R, P, serialize_length. reflexivity.
Qed.

(* deserialize (serialize v) = v for every shape of the universe; trailing
   bytes after the payload are ignored (the consumed length is not compared
   with the input length: CodecGen.de_trailing_checked = false) *)
Theorem deserialize_serialize : forall t v, wt t v = true ->
  deserialize (decode t) (fun _ => true) (serialize (encode v)) = DOk v (length (serialize (encode v))).
Proof.
  intros t v W. rewrite <- (app_nil_r (serialize (encode v))) at 1.
  apply deserialize_accepts; [|reflexivity]. apply universe_roundtrip. assumption.
Qed.

Theorem trailing_bytes_ignored : forall t v junk, wt t v = true ->
  deserialize (decode t) (fun _ => true) (serialize (encode v) ++ junk) = DOk v (length (serialize (encode v))).
Proof. intros t v junk W. apply deserialize_accepts; [|reflexivity]. apply universe_roundtrip. assumption. Qed.

(* serializing what was deserialized gives the same blob again *)
Theorem reserialize_stable : forall t v v' n, wt t v = true ->
  deserialize (decode t) (fun _ => true) (serialize (encode v)) = DOk v' n ->
  serialize (encode v') = serialize (encode v) /\ n = length (serialize (encode v)).
Proof.
  intros t v v' n W H. rewrite (deserialize_serialize t v W) in H. inversion H; subst. split; reflexivity.
Qed.

(* ... which needs the blob to come from serialize: the decoder also accepts
   over-long integer forms, and those re-serialize to different bytes *)
Example noncanonical_blob_reserializes_differently :
  exists blob v n, deserialize (decode (TUInt W16)) (fun _ => true) blob = DOk v n /\
                   n = length blob /\ serialize (encode v) <> blob.
Proof.
  exists (header ++ [251; 5; 0]%N), (VUInt 5), (length (header ++ [251; 5; 0]%N)).
  split; [vm_compute; reflexivity|]. split; [reflexivity|]. vm_compute. discriminate.
Qed.

(* the same with any post-decode validation that accepts the value *)
Theorem deserialize_serialize_post : forall t v post, wt t v = true -> post v = true ->
  deserialize (decode t) post (serialize (encode v)) = DOk v (length (serialize (encode v))).
Proof.
  intros t v post W P. rewrite <- (app_nil_r (serialize (encode v))) at 1.
  apply deserialize_accepts; [|assumption]. apply universe_roundtrip. assumption.
Qed.

Theorem serialized_prefix_rejected_post : forall t v post k, wt t v = true -> post v = true ->
  k < length (serialize (encode v)) ->
  deserialize (decode t) post (firstn k (serialize (encode v))) =
  DErr (if Nat.ltb k data_offset then InvalidFormat else DecodeError Eof).
Proof. intros t v post k W P Hk. exact (short_rejected _ _ _ _ _ _ (deserialize_serialize_post t v post W P) k Hk). Qed.

(* every strict prefix of a serialized value is rejected (header + payload) *)
Corollary serialized_prefix_rejected : forall t v k, wt t v = true -> k < length (serialize (encode v)) ->
  deserialize (decode t) (fun _ => true) (firstn k (serialize (encode v))) =
  DErr (if Nat.ltb k data_offset then InvalidFormat else DecodeError Eof).
Proof. intros t v k W Hk. exact (short_rejected _ _ _ _ _ _ (deserialize_serialize t v W) k Hk). Qed.

(* ------------------------------------------------------------------ *)
(* altering one byte of the header of a serialized blob *)
Lemma upd_length : forall A i (x : A) l, length (upd i x l) = length l.
Proof. induction i; destruct l; cbn [upd length]; try reflexivity. f_equal. apply IHi. Qed.

Lemma upd_app_l : forall A i (x : A) l1 l2, i < length l1 -> upd i x (l1 ++ l2) = upd i x l1 ++ l2.
Proof.
  induction i; destruct l1; cbn [upd length app]; intros; try lia; try reflexivity.
  f_equal. apply IHi. lia.
Qed.

Lemma upd_neq : forall A i (x : A) l, i < length l -> nth i l x <> x -> upd i x l <> l.
Proof.
  induction i; destruct l; cbn [upd length nth]; intros L H E; try lia.
  - inversion E. congruence.
  - inversion E. apply (IHi x l); try assumption. lia.
Qed.

Lemma upd_forallb : forall A (p : A -> bool) i x l, p x = true -> forallb p l = true -> forallb p (upd i x l) = true.
Proof.
  induction i; destruct l; cbn [upd forallb]; intros; try reflexivity;
    apply andb_true_iff in H0; destruct H0 as [H1 H2].
  - rewrite H, H2. reflexivity.
  - rewrite H1. cbn. apply IHi; assumption.
Qed.

Lemma firstn_upd : forall A n i (x : A) l, firstn n (upd i x l) = upd i x (firstn n l).
Proof.
  induction n; intros i x l; [destruct l; destruct i; reflexivity|].
  destruct l; [destruct i; reflexivity|]. destruct i; cbn [upd firstn]; [reflexivity|]. f_equal. apply IHn.
Qed.

Theorem header_alteration_rejected : forall A (d : dec A) post body i b,
  forallb byte_ok body = true -> byte_ok b = true ->
  i < data_offset -> nth i (serialize body) b <> b ->
  let blob' := upd i b (serialize body) in
  deserialize d post blob' = DErr InvalidFormat \/
  (version_field blob' <> version /\ deserialize d post blob' = DErr (InvalidVersion (version_field blob'))).
Proof.
  intros A d post body i b OKb OKx Hi Hn blob'. apply foreign_header_rejected.
  - apply upd_forallb; [assumption|]. rewrite serialize_eq, !forallb_app, gen_magic_bytes, OKb.
    unfold version_bytes. rewrite int_bytes_ok. reflexivity.
  - unfold blob'. rewrite firstn_upd, serialize_header.
    rewrite <- header_length at 1. rewrite firstn_app, firstn_all, Nat.sub_diag. cbn [firstn]. rewrite app_nil_r.
    apply upd_neq; [rewrite header_length; assumption|].
    rewrite serialize_header, app_nth1 in Hn by (rewrite header_length; assumption). assumption.
Qed.

(* ------------------------------------------------------------------ *)
(* Outside the statement of C08 (a crafted, not a truncated blob), recorded
   because the comment above the check claims more: with the comparison that is
   in the source today a blob whose largest atom SubPatternId EQUALS
   sub_patterns.len() passes the check, and that id is out of bounds for
   get_unchecked.  [n] = sub_patterns.len(), [m] = largest id. *)
Lemma subpattern_bound_check_gap : de_subpattern_bound_cmp = CLt ->
  exists n m, subpattern_bound_reject n m = false /\ ~ (m < n)%N.
Proof.
  intros E. exists 1%N, 1%N. unfold subpattern_bound_reject. rewrite E. split; [reflexivity|lia].
Qed.
(* what the check guarantees, for the comparison in use *)
Lemma subpattern_bound_check_guarantee : forall n m, subpattern_bound_reject n m = false ->
  match de_subpattern_bound_cmp with CLt => (m <= n)%N | CLe => (m < n)%N | _ => True end.
Proof.
  intros n m H. unfold subpattern_bound_reject in H.
  destruct de_subpattern_bound_cmp; cbn [cmp_N] in H; try exact I.
  - apply N.ltb_ge in H. assumption.
  - apply N.leb_gt in H. assumption.
Qed.
