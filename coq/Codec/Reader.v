(* C08 - sequential byte decoders as resumable trees.

   A decoder either has a result, has failed, or asks for the next byte.  This
   is exactly the interface bincode's `SliceReader` gives the serde decoder
   (lib: bincode-2.0.1 src/de/read.rs): `read`/`take_bytes` hand out the next
   bytes of the slice or fail with `UnexpectedEnd`; nothing can look at the
   length of the remaining input except by trying to read.  (`peek_read(n)` is
   only used as a fast path whose result equals the byte-by-byte path.)

   Model files contain definitions only; proofs are in ReaderProofs.v. *)
From Coq Require Import List NArith PArith.
Import ListNotations.

(* a byte is an N below 256 *)
Notation byte := N (only parsing).
Notation bytes := (list N) (only parsing).
Definition byte_ok (b : byte) : bool := N.ltb b 256.

Inductive dec (A : Type) : Type :=
| Ret  (a : A)
| Fail
| Read (k : byte -> dec A).
Arguments Ret {A} a.
Arguments Fail {A}.
Arguments Read {A} k.

Inductive err := Eof | Invalid.

(* [Ok v n]: value and number of bytes consumed *)
Inductive res (A : Type) : Type :=
| Ok  (a : A) (n : nat)
| Err (e : err).
Arguments Ok {A} a n.
Arguments Err {A} e.

Fixpoint run_from {A} (d : dec A) (b : bytes) (n : nat) {struct b} : res A :=
  match d with
  | Ret a => Ok a n
  | Fail => Err Invalid
  | Read k => match b with
              | [] => Err Eof
              | x :: b' => run_from (k x) b' (S n)
              end
  end.
Definition run {A} (d : dec A) (b : bytes) : res A := run_from d b 0.

(* add [n] to the consumed count of a result *)
Definition shift {A} (n : nat) (r : res A) : res A :=
  match r with Ok a m => Ok a (n + m) | Err e => Err e end.

(* ---- combinators ---- *)
Fixpoint bind {A B} (d : dec A) (f : A -> dec B) : dec B :=
  match d with
  | Ret a => f a
  | Fail => Fail
  | Read k => Read (fun x => bind (k x) f)
  end.
Definition fmap {A B} (f : A -> B) (d : dec A) : dec B := bind d (fun a => Ret (f a)).
Definition read_byte : dec byte := Read (fun x => Ret x).
Definition guard {A} (p : A -> bool) (d : dec A) : dec A :=
  bind d (fun a => if p a then Ret a else Fail).

(* n-fold repetition, unary count (structural) *)
Fixpoint rep_nat {A} (n : nat) (d : dec A) : dec (list A) :=
  match n with
  | O => Ret []
  | S n' => bind d (fun x => fmap (cons x) (rep_nat n' d))
  end.

(* n-fold repetition, binary count.  Same behaviour as [rep_nat (N.to_nat n)]
   (ReaderProofs.run_repN) but the tree is unfolded lazily, so that a length
   prefix of 2^60 read from a damaged blob does not make evaluation build a
   unary number: the work before the first [Read] is O(log n). *)
Fixpoint rep_pos {A} (p : positive) (d : dec A) : dec (list A) :=
  match p with
  | xH => fmap (fun x => [x]) d
  | xO p' => bind (rep_pos p' d) (fun l1 => fmap (app l1) (rep_pos p' d))
  | xI p' => bind d (fun x => bind (rep_pos p' d) (fun l1 =>
               fmap (fun l2 => x :: l1 ++ l2) (rep_pos p' d)))
  end.
Definition repN {A} (n : N) (d : dec A) : dec (list A) :=
  match n with N0 => Ret [] | Npos p => rep_pos p d end.

(* sequence of heterogeneous decoders with a common result type *)
Fixpoint seq_all {A} (ds : list (dec A)) : dec (list A) :=
  match ds with
  | [] => Ret []
  | d :: ds' => bind d (fun x => fmap (cons x) (seq_all ds'))
  end.

Definition take (n : N) : dec bytes := repN n read_byte.
Definition take_nat (n : nat) : dec bytes := rep_nat n read_byte.
