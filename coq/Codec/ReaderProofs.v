(* C08 - facts about every sequential decoder (Reader.v). *)
From Coq Require Import List NArith PArith Lia.
From YV Require Import Codec.Reader.
Import ListNotations.

Lemma run_from_shift : forall A (d : dec A) b n,
  run_from d b n = shift n (run_from d b 0).
Proof.
  intros A d b. revert d. induction b as [|x b IH]; intros d n; destruct d; cbn [run_from shift]; try reflexivity.
  - f_equal. lia.
  - f_equal. lia.
  - rewrite (IH (k x) (S n)), (IH (k x) 1). destruct (run_from (k x) b 0); cbn [shift]; [f_equal; lia|reflexivity].
Qed.

Lemma run_read_cons : forall A (k : byte -> dec A) x b,
  run (Read k) (x :: b) = shift 1 (run (k x) b).
Proof. intros. unfold run. cbn [run_from]. apply run_from_shift. Qed.

Lemma shift_shift : forall A n m (r : res A), shift n (shift m r) = shift (n + m) r.
Proof. intros. destruct r; cbn [shift]; [f_equal; lia|reflexivity]. Qed.

Lemma shift_0 : forall A (r : res A), shift 0 r = r.
Proof. intros. destruct r; reflexivity. Qed.

(* ------------------------------------------------------------------ *)
(* THE theorem about truncation: whatever a decoder accepts, it reports
   end-of-input (never a value, never "invalid") on every strict prefix of
   the bytes it consumed. *)
Lemma strict_prefix_rejected_from : forall A b (d : dec A) m v n,
  run_from d b m = Ok v n -> forall k, m + k < n -> run_from d (firstn k b) m = Err Eof.
Proof.
  intros A b. induction b as [|x b IH]; intros d m v n H k Hk; destruct d; cbn [run_from] in H; try discriminate.
  - inversion H; subst. lia.
  - inversion H; subst. lia.
  - destruct k as [|k]; cbn [firstn run_from]; [reflexivity|].
    apply (IH _ _ _ _ H). lia.
Qed.

Theorem strict_prefix_rejected : forall A (d : dec A) b v n,
  run d b = Ok v n -> forall k, k < n -> run d (firstn k b) = Err Eof.
Proof. intros A d b v n H k Hk. apply (strict_prefix_rejected_from A b d 0 v n H). lia. Qed.

(* what was consumed is a prefix of the input, and only it matters *)
Lemma run_ok_length_from : forall A b (d : dec A) m v n,
  run_from d b m = Ok v n -> m <= n /\ n - m <= length b.
Proof.
  intros A b. induction b as [|x b IH]; intros d m v n H; destruct d; cbn [run_from] in H; try discriminate.
  - inversion H; subst. cbn. lia.
  - inversion H; subst. cbn. lia.
  - apply IH in H. cbn [length]. lia.
Qed.
Lemma run_ok_length : forall A (d : dec A) b v n, run d b = Ok v n -> n <= length b.
Proof. intros. apply run_ok_length_from in H. lia. Qed.

Lemma run_same_prefix_from : forall A b (d : dec A) m v n,
  run_from d b m = Ok v n -> forall b', firstn (n - m) b' = firstn (n - m) b -> run_from d b' m = Ok v n.
Proof.
  intros A b. induction b as [|x b IH]; intros d m v n H b' E; destruct d; cbn [run_from] in H; try discriminate.
  - destruct b'; exact H.
  - destruct b'; exact H.
  - pose proof (run_ok_length_from _ _ _ _ _ _ H) as [L _].
    replace (n - m) with (S (n - S m)) in E by lia.
    destruct b' as [|y b']; cbn [firstn] in E; [discriminate|].
    inversion E; subst. cbn [run_from]. apply (IH _ _ _ _ H). assumption.
Qed.

(* extension: bytes after the consumed ones are never looked at *)
Theorem run_app_ok : forall A (d : dec A) b v n r,
  run d b = Ok v n -> run d (b ++ r) = Ok v n.
Proof.
  intros A d b v n r H. unfold run in *.
  apply (run_same_prefix_from _ _ _ _ _ _ H).
  pose proof (run_ok_length_from _ _ _ _ _ _ H) as [_ L].
  rewrite firstn_app. replace (n - 0 - length b) with 0 by lia. cbn [firstn]. apply app_nil_r.
Qed.

Theorem run_firstn_ok : forall A (d : dec A) b v n,
  run d b = Ok v n -> run d (firstn n b) = Ok v n.
Proof.
  intros A d b v n H. unfold run in *.
  apply (run_same_prefix_from _ _ _ _ _ _ H).
  rewrite PeanoNat.Nat.sub_0_r, firstn_firstn, PeanoNat.Nat.min_id. reflexivity.
Qed.

(* "invalid" is a verdict about the bytes read so far: more input cannot
   repair it, and a shorter input cannot turn it into a value *)
Lemma run_invalid_app : forall A b (d : dec A) m r,
  run_from d b m = Err Invalid -> run_from d (b ++ r) m = Err Invalid.
Proof.
  intros A b. induction b as [|x b IH]; intros d m r H; destruct d; cbn [run_from] in H; try discriminate.
  - destruct r; reflexivity.
  - reflexivity.
  - cbn [app run_from]. apply IH. exact H.
Qed.

Lemma prefix_never_ok : forall A (d : dec A) b v n k,
  run d b = Ok v n -> k < n -> forall v' n', run d (firstn k b) <> Ok v' n'.
Proof. intros. rewrite (strict_prefix_rejected _ _ _ _ _ H k H0). discriminate. Qed.

(* no decoder accepts exactly a string and exactly one of its strict prefixes *)
Corollary accepted_language_prefix_free : forall A (d : dec A) b1 b2 v1 v2,
  run d b1 = Ok v1 (length b1) -> run d (b1 ++ b2) = Ok v2 (length (b1 ++ b2)) -> b2 = [].
Proof.
  intros A d b1 b2 v1 v2 H1 H2. apply (run_app_ok _ _ _ _ _ b2) in H1.
  rewrite H1 in H2. inversion H2. rewrite app_length in H3.
  destruct b2; [reflexivity|cbn in H3; lia].
Qed.

(* ------------------------------------------------------------------ *)
(* bind *)
Lemma run_bind : forall A B (d : dec A) (f : A -> dec B) b,
  run (bind d f) b =
  match run d b with
  | Ok a n => shift n (run (f a) (skipn n b))
  | Err e => Err e
  end.
Proof.
  intros A B d f b. revert d. induction b as [|x b IH]; intros d; destruct d; cbn [bind]; try reflexivity.
  - unfold run at 2. cbn [run_from skipn]. symmetry. apply shift_0.
  - unfold run at 2. cbn [run_from skipn]. symmetry. apply shift_0.
  - rewrite !run_read_cons. rewrite IH. destruct (run (k x) b) as [a n|e]; cbn [shift]; [|reflexivity].
    cbn [plus skipn]. rewrite shift_shift. reflexivity.
Qed.

Lemma run_bind_ok : forall A B (d : dec A) (f : A -> dec B) b1 r a,
  run d (b1 ++ r) = Ok a (length b1) ->
  run (bind d f) (b1 ++ r) = shift (length b1) (run (f a) r).
Proof.
  intros. rewrite run_bind, H. rewrite skipn_app, skipn_all, PeanoNat.Nat.sub_diag. reflexivity.
Qed.

Lemma run_fmap : forall A B (f : A -> B) (d : dec A) b,
  run (fmap f d) b = match run d b with Ok a n => Ok (f a) n | Err e => Err e end.
Proof.
  intros. unfold fmap. rewrite run_bind. destruct (run d b); [|reflexivity].
  unfold run. destruct (skipn n b); cbn [run_from shift]; f_equal; lia.
Qed.

Lemma run_guard : forall A (p : A -> bool) (d : dec A) b,
  run (guard p d) b = match run d b with
                      | Ok a n => if p a then Ok a n else Err Invalid
                      | Err e => Err e end.
Proof.
  intros. unfold guard. rewrite run_bind. destruct (run d b); [|reflexivity].
  destruct (p a); unfold run; destruct (skipn n b); cbn [run_from shift]; try reflexivity; f_equal; lia.
Qed.

Lemma run_ret : forall A (a : A) b, run (Ret a) b = Ok a 0.
Proof. intros. destruct b; reflexivity. Qed.

Lemma run_read_byte : forall x r, run read_byte (x :: r) = Ok x 1.
Proof. intros. destruct r; reflexivity. Qed.

(* the combinators build trees, so [strict_prefix_rejected] covers them; the
   instances are stated for reference *)
Corollary bind_strict_prefix_rejected : forall A B (d : dec A) (f : A -> dec B) b v n,
  run (bind d f) b = Ok v n -> forall k, k < n -> run (bind d f) (firstn k b) = Err Eof.
Proof. intros. eapply strict_prefix_rejected; eassumption. Qed.
Corollary fmap_strict_prefix_rejected : forall A B (f : A -> B) (d : dec A) b v n,
  run (fmap f d) b = Ok v n -> forall k, k < n -> run (fmap f d) (firstn k b) = Err Eof.
Proof. intros. eapply strict_prefix_rejected; eassumption. Qed.
Corollary seq_all_strict_prefix_rejected : forall A (ds : list (dec A)) b v n,
  run (seq_all ds) b = Ok v n -> forall k, k < n -> run (seq_all ds) (firstn k b) = Err Eof.
Proof. intros. eapply strict_prefix_rejected; eassumption. Qed.
Corollary repN_strict_prefix_rejected : forall A (c : N) (d : dec A) b v n,
  run (repN c d) b = Ok v n -> forall k, k < n -> run (repN c d) (firstn k b) = Err Eof.
Proof. intros. eapply strict_prefix_rejected; eassumption. Qed.

(* ------------------------------------------------------------------ *)
(* behavioural equality of decoders and the monad laws (used to relate the
   lazily unfolded [rep_pos] to plain n-fold repetition) *)
Definition deq {A} (d1 d2 : dec A) : Prop := forall b, run d1 b = run d2 b.

Lemma deq_refl : forall A (d : dec A), deq d d. Proof. intros A d b. reflexivity. Qed.
Lemma deq_sym : forall A (d1 d2 : dec A), deq d1 d2 -> deq d2 d1.
Proof. intros A d1 d2 H b. symmetry. apply H. Qed.
Lemma deq_trans : forall A (d1 d2 d3 : dec A), deq d1 d2 -> deq d2 d3 -> deq d1 d3.
Proof. intros A d1 d2 d3 H1 H2 b. rewrite H1. apply H2. Qed.

Lemma deq_bind : forall A B (d1 d2 : dec A) (f1 f2 : A -> dec B),
  deq d1 d2 -> (forall a, deq (f1 a) (f2 a)) -> deq (bind d1 f1) (bind d2 f2).
Proof.
  intros A B d1 d2 f1 f2 Hd Hf b. rewrite !run_bind, Hd.
  destruct (run d2 b); [|reflexivity]. rewrite Hf. reflexivity.
Qed.

Lemma bind_assoc : forall A B C (d : dec A) (f : A -> dec B) (g : B -> dec C),
  deq (bind (bind d f) g) (bind d (fun a => bind (f a) g)).
Proof.
  intros A B C d f g. induction d as [a| |k IH]; intros b; cbn [bind]; try reflexivity.
  destruct b as [|x b]; [reflexivity|]. rewrite !run_read_cons. rewrite IH. reflexivity.
Qed.

Lemma bind_ret_r : forall A (d : dec A), deq (bind d (fun a => Ret a)) d.
Proof.
  intros A d. induction d as [a| |k IH]; intros b; cbn [bind]; try reflexivity.
  destruct b as [|x b]; [reflexivity|]. rewrite !run_read_cons. rewrite IH. reflexivity.
Qed.

Lemma rep_nat_add : forall A (d : dec A) n m,
  deq (rep_nat (n + m) d) (bind (rep_nat n d) (fun l1 => fmap (app l1) (rep_nat m d))).
Proof.
  intros A d n m. induction n as [|n IH]; cbn [plus rep_nat bind].
  - apply deq_sym. apply (bind_ret_r _ (rep_nat m d)).
  - eapply deq_trans; [|apply deq_sym; apply bind_assoc].
    apply deq_bind; [apply deq_refl|]. intros x.
    unfold fmap at 1.
    eapply deq_trans; [apply deq_bind; [apply IH|intros; apply deq_refl]|].
    eapply deq_trans; [apply bind_assoc|].
    unfold fmap at 2.
    eapply deq_trans; [|apply deq_sym; apply bind_assoc].
    apply deq_bind; [apply deq_refl|]. intros l1. cbn [bind].
    unfold fmap. eapply deq_trans; [apply bind_assoc|]. cbn [bind]. apply deq_refl.
Qed.

Lemma rep_pos_nat : forall A (d : dec A) p, deq (rep_pos p d) (rep_nat (Pos.to_nat p) d).
Proof.
  intros A d p. induction p as [p IH|p IH|]; cbn [rep_pos].
  - rewrite Pos2Nat.inj_xI. cbn [rep_nat].
    apply deq_bind; [apply deq_refl|]. intros x.
    replace (2 * Pos.to_nat p) with (Pos.to_nat p + Pos.to_nat p) by lia.
    unfold fmap at 2.
    eapply deq_trans; [|apply deq_sym; apply deq_bind; [apply rep_nat_add|intros; apply deq_refl]].
    eapply deq_trans; [|apply deq_sym; apply bind_assoc].
    apply deq_bind; [apply IH|]. intros l1.
    unfold fmap. eapply deq_trans; [|apply deq_sym; apply bind_assoc]. cbn [bind].
    apply deq_bind; [apply IH|]. intros l2. apply deq_refl.
  - rewrite Pos2Nat.inj_xO.
    replace (2 * Pos.to_nat p) with (Pos.to_nat p + Pos.to_nat p) by lia.
    eapply deq_trans; [|apply deq_sym; apply rep_nat_add].
    apply deq_bind; [apply IH|]. intros l1.
    unfold fmap. apply deq_bind; [apply IH|]. intros; apply deq_refl.
  - cbn [Pos.to_nat Pos.iter_op rep_nat]. unfold fmap.
    apply deq_bind; [apply deq_refl|]. intros x. cbn [bind]. apply deq_refl.
Qed.

(* [repN n d] behaves as n-fold repetition *)
Theorem run_repN : forall A (d : dec A) n b, run (repN n d) b = run (rep_nat (N.to_nat n) d) b.
Proof.
  intros A d [|p] b; [reflexivity|]. cbn [repN N.to_nat]. apply rep_pos_nat.
Qed.

(* ------------------------------------------------------------------ *)
(* repetition decodes a concatenation of encodings *)
Lemma run_rep_nat_ok : forall A (enc : A -> bytes) (d : dec A) vs,
  (forall v, In v vs -> forall r, run d (enc v ++ r) = Ok v (length (enc v))) ->
  forall r, run (rep_nat (length vs) d) (flat_map enc vs ++ r) = Ok vs (length (flat_map enc vs)).
Proof.
  intros A enc d vs. induction vs as [|v vs IH]; intros H r.
  - cbn. apply run_ret.
  - cbn [length rep_nat flat_map]. rewrite <- app_assoc.
    rewrite (run_bind_ok _ _ _ _ _ _ v (H v (or_introl eq_refl) _)).
    rewrite run_fmap, IH by (intros; apply H; right; assumption).
    cbn [shift]. rewrite app_length. reflexivity.
Qed.

Lemma run_repN_ok : forall A (enc : A -> bytes) (d : dec A) vs,
  (forall v, In v vs -> forall r, run d (enc v ++ r) = Ok v (length (enc v))) ->
  forall r, run (repN (N.of_nat (length vs)) d) (flat_map enc vs ++ r) = Ok vs (length (flat_map enc vs)).
Proof. intros. rewrite run_repN, Nnat.Nat2N.id. apply run_rep_nat_ok. assumption. Qed.

Lemma run_seq_all_ok : forall A (ds : list (dec A)) (bs : list bytes) (vs : list A),
  Forall2 (fun d bv => forall r, run d (fst bv ++ r) = Ok (snd bv) (length (fst bv))) ds (combine bs vs) ->
  length bs = length vs ->
  forall r, run (seq_all ds) (concat bs ++ r) = Ok vs (length (concat bs)).
Proof.
  intros A ds. induction ds as [|d ds IH]; intros bs vs F L r.
  - inversion F as [E|]. destruct bs, vs; try discriminate. cbn. apply run_ret.
  - destruct bs as [|b bs], vs as [|v vs]; try discriminate; inversion F; subst.
    cbn [seq_all concat]. rewrite <- app_assoc.
    cbn [fst snd] in H2. rewrite (run_bind_ok _ _ _ _ _ _ v (H2 _)).
    rewrite run_fmap. rewrite (IH bs vs) by (try assumption; cbn in L; lia).
    cbn [shift]. rewrite app_length. reflexivity.
Qed.

Lemma flat_map_singleton : forall (bs : bytes), flat_map (fun x : byte => [x]) bs = bs.
Proof. induction bs as [|x0 bs0 IHb]; [reflexivity|cbn [flat_map app]; f_equal; exact IHb]. Qed.

Lemma run_take_ok : forall (bs r : bytes), run (take (N.of_nat (length bs))) (bs ++ r) = Ok bs (length bs).
Proof.
  intros. unfold take.
  pose proof (run_repN_ok byte (fun x => [x]) read_byte bs) as H.
  pose proof (flat_map_singleton bs) as E.
  rewrite E in H. apply H. intros. cbn. apply run_read_byte.
Qed.

Lemma run_take_nat_ok : forall (bs r : bytes), run (take_nat (length bs)) (bs ++ r) = Ok bs (length bs).
Proof.
  intros. unfold take_nat.
  pose proof (run_rep_nat_ok byte (fun x => [x]) read_byte bs) as H.
  pose proof (flat_map_singleton bs) as E.
  rewrite E in H. apply H. intros. cbn. apply run_read_byte.
Qed.
