(* C08 - the REVIEWED wire shape of `struct Rules` (lib/src/compiler/rules.rs) in the
   universe of Universe.v, hand-written; see the end of the file for its role.  The field list and its order come from the source
   (Gen/CodecGen.rules_fields, #[serde(skip)] fields removed); the shape of each
   field is written by hand from the type definitions and validated on every run
   by decoding real blobs with [decode rules_ty] (CodecCheck.CBlob): the decoder
   must consume the blob exactly and re-encoding the value must give the same
   bytes.  A field added to the struct has no shape here and makes every real
   blob fail to decode.

   Byte vectors (`Vec<u8>`, `&[u8]` elements, SmallVec<u8>) are serialized by
   serde as sequences of u8; that is byte-for-byte the `bytes` form
   (UniverseProofs.seq_u8_is_bytes), which is used here because it is cheaper
   to evaluate. *)
From Coq Require Import List NArith String.
From YV Require Import Gen.CodecGen Codec.Reader Codec.Varint Codec.Universe Gen.RulesTyGen.
Import ListNotations.
Local Open Scope string_scope.

Definition TU32 := TUInt W32.
Definition TU16 := TUInt W16.
Definition TI32 := TSInt W32.
Definition TI64 := TSInt W64.
Definition TStruct := TTuple.

(* serde's impl for std::ops::Bound: Unbounded | Included(T) | Excluded(T) *)
Definition TBound (t : ty) : ty := TEnum [TUnit; t; t].
(* MetaValue: Bool(bool) Integer(i64) Float(f64) String(LiteralId) Bytes(LiteralId) *)
Definition meta_value_ty : ty := TEnum [TBool; TI64; TF64; TU32; TU32].
(* PatternKind: Text | Hex | Regexp *)
Definition pattern_kind_ty : ty := TEnum [TUnit; TUnit; TUnit].
Definition unknown_field_ty : ty := TEnum [].        (* decodes nothing *)
Definition kind_eqb (a b : field_kind) : bool :=
  match a, b with FPlain, FPlain | FSkipped, FSkipped | FCustom, FCustom => true | _, _ => false end.
(* a struct is its non-skipped fields, in declaration order, without framing *)
Definition shape_of (fty : string -> ty) (fs : list (string * field_kind)) : ty :=
  TStruct (flat_map (fun f => match snd f with FSkipped => [] | _ => [fty (fst f)] end) fs).
(* do the serde attributes found in the source agree with the ones the shapes were written for? *)
Definition attrs_ok (expected : string -> field_kind) (fs : list (string * field_kind)) : bool :=
  forallb (fun f => kind_eqb (snd f) (expected (fst f))) fs.
Fixpoint lookup_ty (tbl : list (string * ty)) (name : string) : ty :=
  match tbl with [] => unknown_field_ty | (n, t) :: r => if String.eqb n name then t else lookup_ty r name end.

(* PatternInfo { pattern_id: PatternId(i32), ident_id: IdentId(u32), kind, is_private } *)
Definition pattern_info_ty : ty :=
  shape_of (lookup_ty [("pattern_id", TI32); ("ident_id", TU32); ("kind", pattern_kind_ty); ("is_private", TBool)])
           pattern_info_fields.
(* RuleInfo { namespace_id: i32, namespace_ident_id, ident_id, tags, [ident_ref skipped],
              metadata: Vec<(IdentId, MetaValue)>, patterns, num_private_patterns, is_global, is_private } *)
Definition rule_info_ty : ty :=
  shape_of (lookup_ty [("namespace_id", TI32); ("namespace_ident_id", TU32); ("ident_id", TU32); ("tags", TSeq TU32);
                       ("ident_ref", TUnit);
                       ("metadata", TSeq (TTuple [TU32; meta_value_ty])); ("patterns", TSeq pattern_info_ty);
                       ("num_private_patterns", TUsize); ("is_global", TBool); ("is_private", TBool)])
           rule_info_fields.
(* ChainedPatternGap: Bounded(RangeInclusive<u32>) | Unbounded(RangeFrom<u32>) *)
Definition gap_ty : ty := TEnum [TStruct [TU32; TU32]; TStruct [TU32]].
(* SubPatternFlags: bitflags over u16, serialized as its bits *)
Definition flags_ty : ty := TU16.
Definition sub_pattern_ty : ty :=
  TEnum [ TStruct [TU32; TOpt TUsize; flags_ty]      (* Literal { pattern, anchored_at, flags } *)
        ; TStruct [TU32; TU32; flags_ty]             (* LiteralWithMask { pattern, mask, flags } *)
        ; TStruct [TU32; flags_ty]                   (* LiteralChainHead { pattern, flags } *)
        ; TStruct [TU32; TU32; gap_ty; flags_ty]     (* LiteralChainTail { pattern, chained_to, gap, flags } *)
        ; TStruct [flags_ty]                         (* Regexp { flags } *)
        ; TStruct [flags_ty]                         (* RegexpChainHead { flags } *)
        ; TStruct [TU32; gap_ty; flags_ty]           (* RegexpChainTail { chained_to, gap, flags } *)
        ; TStruct [TU32; flags_ty]                   (* Xor { pattern, flags } *)
        ; TStruct [TU32; TU8]                        (* Base64 { pattern, padding } *)
        ; TStruct [TU32; TU8]                        (* Base64Wide *)
        ; TStruct [TU32; TU32; TU8]                  (* CustomBase64 { pattern, alphabet, padding } *)
        ; TStruct [TU32; TU32; TU8] ].               (* CustomBase64Wide *)
(* FilesizeBounds { start: Bound<i64>, end: Bound<i64> } *)
Definition filesize_bounds_ty : ty :=
  shape_of (lookup_ty [("start", TBound TI64); ("end", TBound TI64)]) filesize_bounds_fields.
(* HeaderConstraint: Unconstrained | Unsatisfiable | Constrained(Vec<u8>) *)
Definition header_constraint_ty : ty := TEnum [TUnit; TUnit; TBytes].
(* SubPatternAtom { sub_pattern_id, atom: Atom { bytes: SmallVec<u8>, exact, backtrack: u16 },
                    fwd_code: Option<NonZeroU32>, bck_code: Option<NonZeroU32> } *)
Definition atom_inner_ty : ty :=
  shape_of (lookup_ty [("bytes", TBytes); ("exact", TBool); ("backtrack", TU16)]) atom_fields.
Definition atom_ty : ty :=
  shape_of (lookup_ty [("sub_pattern_id", TU32); ("atom", atom_inner_ty); ("fwd_code", TOpt TU32); ("bck_code", TOpt TU32)])
           sub_pattern_atom_fields.
(* bitvec::BitVec<usize, Lsb0>: BitSeq { order: type name, head: BitIdx { width: u8, index: u8 },
                                          bits: u64, data: [usize] } *)
Definition bitvec_ty : ty := TStruct [TStr; TStruct [TU8; TU8]; TUInt W64; TSeq TUsize].

Definition field_ty (name : string) : ty :=
  if String.eqb name "ident_pool" then TSeq TStr                       (* StringPool: seq of str *)
  else if String.eqb name "regex_pool" then TSeq TStr
  else if String.eqb name "relaxed_re_syntax" then TBool
  else if String.eqb name "lit_pool" then TSeq TBytes                  (* BStringPool: seq of [u8] *)
  else if String.eqb name "wasm_mod" then TBytes
  else if String.eqb name "compiled_wasm_mod" then TOpt TBytes         (* serialize_wasm_mod *)
  else if String.eqb name "imported_modules" then TSeq TU32
  else if String.eqb name "rules" then TSeq rule_info_ty
  else if String.eqb name "num_patterns" then TUsize
  else if String.eqb name "sub_patterns" then TSeq (TTuple [TI32; sub_pattern_ty])
  else if String.eqb name "filesize_bounds" then TMap TI32 filesize_bounds_ty
  else if String.eqb name "header_constraints" then TMap TI32 header_constraint_ty
  else if String.eqb name "anchored_sub_patterns" then TSeq TU32
  else if String.eqb name "atoms" then TSeq atom_ty
  else if String.eqb name "re_code" then TBytes
  else if String.eqb name "serialized_globals" then TBytes
  else if String.eqb name "ac" then TBytes                             (* daachorse bytes *)
  else if String.eqb name "regex_sets" then TMap TI32 (TSeq TI32)
  else if String.eqb name "fast_scan_patterns" then bitvec_ty
  else if String.eqb name "rules_profiling_enabled" then TBool
  else unknown_field_ty.

Definition reviewed_rules_ty : ty := shape_of field_ty rules_fields.

(* The shape used by the theorems and by the correspondence is the one DERIVED from the Rust
   definitions (Gen/RulesTyGen.v); the hand-written shape above is kept as the reviewed pin:
   RulesShapeProofs.generated_shape_is_reviewed states that both agree, so a change of any
   definition reachable from Rules has to be looked at before the pin is renewed. *)
Definition rules_ty : ty := gen_rules_ty.
(* the globals blob (Rules::serialized_globals, a types::Struct encoded separately with the
   same bincode configuration); recursive, therefore only generated *)
Definition globals_ty : ty := gen_globals_ty.

(* the serde attributes the shapes above were written for *)
Definition rules_expected_kind (name : string) : field_kind :=
  if String.eqb name "compiled_wasm_mod" then FCustom      (* serialize_wasm_mod / deserialize_wasm_mod: Option<bytes> *)
  else if String.eqb name "warnings" then FSkipped
  else FPlain.
Definition rule_info_expected_kind (name : string) : field_kind :=
  if String.eqb name "ident_ref" then FSkipped else FPlain.
Definition all_plain (_ : string) : field_kind := FPlain.
Definition source_attrs_ok : bool :=
  attrs_ok rules_expected_kind rules_fields && attrs_ok rule_info_expected_kind rule_info_fields &&
  attrs_ok all_plain pattern_info_fields && attrs_ok all_plain sub_pattern_atom_fields &&
  attrs_ok all_plain filesize_bounds_fields && attrs_ok all_plain atom_fields.
