(* C08 - the wire shape of `struct Rules` (lib/src/compiler/rules.rs) in the
   universe of Universe.v.  The field list and its order come from the source
   (Gen/CodecGen.rules_fields, #[serde(skip)] fields removed); the shape of each
   field is written by hand from the type definitions and validated on every run
   by decoding real blobs with [decode rules_ty] (CodecCheck.CBlob): the decoder
   must consume the blob exactly and re-encoding the value must give the same
   bytes.  A field added to the struct has no shape here and makes every real
   blob fail to decode.

   Byte vectors (`Vec<u8>`, `&[u8]` elements, SmallVec<u8>) are serialized by
   serde as sequences of u8; that is byte-for-byte the `bytes` form
   (UniverseProofs.seq_u8_is_bytes), which is used here because it is cheaper
   to evaluate. *)
From Coq Require Import List NArith String.
From YV Require Import Gen.CodecGen Codec.Reader Codec.Varint Codec.Universe.
Import ListNotations.
Local Open Scope string_scope.

Definition TU32 := TUInt W32.
Definition TU16 := TUInt W16.
Definition TI32 := TSInt W32.
Definition TI64 := TSInt W64.
Definition TStruct := TTuple.

(* serde's impl for std::ops::Bound: Unbounded | Included(T) | Excluded(T) *)
Definition TBound (t : ty) : ty := TEnum [TUnit; t; t].
(* MetaValue: Bool(bool) Integer(i64) Float(f64) String(LiteralId) Bytes(LiteralId) *)
Definition meta_value_ty : ty := TEnum [TBool; TI64; TF64; TU32; TU32].
(* PatternKind: Text | Hex | Regexp *)
Definition pattern_kind_ty : ty := TEnum [TUnit; TUnit; TUnit].
(* PatternInfo { pattern_id: PatternId(i32), ident_id: IdentId(u32), kind, is_private } *)
Definition pattern_info_ty : ty := TStruct [TI32; TU32; pattern_kind_ty; TBool].
(* RuleInfo { namespace_id: i32, namespace_ident_id, ident_id, tags, [ident_ref skipped],
              metadata: Vec<(IdentId, MetaValue)>, patterns, num_private_patterns, is_global, is_private } *)
Definition rule_info_ty : ty :=
  TStruct [TI32; TU32; TU32; TSeq TU32; TSeq (TTuple [TU32; meta_value_ty]); TSeq pattern_info_ty;
           TUsize; TBool; TBool].
(* ChainedPatternGap: Bounded(RangeInclusive<u32>) | Unbounded(RangeFrom<u32>) *)
Definition gap_ty : ty := TEnum [TStruct [TU32; TU32]; TStruct [TU32]].
(* SubPatternFlags: bitflags over u16, serialized as its bits *)
Definition flags_ty : ty := TU16.
Definition sub_pattern_ty : ty :=
  TEnum [ TStruct [TU32; TOpt TUsize; flags_ty]      (* Literal { pattern, anchored_at, flags } *)
        ; TStruct [TU32; TU32; flags_ty]             (* LiteralWithMask { pattern, mask, flags } *)
        ; TStruct [TU32; flags_ty]                   (* LiteralChainHead { pattern, flags } *)
        ; TStruct [TU32; TU32; gap_ty; flags_ty]     (* LiteralChainTail { pattern, chained_to, gap, flags } *)
        ; TStruct [flags_ty]                         (* Regexp { flags } *)
        ; TStruct [flags_ty]                         (* RegexpChainHead { flags } *)
        ; TStruct [TU32; gap_ty; flags_ty]           (* RegexpChainTail { chained_to, gap, flags } *)
        ; TStruct [TU32; flags_ty]                   (* Xor { pattern, flags } *)
        ; TStruct [TU32; TU8]                        (* Base64 { pattern, padding } *)
        ; TStruct [TU32; TU8]                        (* Base64Wide *)
        ; TStruct [TU32; TU32; TU8]                  (* CustomBase64 { pattern, alphabet, padding } *)
        ; TStruct [TU32; TU32; TU8] ].               (* CustomBase64Wide *)
(* FilesizeBounds { start: Bound<i64>, end: Bound<i64> } *)
Definition filesize_bounds_ty : ty := TStruct [TBound TI64; TBound TI64].
(* HeaderConstraint: Unconstrained | Unsatisfiable | Constrained(Vec<u8>) *)
Definition header_constraint_ty : ty := TEnum [TUnit; TUnit; TBytes].
(* SubPatternAtom { sub_pattern_id, atom: Atom { bytes: SmallVec<u8>, exact, backtrack: u16 },
                    fwd_code: Option<NonZeroU32>, bck_code: Option<NonZeroU32> } *)
Definition atom_ty : ty := TStruct [TU32; TStruct [TBytes; TBool; TU16]; TOpt TU32; TOpt TU32].
(* bitvec::BitVec<usize, Lsb0>: BitSeq { order: type name, head: BitIdx { width: u8, index: u8 },
                                          bits: u64, data: [usize] } *)
Definition bitvec_ty : ty := TStruct [TStr; TStruct [TU8; TU8]; TUInt W64; TSeq TUsize].

Definition unknown_field_ty : ty := TEnum [].        (* decodes nothing *)

Definition field_ty (name : string) : ty :=
  if String.eqb name "ident_pool" then TSeq TStr                       (* StringPool: seq of str *)
  else if String.eqb name "regex_pool" then TSeq TStr
  else if String.eqb name "relaxed_re_syntax" then TBool
  else if String.eqb name "lit_pool" then TSeq TBytes                  (* BStringPool: seq of [u8] *)
  else if String.eqb name "wasm_mod" then TBytes
  else if String.eqb name "compiled_wasm_mod" then TOpt TBytes         (* serialize_wasm_mod *)
  else if String.eqb name "imported_modules" then TSeq TU32
  else if String.eqb name "rules" then TSeq rule_info_ty
  else if String.eqb name "num_patterns" then TUsize
  else if String.eqb name "sub_patterns" then TSeq (TTuple [TI32; sub_pattern_ty])
  else if String.eqb name "filesize_bounds" then TMap TI32 filesize_bounds_ty
  else if String.eqb name "header_constraints" then TMap TI32 header_constraint_ty
  else if String.eqb name "anchored_sub_patterns" then TSeq TU32
  else if String.eqb name "atoms" then TSeq atom_ty
  else if String.eqb name "re_code" then TBytes
  else if String.eqb name "serialized_globals" then TBytes
  else if String.eqb name "ac" then TBytes                             (* daachorse bytes *)
  else if String.eqb name "regex_sets" then TMap TI32 (TSeq TI32)
  else if String.eqb name "fast_scan_patterns" then bitvec_ty
  else if String.eqb name "rules_profiling_enabled" then TBool
  else unknown_field_ty.

Definition rules_ty : ty :=
  TStruct (flat_map (fun f => match snd f with FSkipped => [] | _ => [field_ty (fst f)] end) rules_fields).
