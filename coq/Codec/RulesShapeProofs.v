(* C08 - the shapes of RulesShape.v against the struct definitions found in the
   source (Gen/CodecGen.v): re-checked by computation on every run. *)
From Coq Require Import List NArith String Bool.
From YV Require Import Gen.CodecGen Gen.RulesTyGen Codec.Reader Codec.Varint Codec.Universe Codec.RulesShape.
Import ListNotations.
Local Open Scope string_scope.

(* no serde attribute of Rules, RuleInfo, PatternInfo, SubPatternAtom, FilesizeBounds, Atom
   differs from the ones the shapes were written for (the translator rejects attributes it
   does not know) *)
Lemma source_attrs_unchanged : source_attrs_ok = true.
Proof. vm_compute. reflexivity. Qed.

Lemma custom_serializers_unchanged :
  rules_custom = [("compiled_wasm_mod", "serialize_wasm_mod", "deserialize_wasm_mod")].
Proof. reflexivity. Qed.

(* every field found in the source has a shape (none falls through to [unknown_field_ty]) and
   the nested structs have the fields, in the order, the model was written for *)
Lemma nested_shapes :
  pattern_info_ty = TStruct [TI32; TU32; pattern_kind_ty; TBool] /\
  rule_info_ty = TStruct [TI32; TU32; TU32; TSeq TU32; TSeq (TTuple [TU32; meta_value_ty]); TSeq pattern_info_ty;
                          TUsize; TBool; TBool] /\
  filesize_bounds_ty = TStruct [TBound TI64; TBound TI64] /\
  atom_ty = TStruct [TU32; TStruct [TBytes; TBool; TU16]; TOpt TU32; TOpt TU32].
Proof. repeat split; reflexivity. Qed.

Fixpoint mentions_unknown (t : ty) : bool :=
  match t with
  | TEnum [] => true
  | TOpt t' | TSeq t' => mentions_unknown t'
  | TTuple ts | TEnum ts => (fix go (l : list ty) : bool := match l with [] => false | x :: r => mentions_unknown x || go r end) ts
  | _ => false
  end.
(* the shape derived from the Rust definitions is the reviewed one *)
Lemma generated_shape_is_reviewed : force gen_rules_ty = reviewed_rules_ty.
Proof. vm_compute. reflexivity. Qed.

Lemma every_field_has_a_shape : mentions_unknown reviewed_rules_ty = false.
Proof. vm_compute. reflexivity. Qed.
