(* C08 - the universe of shapes serde feeds to bincode for `Rules`
   (bincode-2.0.1 src/features/serde/{ser,de_borrowed}.rs, `config::standard()`):

     u8 / i8                 one raw byte
     bool                    one byte 0 / 1 (anything else: InvalidBooleanValue)
     u16 u32 u64 usize       varint (Varint.v); i16 i32 i64 isize: zig-zag + varint
     f64                     8 bytes (IEEE bits, little endian; opaque here)
     bytes / byte_buf        varint(u64) length, then the bytes
     str / String            as bytes, must be valid UTF-8
     Option                  one byte 0 (None) or 1 (Some, followed by the value)
     seq (Vec, pools, ...)   varint(usize) length, then the elements
     map (HashMap, IndexMap) varint(usize) length, then key, value, key, value ...
                             = a seq of 2-tuples: [TMap k v := TSeq (TTuple [k; v])]
     tuple / struct / newtype / unit   the fields one after the other, no framing
     enum                    varint(u32) variant index, then the variant's fields

   Values are untyped trees; [wt t v] says that v is a value of shape t with all
   integers in range.  [encode] does not need the type: integers of all widths
   share one encoding.  Definitions only; proofs in UniverseProofs.v. *)
From Coq Require Import List NArith ZArith Bool.
From YV Require Import Codec.Reader Codec.Varint.
Import ListNotations.
Local Open Scope N_scope.

Inductive ty :=
| TU8 | TBool
| TUInt (w : width)
| TSInt (w : width)
| TF64
| TBytes | TStr
| TOpt (t : ty)
| TSeq (t : ty)
| TTuple (ts : list ty)
| TEnum (ts : list ty)       (* payload shape per variant; unit variant = TTuple [] *)
| TDelay (k : unit -> ty).   (* a shape unfolded on demand: recursive Rust types (Struct -> TypeValue -> Struct)
                               are generated as fuel-bounded unfoldings that must not be evaluated eagerly *)

Definition TUnit : ty := TTuple [].
Definition TMap (k v : ty) : ty := TSeq (TTuple [k; v]).
Definition TUsize : ty := TUInt W64.

Inductive val :=
| VU8 (n : N) | VBool (b : bool)
| VUInt (n : N)
| VSInt (z : Z)
| VF64 (bits : bytes)
| VBytes (bs : bytes) | VStr (bs : bytes)
| VNone | VSome (v : val)
| VSeq (vs : list val)
| VTuple (vs : list val)
| VVariant (idx : N) (v : val).

(* ---- UTF-8 as accepted by core::str::from_utf8 (Unicode table 3-7) ---- *)
Definition inr (lo hi b : N) : bool := (lo <=? b) && (b <=? hi).
Definition cont (b : N) : bool := inr 128 191 b.
Definition three_ok (b0 b1 : N) : bool :=
  ((b0 =? 224) && inr 160 191 b1) || (inr 225 236 b0 && cont b1) ||
  ((b0 =? 237) && inr 128 159 b1) || (inr 238 239 b0 && cont b1).
Definition four_ok (b0 b1 : N) : bool :=
  ((b0 =? 240) && inr 144 191 b1) || (inr 241 243 b0 && cont b1) || ((b0 =? 244) && inr 128 143 b1).
Fixpoint utf8_valid (bs : bytes) : bool :=
  match bs with
  | [] => true
  | b0 :: t0 =>
    if b0 <? 128 then utf8_valid t0
    else match t0 with
    | [] => false
    | b1 :: t1 =>
      if inr 194 223 b0 then cont b1 && utf8_valid t1
      else match t1 with
      | [] => false
      | b2 :: t2 =>
        if three_ok b0 b1 then cont b2 && utf8_valid t2
        else match t2 with
        | [] => false
        | b3 :: t3 => four_ok b0 b1 && cont b2 && cont b3 && utf8_valid t3
        end
      end
    end
  end.

(* ---- encoder ---- *)
Definition enc_len (n : nat) : bytes := enc_varint (N.of_nat n).
Fixpoint encode (v : val) : bytes :=
  match v with
  | VU8 n => [n]
  | VBool b => [if b then 1 else 0]
  | VUInt n => enc_varint n
  | VSInt z => enc_svarint z
  | VF64 bits => bits
  | VBytes bs => enc_len (length bs) ++ bs
  | VStr bs => enc_len (length bs) ++ bs
  | VNone => [0]
  | VSome v => 1 :: encode v
  | VSeq vs => enc_len (length vs) ++ flat_map encode vs
  | VTuple vs => flat_map encode vs
  | VVariant i v => enc_varint i ++ encode v
  end.

(* ---- decoder ---- *)
Definition dec_bool : dec bool :=
  Read (fun b => if b =? 0 then Ret false else if b =? 1 then Ret true else Fail).
Definition dec_len : dec N := dec_varint W64.

Fixpoint decode (t : ty) : dec val :=
  match t with
  | TU8 => fmap VU8 read_byte
  | TBool => fmap VBool dec_bool
  | TUInt w => fmap VUInt (dec_varint w)
  | TSInt w => fmap VSInt (dec_svarint w)
  | TF64 => fmap VF64 (take_nat 8)
  | TBytes => bind dec_len (fun n => fmap VBytes (take n))
  | TStr => bind dec_len (fun n => bind (take n) (fun bs => if utf8_valid bs then Ret (VStr bs) else Fail))
  | TOpt t' => Read (fun b => if b =? 0 then Ret VNone else if b =? 1 then fmap VSome (decode t') else Fail)
  | TSeq t' => bind dec_len (fun n => fmap VSeq (repN n (decode t')))
  | TTuple ts =>
      fmap VTuple ((fix go (ts : list ty) : dec (list val) :=
                      match ts with
                      | [] => Ret []
                      | t' :: ts' => bind (decode t') (fun x => fmap (cons x) (go ts'))
                      end) ts)
  | TEnum ts =>
      bind (dec_varint W32) (fun i =>
        (fix pick (ts : list ty) (j : N) : dec val :=
           match ts with
           | [] => Fail                        (* serde: "invalid value: variant index" *)
           | t' :: ts' => if j =? 0 then fmap (VVariant i) (decode t') else pick ts' (N.pred j)
           end) ts i)
  | TDelay k => decode (k tt)
  end.

(* ---- typing ---- *)
Definition len_ok (n : nat) : bool := N.of_nat n <? wmax W64.
Fixpoint nthN {A} (l : list A) (j : N) : option A :=
  match l with [] => None | x :: l' => if j =? 0 then Some x else nthN l' (N.pred j) end.

Fixpoint wt (t : ty) (v : val) {struct t} : bool :=
  match t, v with
  | TU8, VU8 n => byte_ok n
  | TBool, VBool _ => true
  | TUInt w, VUInt n => n <? wmax w
  | TSInt w, VSInt z => srange w z
  | TF64, VF64 bits => Nat.eqb (length bits) 8 && forallb byte_ok bits
  | TBytes, VBytes bs => len_ok (length bs) && forallb byte_ok bs
  | TStr, VStr bs => len_ok (length bs) && utf8_valid bs
  | TOpt _, VNone => true
  | TOpt t', VSome v' => wt t' v'
  | TSeq t', VSeq vs => len_ok (length vs) && forallb (wt t') vs
  | TTuple ts, VTuple vs =>
      (fix go (ts : list ty) (vs : list val) {struct ts} : bool :=
         match ts, vs with
         | [], [] => true
         | t' :: ts', v' :: vs' => wt t' v' && go ts' vs'
         | _, _ => false
         end) ts vs
  | TEnum ts, VVariant i v' =>
      (i <? wmax W32) &&
      (fix pick (ts : list ty) (j : N) {struct ts} : bool :=
         match ts with
         | [] => false
         | t' :: ts' => if j =? 0 then wt t' v' else pick ts' (N.pred j)
         end) ts i
  | TDelay k, _ => wt (k tt) v
  | _, _ => false
  end.

(* positions (offset, length) of the framing integers of an encoding: sequence / byte-string /
   string lengths, option tags and variant indices, in encoding order.  Like [encode] it only
   needs the value. *)
Fixpoint frames (v : val) (off : nat) {struct v} : list (nat * nat) * nat :=
  match v with
  | VU8 _ | VBool _ => ([], (off + 1)%nat)
  | VUInt n => ([], (off + length (enc_varint n))%nat)
  | VSInt z => ([], (off + length (enc_svarint z))%nat)
  | VF64 bits => ([], (off + length bits)%nat)
  | VBytes bs | VStr bs => let l := length (enc_len (length bs)) in ([(off, l)], (off + l + length bs)%nat)
  | VNone => ([(off, 1%nat)], (off + 1)%nat)
  | VSome v' => let '(fs, e) := frames v' (off + 1)%nat in ((off, 1%nat) :: fs, e)
  | VSeq vs =>
      let l := length (enc_len (length vs)) in
      let '(fs, e) := (fix go (vs : list val) (off : nat) : list (nat * nat) * nat :=
                         match vs with
                         | [] => ([], off)
                         | x :: r => let '(f1, e1) := frames x off in let '(f2, e2) := go r e1 in (f1 ++ f2, e2)
                         end) vs (off + l)%nat in
      ((off, l) :: fs, e)
  | VTuple vs =>
      (fix go (vs : list val) (off : nat) : list (nat * nat) * nat :=
         match vs with
         | [] => ([], off)
         | x :: r => let '(f1, e1) := frames x off in let '(f2, e2) := go r e1 in (f1 ++ f2, e2)
         end) vs off
  | VVariant i v' =>
      let l := length (enc_varint i) in
      let '(fs, e) := frames v' (off + l)%nat in ((off, l) :: fs, e)
  end.

(* unfold every delayed shape (only for finite, non-recursive shapes) *)
Fixpoint force (t : ty) : ty :=
  match t with
  | TOpt t' => TOpt (force t')
  | TSeq t' => TSeq (force t')
  | TTuple ts => TTuple (map force ts)
  | TEnum ts => TEnum (map force ts)
  | TDelay k => force (k tt)
  | _ => t
  end.

(* ---- boolean equality of values (for the correspondence cases) ---- *)
Fixpoint bytes_eqb (a b : bytes) : bool :=
  match a, b with
  | [], [] => true
  | x :: a', y :: b' => (x =? y) && bytes_eqb a' b'
  | _, _ => false
  end.
Fixpoint val_eqb (a b : val) {struct a} : bool :=
  match a, b with
  | VU8 x, VU8 y => x =? y
  | VBool x, VBool y => Bool.eqb x y
  | VUInt x, VUInt y => x =? y
  | VSInt x, VSInt y => Z.eqb x y
  | VF64 x, VF64 y => bytes_eqb x y
  | VBytes x, VBytes y => bytes_eqb x y
  | VStr x, VStr y => bytes_eqb x y
  | VNone, VNone => true
  | VSome x, VSome y => val_eqb x y
  | VSeq xs, VSeq ys | VTuple xs, VTuple ys =>
      (fix go (xs ys : list val) : bool :=
         match xs, ys with
         | [], [] => true
         | x :: xs', y :: ys' => val_eqb x y && go xs' ys'
         | _, _ => false
         end) xs ys
  | VVariant i x, VVariant j y => (i =? j) && val_eqb x y
  | _, _ => false
  end.

(* the nested recursions of [decode] / [wt], named (equal by conversion, see
   UniverseProofs.decode_tuple_eq etc.) *)
Fixpoint dec_tuple (ts : list ty) : dec (list val) :=
  match ts with
  | [] => Ret []
  | t' :: ts' => bind (decode t') (fun x => fmap (cons x) (dec_tuple ts'))
  end.
Definition dec_pick (i : N) : list ty -> N -> dec val :=
  fix pick (ts : list ty) (j : N) : dec val :=
    match ts with
    | [] => Fail
    | t' :: ts' => if j =? 0 then fmap (VVariant i) (decode t') else pick ts' (N.pred j)
    end.
Definition wt_pick (v' : val) : list ty -> N -> bool :=
  fix pick (ts : list ty) (j : N) {struct ts} : bool :=
    match ts with
    | [] => false
    | t' :: ts' => if j =? 0 then wt t' v' else pick ts' (N.pred j)
    end.
Fixpoint wt_tuple (ts : list ty) (vs : list val) {struct ts} : bool :=
  match ts, vs with
  | [], [] => true
  | t' :: ts', v' :: vs' => wt t' v' && wt_tuple ts' vs'
  | _, _ => false
  end.
