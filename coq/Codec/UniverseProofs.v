(* C08 - decode (encode v ++ rest) = (v, rest) for every shape of the universe. *)
From Coq Require Import List NArith ZArith Bool Lia.
From YV Require Import Codec.Reader Codec.ReaderProofs Codec.Varint Codec.VarintProofs Codec.Universe.
Import ListNotations.
Local Open Scope N_scope.

Lemma decode_tuple_eq : forall ts, decode (TTuple ts) = fmap VTuple (dec_tuple ts).
Proof. reflexivity. Qed.
Lemma decode_enum_eq : forall ts, decode (TEnum ts) = bind (dec_varint W32) (fun i => dec_pick i ts i).
Proof. reflexivity. Qed.
Lemma wt_tuple_eq : forall ts vs, wt (TTuple ts) (VTuple vs) = wt_tuple ts vs.
Proof. reflexivity. Qed.
Lemma wt_enum_eq : forall ts i v, wt (TEnum ts) (VVariant i v) = ((i <? wmax W32) && wt_pick v ts i).
Proof. reflexivity. Qed.

Section TyInd.
  Variable P : ty -> Prop.
  Hypothesis HU8 : P TU8.
  Hypothesis HBool : P TBool.
  Hypothesis HUInt : forall w, P (TUInt w).
  Hypothesis HSInt : forall w, P (TSInt w).
  Hypothesis HF64 : P TF64.
  Hypothesis HBytes : P TBytes.
  Hypothesis HStr : P TStr.
  Hypothesis HOpt : forall t, P t -> P (TOpt t).
  Hypothesis HSeq : forall t, P t -> P (TSeq t).
  Hypothesis HTuple : forall ts, Forall P ts -> P (TTuple ts).
  Hypothesis HEnum : forall ts, Forall P ts -> P (TEnum ts).
  Hypothesis HDelay : forall k, (forall u, P (k u)) -> P (TDelay k).
  Fixpoint ty_ind' (t : ty) : P t :=
    match t with
    | TU8 => HU8 | TBool => HBool | TUInt w => HUInt w | TSInt w => HSInt w | TF64 => HF64
    | TBytes => HBytes | TStr => HStr
    | TOpt t' => HOpt t' (ty_ind' t')
    | TSeq t' => HSeq t' (ty_ind' t')
    | TTuple ts => HTuple ts ((fix f (ts : list ty) : Forall P ts :=
                                 match ts with [] => Forall_nil P | t' :: ts' => Forall_cons t' (ty_ind' t') (f ts') end) ts)
    | TEnum ts => HEnum ts ((fix f (ts : list ty) : Forall P ts :=
                               match ts with [] => Forall_nil P | t' :: ts' => Forall_cons t' (ty_ind' t') (f ts') end) ts)
    | TDelay k => HDelay k (fun u => ty_ind' (k u))
    end.
End TyInd.

Definition rt (t : ty) : Prop :=
  forall v, wt t v = true -> forall r, run (decode t) (encode v ++ r) = Ok v (length (encode v)).

Lemma len_ok_lt : forall n, len_ok n = true -> N.of_nat n < wmax W64.
Proof. intros n H. apply N.ltb_lt. exact H. Qed.

Lemma run_len_prefix : forall A n (f : N -> dec A) body r,
  len_ok n = true ->
  run (bind dec_len f) ((enc_len n ++ body) ++ r) = shift (length (enc_len n)) (run (f (N.of_nat n)) (body ++ r)).
Proof.
  intros. rewrite <- app_assoc. apply run_bind_ok. unfold dec_len, enc_len.
  apply varint_roundtrip. apply len_ok_lt. assumption.
Qed.

Lemma dec_tuple_ok : forall ts, Forall rt ts -> forall vs, wt_tuple ts vs = true ->
  forall r, run (dec_tuple ts) (flat_map encode vs ++ r) = Ok vs (length (flat_map encode vs)).
Proof.
  intros ts F. induction F as [|t ts Ht F IH]; intros vs W r; destruct vs as [|v vs]; cbn [wt_tuple] in W; try discriminate.
  - cbn. apply run_ret.
  - apply andb_true_iff in W. destruct W as [W1 W2].
    cbn [dec_tuple flat_map]. rewrite <- app_assoc.
    rewrite (run_bind_ok _ _ _ _ _ _ v (Ht v W1 _)). rewrite run_fmap, (IH vs W2).
    cbn [shift]. rewrite app_length. reflexivity.
Qed.

Lemma nthN_In : forall A (l : list A) j x, nthN l j = Some x -> In x l.
Proof.
  intros A l. induction l as [|y l IH]; intros j x H; cbn [nthN] in H; [discriminate|].
  destruct (j =? 0); [inversion H; left; reflexivity|right; eapply IH; eassumption].
Qed.

Lemma wt_pick_nth : forall v ts j, wt_pick v ts j = true -> exists t, nthN ts j = Some t /\ wt t v = true.
Proof.
  intros v ts. induction ts as [|t0 ts IH]; intros j H; [discriminate|].
  change (wt_pick v (t0 :: ts) j) with (if j =? 0 then wt t0 v else wt_pick v ts (N.pred j)) in H.
  cbn [nthN]. destruct (j =? 0); [exists t0; split; [reflexivity|assumption]|apply IH; assumption].
Qed.

Lemma dec_pick_nth : forall i ts j t, nthN ts j = Some t -> dec_pick i ts j = fmap (VVariant i) (decode t).
Proof.
  intros i ts. induction ts as [|t0 ts IH]; intros j t H; cbn [nthN] in H; [discriminate|].
  change (dec_pick i (t0 :: ts) j) with (if j =? 0 then fmap (VVariant i) (decode t0) else dec_pick i ts (N.pred j)).
  destruct (j =? 0); [inversion H; reflexivity|apply IH; assumption].
Qed.

(* ------------------------------------------------------------------ *)
Theorem universe_roundtrip : forall t v, wt t v = true ->
  forall r, run (decode t) (encode v ++ r) = Ok v (length (encode v)).
Proof.
  intros t. change (rt t). induction t using ty_ind'; intros v W r; try (exact (H tt v W r));
    destruct v; cbn [wt] in W; try discriminate.
  - (* u8 *) cbn [decode encode app]. rewrite run_fmap, run_read_byte. reflexivity.
  - (* bool *) cbn [decode encode app]. rewrite run_fmap. unfold dec_bool. rewrite run_read_cons.
    destruct b; cbn; rewrite run_ret; reflexivity.
  - (* unsigned *) cbn [decode encode]. rewrite run_fmap, varint_roundtrip by (apply N.ltb_lt; assumption). reflexivity.
  - (* signed *) cbn [decode encode]. rewrite run_fmap, svarint_roundtrip by assumption. reflexivity.
  - (* f64 *) apply andb_true_iff in W. destruct W as [L _]. apply PeanoNat.Nat.eqb_eq in L.
    cbn [decode encode]. rewrite run_fmap. rewrite <- L at 1. rewrite run_take_nat_ok. reflexivity.
  - (* bytes *) apply andb_true_iff in W. destruct W as [L _].
    cbn [decode encode]. rewrite run_len_prefix by assumption. rewrite run_fmap, run_take_ok.
    cbn [shift]. rewrite app_length. reflexivity.
  - (* str *) apply andb_true_iff in W. destruct W as [L U].
    cbn [decode encode]. rewrite run_len_prefix by assumption.
    rewrite (run_bind_ok _ _ _ _ _ _ bs (run_take_ok bs r)). rewrite U, run_ret.
    cbn [shift]. rewrite app_length. f_equal. lia.
  - (* None *) cbn [decode encode app]. rewrite run_read_cons. cbn. rewrite run_ret. reflexivity.
  - (* Some *) cbn [decode encode app]. rewrite run_read_cons.
    change (1 =? 0) with false. change (1 =? 1) with true. cbv iota.
    rewrite run_fmap, (IHt v W). reflexivity.
  - (* seq *) apply andb_true_iff in W. destruct W as [L F].
    cbn [decode encode]. rewrite run_len_prefix by assumption. rewrite run_fmap.
    rewrite (run_repN_ok val encode (decode t) vs).
    + cbn [shift]. rewrite app_length. reflexivity.
    + intros v Hin r'. apply IHt. rewrite forallb_forall in F. apply F. assumption.
  - (* tuple *) rewrite decode_tuple_eq. change (wt_tuple ts vs = true) in W.
    cbn [encode]. rewrite run_fmap, (dec_tuple_ok ts H vs W). reflexivity.
  - (* enum *) change (((idx <? wmax W32) && wt_pick v ts idx) = true) in W.
    apply andb_true_iff in W. destruct W as [I W].
    destruct (wt_pick_nth _ _ _ W) as [t' [E W']]. clear W. rename W' into W.
    rewrite decode_enum_eq. cbn [encode]. rewrite <- app_assoc.
    rewrite (run_bind_ok _ _ _ _ _ _ idx (varint_roundtrip W32 idx _ (proj1 (N.ltb_lt _ _) I))).
    rewrite (dec_pick_nth idx ts idx t' E), run_fmap.
    rewrite Forall_forall in H. rewrite (H t' (nthN_In _ _ _ _ E) v W).
    cbn [shift]. rewrite app_length. reflexivity.
Qed.

(* a value's encoding is consumed completely *)
Corollary universe_roundtrip_exact : forall t v, wt t v = true ->
  run (decode t) (encode v) = Ok v (length (encode v)).
Proof. intros t v W. pose proof (universe_roundtrip t v W []) as R. rewrite app_nil_r in R. exact R. Qed.

(* every strict prefix of an encoding is rejected with end-of-input *)
Corollary universe_truncated : forall t v k, wt t v = true -> (k < length (encode v))%nat ->
  run (decode t) (firstn k (encode v)) = Err Eof.
Proof. intros t v k W Hk. exact (strict_prefix_rejected _ _ _ _ _ (universe_roundtrip_exact t v W) k Hk). Qed.

(* the encoding is injective and self-delimiting on well-typed values *)
Corollary encode_prefix_free : forall t v1 v2 r1 r2, wt t v1 = true -> wt t v2 = true ->
  encode v1 ++ r1 = encode v2 ++ r2 -> v1 = v2 /\ r1 = r2.
Proof.
  intros t v1 v2 r1 r2 W1 W2 E.
  pose proof (universe_roundtrip t v1 W1 r1) as A. pose proof (universe_roundtrip t v2 W2 r2) as B.
  rewrite E in A. rewrite A in B. inversion B; subst. split; [reflexivity|].
  apply app_inv_head in E. exact E.
Qed.

(* maps are sequences of 2-tuples: same bytes *)
Example map_is_seq_of_pairs : forall k v, TMap k v = TSeq (TTuple [k; v]).
Proof. reflexivity. Qed.

(* a sequence of u8 and a byte string have the same encoding *)
Lemma seq_u8_is_bytes : forall bs, encode (VSeq (map VU8 bs)) = encode (VBytes bs).
Proof.
  intros bs. cbn [encode]. rewrite map_length. f_equal.
  induction bs as [|x bs IH]; [reflexivity|]. cbn [map flat_map encode app]. f_equal. exact IH.
Qed.
