(* C08 - bincode 2.0.1 `config::standard()` integer encoding
   (src/varint/{encode,decode}_{unsigned,signed}.rs, little endian):

     u <= 250              one byte  u
     u <  2^16             251, u as 2 LE bytes
     u <  2^32             252, u as 4 LE bytes
     otherwise             253, u as 8 LE bytes            (254 = u128, unused here)

   The decoder of a w-bit integer accepts every marker whose payload fits in w
   bits; it does NOT insist on the shortest form (251 05 00 decodes to 5), and
   rejects wider markers, 254 and 255 (`InvalidIntegerType`).  usize is
   encoded as u64.  Signed integers are zig-zag mapped to the unsigned type of
   the same width.  u8/i8 are single raw bytes (not varints). *)
From Coq Require Import List NArith ZArith Bool.
From YV Require Import Codec.Reader.
Import ListNotations.
Local Open Scope N_scope.

Inductive width := W16 | W32 | W64.
Definition wmax (w : width) : N :=          (* exclusive upper bound 2^bits *)
  match w with W16 => 65536 | W32 => 4294967296 | W64 => 18446744073709551616 end.
Definition shalf (w : width) : Z :=         (* 2^(bits-1) *)
  match w with W16 => 32768 | W32 => 2147483648 | W64 => 9223372036854775808 end%Z.

Fixpoint le_bytes (k : nat) (n : N) : bytes :=
  match k with O => [] | S k' => (n mod 256) :: le_bytes k' (n / 256) end.
Fixpoint le_val (bs : bytes) : N :=
  match bs with [] => 0 | b :: r => b + 256 * le_val r end.
(* big endian, only used to state what a change of byte order would break *)
Definition be_bytes (k : nat) (n : N) : bytes := rev (le_bytes k n).
Definition be_val (bs : bytes) : N := le_val (rev bs).

Definition enc_varint (n : N) : bytes :=
  if n <=? 250 then [n]
  else if n <? 65536 then 251 :: le_bytes 2 n
  else if n <? 4294967296 then 252 :: le_bytes 4 n
  else 253 :: le_bytes 8 n.

Definition read_le (k : nat) : dec N := fmap le_val (take_nat k).

Definition varint_k (w : width) (b : byte) : dec N :=
  if b <=? 250 then Ret b
  else if b =? 251 then read_le 2
  else if b =? 252 then match w with W16 => Fail | _ => read_le 4 end
  else if b =? 253 then match w with W64 => read_le 8 | _ => Fail end
  else Fail.
Definition dec_varint (w : width) : dec N := Read (varint_k w).

(* zig-zag: encode_signed.rs `!(v as uN) * 2 + 1` for v < 0, `v * 2` otherwise;
   decode_signed.rs `n / 2` for even n, `!(n / 2)` for odd n *)
Definition zigzag (z : Z) : N :=
  if (z <? 0)%Z then Z.to_N (1 + 2 * (- z - 1)) else Z.to_N (2 * z).
Definition unzigzag (n : N) : Z :=
  let z := Z.of_N n in if Z.even z then (z / 2)%Z else (- (z / 2) - 1)%Z.
Definition srange (w : width) (z : Z) : bool := ((- shalf w <=? z) && (z <? shalf w))%Z.

Definition enc_svarint (z : Z) : bytes := enc_varint (zigzag z).
Definition dec_svarint (w : width) : dec Z := fmap unzigzag (dec_varint w).
