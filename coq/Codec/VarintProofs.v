(* C08 - round trip and prefix-freeness of bincode's variable-length integers. *)
From Coq Require Import List NArith ZArith Bool Lia.
From YV Require Import Codec.Reader Codec.ReaderProofs Codec.Varint.
Import ListNotations.
Local Open Scope N_scope.

Lemma le_bytes_length : forall k n, length (le_bytes k n) = k.
Proof. induction k; intros; cbn [le_bytes length]; [reflexivity|f_equal; apply IHk]. Qed.

Lemma le_val_le_bytes : forall k n, n < 256 ^ N.of_nat k -> le_val (le_bytes k n) = n.
Proof.
  induction k as [|k IH]; intros n H.
  - cbn in H. cbn [le_bytes le_val]. lia.
  - cbn [le_bytes le_val]. rewrite IH.
    + pose proof (N.div_mod n 256). lia.
    + rewrite Nnat.Nat2N.inj_succ, N.pow_succ_r' in H. apply N.div_lt_upper_bound; lia.
Qed.

Lemma le_bytes_ok : forall k n, Forall (fun b => byte_ok b = true) (le_bytes k n).
Proof.
  induction k; intros; cbn [le_bytes]; constructor; [|apply IHk].
  unfold byte_ok. apply N.ltb_lt. apply N.mod_lt. lia.
Qed.

Lemma run_read_le : forall k n r, n < 256 ^ N.of_nat k ->
  run (read_le k) (le_bytes k n ++ r) = Ok n k.
Proof.
  intros k n r H. unfold read_le. rewrite run_fmap.
  pose proof (run_take_nat_ok (le_bytes k n) r) as T. rewrite le_bytes_length in T.
  rewrite T, le_val_le_bytes by assumption. reflexivity.
Qed.

Lemma enc_varint_cases : forall n,
  (n <= 250 /\ enc_varint n = [n]) \/
  (250 < n < 65536 /\ enc_varint n = 251 :: le_bytes 2 n) \/
  (65536 <= n < 4294967296 /\ enc_varint n = 252 :: le_bytes 4 n) \/
  (4294967296 <= n /\ enc_varint n = 253 :: le_bytes 8 n).
Proof.
  intros n. unfold enc_varint.
  destruct (N.leb_spec n 250); [left; split; [lia|reflexivity]|].
  destruct (N.ltb_spec n 65536); [right; left; split; [lia|reflexivity]|].
  destruct (N.ltb_spec n 4294967296); [right; right; left; split; [lia|reflexivity]|].
  right; right; right. split; [lia|reflexivity].
Qed.

(* decode (encode n ++ rest) = (n, rest) for every n of the width *)
Theorem varint_roundtrip : forall w n r, n < wmax w ->
  run (dec_varint w) (enc_varint n ++ r) = Ok n (length (enc_varint n)).
Proof.
  intros w n r H. unfold dec_varint.
  destruct (enc_varint_cases n) as [[R E]|[[R E]|[[R E]|[R E]]]]; rewrite E; cbn [app length]; rewrite run_read_cons.
  - unfold varint_k. replace (n <=? 250) with true by (symmetry; apply N.leb_le; lia).
    rewrite run_ret. reflexivity.
  - change (varint_k w 251) with (read_le 2). rewrite run_read_le by (change (256 ^ N.of_nat 2) with 65536; lia).
    rewrite le_bytes_length. reflexivity.
  - assert (Hw : varint_k w 252 = read_le 4) by (destruct w; [cbn in H; lia|reflexivity|reflexivity]).
    rewrite Hw, run_read_le by (change (256 ^ N.of_nat 4) with 4294967296; lia).
    rewrite le_bytes_length. reflexivity.
  - assert (Hw : varint_k w 253 = read_le 8) by (destruct w; [cbn in H; lia|cbn in H; lia|reflexivity]).
    rewrite Hw, run_read_le by (change (256 ^ N.of_nat 8) with 18446744073709551616; destruct w; cbn in H; lia).
    rewrite le_bytes_length. reflexivity.
Qed.

(* encodings are self-delimiting *)
Theorem varint_prefix_free : forall a b r1 r2,
  a < wmax W64 -> b < wmax W64 ->
  enc_varint a ++ r1 = enc_varint b ++ r2 -> a = b /\ r1 = r2.
Proof.
  intros a b r1 r2 Ha Hb E.
  pose proof (varint_roundtrip W64 a r1 Ha) as A. pose proof (varint_roundtrip W64 b r2 Hb) as B.
  rewrite E in A. rewrite A in B. inversion B; subst. split; [reflexivity|].
  apply app_inv_head in E. exact E.
Qed.

Corollary varint_no_strict_prefix : forall a b r,
  a < wmax W64 -> b < wmax W64 -> enc_varint a = enc_varint b ++ r -> r = [] /\ a = b.
Proof.
  intros a b r Ha Hb E. rewrite <- (app_nil_r (enc_varint a)) in E.
  apply varint_prefix_free in E; try assumption. destruct E; split; congruence.
Qed.

(* every strict prefix of an encoding is reported as end of input *)
Corollary varint_truncated : forall w n k, n < wmax w -> (k < length (enc_varint n))%nat ->
  run (dec_varint w) (firstn k (enc_varint n)) = Err Eof.
Proof.
  intros w n k H Hk. pose proof (varint_roundtrip w n [] H) as R. rewrite app_nil_r in R.
  exact (strict_prefix_rejected _ _ _ _ _ R k Hk).
Qed.

(* bincode accepts non-canonical (over-long) forms: the decoder is not injective *)
Example varint_noncanonical_accepted :
  run (dec_varint W16) [251; 5; 0] = Ok 5 3%nat /\ enc_varint 5 = [5].
Proof. vm_compute. split; reflexivity. Qed.
(* a marker wider than the expected type is invalid, whatever follows *)
Example varint_wide_marker_rejected :
  run (dec_varint W16) [252; 1; 0; 0; 0] = Err Invalid /\ run (dec_varint W32) [253] = Err Invalid /\
  run (dec_varint W64) [254] = Err Invalid /\ run (dec_varint W64) [255] = Err Invalid.
Proof. vm_compute. repeat split. Qed.

(* ---- zig-zag ---- *)
Theorem zigzag_roundtrip : forall z, unzigzag (zigzag z) = z.
Proof.
  intros z. unfold zigzag, unzigzag. destruct (Z.ltb_spec z 0).
  - rewrite Z2N.id by lia. rewrite Z.even_add_mul_2. cbn [Z.even].
    replace ((1 + 2 * (- z - 1)) / 2)%Z with (- z - 1)%Z by (apply Z.div_unique with (r := 1%Z); lia). lia.
  - rewrite Z2N.id by lia. replace (2 * z)%Z with (0 + 2 * z)%Z by lia. rewrite Z.even_add_mul_2. cbn [Z.even].
    replace ((0 + 2 * z) / 2)%Z with z by (apply Z.div_unique with (r := 0%Z); lia). reflexivity.
Qed.

Theorem zigzag_range : forall w z, srange w z = true -> zigzag z < wmax w.
Proof.
  intros w z H. unfold srange in H. apply andb_true_iff in H. destruct H as [L U].
  apply Z.leb_le in L. apply Z.ltb_lt in U. unfold zigzag.
  destruct (Z.ltb_spec z 0); destruct w; cbn [shalf wmax] in *; lia.
Qed.

Theorem unzigzag_zigzag : forall n, zigzag (unzigzag n) = n.
Proof.
  intros n. unfold unzigzag, zigzag. cbv zeta.
  pose proof (Z.div_mod (Z.of_N n) 2 ltac:(lia)) as D.
  pose proof (Z.mod_pos_bound (Z.of_N n) 2 ltac:(lia)) as B.
  destruct (Z.even (Z.of_N n)) eqn:E.
  - apply Z.even_spec in E. destruct E as [k E].
    assert (Z.of_N n / 2 = k)%Z by (symmetry; apply Z.div_unique with (r := 0%Z); lia).
    destruct (Z.ltb_spec (Z.of_N n / 2) 0); lia.
  - assert (O : Z.odd (Z.of_N n) = true) by (rewrite <- Z.negb_even, E; reflexivity).
    apply Z.odd_spec in O. destruct O as [k O].
    assert (Z.of_N n / 2 = k)%Z by (symmetry; apply Z.div_unique with (r := 1%Z); lia).
    destruct (Z.ltb_spec (- (Z.of_N n / 2) - 1) 0); lia.
Qed.

Theorem svarint_roundtrip : forall w z r, srange w z = true ->
  run (dec_svarint w) (enc_svarint z ++ r) = Ok z (length (enc_svarint z)).
Proof.
  intros w z r H. unfold dec_svarint, enc_svarint. rewrite run_fmap.
  rewrite varint_roundtrip by (apply zigzag_range; assumption). rewrite zigzag_roundtrip. reflexivity.
Qed.
