(* Rule accounting from the CST to the built rules (C09).

   cst2ast.rs Builder::build_ast turns every top-level CST node into an AST item, or abandons it
   (Gen/AstBuilderArms.v says what each arm does); compiler/mod.rs c_items then compiles every
   rule item into `rules`, or `ignored_rules` (+ a warning), or `ignored_rules` + `errors`;
   add_source finally appends the AST's errors.  Definitions only. *)
From Coq Require Import List NArith Bool Arith.
From YV Require Import Gen.AstBuilderArms.
Import ListNotations.

(* ---- AST builder *)
(* one top-level CST node as the builder meets it *)
Record cst_item := mkCstItem {
  ci_kind : item_kind;
  ci_name : N;                 (* the rule's identifier (interned) *)
  ci_res : bres;               (* result of rule_decl()/import_stmt()/include_stmt() *)
  ci_errs : nat }.             (* errors pushed / Error events forwarded while the node is consumed *)

Record ast := mkAst { a_items : list (item_kind * N); a_errors : nat }.

Definition build_item (a : ast) (c : cst_item) : ast :=
  match build_ast_arm (ci_kind c) (ci_res c) with
  | APush => mkAst (a_items a ++ [(ci_kind c, ci_name c)]) (a_errors a + ci_errs c)
  | ARecover => mkAst (a_items a) (a_errors a + ci_errs c)
  (* `{}`: nothing here; the loop then skips the rest of the node through recover() *)
  | ANothing => mkAst (a_items a) (a_errors a + ci_errs c)
  end.
Definition build_ast (nodes : list cst_item) : ast := fold_left build_item nodes (mkAst [] 0).

(* ---- compiler *)
Inductive outcome :=
| OCompiled                    (* c_rule pushed the rule, Ok(()) *)
| OTolerated (arm : nat)       (* c_rule tolerated an error (ignored module / ignored rule), Ok(()) *)
| OFailed (extra : nat).       (* c_rule returned Err (extra = linter errors pushed before) *)

Record comp := mkComp { c_rules : list N; c_ignored : list N; c_warns : nat; c_errs : nat }.

Definition c_item (oracle : N -> outcome) (s : comp) (it : item_kind * N) : comp :=
  match fst it with
  | KRule =>
    let name := snd it in
    match oracle name with
    | OCompiled => mkComp (c_rules s ++ [name]) (c_ignored s) (c_warns s) (c_errs s)
    | OTolerated i =>
        let '(pi, pw) := nth i c_rule_tolerated_arms (false, false) in
        mkComp (c_rules s) (if pi then c_ignored s ++ [name] else c_ignored s)
               (if pw then S (c_warns s) else c_warns s) (c_errs s)
    | OFailed extra =>
        mkComp (c_rules s)
               (if c_items_err_pushes_ignored then c_ignored s ++ [name] else c_ignored s)
               (c_warns s)
               (c_errs s + extra + (if c_items_err_pushes_error then 1 else 0))
    end
  | _ => s      (* imports/includes do not touch rules / ignored_rules here *)
  end.
Definition c_items (oracle : N -> outcome) (items : list (item_kind * N)) (s : comp) : comp :=
  fold_left (c_item oracle) items s.

(* add_source: parse, build the AST, c_items, then errors.extend(ast.into_errors()) *)
Definition add_source (oracle : N -> outcome) (nodes : list cst_item) (s : comp) : comp :=
  let a := build_ast nodes in
  let s' := c_items oracle (a_items a) s in
  mkComp (c_rules s') (c_ignored s') (c_warns s') (c_errs s' + a_errors a).

Definition valid_outcome (o : outcome) : bool :=
  match o with OTolerated i => Nat.ltb i (length c_rule_tolerated_arms) | _ => true end.
