(* C06's use of the rule-accounting model of Compiler/Accounting.v (shared with
   C09): a rule whose compilation fails ends in ignored_rules. *)
From Coq Require Import List NArith Bool Arith Lia.
From YV Require Import Gen.AstBuilderArms Compiler.Accounting Compiler.AccountingProofs.
Import ListNotations.

Lemma failed_rule_in_ignored : forall oracle items s name x,
  In (KRule, name) items -> oracle name = OFailed x ->
  In name (c_ignored (c_items oracle items s)).
Proof.
  intros oracle items. induction items as [|it items IH]; intros s name x H O; [destruct H|].
  cbn [c_items fold_left]. fold (c_items oracle items (c_item oracle s it)).
  destruct H as [->|H]; [|exact (IH _ _ _ H O)].
  destruct (c_items_mono oracle items (c_item oracle s (KRule, name)) name) as (_ & B & _).
  apply B. unfold c_item. cbn [fst snd]. rewrite O.
  destruct failed_rule_is_ignored_and_reported as [-> _].
  cbn [c_ignored]. apply in_or_app. right. left. reflexivity.
Qed.
