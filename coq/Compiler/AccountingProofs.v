(* no rule disappears silently -- and where, on the current tree, one does. *)
From Coq Require Import List NArith Bool Arith Lia.
From YV Require Import Gen.AstBuilderArms Compiler.Accounting.
Import ListNotations.

(* every arm of c_rule / c_items that does not push the rule pushes it to ignored_rules;
   these are facts about the GENERATED tables: they fail to check when the source drops a push *)
Lemma tolerated_arms_push_ignored : forallb fst c_rule_tolerated_arms = true.
Proof. vm_compute. reflexivity. Qed.
Lemma failed_rule_is_ignored_and_reported :
  c_items_err_pushes_ignored = true /\ c_items_err_pushes_error = true.
Proof. vm_compute. split; reflexivity. Qed.

Lemma nth_tolerated : forall i, Nat.ltb i (length c_rule_tolerated_arms) = true ->
  fst (nth i c_rule_tolerated_arms (false, false)) = true.
Proof.
  intros i H. apply Nat.ltb_lt in H.
  pose proof tolerated_arms_push_ignored as F. rewrite forallb_forall in F.
  apply F. now apply nth_In.
Qed.

(* ---- c_items *)
Lemma c_item_mono : forall oracle s it n,
  (In n (c_rules s) -> In n (c_rules (c_item oracle s it))) /\
  (In n (c_ignored s) -> In n (c_ignored (c_item oracle s it))) /\
  c_errs s <= c_errs (c_item oracle s it).
Proof.
  intros oracle s [k name] n. unfold c_item. cbn [fst snd]. destruct k; [|repeat split; auto|repeat split; auto].
  destruct (oracle name) as [|i|x].
  - cbn. repeat split; auto. intros. apply in_or_app. now left.
  - destruct (nth i c_rule_tolerated_arms (false, false)) as [pi pw]. cbn.
    repeat split; auto. destruct pi; auto. intros. apply in_or_app. now left.
  - destruct c_items_err_pushes_ignored, c_items_err_pushes_error; cbn; repeat split; auto; try lia;
      intros; apply in_or_app; now left.
Qed.

Lemma c_items_mono : forall oracle items s n,
  (In n (c_rules s) -> In n (c_rules (c_items oracle items s))) /\
  (In n (c_ignored s) -> In n (c_ignored (c_items oracle items s))) /\
  c_errs s <= c_errs (c_items oracle items s).
Proof.
  intros oracle items. induction items as [|it items IH]; intros s n; cbn [c_items fold_left].
  - repeat split; auto.
  - destruct (c_item_mono oracle s it n) as (A & B & C).
    destruct (IH (c_item oracle s it) n) as (A' & B' & C'). fold (c_items oracle items (c_item oracle s it)) in *.
    repeat split; [auto|auto|lia].
Qed.

(* c_items: every rule item ends in rules or in ignored_rules (and a failed one adds an error) *)
Theorem no_rule_lost : forall oracle items s name,
  In (KRule, name) items -> valid_outcome (oracle name) = true ->
  let s' := c_items oracle items s in
  In name (c_rules s') \/ In name (c_ignored s').
Proof.
  intros oracle items. induction items as [|it items IH]; intros s name H V; [destruct H|].
  cbn [c_items fold_left]. fold (c_items oracle items (c_item oracle s it)).
  destruct H as [->|H]; [|now apply IH].
  destruct (c_items_mono oracle items (c_item oracle s (KRule, name)) name) as (A & B & _).
  unfold c_item in *. cbn [fst snd] in *.
  destruct (oracle name) as [|i|x] eqn:O.
  - left. apply A. cbn. apply in_or_app. right. now left.
  - right. apply B. cbn [valid_outcome] in V. pose proof (nth_tolerated i V) as T.
    destruct (nth i c_rule_tolerated_arms (false, false)) as [pi pw]. cbn [fst] in T. subst pi.
    cbn. apply in_or_app. right. now left.
  - right. apply B. destruct failed_rule_is_ignored_and_reported as [-> _].
    cbn. apply in_or_app. right. now left.
Qed.

Theorem failed_rule_reports_error : forall oracle items s name x,
  In (KRule, name) items -> oracle name = OFailed x ->
  c_errs s < c_errs (c_items oracle items s).
Proof.
  intros oracle items. induction items as [|it items IH]; intros s name x H O; [destruct H|].
  cbn [c_items fold_left]. fold (c_items oracle items (c_item oracle s it)).
  destruct H as [->|H].
  - destruct (c_items_mono oracle items (c_item oracle s (KRule, name)) name) as (_ & _ & C).
    unfold c_item in *. cbn [fst snd] in *. rewrite O in *.
    destruct failed_rule_is_ignored_and_reported as [_ E]. rewrite E in *. cbn [c_errs] in C. lia.
  - destruct (c_item_mono oracle s it name) as (_ & _ & C). specialize (IH (c_item oracle s it) _ _ H O). lia.
Qed.

(* ---- AST builder *)
Lemma build_item_mono : forall a c it,
  (In it (a_items a) -> In it (a_items (build_item a c))) /\ a_errors a <= a_errors (build_item a c).
Proof.
  intros a c it. unfold build_item. destruct (build_ast_arm (ci_kind c) (ci_res c)); cbn; split; auto; try lia.
  intros. apply in_or_app. now left.
Qed.

Lemma build_fold_mono : forall nodes a it,
  (In it (a_items a) -> In it (a_items (fold_left build_item nodes a))) /\
  a_errors a <= a_errors (fold_left build_item nodes a).
Proof.
  induction nodes as [|c nodes IH]; intros a it; cbn [fold_left]; [split; auto|].
  destruct (build_item_mono a c it) as [A B]. destruct (IH (build_item a c) it) as [A' B'].
  split; [auto|lia].
Qed.

(* Builder::begin pushes an error before it returns MaxDepthReached: a fact about the GENERATED
   table; it fails to check if the source stops reporting the depth limit (the defect repaired
   by 2a225f1e: the arm `Err(MaxDepthReached) => {}` used to drop the rule silently) *)
Lemma depth_limit_is_reported : maxdepth_pushes_error = true.
Proof. vm_compute. reflexivity. Qed.

(* A declared rule either becomes an AST item or leaves at least one error.  The hypotheses say
   what a node carries: an aborted rule has an error (the parser's Error event for its ERROR
   node, or the error the builder pushed; S checks this on every generated source), and a rule
   that hit MAX_AST_DEPTH has the error Builder::begin pushes (when it pushes one). *)
Definition ast_no_rule_lost_stmt : Prop := forall nodes c,
  In c nodes -> ci_kind c = KRule ->
  (ci_res c = BAbort -> 1 <= ci_errs c) ->
  (ci_res c = BMaxDepth -> maxdepth_pushes_error = true -> 1 <= ci_errs c) ->
  let a := build_ast nodes in
  In (KRule, ci_name c) (a_items a) \/ 1 <= a_errors a.

Theorem ast_no_rule_lost : ast_no_rule_lost_stmt.
Proof.
  intros nodes c H K AB MD. unfold build_ast. generalize (mkAst [] 0).
  induction nodes as [|d nodes IH]; intros a; [destruct H|]. cbn [fold_left].
  destruct H as [->|H]; [|now apply IH].
  destruct (build_fold_mono nodes (build_item a c) (KRule, ci_name c)) as [A B].
  unfold build_item in *. rewrite K in *.
  destruct (ci_res c) eqn:R.
  - destruct (build_ast_arm KRule BOk) eqn:Arm; try (vm_compute in Arm; discriminate).
    left. apply A. cbn. apply in_or_app. right. now left.
  - right. specialize (AB eq_refl).
    destruct (build_ast_arm KRule BAbort); cbn [a_errors] in B; lia.
  - right. specialize (MD eq_refl depth_limit_is_reported).
    destruct (build_ast_arm KRule BMaxDepth); cbn [a_errors] in B; lia.
Qed.

(* end to end on the input that used to be dropped silently:
   rule a {..}  rule deep {condition: not not .. true}  rule b {..} *)
Example depth_limit_witness :
  let s := add_source (fun _ => OCompiled)
             [mkCstItem KRule 1 BOk 0; mkCstItem KRule 2 BMaxDepth 1; mkCstItem KRule 3 BOk 0]
             (mkComp [] [] 0 0) in
  c_rules s = [1%N; 3%N] /\ c_ignored s = [] /\ c_errs s = 1.
Proof. vm_compute. repeat split. Qed.

(* source to rules: every declared rule is built, ignored with a reason, or there is an error *)
Theorem source_no_rule_lost : forall oracle nodes s c,
  In c nodes -> ci_kind c = KRule ->
  (ci_res c = BAbort -> 1 <= ci_errs c) ->
  (ci_res c = BMaxDepth -> maxdepth_pushes_error = true -> 1 <= ci_errs c) ->
  valid_outcome (oracle (ci_name c)) = true ->
  let s' := add_source oracle nodes s in
  In (ci_name c) (c_rules s') \/ In (ci_name c) (c_ignored s') \/ c_errs s < c_errs s'.
Proof.
  intros oracle nodes s c H K AB MD V. unfold add_source. cbn [c_rules c_ignored c_errs].
  destruct (ast_no_rule_lost nodes c H K AB MD) as [I|E].
  - destruct (no_rule_lost oracle _ s _ I V) as [R|G]; [left; exact R|right; left; exact G].
  - right. right. destruct (c_items_mono oracle (a_items (build_ast nodes)) s 0%N) as (_ & _ & C). lia.
Qed.

Example accounting_nonvacuous :
  let s := add_source (fun n => if N.eqb n 2 then OFailed 0 else if N.eqb n 3 then OTolerated 0 else OCompiled)
             [mkCstItem KRule 1 BOk 0; mkCstItem KRule 2 BOk 0; mkCstItem KRule 3 BOk 0; mkCstItem KRule 4 BAbort 1]
             (mkComp [] [] 0 0) in
  c_rules s = [1%N] /\ c_ignored s = [2%N; 3%N] /\ c_warns s = 1 /\ c_errs s = 2.
Proof. vm_compute. repeat split. Qed.

(* each rule item lands in exactly one of rules / ignored_rules (what K compares with the
   implementation: #AST rule items = #built + #ignored) *)
Definition count_rules (items : list (item_kind * N)) : nat :=
  length (filter (fun it => match fst it with KRule => true | _ => false end) items).

Lemma count_rules_cons : forall it items,
  count_rules (it :: items) = (match fst it with KRule => 1 | _ => 0 end) + count_rules items.
Proof. intros [k n] items. unfold count_rules. cbn [filter fst]. destruct k; reflexivity. Qed.

Theorem rule_count_exact : forall oracle items s,
  forallb (fun it => match fst it with KRule => valid_outcome (oracle (snd it)) | _ => true end) items = true ->
  let s' := c_items oracle items s in
  length (c_rules s') + length (c_ignored s') = length (c_rules s) + length (c_ignored s) + count_rules items.
Proof.
  intros oracle items. induction items as [|it items IH]; intros s V.
  - cbn. lia.
  - cbn [c_items fold_left]. rewrite count_rules_cons.
    cbn [forallb] in V. apply andb_true_iff in V. destruct V as [V1 V2].
    fold (c_items oracle items (c_item oracle s it)). rewrite (IH _ V2).
    destruct it as [k name]. unfold c_item. cbn [fst snd] in *. destruct k; try lia.
    destruct (oracle name) as [|i|x] eqn:O.
    + cbn [c_rules c_ignored]. rewrite app_length. cbn [length]. lia.
    + cbn [valid_outcome] in V1. pose proof (nth_tolerated i V1) as T.
      destruct (nth i c_rule_tolerated_arms (false, false)) as [pi pw]. cbn [fst] in T. subst pi.
      cbn [c_rules c_ignored]. rewrite app_length. cbn [length]. lia.
    + destruct failed_rule_is_ignored_and_reported as [E _]. rewrite E.
      cbn [c_rules c_ignored]. rewrite app_length. cbn [length]. lia.
Qed.

(* ---- where the hypothesis "an aborted rule carries an error" comes from (Compiler/CstAgreement.v) *)
From YV Require Import Compiler.CstAgreement.

(* exactly one place of cst2ast.rs aborts without an ERROR node and without pushing an error: the
   kind test of Builder::begin *)
Lemma one_silent_abort_site : silent_abort_sites = 1.
Proof. vm_compute. reflexivity. Qed.

(* ... and the grammar / builder pair is the one that was reviewed *)
Lemma cst_shape_pinned : cst_shape_digest = pinned_cst_shape.
Proof. vm_compute. reflexivity. Qed.
