(* Correspondence (K) and specification (S) cases for C09: what Compiler::add_source + build
   did with one source text (observed in a child process by harness/src/bin/c09.rs). *)
From Coq Require Import List NArith Bool Arith.
From YV Require Import Base.Utf8 Gen.AstBuilderArms Compiler.Accounting.
Import ListNotations.
Local Open Scope N_scope.

Record case := mkCase {
  c_crashed : bool;            (* the child process died or did not answer in time on this case *)
  c_panicked : bool;
  c_add_ok : bool;
  c_nerr : nat; c_nwarn : nat;
  c_render_ok : bool;          (* every error and warning rendered (Display, title) to a non-empty string *)
  c_build_ok : bool;
  c_labels : list (N * N * N * bool * bool);  (* label span, length of the text it refers to (the submitted source, or the
                                  included file named by the label's origin), is_char_boundary(start), is_char_boundary(end) in it *)
  c_len : N;                   (* length of the rendered source (the lossy conversion for invalid UTF-8) *)
  c_declared : list N;         (* names of the RULE_DECL nodes of the CST (interned per case) *)
  c_built : list N;            (* rules in the built Rules *)
  c_ignored : list N;          (* Compiler::ignored_rules *)
  c_ast_rules : option (list N);   (* Rule items of AST::from(source) *)
  c_utf8 : option (list N * (N * option N) * option (N * N));
                               (* invalid UTF-8: the bytes, std's (valid_up_to, error_len), the span of the E032 label *)
  c_re_outside : nat;          (* labels of `invalid regular expression` errors lying outside every REGEXP token *)
  c_linecol : list (bool * bool);  (* per label: its (line, column) equals the one computed from the span start with
                                      lines ending at \n only / at \n, \r\n and lone \r *)
  c_head_ok : bool;            (* line/column of the diagnostic = its first label's; the `-->` of the rendered text is some label's *)
  c_decl_spans : list (N * N); (* spans of the RULE_DECL nodes, parallel to c_declared *)
  c_err_labels : list (N * N); (* label spans of the errors (those located in the submitted source) *)
  c_twin_mismatch : bool       (* exchanging base64 and base64wide changes whether the source is accepted or its error codes *)
}.

Definition mem (x : N) (l : list N) : bool := existsb (N.eqb x) l.
Definition opt_pair_eqb (a b : option (N * N)) : bool :=
  match a, b with
  | Some x, Some y => (fst x =? fst y) && (snd x =? snd y)
  | None, None => true
  | _, _ => false
  end.
Definition optN_eqb (a b : option N) : bool :=
  match a, b with Some x, Some y => x =? y | None, None => true | _, _ => false end.

(* K: the models recompute what the implementation reported *)
Definition check_case (c : case) : bool :=
  if c_crashed c || c_panicked c then true else      (* nothing to compare; S reports it *)
  (* UTF-8: validate/error_span/lossy agree with from_utf8, the E032 span and the rendered length *)
  match c_utf8 c with
  | None => true
  | Some (bytes, (v, el), sp) =>
      match validate bytes 0 with
      | Some (v', el') =>
          (v =? v') && optN_eqb el el' &&
          opt_pair_eqb sp (Some (error_span (v', el'))) &&
          (N.of_nat (length (lossy bytes)) =? c_len c) &&
          span_ok (lossy bytes) (error_span (v', el'))
      | None => false
      end
  end &&
  (* accounting: c_items puts every AST rule item into exactly one of rules / ignored_rules,
     and AST rule items come from declared rules *)
  match c_ast_rules c with
  | None => true
  | Some ar =>
      Nat.eqb (length ar) (length (c_built c) + length (c_ignored c)) &&
      forallb (fun n => mem n (c_built c) || mem n (c_ignored c)) ar &&
      forallb (fun n => mem n (c_declared c)) ar &&
      Nat.leb (length ar) (length (c_declared c))
  end &&
  (* the report builder counts lines at \n only (lone \r is not a line end; \r\n counts once) *)
  forallb fst (c_linecol c) && c_head_ok c &&
  (* base64 and base64wide put the same requirements on a pattern *)
  negb (c_twin_mismatch c).

(* S: the property on the implementation's answer *)
Definition spec_case (c : case) : bool :=
  negb (c_crashed c) && negb (c_panicked c) && c_build_ok c && c_render_ok c &&
  Bool.eqb (c_add_ok c) (Nat.eqb (c_nerr c) 0) &&
  forallb (fun l => let '(a, b, n, x, y) := l in (a <=? b) && (b <=? n) && x && y) (c_labels c) &&
  (* the location of a regexp error lies inside the regexp it is about *)
  Nat.eqb (c_re_outside c) 0 &&
  (* a reported (line, column) designates the start of the span *)
  forallb (fun p => fst p || snd p) (c_linecol c) &&
  (* per rule: built, or ignored with a reason, or covered by an error located in the rule *)
  forallb (fun ds =>
     let '(n, (lo, hi)) := ds in
     mem n (c_built c) || mem n (c_ignored c) ||
     existsb (fun l => (fst l <=? hi) && (lo <=? snd l)) (c_err_labels c))
    (combine (c_declared c) (c_decl_spans c)).
