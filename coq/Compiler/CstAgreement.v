(* The hypothesis `ci_res c = BAbort -> 1 <= ci_errs c` of ast_no_rule_lost says that the AST
   builder abandons a rule only with an error on record.  cst2ast.rs produces BuilderError::Abort
   at the sites listed in Gen/AstBuilderArms.v [abort_sites]:
     - below an ERROR node of the CST (the parser reported it: Error event forwarded by recover);
     - right after pushing an error of its own;
     - in Builder::begin, when the next CST node is not of the kind the builder expects
       (AShapeMismatch) -- NO error is recorded there.
   The last site is unreachable exactly as long as the grammar (parser/src/parser/mod.rs) only
   produces CSTs of the shapes cst2ast.rs walks.  That agreement cannot be derived by the
   translator; it was reviewed for the pair identified by the digest below.  When either side
   changes, the digest regenerated in Gen/AstBuilderArms.v differs, [cst_shape_pinned] stops
   checking, and the change has to be reviewed (Gen/CstShape.txt shows both sides) before the
   pin is updated here.  Definitions only. *)
From Coq Require Import List NArith Bool.
From YV Require Import Gen.AstBuilderArms.
Import ListNotations.

Definition pinned_cst_shape : N := 46395879558256145%N.

Definition is_shape_mismatch (a : abort_class) : bool :=
  match a with AShapeMismatch => true | _ => false end.
(* Abort sites that record no error and are not below an ERROR node *)
Definition silent_abort_sites : nat := length (filter is_shape_mismatch abort_sites).
