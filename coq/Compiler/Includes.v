(* The include stack of the compiler (Compiler.include_stack).

   c_items pushes the path of an included file before compiling it with a nested
   add_source and pops it afterwards; the stack serves two purposes: detecting
   circular includes and resolving relative include paths (the directory of the
   file on top is searched first).  It is compiler state that must be the same
   before and after every add_source call, failing or not.  Whether the push and
   the pop are balanced in the source is a generated fact
   (Gen/SnapshotGen.v, include_stack_balanced). *)
From Coq Require Import List NArith Bool.
Import ListNotations.
Local Open Scope N_scope.

(* an item of a source: a rule (compiling or failing: irrelevant for the stack)
   or an include of the file with that path id *)
Inductive item := IRule (ok : bool) | IInclude (path : N).

(* files : path -> items of that file.  The recursion through the file table is
   bounded by fuel; the circular-include test bounds the real recursion by the
   number of distinct files.  [balanced] is the generated fact. *)
Fixpoint run_items (balanced : bool) (fuel : nat) (files : N -> list item)
         (items : list item) (st : list N) : list N :=
  match fuel with
  | O => st
  | S f =>
      fold_left (fun st it =>
        match it with
        | IRule _ => st
        | IInclude p =>
            if existsb (N.eqb p) st then st                      (* circular include: error, nothing pushed *)
            else let st' := run_items balanced f files (files p) (p :: st) in
                 if balanced then tl st' else st'
        end) items st
  end.

(* top of the stack decides where a relative include is looked up first *)
Definition lookup_dir (st : list N) : option N := hd_error st.
