From Coq Require Import List NArith Bool.
From YV Require Import Compiler.Includes.
Import ListNotations.
Local Open Scope N_scope.

(* with a balanced push/pop, compiling any source (any include tree, any failing
   rules, any fuel) leaves the include stack exactly as it found it *)
Theorem include_stack_restored_gen : forall fuel files items st,
  run_items true fuel files items st = st.
Proof.
  induction fuel as [|f IH]; intros files items st; [reflexivity|].
  cbn [run_items]. revert st. induction items as [|it items IHi]; intros st; [reflexivity|].
  cbn [fold_left]. destruct it as [ok|p].
  - apply IHi.
  - destruct (existsb (N.eqb p) st); [apply IHi|].
    rewrite IH. cbn [tl]. apply IHi.
Qed.

(* the hypothesis matters: without the pop an included file stays on the stack, and the next
   top-level source resolves its relative includes next to that file *)
Example unbalanced_leaves_file_on_stack :
  let files := fun p : N => if N.eqb p 7 then [IRule false] else [] in
  run_items false 3 files [IInclude 7] [] = [7] /\
  lookup_dir (run_items false 3 files [IInclude 7] []) = Some 7 /\
  lookup_dir (run_items true 3 files [IInclude 7] []) = None.
Proof. vm_compute. repeat split. Qed.
