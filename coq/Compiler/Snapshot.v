(* Model of Compiler::take_snapshot / restore_snapshot (lib/src/compiler/mod.rs)
   over the GENERATED tables of Gen/SnapshotGen.v:
     - the fields of `struct Compiler`,
     - what the snapshot records, what restore does, statement by statement,
     - every syntactic mutation of a compiler field reachable from the fallible
       region of c_rule.
   The compiler state is abstract: each field holds a vector, a map related to
   pattern ids, a number or an opaque history.  A rule that fails performs an
   arbitrary sequence of the mutations the source contains; the property is that
   restore(snapshot) brings every field that can be observed after build() back
   to its value at snapshot time. *)
From Coq Require Import List NArith Bool String.
From YV Require Import Gen.SnapshotGen.
Import ListNotations.
Local Open Scope N_scope.

Inductive fval :=
| VVec (l : list N)               (* Vec / BitVec / stack: append, truncate, set *)
| VKMap (m : list (N * N))        (* map keyed by PatternId *)
| VVMap (m : list (N * N))        (* map whose value is a PatternId *)
| VNum (n : N)                    (* a counter such as next_pattern_id *)
| VOther (h : list N).            (* anything else: history of opaque changes *)

Definition cstate := field -> fval.

(* ---- hand-written classification (DESIGN.md appendix B), checked against the
   generated field list by exhaustive pattern matching: a new Compiler field
   without a classification does not compile. ---------------------------------- *)
Inductive fclass :=
| Restored          (* must be back to its snapshot-time value *)
| ToleratedJunk     (* append-only pools / unused ids: documented as left behind *)
| Diagnostics       (* warnings, errors, ignored rules: recording the failure is required *)
| PerRuleScratch    (* cleared at the start of every rule *)
| Config.           (* never written while compiling a rule *)

Definition classify (f : field) : fclass :=
  match f with
  | F_rules | F_sub_patterns | F_anchored_sub_patterns | F_atoms | F_re_code
  | F_fast_scan_patterns | F_next_pattern_id | F_patterns | F_filesize_bounds
  | F_header_constraints | F_symbol_table => Restored
  | F_ident_pool | F_lit_pool | F_regex_pool | F_regex_sets => ToleratedJunk
  | F_warnings | F_errors | F_ignored_rules
  | F_rules_depending_on_unsupported_modules | F_ir_writer => Diagnostics
  | F_ir => PerRuleScratch
  | F_relaxed_re_syntax | F_hoisting | F_include_dirs | F_error_on_slow_pattern
  | F_error_on_slow_loop | F_includes_enabled | F_include_stack | F_report_builder
  | F_global_symbols | F_current_namespace | F_wasm_mod | F_wasm_symbols
  | F_wasm_exports | F_imported_modules | F_ignored_modules | F_banned_modules
  | F_root_struct | F_features | F_linters => Config
  end.

Definition must_restore (f : field) : bool :=
  match classify f with Restored | Config => true | _ => false end.

(* `&mut self.f` handed to a callee: for these fields the callee only appends
   (re_code: the regexp compiler appends code; symbol_table: scopes are pushed
   and popped in a balanced way, extra scopes removed by truncate).  Assumed;
   validated by K. *)
Definition passmut_appends (f : field) : bool :=
  match f with F_re_code | F_symbol_table => true | _ => false end.

(* ---- one step of work done by a failing rule ---------------------------- *)
Inductive work :=
| WAppend (f : field) (x : N)
| WInsertKey (f : field) (k v : N)
| WInsertVal (f : field) (k v : N)
| WIncr (f : field)
| WSet (f : field) (i : nat) (x : N)
| WOpaque (f : field) (x : N).

Definition target (w : work) : field :=
  match w with
  | WAppend f _ | WInsertKey f _ _ | WInsertVal f _ _ | WIncr f | WSet f _ _ | WOpaque f _ => f
  end.

Fixpoint set_nth (l : list N) (i : nat) (x : N) : list N :=
  match l, i with
  | [], _ => []
  | _ :: t, O => x :: t
  | h :: t, S i' => h :: set_nth t i' x
  end.

Definition apply_val (w : work) (v : fval) : fval :=
  match w, v with
  | WAppend _ x, VVec l => VVec (l ++ [x])
  | WInsertKey _ k x, VKMap m => VKMap ((k, x) :: m)
  | WInsertVal _ k x, VVMap m => VVMap ((k, x) :: m)
  | WIncr _, VNum n => VNum (n + 1)
  | WSet _ i x, VVec l => VVec (set_nth l i x)
  | WOpaque _ x, VOther h => VOther (h ++ [x])
  | WAppend _ x, VOther h => VOther (h ++ [x])
  | _, v => v
  end.

Definition apply (w : work) (s : cstate) : cstate :=
  fun f => if field_eqb f (target w) then apply_val w (s f) else s f.

Definition apply_all (ws : list work) (s : cstate) : cstate := fold_left (fun s w => apply w s) ws s.

(* which generated mutation kinds a step of work is an instance of *)
Definition kinds_of (w : work) : list mkind :=
  match w with
  | WAppend f _ => if passmut_appends f then [Append; PassMut] else [Append]
  | WInsertKey _ _ _ | WInsertVal _ _ _ => [Insert]
  | WIncr _ => [Incr]
  | WSet _ _ _ => [SetExisting; MutExisting]
  | WOpaque f _ => if passmut_appends f then [Intern; MutExisting; AssignK; Shrink]
                   else [Intern; PassMut; MutExisting; AssignK; Shrink]
  end.

Definition mkind_eqb (a b : mkind) : bool :=
  match a, b with
  | Append, Append | Insert, Insert | Incr, Incr | SetExisting, SetExisting
  | MutExisting, MutExisting | Intern, Intern | PassMut, PassMut | AssignK, AssignK
  | Shrink, Shrink => true
  | _, _ => false
  end.

(* the step is one the source can perform in the fallible region *)
Definition in_source (w : work) : bool :=
  existsb (fun fk => field_eqb (fst fk) (target w) && existsb (mkind_eqb (snd fk)) (kinds_of w)) mutations.

(* pattern ids handed out after the snapshot are >= the snapshot's next_pattern_id
   (c_rule inserts into the id-related maps only for `pending_patterns`) *)
Definition fresh_ids (nid0 : N) (w : work) : bool :=
  match w with
  | WInsertKey _ k _ => nid0 <=? k
  | WInsertVal _ _ v => nid0 <=? v
  | _ => true
  end.

(* ---- snapshot / restore -------------------------------------------------- *)
Definition vlen (v : fval) : N :=
  match v with VVec l => N.of_nat (List.length l) | _ => 0 end.
Definition vnum (v : fval) : N :=
  match v with VNum n => n | _ => 0 end.

Definition snap_lookup (nm : string) : option snap_src :=
  match find (fun p => String.eqb (fst p) nm) snapshot_def with
  | Some (_, src) => Some src
  | None => None
  end.

(* the value recorded under Snapshot field [nm] *)
Definition snap_val (s : cstate) (nm : string) : N :=
  match snap_lookup nm with
  | Some (LenOf g) => vlen (s g)
  | Some (ValOf g) => vnum (s g)
  | None => 0
  end.

Definition act_field (a : restore_act) : field :=
  match a with Truncate f _ | Assign f _ | RetainKeyBelow f _ | RetainValBelow f _ => f end.

Definition act_for (f : field) : option restore_act :=
  find (fun a => field_eqb (act_field a) f) restore_def.

Definition restore_val (snap : string -> N) (a : option restore_act) (v : fval) : fval :=
  match a, v with
  | Some (Truncate _ nm), VVec l => VVec (firstn (N.to_nat (snap nm)) l)
  | Some (Assign _ nm), VNum _ => VNum (snap nm)
  | Some (RetainKeyBelow _ nm), VKMap m => VKMap (filter (fun kv => fst kv <? snap nm) m)
  | Some (RetainValBelow _ nm), VVMap m => VVMap (filter (fun kv => snd kv <? snap nm) m)
  | _, v => v
  end.

(* restore_snapshot applied to state [s] with the snapshot taken in state [s0] *)
Definition restore (s0 s : cstate) : cstate :=
  fun f => restore_val (snap_val s0) (act_for f) (s f).

(* the state in which c_rule returns through an error exit of the fallible
   region: restore_snapshot runs only if the source calls it on that path *)
Definition exit_state (restored : bool) (s0 : cstate) (ws : list work) : cstate :=
  if restored then restore s0 (apply_all ws s0) else apply_all ws s0.

Definition exits_restore : bool := forallb snd fallible_exits.

(* ---- the decidable condition on the generated tables --------------------- *)
Definition src_is_len (nm : string) (f : field) : bool :=
  match snap_lookup nm with Some (LenOf g) => field_eqb g f | _ => false end.
Definition src_is_val (nm : string) (f : field) : bool :=
  match snap_lookup nm with Some (ValOf g) => field_eqb g f | _ => false end.

(* is mutation kind [k] of field [f] undone by f's restore action? *)
Definition undone (f : field) (k : mkind) : bool :=
  match k, act_for f with
  | Append, Some (Truncate _ nm) => src_is_len nm f
  | PassMut, Some (Truncate _ nm) => passmut_appends f && src_is_len nm f
  | Incr, Some (Assign _ nm) => src_is_val nm f
  | Insert, Some (RetainKeyBelow _ nm) => src_is_val nm F_next_pattern_id
  | Insert, Some (RetainValBelow _ nm) => src_is_val nm F_next_pattern_id
  | _, _ => false
  end.

(* a restore action must use a snapshot value that was recorded from the right field *)
Definition act_consistent (f : field) : bool :=
  match act_for f with
  | None => true
  | Some (Truncate _ nm) => src_is_len nm f
  | Some (Assign _ nm) => src_is_val nm f
  | Some (RetainKeyBelow _ nm) | Some (RetainValBelow _ nm) => src_is_val nm F_next_pattern_id
  end.

Definition field_ok (f : field) : bool :=
  negb (must_restore f) ||
  (act_consistent f &&
   forallb (fun fk => negb (field_eqb (fst fk) f) || undone f (snd fk)) mutations).

Definition tables_ok : bool := forallb field_ok all_fields.

(* the fields on which the current tables fail: names the search for a witness *)
Definition failing_fields : list string :=
  map field_name (filter (fun f => negb (field_ok f)) all_fields).

(* ---- shape / invariant of a reachable compiler state --------------------- *)
(* id-related maps only mention ids below next_pattern_id *)
Definition wf_val (nid : N) (v : fval) : bool :=
  match v with
  | VKMap m => forallb (fun kv => fst kv <? nid) m
  | VVMap m => forallb (fun kv => snd kv <? nid) m
  | _ => true
  end.
Definition wf (s : cstate) : Prop := forall f, wf_val (vnum (s F_next_pattern_id)) (s f) = true.

(* each field has the shape its restore action expects *)
Definition shape_val (a : option restore_act) (v : fval) : bool :=
  match a, v with
  | Some (Truncate _ _), VVec _ => true
  | Some (Assign _ _), VNum _ => true
  | Some (RetainKeyBelow _ _), VKMap _ => true
  | Some (RetainValBelow _ _), VVMap _ => true
  | None, _ => true
  | _, _ => false
  end.
Definition shape_ok (s : cstate) : Prop := forall f, shape_val (act_for f) (s f) = true.

(* an executable comparison used by correspondence cases and witnesses *)
Definition fval_eqb (a b : fval) : bool :=
  let leq := fix leq (x y : list N) := match x, y with
             | [], [] => true | p :: x', q :: y' => (p =? q) && leq x' y' | _, _ => false end in
  let meq := fix meq (x y : list (N * N)) := match x, y with
             | [], [] => true
             | (a1, b1) :: x', (a2, b2) :: y' => (a1 =? a2) && (b1 =? b2) && meq x' y'
             | _, _ => false end in
  match a, b with
  | VVec x, VVec y => leq x y
  | VKMap x, VKMap y => meq x y
  | VVMap x, VVMap y => meq x y
  | VNum x, VNum y => x =? y
  | VOther x, VOther y => leq x y
  | _, _ => false
  end.
