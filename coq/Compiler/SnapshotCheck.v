(* Correspondence cases for C06.  For a generated [A.., bad, B..] the harness
   compares the compiled tables (hook digest, one component per compiler
   field) and the scan behaviour with those of [A.., B..].
   K: the model predicts WHICH fields a failed rule can leak into: exactly the
   fields on which the generated tables fail [field_ok] (none when
   [tables_ok]).  S: the property itself on the implementation's output. *)
From Coq Require Import List NArith Bool String.
From YV Require Import Gen.SnapshotGen Compiler.Snapshot.
Import ListNotations.
Local Open Scope string_scope.

Record case := mkCase {
  comps : list (string * bool);      (* digest component (named after the compiler field), equal? *)
  recorded : bool;                   (* the failure shows in errors() *)
  others_same : bool;                (* every other source is accepted/rejected as without the bad one *)
  build_ok : bool;                   (* build() did not panic *)
  scans_equal : bool;                (* scan dumps (normal + fast-scan mode) equal *)
  no_panic : bool;                   (* no scan panicked *)
  warnings_same : bool }.            (* warnings() about the other sources are the same *)

Definition check_case (k : case) : bool :=
  forallb (fun c => snd c || existsb (String.eqb (fst c)) failing_fields) (comps k).

Definition spec_case (k : case) : bool :=
  recorded k && others_same k && build_ok k && scans_equal k && no_panic k && warnings_same k
  && forallb snd (comps k).
