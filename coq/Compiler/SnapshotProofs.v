From Coq Require Import String List Arith NArith Bool Lia.
From YV Require Import Gen.SnapshotGen Compiler.Snapshot.
Import ListNotations.
Local Open Scope N_scope.

Lemma field_eqb_eq a b : field_eqb a b = true <-> a = b.
Proof. split; [apply internal_field_dec_bl|apply internal_field_dec_lb]. Qed.

Lemma field_eqb_refl a : field_eqb a a = true.
Proof. apply field_eqb_eq; reflexivity. Qed.

Lemma all_fields_complete f : In f all_fields.
Proof. destruct f; vm_compute; tauto. Qed.

Lemma tables_field_ok : tables_ok = true -> forall f, field_ok f = true.
Proof.
  intros H f. unfold tables_ok in H. rewrite forallb_forall in H. apply H, all_fields_complete.
Qed.

(* the value of one field after a sequence of work *)
Definition step_val (f : field) (v : fval) (w : work) : fval :=
  if field_eqb f (target w) then apply_val w v else v.

Lemma apply_all_field ws : forall s f,
  apply_all ws s f = fold_left (step_val f) ws (s f).
Proof.
  induction ws as [|w ws IH]; intros s f; cbn [apply_all fold_left]; [reflexivity|].
  change (fold_left (fun s w => apply w s) ws (apply w s) f) with (apply_all ws (apply w s) f).
  rewrite IH. unfold apply, step_val. reflexivity.
Qed.

Section Field.
  Variable f : field.
  Hypothesis Hmust : must_restore f = true.
  Hypothesis Hok : field_ok f = true.

  Lemma Hcons : act_consistent f = true.
  Proof. unfold field_ok in Hok. rewrite Hmust in Hok. cbn [negb orb] in Hok. apply andb_prop in Hok; tauto. Qed.

  (* a step of work that the source can perform on f is undone by f's action *)
  Lemma source_work_undone w :
    in_source w = true -> target w = f ->
    exists k, In k (kinds_of w) /\ undone f k = true.
  Proof.
    intros Hs Ht. unfold in_source in Hs. apply existsb_exists in Hs.
    destruct Hs as [[g k] [Hin Hb]]. cbn [fst snd] in Hb. apply andb_prop in Hb.
    destruct Hb as [Hg Hk]. apply field_eqb_eq in Hg. rewrite Ht in Hg. subst g.
    apply existsb_exists in Hk. destruct Hk as [k' [Hk' He]].
    assert (k = k') by (destruct k, k'; try discriminate; reflexivity). subst k'.
    exists k. split; [exact Hk'|].
    unfold field_ok in Hok. rewrite Hmust in Hok. cbn [negb orb] in Hok.
    apply andb_prop in Hok. destruct Hok as [_ Hall]. rewrite forallb_forall in Hall.
    specialize (Hall (f, k) Hin). cbn [fst snd] in Hall. rewrite field_eqb_refl in Hall.
    exact Hall.
  Qed.
End Field.

Lemma firstn_app_exact {A} (l ext : list A) : firstn (N.to_nat (N.of_nat (List.length l))) (l ++ ext) = l.
Proof.
  rewrite Nnat.Nat2N.id. rewrite firstn_app, Nat.sub_diag, firstn_all. cbn [firstn]. apply app_nil_r.
Qed.

Lemma filter_all_true {A} (p : A -> bool) l : forallb p l = true -> filter p l = l.
Proof.
  induction l as [|x l IH]; cbn [forallb filter]; [reflexivity|].
  intros H; apply andb_prop in H; destruct H as [H1 H2]. rewrite H1, IH by exact H2. reflexivity.
Qed.

Lemma filter_app_none {A} (p : A -> bool) new l :
  forallb (fun x => negb (p x)) new = true -> filter p (new ++ l) = filter p l.
Proof.
  induction new as [|x new IH]; cbn [forallb filter app]; [reflexivity|].
  intros H; apply andb_prop in H; destruct H as [H1 H2].
  destruct (p x); [discriminate|]. apply IH; exact H2.
Qed.

Definition good (nid0 : N) (w : work) : Prop :=
  in_source w = true /\ fresh_ids nid0 w = true.

Theorem restore_undoes_if_tables_ok :
  tables_ok = true ->
  forall s0 ws, wf s0 -> shape_ok s0 ->
    Forall (good (vnum (s0 F_next_pattern_id))) ws ->
    forall f, must_restore f = true -> restore s0 (apply_all ws s0) f = s0 f.
Proof.
  intros Htab s0 ws Hwf Hshape Hws f Hmust.
  pose proof (tables_field_ok Htab f) as Hok. clear Htab.
  pose proof (Hcons f Hmust Hok) as Hc.
  pose proof (Hshape f) as Hsh. pose proof (Hwf f) as Hw.
  unfold restore. rewrite apply_all_field.
  set (nid0 := vnum (s0 F_next_pattern_id)) in *.
  unfold act_consistent in Hc.
  destruct (act_for f) as [[g nm|g nm|g nm|g nm]|] eqn:Ha; cbn [shape_val] in Hsh.
  - (* Truncate *)
    destruct (s0 f) as [l| | | |] eqn:Hf; try discriminate.
    assert (Hsnap : snap_val s0 nm = N.of_nat (length l)).
    { unfold snap_val. unfold src_is_len in Hc. destruct (snap_lookup nm) as [[h|h]|]; try discriminate.
      apply field_eqb_eq in Hc; subst h. rewrite Hf. reflexivity. }
    assert (Hinv : exists ext, fold_left (step_val f) ws (VVec l) = VVec (l ++ ext)).
    { clear Hf Hsnap Hw Hsh. revert l. induction Hws as [|w ws [Hsrc _] _ IH]; intros l.
      - exists []. rewrite app_nil_r. reflexivity.
      - cbn [fold_left]. unfold step_val at 2.
        destruct (field_eqb f (target w)) eqn:Ht; [|apply IH].
        apply field_eqb_eq in Ht. symmetry in Ht.
        destruct (source_work_undone f Hmust Hok w Hsrc Ht) as [k [Hk Hu]].
        unfold undone in Hu. rewrite Ha in Hu.
        destruct w as [h x|h a b|h a b|h|h i x|h x]; cbn [target] in Ht; subst h; cbn [apply_val].
        + destruct (IH (l ++ [x])) as [ext He]. exists (x :: ext). rewrite He, <- app_assoc. reflexivity.
        + apply IH.
        + apply IH.
        + apply IH.
        + exfalso. cbn [kinds_of] in Hk. destruct Hk as [<-|[<-|[]]]; discriminate.
        + apply IH. }
    destruct Hinv as [ext He]. rewrite He. cbn [restore_val]. rewrite Hsnap, firstn_app_exact. reflexivity.
  - (* Assign *)
    destruct (s0 f) as [|  | |n|] eqn:Hf; try discriminate.
    assert (Hsnap : snap_val s0 nm = n).
    { unfold snap_val. unfold src_is_val in Hc. destruct (snap_lookup nm) as [[h|h]|]; try discriminate.
      apply field_eqb_eq in Hc; subst h. rewrite Hf. reflexivity. }
    assert (Hinv : exists n', fold_left (step_val f) ws (VNum n) = VNum n').
    { clear. revert n. induction ws as [|w ws IH]; intros n; [exists n; reflexivity|].
      cbn [fold_left]. unfold step_val at 2. destruct (field_eqb f (target w)); [|apply IH].
      destruct w; cbn [apply_val]; apply IH. }
    destruct Hinv as [n' He]. rewrite He. cbn [restore_val]. rewrite Hsnap. reflexivity.
  - (* RetainKeyBelow *)
    destruct (s0 f) as [|m| | |] eqn:Hf; try discriminate.
    assert (Hsnap : snap_val s0 nm = nid0).
    { unfold snap_val. unfold src_is_val in Hc. destruct (snap_lookup nm) as [[h|h]|]; try discriminate.
      apply field_eqb_eq in Hc; subst h. reflexivity. }
    cbn [wf_val] in Hw.
    assert (Hinv : exists new, fold_left (step_val f) ws (VKMap m) = VKMap (new ++ m)
                               /\ forallb (fun kv => negb (fst kv <? nid0)) new = true).
    { clear Hf Hw. revert m. induction Hws as [|w ws [Hsrc Hfr] _ IH]; intros m.
      - exists []. split; reflexivity.
      - cbn [fold_left]. unfold step_val at 2.
        destruct (field_eqb f (target w)) eqn:Ht; [|apply IH].
        destruct w as [h x|h a b|h a b|h|h i x|h x]; cbn [apply_val]; try apply IH.
        destruct (IH ((a, b) :: m)) as [new [He Hn]]. exists (new ++ [(a, b)]). split.
        + rewrite He, <- app_assoc. reflexivity.
        + rewrite forallb_app, Hn. cbn [forallb fst andb]. cbn [fresh_ids] in Hfr.
          rewrite andb_true_r. apply negb_true_iff, N.ltb_ge. apply N.leb_le in Hfr. exact Hfr. }
    destruct Hinv as [new [He Hn]]. rewrite He. cbn [restore_val]. rewrite Hsnap.
    rewrite filter_app_none by exact Hn. rewrite filter_all_true by exact Hw. reflexivity.
  - (* RetainValBelow *)
    destruct (s0 f) as [| |m| |] eqn:Hf; try discriminate.
    assert (Hsnap : snap_val s0 nm = nid0).
    { unfold snap_val. unfold src_is_val in Hc. destruct (snap_lookup nm) as [[h|h]|]; try discriminate.
      apply field_eqb_eq in Hc; subst h. reflexivity. }
    cbn [wf_val] in Hw.
    assert (Hinv : exists new, fold_left (step_val f) ws (VVMap m) = VVMap (new ++ m)
                               /\ forallb (fun kv => negb (snd kv <? nid0)) new = true).
    { clear Hf Hw. revert m. induction Hws as [|w ws [Hsrc Hfr] _ IH]; intros m.
      - exists []. split; reflexivity.
      - cbn [fold_left]. unfold step_val at 2.
        destruct (field_eqb f (target w)) eqn:Ht; [|apply IH].
        destruct w as [h x|h a b|h a b|h|h i x|h x]; cbn [apply_val]; try apply IH.
        destruct (IH ((a, b) :: m)) as [new [He Hn]]. exists (new ++ [(a, b)]). split.
        + rewrite He, <- app_assoc. reflexivity.
        + rewrite forallb_app, Hn. cbn [forallb snd andb]. cbn [fresh_ids] in Hfr.
          rewrite andb_true_r. apply negb_true_iff, N.ltb_ge. apply N.leb_le in Hfr. exact Hfr. }
    destruct Hinv as [new [He Hn]]. rewrite He. cbn [restore_val]. rewrite Hsnap.
    rewrite filter_app_none by exact Hn. rewrite filter_all_true by exact Hw. reflexivity.
  - (* no restore action: the source performs no mutation of f *)
    assert (Hinv : fold_left (step_val f) ws (s0 f) = s0 f).
    { clear Hsh Hw. generalize (s0 f) as v. induction Hws as [|w ws [Hsrc _] _ IH]; intros v; [reflexivity|].
      cbn [fold_left]. unfold step_val at 2.
      destruct (field_eqb f (target w)) eqn:Ht; [|apply IH].
      apply field_eqb_eq in Ht. symmetry in Ht.
      destruct (source_work_undone f Hmust Hok w Hsrc Ht) as [k [_ Hu]].
      unfold undone in Hu. rewrite Ha in Hu. destruct k; discriminate. }
    rewrite Hinv. reflexivity.
Qed.
