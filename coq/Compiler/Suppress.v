(* Per-source state of Compiler::add_source: the warning suppressions.

   `// suppress: <code>` comments are turned into (code, span) entries by the
   WarningSuppressionHook while a source is parsed; Warnings::add consults them
   for every warning the source produces; add_source drops them before it
   returns.  Spans are byte ranges INSIDE one source, so an entry that outlived
   its source would silence warnings of later sources at overlapping offsets.
   The exits of add_source and whether each one clears the entries come from
   the Rust source (Gen/SnapshotGen.v, add_source_exits). *)
From Coq Require Import List NArith Bool String.
From YV Require Import Gen.SnapshotGen.
Import ListNotations.
Local Open Scope N_scope.

Definition span := (N * N)%type.                       (* start, end *)
Definition span_contains (a b : span) : bool :=        (* Span::contains *)
  (fst a <=? fst b) && (snd b <=? snd a).

Record warning := mkWarning { w_code : string; w_labels : list span }.

(* Warnings::add, without the max_warnings cap (configuration) *)
Definition emits (disabled : list string) (supp : list (string * span)) (w : warning) : bool :=
  negb (existsb (String.eqb (w_code w)) disabled) &&
  negb (existsb (fun s => String.eqb (fst s) (w_code w) &&
                          existsb (fun l => span_contains (snd s) l) (w_labels w)) supp).

(* one add_source call: the entries its comments register, the warnings its
   rules try to add (in order), and the exit it leaves through *)
Record source := mkSource { s_comments : list (string * span); s_cands : list warning; s_exit : nat }.

Record wstate := mkW { supp : list (string * span); warns : list warning }.

Definition exit_clears (e : nat) : bool := snd (nth e add_source_exits (""%string, false)).

Definition add_source (disabled : list string) (st : wstate) (s : source) : wstate :=
  let sp := supp st ++ s_comments s in
  let ws := warns st ++ filter (emits disabled sp) (s_cands s) in
  mkW (if exit_clears (s_exit s) then [] else sp) ws.

Definition run (disabled : list string) (h : list source) : wstate :=
  fold_left (add_source disabled) h (mkW [] []).

(* what each source would produce on a fresh compiler *)
Definition alone (disabled : list string) (s : source) : list warning :=
  filter (emits disabled (s_comments s)) (s_cands s).

Definition all_exits_clear : bool := forallb snd add_source_exits.
Definition valid_exit (s : source) : bool := Nat.ltb (s_exit s) (List.length add_source_exits).
