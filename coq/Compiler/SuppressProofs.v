From Coq Require Import List NArith Bool String Arith Lia.
From YV Require Import Gen.SnapshotGen Compiler.Suppress.
Import ListNotations.

Lemma exit_clears_true : all_exits_clear = true -> forall s, valid_exit s = true -> exit_clears (s_exit s) = true.
Proof.
  intros A s V. unfold all_exits_clear in A. rewrite forallb_forall in A.
  unfold exit_clears. apply A. apply nth_In. now apply Nat.ltb_lt.
Qed.

Lemma run_gen : all_exits_clear = true -> forall disabled h st,
  supp st = [] -> forallb valid_exit h = true ->
  let r := fold_left (add_source disabled) h st in
  supp r = [] /\ warns r = warns st ++ flat_map (alone disabled) h.
Proof.
  intros A disabled h. induction h as [|s h IH]; intros st E V; cbn [fold_left flat_map].
  - split; [exact E|now rewrite app_nil_r].
  - cbn [forallb] in V. apply andb_true_iff in V. destruct V as [V1 V2].
    assert (S0 : supp (add_source disabled st s) = []).
    { unfold add_source. cbn [supp]. now rewrite (exit_clears_true A s V1). }
    destruct (IH _ S0 V2) as [I1 I2]. split; [exact I1|].
    rewrite I2. unfold add_source at 1. cbn [warns]. rewrite E. cbn [app].
    unfold alone. now rewrite app_assoc.
Qed.

(* every history of add_source calls: the warnings recorded are those each
   source produces on its own, in order; no suppression outlives its source *)
Theorem warnings_independent_of_history_gen : all_exits_clear = true ->
  forall disabled h, forallb valid_exit h = true ->
    warns (run disabled h) = flat_map (alone disabled) h /\ supp (run disabled h) = [].
Proof.
  intros A disabled h V. destruct (run_gen A disabled h (mkW [] []) eq_refl V) as [S W].
  split; [exact W|exact S].
Qed.

(* so a failed source in the middle changes nothing for the others *)
Theorem failed_source_keeps_other_warnings_gen : all_exits_clear = true ->
  forall disabled pre bad post,
    forallb valid_exit (pre ++ bad :: post) = true ->
    warns (run disabled (pre ++ bad :: post)) =
    warns (run disabled pre) ++ alone disabled bad ++ flat_map (alone disabled) post.
Proof.
  intros A disabled pre bad post V.
  destruct (warnings_independent_of_history_gen A disabled _ V) as [W _]. rewrite W.
  rewrite forallb_app in V. apply andb_true_iff in V. destruct V as [Vp _].
  destruct (warnings_independent_of_history_gen A disabled _ Vp) as [Wp _]. rewrite Wp.
  rewrite flat_map_app. reflexivity.
Qed.

(* the hypothesis matters: with an exit that keeps the entries, a later source loses a warning *)
Example leaking_exit_silences_later_source :
  let bad := mkSource [("slow_pattern"%string, (0, 400))%N] [] 0 in
  let good := mkSource [] [mkWarning "slow_pattern" [(30, 60)%N]] 0 in
  let leaky st s := mkW (supp st ++ s_comments s) (warns st ++ filter (emits [] (supp st ++ s_comments s)) (s_cands s)) in
  warns (fold_left leaky [bad; good] (mkW [] [])) = [] /\ alone [] good <> [].
Proof. vm_compute. split; [reflexivity|discriminate]. Qed.
