(* C13 - model of N threads that scan, compile and deserialize concurrently on
   the state yara-x shares process-wide.  Definitions only; proofs in
   InterleaveProofs.v.

   SHARED (lib/src/wasm/mod.rs, lib/src/scanner/mod.rs, scanner/context.rs):
     ENGINE            static mut OnceLock<Engine>, created by the first get_engine()
                       (Scanner::new, Compiler::build, Rules::deserialize, ...)
     engine epoch      incremented by the heartbeat thread
     HEARTBEAT_COUNTER AtomicU64, incremented by the heartbeat thread
     INIT_HEARTBEAT    Once: the heartbeat thread is spawned by the first scan
                       that has a timeout; its loop is  sleep(1s); epoch += 1;
                       counter += 1  (two separate updates: modelled as two
                       transitions, so a poll can fall between them)
   PRIVATE to a scanner (ScanContext / its wasmtime Store):
     deadline          = counter at the start of the scan + timeout_secs
     epoch deadline    = epoch   at the start of the scan + timeout_secs
     everything the scan computes (abstracted to an accumulator folded with an
     arbitrary function [mix] over the scan's private work items)
   A scan is a list of steps with poll points: a counter poll (ac_search_loop,
   one per atom hit) compares the shared counter with the scanner's OWN
   deadline; an epoch poll (function entries / loop back-edges of the emitted
   code) compares the shared epoch with the OWN store's deadline.

   What a model cannot exhibit: data races on the `static mut`, the lifetime
   transmutes around the store, and wasmtime's internals; here every access
   to shared state is an atomic step. *)
From Coq Require Import List NArith Bool Arith.
From YV Require Import Gen.ConcGen.
Import ListNotations.
Local Open Scope N_scope.

Section Interleave.
  Variable mix : N -> N -> N.          (* the scan's private computation: any function *)
  (* Does scanner-side code write the ENGINE-WIDE clock?  Instantiated with the
     negation of Gen/ConcGen.clock_single_writer, computed from the generated
     table of every write to the engine epoch / HEARTBEAT_COUNTER / a store's
     epoch deadline.  In the source the search-phase timeout of a scanner
     (search_for_patterns host function) sets ITS OWN store's deadline to 0;
     when [bump] is true the model instead lets that step advance the shared
     epoch, which is what such a write would do. *)
  Variable bump : bool.

  Inductive bop := BWork (d : N) | BPollC | BPollE.
  Record scan := mkScan { s_timeout : option N;      (* set_timeout, in whole seconds (rounded up) *)
                          s_body : list bop }.
  Inductive item :=
  | IUseEngine                 (* Scanner::new / drop+new / Compiler::build / Rules::deserialize_from: get_engine() *)
  | IScan (sc : scan).
  Inductive res := RDone (acc : N) | RTimeout.

  Record cur := mkCur { dl_c : N; dl_e : N; acc : N; rest : list bop }.
  Record thr := mkThr { todo : list item; running : option cur; results : list res (* most recent first *) }.

  Record shared := mkShared {
    counter : N; epoch : N;
    hb_started : bool;           (* INIT_HEARTBEAT has run *)
    hb_phase : bool;             (* heartbeat thread is between `epoch += 1` and `counter += 1` *)
    engine_init : bool;          (* ENGINE is initialised *)
    hb_spawns : nat;             (* ghost: number of heartbeat threads ever spawned *)
    engine_creations : nat       (* ghost: number of Engine::new calls *)
  }.
  Record sys := mkSys { sh : shared; thrs : list thr }.

  Definition shared0 : shared := mkShared 0 0 false false false 0 0.
  Definition thr0 (p : list item) : thr := mkThr p None [].
  Definition init (progs : list (list item)) : sys := mkSys shared0 (map thr0 progs).

  (* effect of a thread step on the shared state *)
  Inductive effect := ENone | EEngine | EStartHb | EBumpEpoch.

  (* the step of a thread, as a function of the clock values it reads *)
  Definition thr_step (c e : N) (t : thr) : option (thr * effect) :=
    match running t with
    | None =>
        match todo t with
        | [] => None
        | IUseEngine :: td => Some (mkThr td None (results t), EEngine)
        | IScan sc :: td =>
            let secs := timeout_secs (s_timeout sc) in
            Some (mkThr td (Some (mkCur (c + secs) (e + secs) 0 (s_body sc))) (results t),
                  match s_timeout sc with Some _ => EStartHb | None => ENone end)
        end
    | Some k =>
        match rest k with
        | [] => Some (mkThr (todo t) None (RDone (acc k) :: results t), ENone)
        | BWork d :: r => Some (mkThr (todo t) (Some (mkCur (dl_c k) (dl_e k) (mix (acc k) d) r)) (results t), ENone)
        | BPollC :: r =>
            if counter_poll_fires c (dl_c k)
            then Some (mkThr (todo t) None (RTimeout :: results t), if bump then EBumpEpoch else ENone)
            else Some (mkThr (todo t) (Some (mkCur (dl_c k) (dl_e k) (acc k) r)) (results t), ENone)
        | BPollE :: r =>
            if epoch_poll_fires e (dl_e k)
            then Some (mkThr (todo t) None (RTimeout :: results t), ENone)
            else Some (mkThr (todo t) (Some (mkCur (dl_c k) (dl_e k) (acc k) r)) (results t), ENone)
        end
    end.

  Definition apply_effect (f : effect) (s : shared) : shared :=
    match f with
    | ENone => s
    | EEngine =>
        if engine_init s then s
        else mkShared (counter s) (epoch s) (hb_started s) (hb_phase s) true (hb_spawns s) (S (engine_creations s))
    | EStartHb =>
        if hb_started s then s
        else mkShared (counter s) (epoch s) true (hb_phase s) (engine_init s) (S (hb_spawns s)) (engine_creations s)
    | EBumpEpoch =>
        mkShared (counter s) (epoch s + 1) (hb_started s) (hb_phase s) (engine_init s) (hb_spawns s) (engine_creations s)
    end.

  Inductive label := LThread (i : nat) | LHeartE | LHeartC.

  Fixpoint upd {A} (i : nat) (x : A) (l : list A) : list A :=
    match l, i with
    | [], _ => []
    | _ :: t, O => x :: t
    | h :: t, S j => h :: upd j x t
    end.

  Definition step (s : sys) (l : label) : option sys :=
    match l with
    | LThread i =>
        match nth_error (thrs s) i with
        | None => None
        | Some t =>
            match thr_step (counter (sh s)) (epoch (sh s)) t with
            | None => None
            | Some (t', f) => Some (mkSys (apply_effect f (sh s)) (upd i t' (thrs s)))
            end
        end
    | LHeartE =>
        let h := sh s in
        if hb_started h && negb (hb_phase h)
        then Some (mkSys (mkShared (counter h) (epoch h + 1) true true (engine_init h) (hb_spawns h) (engine_creations h)) (thrs s))
        else None
    | LHeartC =>
        let h := sh s in
        if hb_started h && hb_phase h
        then Some (mkSys (mkShared (counter h + 1) (epoch h) true false (engine_init h) (hb_spawns h) (engine_creations h)) (thrs s))
        else None
    end.

  Fixpoint exec (tr : list label) (s : sys) : option sys :=
    match tr with
    | [] => Some s
    | l :: tr' => match step s l with Some s' => exec tr' s' | None => None end
    end.

  (* ---- the solo semantics: one thread and a clock ---- *)
  Inductive ev := EvOp | EvTickE | EvTickC.

  Definition erase (i : nat) (tr : list label) : list ev :=
    flat_map (fun l => match l with
                       | LThread j => if Nat.eqb j i then [EvOp] else []
                       | LHeartE => [EvTickE]
                       | LHeartC => [EvTickC]
                       end) tr.

  Fixpoint solo_run (evs : list ev) (c e : N) (t : thr) : option (N * N * thr) :=
    match evs with
    | [] => Some (c, e, t)
    | EvOp :: r => match thr_step c e t with Some (t', _) => solo_run r c e t' | None => None end
    | EvTickE :: r => solo_run r c (e + 1) t
    | EvTickC :: r => solo_run r (c + 1) e t
    end.

  Definition ticks (evs : list ev) : N :=
    N.of_nat (length (filter (fun v => match v with EvOp => false | _ => true end) evs)).

  (* ---- what a scan returns when it is the only activity in the process ---- *)
  Definition pure_acc (sc : scan) : N :=
    fold_left (fun a b => match b with BWork d => mix a d | _ => a end) (s_body sc) 0.

  Fixpoint scans_of (p : list item) : list scan :=
    match p with [] => [] | IScan sc :: t => sc :: scans_of t | IUseEngine :: t => scans_of t end.

  (* result r is acceptable for scan sc after T ticks of the clock: the solo
     result, or a timeout that sc's OWN timeout allows *)
  Definition ok_result (T : N) (r : res) (sc : scan) : Prop :=
    r = RDone (pure_acc sc) \/ (r = RTimeout /\ timeout_secs (s_timeout sc) <= T).

  (* boolean form used by the correspondence check *)
  Definition ok_resultb (T : N) (r : res) (sc : scan) : bool :=
    match r with
    | RDone a => N.eqb a (pure_acc sc)
    | RTimeout => N.leb (timeout_secs (s_timeout sc)) T
    end.

  (* ---- an executable scheduler (pseudo-random interleavings for K) ---- *)
  Definition labels (n : nat) : list label := LHeartE :: LHeartC :: map LThread (seq 0 n).
  Definition is_some {A} (o : option A) : bool := match o with Some _ => true | None => false end.
  Definition enabled (s : sys) : list label := filter (fun l => is_some (step s l)) (labels (length (thrs s))).
  Definition thread_label (l : label) : bool := match l with LThread _ => true | _ => false end.

  (* [max_ticks]: how many heartbeat transitions the schedule may still take
     (the real heartbeat advances once per second of wall time) *)
  Fixpoint run_schedule (picks : list nat) (max_ticks : nat) (s : sys) : sys :=
    match picks with
    | [] => s
    | k :: ks =>
        let en := filter (fun l => thread_label l || negb (Nat.eqb max_ticks 0)) (enabled s) in
        match en with
        | [] => s
        | l0 :: en' =>
            let l := nth (k mod (S (length en'))) (l0 :: en') l0 in
            match step s l with
            | Some s' => run_schedule ks (if thread_label l then max_ticks else pred max_ticks) s'
            | None => s
            end
        end
    end.
End Interleave.
