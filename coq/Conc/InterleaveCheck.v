(* Correspondence cases for C13.  One case = one concurrent session executed
   in a fresh child process of the harness: N threads, each performing a
   seeded sequence of Scanner::new / scan / drop on shared Rules,
   Compiler::build and Rules::deserialize_from, with and without timeouts.
   Per operation the harness records the thread, whether a timeout was set,
   the class of the result, whether the canonical dump equals the sequential
   oracle, and the elapsed time.

   S ([spec_case]): every completed scan equals the sequential oracle; only
   scanners that had a timeout may return Timeout; nothing errors or crashes.
   K ([check_case]): the interleaving model (Conc/Interleave.v) is run on the
   recorded history under a pseudo-random schedule with as many heartbeat
   transitions as the session's wall time allows; its results satisfy the
   executable form of the noninterference theorem, and every observed result
   class is one the theorem allows: a timeout needs a deadline of its own that
   the elapsed heartbeats can have reached, and cannot come earlier than
   (timeout - 1) heartbeat periods after the scan started.
   Real thread schedules are sampled by the OS, not steered by the model. *)
From Coq Require Import List NArith Bool Arith.
From YV Require Import Gen.ConcGen Conc.Interleave.
Import ListNotations.
Local Open Scope N_scope.

Inductive okind := KEngine | KScan.
Inductive ocls := CDone | CTimeout | CError.

Record opr := mkOp {
  o_thread : nat;
  o_kind : okind;              (* KEngine: new / build / deserialize (uses the process-wide engine); KScan: a scan *)
  o_timeout : option N;        (* set_timeout of the scanner, in whole seconds rounded up *)
  o_class : ocls;
  o_equal : bool;              (* canonical dump equals the sequential oracle (or the operation has no dump) *)
  o_ms : N                     (* elapsed wall time of the operation *)
}.

Record case := mkCase {
  n_threads : nat;
  ops : list opr;              (* per thread in program order (threads interleaved arbitrarily in the list) *)
  wall_ms : N;                 (* wall time of the concurrent phase *)
  sim_ticks : N;               (* heartbeat ticks simulated through the verification hook (deterministic sessions: the
                                  hook makes a scanner's own deadline pass at a chosen poll by doing what the
                                  heartbeat thread does); 0 in ordinary sessions *)
  child_ok : bool;             (* the child process exited normally and reported every operation *)
  seed : N
}.

Definition mixf (a d : N) : N := (a * 31 + d) mod 1000003.

(* heartbeat transitions the session can have seen: two per period, one period of slack *)
Definition ticks_bound (k : case) : N := wall_ms k / (1000 * heartbeat_period_secs) + 1 + sim_ticks k.
Definition hearts_bound (k : case) : N := 2 * ticks_bound k.

(* the model is instantiated with what the generated table of writes says
   about scanner-side writes to the engine-wide clock *)
Definition bumpf : bool := negb clock_single_writer.

Definition std_body (j : N) : list bop := [BPollE; BWork j; BPollC; BWork (j + 1); BPollE].

Fixpoint prog_of (i : nat) (l : list opr) (j : N) : list item :=
  match l with
  | [] => []
  | o :: t =>
      if Nat.eqb (o_thread o) i then
        match o_kind o with
        | KEngine => IUseEngine :: prog_of i t (j + 1)
        | KScan => IScan (mkScan (o_timeout o) (std_body j)) :: prog_of i t (j + 1)
        end
      else prog_of i t (j + 1)
  end.

Definition progs_of (k : case) : list (list item) := map (fun i => prog_of i (ops k) 0) (seq 0 (n_threads k)).

Fixpoint picks (s : N) (n : nat) : list nat :=
  match n with
  | O => []
  | S n' =>
      let s' := (s * 6364136223846793005 + 1442695040888963407) mod 18446744073709551616 in
      N.to_nat ((s' / 8589934592) mod 1024) :: picks s' n'
  end.

Definition model_run (k : case) : sys :=
  let T := N.to_nat (hearts_bound k) in
  run_schedule mixf bumpf (picks (seed k) (8 * length (ops k) + T + 8)) T (init (progs_of k)).

Fixpoint forallb2 {A B} (f : A -> B -> bool) (l : list A) (l' : list B) : bool :=
  match l, l' with
  | [], [] => true
  | a :: t, b :: t' => f a b && forallb2 f t t'
  | _, _ => false
  end.

(* the model's own run: every thread finished, one result per scan, each the
   solo result or a timeout its own deadline allows (executable instance of
   [noninterference]) *)
Definition model_ok (k : case) : bool :=
  let s := model_run k in
  let T := hearts_bound k in
  forallb2 (fun t p =>
      match todo t, running t with
      | [], None => forallb2 (ok_resultb mixf T) (rev (results t)) (scans_of p)
      | _, _ => false
      end) (thrs s) (progs_of k).

(* an observed result class is one the theorem allows *)
Definition class_allowed (k : case) (o : opr) : bool :=
  match o_kind o, o_class o with
  | KScan, CTimeout =>
      let secs := timeout_secs (o_timeout o) in
      N.leb secs (hearts_bound k)
      && (N.leb ((secs - 1) * 1000 * heartbeat_period_secs) (o_ms o + 2) || negb (N.eqb (sim_ticks k) 0))
  | _, _ => true
  end.

Definition check_case (k : case) : bool :=
  model_ok k && forallb (class_allowed k) (ops k).

(* S: a completed scan equals the sequential oracle; a Timeout is acceptable
   only for a scanner that has a timeout of its own, and only if that many
   heartbeat periods can have elapsed in the session (real seconds plus
   simulated ticks): "a timeout set on one scanner never interrupts another" *)
Definition spec_op (k : case) (o : opr) : bool :=
  match o_class o with
  | CDone => o_equal o
  | CTimeout =>
      match o_kind o, o_timeout o with
      | KScan, Some _ => N.leb (timeout_secs (o_timeout o)) (ticks_bound k)
      | _, _ => false
      end
  | CError => false
  end.

Definition spec_case (k : case) : bool := child_ok k && forallb (spec_op k) (ops k).
