(* C13 - theorems about the interleaving model (Conc/Interleave.v): for every
   number of threads, every program of every thread, every private
   computation [mix] and every interleaving. *)
From Coq Require Import List NArith Bool Arith Lia.
From YV Require Import Gen.ConcGen Conc.Interleave.
Import ListNotations.
Local Open Scope N_scope.

(* the generated poll comparisons can only fire once the deadline is reached *)
Lemma counter_poll_fires_le : forall c d, counter_poll_fires c d = true -> d <= c.
Proof.
  intros c d. unfold counter_poll_fires.
  first [ apply N.leb_le | intro H; apply N.lt_le_incl; apply N.ltb_lt; exact H ].
Qed.
Lemma epoch_poll_fires_le : forall e d, epoch_poll_fires e d = true -> d <= e.
Proof.
  intros e d. unfold epoch_poll_fires.
  first [ apply N.leb_le | intro H; apply N.lt_le_incl; apply N.ltb_lt; exact H ].
Qed.

Section InterleaveProofs.
  Variable mix : N -> N -> N.
  Variable bump : bool.
  (* scanner-side code never writes the engine-wide clock (discharged in
     Props/C13.v from the generated table of writes) *)
  Hypothesis bump_off : bump = false.

  Notation thr_step := (thr_step mix bump).
  Notation step := (step mix bump).
  Notation exec := (exec mix bump).
  Notation solo_run := (solo_run mix bump).
  Notation pure_acc := (pure_acc mix).
  Notation ok_result := (ok_result mix).
  Notation run_schedule := (run_schedule mix bump).

  (* ------------------------------------------------------------ lists *)
  Lemma nth_error_upd_same : forall A (l : list A) i a x, nth_error l i = Some a -> nth_error (upd i x l) i = Some x.
  Proof. induction l as [|h t IH]; intros [|i] a x H; simpl in *; try discriminate; eauto. Qed.

  Lemma nth_error_upd_other : forall A (l : list A) i j x, i <> j -> nth_error (upd i x l) j = nth_error l j.
  Proof.
    induction l as [|h t IH]; intros [|i] [|j] x H; simpl; auto; try congruence.
  Qed.

  Lemma upd_length : forall A (l : list A) i x, length (upd i x l) = length l.
  Proof. induction l as [|h t IH]; intros [|i] x; simpl; auto. Qed.

  (* ------------------------------------------------------------ the clock is only moved by the heartbeat *)
  Lemma apply_effect_clock : forall f s, f <> EBumpEpoch ->
    counter (apply_effect f s) = counter s /\ epoch (apply_effect f s) = epoch s.
  Proof. intros [| | |] s H; simpl; auto; [destruct (engine_init s) | destruct (hb_started s) | congruence]; auto. Qed.

  Lemma thr_step_effect : forall c e t t' f, thr_step c e t = Some (t', f) -> f <> EBumpEpoch.
  Proof.
    intros c e t t' f H. unfold Interleave.thr_step in H. rewrite bump_off in H.
    destruct (running t) as [k|].
    - destruct (rest k) as [|[d| |] r]; try (inversion H; discriminate).
      + destruct (counter_poll_fires c (dl_c k)); inversion H; discriminate.
      + destruct (epoch_poll_fires e (dl_e k)); inversion H; discriminate.
    - destruct (todo t) as [|[|sc] td]; try discriminate; inversion H; try discriminate.
      destruct (s_timeout sc); discriminate.
  Qed.

  (* PROJECTION.  Whatever the other threads do, the state of thread i after an
     interleaved run is the state of thread i run ALONE under a clock that
     ticks where the heartbeat ticked between i's own steps. *)
  Theorem projection : forall tr s s' i t,
    exec tr s = Some s' -> nth_error (thrs s) i = Some t ->
    exists t', nth_error (thrs s') i = Some t' /\
               solo_run (erase i tr) (counter (sh s)) (epoch (sh s)) t = Some (counter (sh s'), epoch (sh s'), t').
  Proof.
    induction tr as [|l tr IH]; intros s s' i t He Hn.
    - simpl in He. inversion He; subst. exists t. auto.
    - cbn [Interleave.exec] in He. destruct (step s l) as [s1|] eqn:Es; [|discriminate].
      destruct l as [j| |]; cbn [erase flat_map].
      + unfold Interleave.step in Es.
        destruct (nth_error (thrs s) j) as [tj|] eqn:Hj; [|discriminate].
        destruct (thr_step (counter (sh s)) (epoch (sh s)) tj) as [[tj' f]|] eqn:Et; [|discriminate].
        inversion Es; subst s1; clear Es.
        destruct (apply_effect_clock f (sh s) (thr_step_effect _ _ _ _ _ Et)) as [Hc Hep].
        destruct (Nat.eqb j i) eqn:Eji.
        * apply Nat.eqb_eq in Eji. subst j. rewrite Hn in Hj. inversion Hj; subst tj.
          destruct (IH _ _ i tj' He) as (t' & A & B).
          { simpl. eapply nth_error_upd_same; eauto. }
          exists t'. split; auto. simpl in B. rewrite Hc, Hep in B.
          cbn [app Interleave.solo_run]. rewrite Et. exact B.
        * apply Nat.eqb_neq in Eji.
          destruct (IH _ _ i t He) as (t' & A & B).
          { simpl. rewrite nth_error_upd_other; auto. }
          exists t'. split; auto. simpl in B. rewrite Hc, Hep in B. exact B.
      + unfold Interleave.step in Es. destruct (hb_started (sh s) && negb (hb_phase (sh s))); [|discriminate].
        inversion Es; subst s1; clear Es.
        destruct (IH _ _ i t He) as (t' & A & B); auto.
        exists t'. split; auto.
      + unfold Interleave.step in Es. destruct (hb_started (sh s) && hb_phase (sh s)); [|discriminate].
        inversion Es; subst s1; clear Es.
        destruct (IH _ _ i t He) as (t' & A & B); auto.
        exists t'. split; auto.
  Qed.

  (* DEADLINE IS PRIVATE.  Two runs in which thread i has the same program and
     sees the heartbeat tick at the same places between its own steps leave
     thread i in the same state: the other threads' programs, their timeouts
     and whether their deadlines expire do not enter. *)
  Theorem deadline_is_private : forall progs1 progs2 tr1 tr2 s1 s2 i p t1 t2,
    exec tr1 (init progs1) = Some s1 -> exec tr2 (init progs2) = Some s2 ->
    nth_error progs1 i = Some p -> nth_error progs2 i = Some p ->
    erase i tr1 = erase i tr2 ->
    nth_error (thrs s1) i = Some t1 -> nth_error (thrs s2) i = Some t2 ->
    t1 = t2.
  Proof.
    intros progs1 progs2 tr1 tr2 s1 s2 i p t1 t2 H1 H2 P1 P2 E N1 N2.
    destruct (projection _ _ _ i (thr0 p) H1) as (a & A1 & A2).
    { simpl. rewrite nth_error_map, P1. reflexivity. }
    destruct (projection _ _ _ i (thr0 p) H2) as (b & B1 & B2).
    { simpl. rewrite nth_error_map, P2. reflexivity. }
    simpl in A2, B2. rewrite E in A2. rewrite A2 in B2. inversion B2. congruence.
  Qed.

  (* ------------------------------------------------------------ solo runs *)
  Notation fstep := (fun a b => match b with BWork d => mix a d | _ => a end).

  Lemma ok_result_mono : forall T T' r sc, T <= T' -> ok_result T r sc -> ok_result T' r sc.
  Proof. intros T T' r sc H [A|[A B]]; [left|right]; auto. split; auto. lia. Qed.

  Lemma Forall2_mono : forall T T' l l', T <= T' -> Forall2 (ok_result T) l l' -> Forall2 (ok_result T') l l'.
  Proof. intros T T' l l' H F. induction F; constructor; auto. eapply ok_result_mono; eauto. Qed.

  Lemma Forall2_snoc : forall A B (R : A -> B -> Prop) l l' a b, Forall2 R l l' -> R a b -> Forall2 R (l ++ [a]) (l' ++ [b]).
  Proof. intros. apply Forall2_app; auto. Qed.

  (* invariant of a solo run of program p started at clock (c0, e0), after T ticks *)
  Definition solo_inv (p : list item) (c0 e0 T c e : N) (t : thr) : Prop :=
    c <= c0 + T /\ e <= e0 + T /\
    exists done,
      Forall2 (ok_result T) (rev (results t)) done /\
      match running t with
      | None => scans_of p = done ++ scans_of (todo t)
      | Some k => exists sc, scans_of p = done ++ sc :: scans_of (todo t) /\
                             c0 + timeout_secs (s_timeout sc) <= dl_c k /\
                             e0 + timeout_secs (s_timeout sc) <= dl_e k /\
                             fold_left fstep (rest k) (acc k) = pure_acc sc
      end.

  Lemma solo_inv_op : forall p c0 e0 T c e t t' f,
    c0 <= c -> e0 <= e ->
    solo_inv p c0 e0 T c e t -> thr_step c e t = Some (t', f) -> solo_inv p c0 e0 T c e t'.
  Proof.
    intros p c0 e0 T c e t t' f Hc0 He0 (Hc & He & done & HF & Hr) Hs.
    unfold Interleave.thr_step in Hs. destruct t as [td run rs]; simpl in *.
    destruct run as [k|].
    - destruct Hr as (sc & Hp & D1 & D2 & Hacc).
      destruct k as [dc de a r]; simpl in *. destruct r as [|[d| |] r].
      + inversion Hs; subst; clear Hs. split; [auto|split; [auto|]].
        exists (done ++ [sc]). split.
        * simpl. apply Forall2_snoc; auto. left. simpl in Hacc. congruence.
        * simpl. rewrite <- app_assoc. exact Hp.
      + inversion Hs; subst; clear Hs. split; [auto|split; [auto|]].
        exists done. split; auto. exists sc. simpl. auto.
      + destruct (counter_poll_fires c dc) eqn:Ep; inversion Hs; subst; clear Hs; (split; [auto|split; [auto|]]).
        * exists (done ++ [sc]). split.
          -- simpl. apply Forall2_snoc; auto. right. split; auto. apply counter_poll_fires_le in Ep. lia.
          -- simpl. rewrite <- app_assoc. exact Hp.
        * exists done. split; auto. exists sc. simpl. auto.
      + destruct (epoch_poll_fires e de) eqn:Ep; inversion Hs; subst; clear Hs; (split; [auto|split; [auto|]]).
        * exists (done ++ [sc]). split.
          -- simpl. apply Forall2_snoc; auto. right. split; auto. apply epoch_poll_fires_le in Ep. lia.
          -- simpl. rewrite <- app_assoc. exact Hp.
        * exists done. split; auto. exists sc. simpl. auto.
    - destruct td as [|[|sc] td]; [discriminate| |]; inversion Hs; subst; clear Hs; (split; [auto|split; [auto|]]).
      + exists done. split; auto.
      + exists done. split; auto. exists sc. simpl. repeat split; auto; lia.
  Qed.

  Lemma ticks_tickE : forall evs, ticks (EvTickE :: evs) = 1 + ticks evs.
  Proof. intros. unfold ticks. cbn [filter length]. lia. Qed.
  Lemma ticks_tickC : forall evs, ticks (EvTickC :: evs) = 1 + ticks evs.
  Proof. intros. unfold ticks. cbn [filter length]. lia. Qed.

  Lemma solo_run_inv : forall evs p c0 e0 T c e t c' e' t',
    c0 <= c -> e0 <= e ->
    solo_inv p c0 e0 T c e t -> solo_run evs c e t = Some (c', e', t') ->
    solo_inv p c0 e0 (T + ticks evs) c' e' t'.
  Proof.
    induction evs as [|v evs IH]; intros p c0 e0 T c e t c' e' t' Hc0 He0 Hi Hs.
    - simpl in Hs. inversion Hs; subst. unfold ticks. simpl. rewrite N.add_0_r. exact Hi.
    - destruct v; cbn [Interleave.solo_run] in Hs.
      + destruct (thr_step c e t) as [[t1 f]|] eqn:Et; [|discriminate].
        replace (ticks (EvOp :: evs)) with (ticks evs) by reflexivity.
        apply (IH p c0 e0 T c e t1 c' e' t'); auto. apply (solo_inv_op p c0 e0 T c e t t1 f); auto.
      + replace (T + ticks (EvTickE :: evs)) with ((T + 1) + ticks evs) by (rewrite ticks_tickE; lia).
        apply (IH p c0 e0 (T + 1) c (e + 1) t c' e' t'); auto; try lia.
        destruct Hi as (A & B & done & HF & Hr). split; [lia|split; [lia|]].
        exists done. split; [|exact Hr]. eapply Forall2_mono; [|exact HF]. lia.
      + replace (T + ticks (EvTickC :: evs)) with ((T + 1) + ticks evs) by (rewrite ticks_tickC; lia).
        apply (IH p c0 e0 (T + 1) (c + 1) e t c' e' t'); auto; try lia.
        destruct Hi as (A & B & done & HF & Hr). split; [lia|split; [lia|]].
        exists done. split; [|exact Hr]. eapply Forall2_mono; [|exact HF]. lia.
  Qed.

  (* results of a solo run: scan by scan, the solo result or a timeout allowed by that scan's own timeout *)
  Theorem solo_results : forall evs p c0 e0 c e t,
    solo_run evs c0 e0 (thr0 p) = Some (c, e, t) ->
    exists done rest,
      scans_of p = done ++ rest /\ Forall2 (ok_result (ticks evs)) (rev (results t)) done /\
      (todo t = [] -> running t = None -> rest = []).
  Proof.
    intros evs p c0 e0 c e t Hs.
    assert (Hi : solo_inv p c0 e0 0 c0 e0 (thr0 p)).
    { split; [lia|split; [lia|]]. exists []. simpl. split; auto. }
    pose proof (solo_run_inv _ _ _ _ _ _ _ _ _ _ _ (N.le_refl c0) (N.le_refl e0) Hi Hs) as (_ & _ & done & HF & Hr).
    rewrite N.add_0_l in HF.
    destruct (running t) as [k|] eqn:Er.
    - destruct Hr as (sc & Hp & _). exists done, (sc :: scans_of (todo t)). repeat split; auto. discriminate.
    - exists done, (scans_of (todo t)). repeat split; auto. intros E _. rewrite E. reflexivity.
  Qed.

  (* ------------------------------------------------------------ interleaved runs *)
  Definition hearts (tr : list label) : N :=
    N.of_nat (length (filter (fun l => negb (thread_label l)) tr)).

  Lemma ticks_erase : forall i tr, ticks (erase i tr) = hearts tr.
  Proof.
    intros i tr. unfold ticks, hearts. f_equal.
    induction tr as [|[j| |] tr IH]; simpl; auto.
    destruct (Nat.eqb j i); simpl; auto.
  Qed.

  (* NONINTERFERENCE.  For every interleaving of any number of threads: the
     results thread i has produced are, scan by scan in program order, either
     the result the scan has when run alone ([pure_acc]: no other thread, no
     heartbeat) or a timeout -- and a timeout only when that scan's OWN
     timeout (in seconds) is at most the number of heartbeat transitions of
     the run.  When thread i has finished its program there is one result per
     scan. *)
  Theorem noninterference : forall progs tr s i p t,
    exec tr (init progs) = Some s -> nth_error progs i = Some p -> nth_error (thrs s) i = Some t ->
    exists done rest,
      scans_of p = done ++ rest /\ Forall2 (ok_result (hearts tr)) (rev (results t)) done /\
      (todo t = [] -> running t = None -> rest = []).
  Proof.
    intros progs tr s i p t He Hp Ht.
    destruct (projection _ _ _ i (thr0 p) He) as (t' & A & B).
    { simpl. rewrite nth_error_map, Hp. reflexivity. }
    rewrite Ht in A. inversion A; subst t'. simpl in B.
    destruct (solo_results _ _ _ _ _ _ _ B) as (done & rest & H1 & H2 & H3).
    rewrite ticks_erase in H2. eauto.
  Qed.

  Lemma Forall2_imp : forall A B (R1 R2 : A -> B -> Prop) l l',
    (forall a b, R1 a b -> R2 a b) -> Forall2 R1 l l' -> Forall2 R2 l l'.
  Proof. intros A B R1 R2 l l' H F. induction F; constructor; auto. Qed.

  (* a scan can only time out after at least as many heartbeat transitions as
     ITS OWN timeout has seconds; in particular *)
  Corollary own_deadline_only : forall progs tr s i p t,
    exec tr (init progs) = Some s -> nth_error progs i = Some p -> nth_error (thrs s) i = Some t ->
    exists done rest,
      scans_of p = done ++ rest /\
      Forall2 (fun r sc => hearts tr < timeout_secs (s_timeout sc) -> r = RDone (pure_acc sc)) (rev (results t)) done.
  Proof.
    intros progs tr s i p t He Hp Ht.
    destruct (noninterference _ _ _ _ _ _ He Hp Ht) as (done & rest & H1 & H2 & _).
    exists done, rest. split; auto. eapply Forall2_imp; [|exact H2].
    intros r sc [A|[_ B]] Hlt; auto. lia.
  Qed.

  (* NO TIMEOUT WITHOUT DEADLINE: a scan without user timeout (deadline =
     counter + DEFAULT_SCAN_TIMEOUT) returns its solo result in every run with
     fewer than DEFAULT_SCAN_TIMEOUT heartbeat transitions, whatever the other
     threads do (timeouts of other scanners included) *)
  Corollary no_timeout_without_deadline : forall progs tr s i p t,
    exec tr (init progs) = Some s -> nth_error progs i = Some p -> nth_error (thrs s) i = Some t ->
    hearts tr < default_scan_timeout ->
    exists done rest,
      scans_of p = done ++ rest /\
      Forall2 (fun r sc => s_timeout sc = None -> r = RDone (pure_acc sc)) (rev (results t)) done.
  Proof.
    intros progs tr s i p t He Hp Ht Hlt.
    destruct (own_deadline_only _ _ _ _ _ _ He Hp Ht) as (done & rest & H1 & H2).
    exists done, rest. split; auto. eapply Forall2_imp; [|exact H2].
    intros r sc H E. apply H. rewrite E. exact Hlt.
  Qed.

  (* ------------------------------------------------------------ first use *)
  Theorem apply_effect_idempotent : forall f s, f <> EBumpEpoch -> apply_effect f (apply_effect f s) = apply_effect f s.
  Proof.
    intros [| | |] s H; simpl; auto; [| |congruence].
    - destruct (engine_init s) eqn:E; simpl; rewrite ?E; auto.
    - destruct (hb_started s) eqn:E; simpl; rewrite ?E; auto.
  Qed.

  Definition init_ok (h : shared) : Prop :=
    (hb_started h = true /\ hb_spawns h = 1%nat \/ hb_started h = false /\ hb_spawns h = 0%nat /\ hb_phase h = false /\ counter h = 0 /\ epoch h = 0) /\
    (engine_init h = true /\ engine_creations h = 1%nat \/ engine_init h = false /\ engine_creations h = 0%nat).

  Lemma step_init_ok : forall s l s', step s l = Some s' -> init_ok (sh s) -> init_ok (sh s').
  Proof.
    intros s l s' Hs [H1 H2]. unfold Interleave.step in Hs. destruct l as [i| |].
    - destruct (nth_error (thrs s) i); [|discriminate].
      destruct (thr_step (counter (sh s)) (epoch (sh s)) t) as [[t' f]|] eqn:Et; [|discriminate].
      pose proof (thr_step_effect _ _ _ _ _ Et) as Hne. clear Et.
      inversion Hs; subst; clear Hs. simpl. destruct (sh s) as [c e hs hp ei sp ec]; simpl in *.
      destruct f; simpl; [split; auto| | |congruence].
      + destruct ei; unfold init_ok; simpl; split; auto.
        destruct H2 as [[? ?]|[? ?]]; [discriminate|]. left. split; auto; try lia.
      + destruct hs; unfold init_ok; simpl; split; auto.
        destruct H1 as [[? ?]|(? & ? & ?)]; [discriminate|]. left. split; auto; try lia.
    - destruct (hb_started (sh s) && negb (hb_phase (sh s))) eqn:E; [|discriminate].
      inversion Hs; subst; clear Hs. simpl. apply andb_true_iff in E as [E _].
      split; auto. destruct H1 as [[? ?]|(? & _)]; [left; auto|congruence].
    - destruct (hb_started (sh s) && hb_phase (sh s)) eqn:E; [|discriminate].
      inversion Hs; subst; clear Hs. simpl. apply andb_true_iff in E as [E _].
      split; auto. destruct H1 as [[? ?]|(? & _)]; [left; auto|congruence].
  Qed.

  (* INIT IDEMPOTENT: in every run the engine is created at most once and at
     most one heartbeat thread is spawned, however many threads race for the
     first use; before the heartbeat starts the clock stands still *)
  Theorem init_idempotent : forall progs tr s, exec tr (init progs) = Some s -> init_ok (sh s).
  Proof.
    intros progs tr s He.
    assert (G : forall tr s0 s, init_ok (sh s0) -> exec tr s0 = Some s -> init_ok (sh s)).
    { clear progs tr s He. induction tr as [|l tr IH]; simpl; intros s0 s H He.
      - inversion He; subst; auto.
      - destruct (step s0 l) as [s1|] eqn:E; [|discriminate]. apply (IH s1 s); auto. apply (step_init_ok s0 l s1); auto. }
    apply (G tr (init progs) s); auto.
    unfold init_ok, init, shared0. simpl. split; right; auto.
  Qed.

  (* ------------------------------------------------------------ the scheduler *)
  Theorem run_schedule_sound : forall picks m s, exists tr, exec tr s = Some (run_schedule picks m s).
  Proof.
    induction picks as [|k ks IH]; intros m s.
    - exists []. reflexivity.
    - cbn [Interleave.run_schedule].
      destruct (filter (fun l => thread_label l || negb (Nat.eqb m 0)) (enabled mix bump s)) as [|l0 en']; [exists []; reflexivity|].
      cbv zeta.
      destruct (step s (nth (k mod S (length en')) (l0 :: en') l0)) as [s1|] eqn:E; [|exists []; reflexivity].
      destruct (IH (if thread_label (nth (k mod S (length en')) (l0 :: en') l0) then m else pred m) s1) as (tr & Htr).
      exists (nth (k mod S (length en')) (l0 :: en') l0 :: tr). cbn [Interleave.exec]. rewrite E. exact Htr.
  Qed.
End InterleaveProofs.

(* IF scanner-side code wrote the engine-wide epoch ([bump = true]: e.g. a
   search-phase timeout that calls increment_epoch() on the shared engine
   instead of setting its own store's deadline), deadlines would not be
   private: without a single heartbeat transition, scanner 0 timing out in its
   pattern search makes scanner 1 (timeout 1 s, no tick elapsed) time out. *)
Theorem own_deadline_refuted_if_scanner_writes_epoch : forall (mix : N -> N -> N) (bump : bool),
  bump = true ->
  exists progs tr s t sc,
    exec mix bump tr (init progs) = Some s /\ hearts tr = 0 /\
    nth_error progs 1 = Some [IScan sc] /\ timeout_secs (s_timeout sc) = 1 /\
    nth_error (thrs s) 1 = Some t /\ results t = [RTimeout].
Proof.
  intros mix bump ->.
  exists [[IScan (mkScan (Some 0) [BPollC])]; [IScan (mkScan (Some 1) [BPollE])]].
  exists [LThread 1; LThread 0; LThread 0; LThread 1].
  eexists. eexists. exists (mkScan (Some 1) [BPollE]).
  split; [vm_compute; reflexivity|]. repeat split; reflexivity.
Qed.
