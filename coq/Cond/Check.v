(* C02 - correspondence cases written by harness/src/bin/c02.rs.

   A case is a generated rule set (conditions as [expr], patterns as literal
   byte strings), the scanned buffer, the values of the external variables
   and what the implementation reported: the indices of the matching rules
   with private rules included, and the ones reported by default.

   [check_case]: [RuleSet.eval_ruleset] (the documented meaning; match lists
   computed by the model's own naive search) predicts exactly that.
   [spec_case] = [check_case]: the specification of C02 IS the documented
   meaning, so every disagreement is a violation with a concrete replay.

   [explain] tells which of the two observations disagrees. *)
From Coq Require Import List ZArith NArith Bool.
From YV Require Import Cond.Syntax Cond.Sem Cond.RuleSet.
Import ListNotations.

Record case := mkCase {
  c_data : list Z;
  c_globals : list value;
  c_rules : list rule;
  c_obs_all : list nat;     (* matching_rules().include_private(true), as rule indices, ascending *)
  c_obs_pub : list nat;     (* matching_rules(), as rule indices, ascending *)
  (* the same two observations when a rule that forces the pattern search is
     compiled in front of the rule set (classification only, see [explain]) *)
  c_warm_all : list nat;
  c_warm_pub : list nat
}.

Fixpoint nat_list_eqb (a b : list nat) : bool :=
  match a, b with
  | [], [] => true
  | x :: a', y :: b' => Nat.eqb x y && nat_list_eqb a' b'
  | _, _ => false
  end.

Definition agrees_with (tr : expr -> expr) (c : case) (oa op : list nat) : bool :=
  let '(all, pub) := run tr (c_data c) (c_globals c) (c_rules c) in
  nat_list_eqb all oa && nat_list_eqb pub op.
Definition agrees (c : case) : bool :=
  agrees_with (fun e => e) c (c_obs_all c) (c_obs_pub c).
Definition agrees_warm (c : case) : bool :=
  agrees_with (fun e => e) c (c_warm_all c) (c_warm_pub c).

(* the documented meaning predicts the observation, and also the observation
   made with the pattern search forced up-front (regression assert for the
   skipped lazy search repaired by commit e5009a16: both runs must agree) *)
Definition check_case (c : case) : bool := agrees c && agrees_warm c.
Definition spec_case (c : case) : bool := check_case c.

(* 0: both observations are predicted;
   5: only the run with the pattern search forced is predicted (the lazily
      emitted call to search_for_patterns was skipped: regression);
   8: only the plain run is predicted;
   255: neither *)
Definition explain (c : case) : N :=
  if check_case c then 0%N
  else if agrees_warm c then 5%N
  else if agrees c then 8%N
  else 255%N.
