(* C02 - correspondence cases written by harness/src/bin/c02.rs.

   A case is a generated rule set (conditions as [expr], patterns as literal
   byte strings), the scanned buffer, the values of the external variables
   and what the implementation reported: the indices of the matching rules
   with private rules included, and the ones reported by default.

   [check_case]: [RuleSet.eval_ruleset] (the documented meaning; match lists
   computed by the model's own naive search) predicts exactly that.
   [spec_case] = [check_case]: the specification of C02 IS the documented
   meaning, so every disagreement is a violation with a concrete replay.

   [explain] tells which of the two observations disagrees. *)
From Coq Require Import List ZArith NArith Bool.
From YV Require Import Cond.Syntax Cond.Sem Cond.Rename Cond.Quirks Cond.RuleSet Cond.Machine Cond.Emit Cond.IrTree Cond.Wasm.
Import ListNotations.

Record case := mkCase {
  c_data : list Z;
  c_globals : list value;
  c_rules : list rule;
  c_obs_all : list nat;     (* matching_rules().include_private(true), as rule indices, ascending *)
  c_obs_pub : list nat;     (* matching_rules(), as rule indices, ascending *)
  (* the same two observations when a rule that forces the pattern search is
     compiled in front of the rule set (classification only, see [explain]) *)
  c_warm_all : list nat;
  c_warm_pub : list nat;
  (* the IR the compiler built for every rule, in rule order: the dump that
     Compiler::set_ir_writer received, parsed by the harness *)
  c_ir : list irn;
  (* per rule: the PatternId the compiler gave to each declared pattern
     (identical patterns of the set share one id; hook
     Rules::verif_c02_pattern_ids).  The emitted code refers to patterns by
     these ids. *)
  c_pids : list (list nat);
  (* the code the compiler emitted for every rule, in rule order: the block of
     emit_rule_condition, decoded from the module Compiler::emit_wasm_file wrote *)
  c_wasm : list (list winstr)
}.

Fixpoint nat_list_eqb (a b : list nat) : bool :=
  match a, b with
  | [], [] => true
  | x :: a', y :: b' => Nat.eqb x y && nat_list_eqb a' b'
  | _, _ => false
  end.

Definition agrees_with (tr : expr -> expr) (c : case) (oa op : list nat) : bool :=
  let '(all, pub) := run tr (c_data c) (c_globals c) (c_rules c) in
  nat_list_eqb all oa && nat_list_eqb pub op.
Definition agrees (c : case) : bool :=
  agrees_with (fun e => e) c (c_obs_all c) (c_obs_pub c).
Definition agrees_warm (c : case) : bool :=
  agrees_with (fun e => e) c (c_warm_all c) (c_warm_pub c).

(* Architecture layer, executably: for every rule whose folded condition lies
   in the fragment of Cond/Emit.v, the code emitted by the model of emit.rs,
   run on the machine of Cond/Machine.v with the host functions of the scan,
   computes the documented verdict (no trap, no stuck state, enough fuel).
   EmitProofs.v proves this for all conditions of the proved fragment; here
   it is evaluated on the generated ones. *)
Definition machine_fuel : nat := 400000.
(* the condition as the emitter sees it: folded, patterns named by PatternId *)
Definition gid (pids : list nat) (i : nat) : nat := nth i pids 0%nat.
Definition emitted_cond (pids : list nat) (e : expr) : expr := rename (gid pids) (prefold e).
Fixpoint local_of (g : nat) (pids : list nat) (k : nat) : option nat :=
  match pids with
  | [] => None
  | x :: t => if Nat.eqb x g then Some k else local_of g t (S k)
  end.
Fixpoint machine_rules (data : list Z) (globals : list value) (rules : list rule) (pidss : list (list nat)) (acc : list bool) : bool :=
  match rules with
  | [] => true
  | r :: t =>
      let pids := hd [] pidss in
      let en := rule_env data globals acc r in
      let v := holds en (r_cond r) in
      let ir := emitted_cond pids (r_cond r) in
      (* match lists by PatternId: those of (any of) the rule's patterns with that id *)
      let pmg := fun g : nat => match local_of g pids 0 with Some i => e_pm en i | None => [] end in
      (match tyof [] 0 ir with
       | Some TBool =>
           if frag1 ir then
             match run_condition data pmg (e_rules en) (e_globals en) machine_fuel ir with
             | Some b => Bool.eqb b v
             | None => false
             end
           else true
       | _ => true
       end) && machine_rules data globals t (tl pidss) (acc ++ [v])
  end.
Definition machine_agrees (c : case) : bool := machine_rules (c_data c) (c_globals c) (c_rules c) (c_pids c) [].
(* which conditions of the case have their emitted code compared (the
   fragment of Emit.v), and which of these are also run on the machine
   (Emit.frag1, the part emit_correct is proved for) *)
Definition in_fragment (c : case) : list bool :=
  map (fun rp => match tyof [] 0 (emitted_cond (snd rp) (r_cond (fst rp))) with Some TBool => true | _ => false end)
      (combine (c_rules c) (c_pids c)).
Definition in_proved (c : case) : list bool :=
  map (fun rp => let e := emitted_cond (snd rp) (r_cond (fst rp)) in
                 match tyof [] 0 e with Some TBool => frag1 e | _ => false end)
      (combine (c_rules c) (c_pids c)).

(* Typing of identifiers, constant folding and slot allocation, exactly: the
   IR the compiler built for every rule is the tree [IrTree.ir_of] predicts
   from the condition as written, node by node. *)
Fixpoint ir_rules (rules : list rule) (irs : list irn) : bool :=
  match rules, irs with
  | [], [] => true
  | r :: t, i :: u => ir_agrees (r_cond r) i && ir_rules t u
  | _, _ => false
  end.
Definition ir_matches (c : case) : bool := ir_rules (c_rules c) (c_ir c).
(* number of IR nodes compared *)
Definition ir_nodes (c : case) : nat := fold_right (fun i n => (irn_size i + n)%nat) 0%nat (c_ir c).

(* The emitter, exactly: for every rule whose folded condition lies in the
   fragment of Cond/Emit.v, the emitted code is the code Emit.emit_condition
   predicts, instruction by instruction (Cond/Wasm.v). *)
Fixpoint wasm_rules (rules : list rule) (pidss : list (list nat)) (ws : list (list winstr)) : bool :=
  match rules, pidss, ws with
  | [], [], [] => true
  | r :: t, p :: ps, w :: u => wasm_agrees (emitted_cond p (r_cond r)) w && wasm_rules t ps u
  | _, _, _ => false
  end.
Definition wasm_matches (c : case) : bool := wasm_rules (c_rules c) (c_pids c) (c_wasm c).
(* number of emitted instructions compared (rules of the fragment only) *)
Definition wasm_compared (c : case) : nat :=
  fold_right (fun rw n => match tyof [] 0 (emitted_cond (snd (fst rw)) (r_cond (fst (fst rw)))) with Some TBool => (wsize (snd rw) + n)%nat | _ => n end)
             0%nat (combine (combine (c_rules c) (c_pids c)) (c_wasm c)).

(* the documented meaning predicts the observation, and also the observation
   made with the pattern search forced up-front (regression assert for the
   skipped lazy search repaired by commit e5009a16: both runs must agree) *)
Definition check_case (c : case) : bool := agrees c && agrees_warm c && machine_agrees c && ir_matches c && wasm_matches c.
Definition spec_case (c : case) : bool := check_case c.

(* 0: both observations are predicted;
   5: only the run with the pattern search forced is predicted (the lazily
      emitted call to search_for_patterns was skipped: regression);
   8: only the plain run is predicted;
   9: only the emitted-code model (Emit.v run on Machine.v) disagrees;
   10: only the IR the compiler built differs from the predicted tree;
   11: only the emitted code differs from the code Emit.v predicts;
   255: neither *)
Definition explain (c : case) : N :=
  if check_case c then 0%N
  else if agrees c && agrees_warm c && machine_agrees c && ir_matches c then 11%N
  else if agrees c && agrees_warm c && machine_agrees c then 10%N
  else if agrees c && agrees_warm c then 9%N
  else if agrees_warm c then 5%N
  else if agrees c then 8%N
  else 255%N.
