(* C02 - correspondence cases written by harness/src/bin/c02.rs.

   A case is a generated rule set (conditions as [expr], patterns as literal
   byte strings), the scanned buffer, the values of the external variables
   and what the implementation reported: the indices of the matching rules
   with private rules included, and the ones reported by default.

   [check_case]: [RuleSet.eval_ruleset] (the documented meaning; match lists
   computed by the model's own naive search) predicts exactly that.
   [spec_case] = [check_case]: the specification of C02 IS the documented
   meaning, so every disagreement is a violation with a concrete replay.

   [explain] classifies a disagreement by the known deviation that reproduces
   the observed verdicts. *)
From Coq Require Import List ZArith NArith Bool.
From YV Require Import Cond.Syntax Cond.Sem Cond.RuleSet.
Import ListNotations.

Record case := mkCase {
  c_data : list Z;
  c_globals : list value;
  c_rules : list rule;
  c_obs_all : list nat;     (* matching_rules().include_private(true), as rule indices, ascending *)
  c_obs_pub : list nat;     (* matching_rules(), as rule indices, ascending *)
  (* the same two observations when a rule that forces the pattern search is
     compiled in front of the rule set (classification only, see [explain]) *)
  c_warm_all : list nat;
  c_warm_pub : list nat
}.

Fixpoint nat_list_eqb (a b : list nat) : bool :=
  match a, b with
  | [], [] => true
  | x :: a', y :: b' => Nat.eqb x y && nat_list_eqb a' b'
  | _, _ => false
  end.

Definition agrees_with (tr : expr -> expr) (fast : bool) (c : case) (oa op : list nat) : bool :=
  let '(all, pub) := run tr (c_data c) (c_globals c) fast (c_rules c) in
  nat_list_eqb all oa && nat_list_eqb pub op.
Definition agrees (tr : expr -> expr) (fast : bool) (c : case) : bool :=
  agrees_with tr fast c (c_obs_all c) (c_obs_pub c).
Definition agrees_warm (tr : expr -> expr) (fast : bool) (c : case) : bool :=
  agrees_with tr fast c (c_warm_all c) (c_warm_pub c).

Definition check_case (c : case) : bool := agrees (fun e => e) false c.
Definition spec_case (c : case) : bool := check_case c.

(* 0: the documented meaning predicts the observation;
   2: reproduced by the model of the `N of` fast path for N <= 0 (findings 6, 11);
   5: the documented meaning predicts what the implementation reports once
      the pattern search is forced before the first condition is evaluated
      (the lazily emitted call to search_for_patterns was skipped);
   7: 5 together with 2;
   255: unexplained.
   (1, 3, 4, 6 were the models of constant folding through f64 and of the
   undefined-flag aliasing, both repaired in /repo.) *)
Definition explain (c : case) : N :=
  if check_case c then 0%N
  else if agrees (fun e => e) true c then 2%N
  else if agrees_warm (fun e => e) false c then 5%N
  else if agrees_warm (fun e => e) true c then 7%N
  else 255%N.
