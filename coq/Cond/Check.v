(* C02 - correspondence cases written by harness/src/bin/c02.rs.

   A case is a generated rule set (conditions as [expr], patterns as literal
   byte strings), the scanned buffer, the values of the external variables
   and what the implementation reported: the indices of the matching rules
   with private rules included, and the ones reported by default.

   [check_case]: [RuleSet.eval_ruleset] (the documented meaning; match lists
   computed by the model's own naive search) predicts exactly that.
   [spec_case] = [check_case]: the specification of C02 IS the documented
   meaning, so every disagreement is a violation with a concrete replay.

   [explain] tells which of the two observations disagrees. *)
From Coq Require Import List ZArith NArith Bool.
From YV Require Import Cond.Syntax Cond.Sem Cond.Quirks Cond.RuleSet Cond.Machine Cond.Emit Cond.IrTree.
Import ListNotations.

Record case := mkCase {
  c_data : list Z;
  c_globals : list value;
  c_rules : list rule;
  c_obs_all : list nat;     (* matching_rules().include_private(true), as rule indices, ascending *)
  c_obs_pub : list nat;     (* matching_rules(), as rule indices, ascending *)
  (* the same two observations when a rule that forces the pattern search is
     compiled in front of the rule set (classification only, see [explain]) *)
  c_warm_all : list nat;
  c_warm_pub : list nat;
  (* the IR the compiler built for every rule, in rule order: the dump that
     Compiler::set_ir_writer received, parsed by the harness *)
  c_ir : list irn
}.

Fixpoint nat_list_eqb (a b : list nat) : bool :=
  match a, b with
  | [], [] => true
  | x :: a', y :: b' => Nat.eqb x y && nat_list_eqb a' b'
  | _, _ => false
  end.

Definition agrees_with (tr : expr -> expr) (c : case) (oa op : list nat) : bool :=
  let '(all, pub) := run tr (c_data c) (c_globals c) (c_rules c) in
  nat_list_eqb all oa && nat_list_eqb pub op.
Definition agrees (c : case) : bool :=
  agrees_with (fun e => e) c (c_obs_all c) (c_obs_pub c).
Definition agrees_warm (c : case) : bool :=
  agrees_with (fun e => e) c (c_warm_all c) (c_warm_pub c).

(* Architecture layer, executably: for every rule whose folded condition lies
   in the fragment of Cond/Emit.v, the code emitted by the model of emit.rs,
   run on the machine of Cond/Machine.v with the host functions of the scan,
   computes the documented verdict (no trap, no stuck state, enough fuel).
   EmitProofs.v proves this for all conditions of the proved fragment; here
   it is evaluated on the generated ones. *)
Definition machine_fuel : nat := 400000.
Fixpoint machine_rules (data : list Z) (globals : list value) (rules : list rule) (acc : list bool) : bool :=
  match rules with
  | [] => true
  | r :: t =>
      let en := rule_env data globals acc r in
      let v := holds en (r_cond r) in
      let ir := prefold (r_cond r) in
      (match tyof [] 0 ir with
       | Some TBool =>
           match run_condition data (e_pm en) (e_rules en) (e_globals en) machine_fuel ir with
           | Some b => Bool.eqb b v
           | None => false
           end
       | _ => true
       end) && machine_rules data globals t (acc ++ [v])
  end.
Definition machine_agrees (c : case) : bool := machine_rules (c_data c) (c_globals c) (c_rules c) [].
(* how many conditions of the case are in the fragment (reported by the check) *)
Definition in_fragment (c : case) : list bool :=
  map (fun r => match tyof [] 0 (prefold (r_cond r)) with Some TBool => true | _ => false end) (c_rules c).

(* Typing of identifiers, constant folding and slot allocation, exactly: the
   IR the compiler built for every rule is the tree [IrTree.ir_of] predicts
   from the condition as written, node by node. *)
Fixpoint ir_rules (rules : list rule) (irs : list irn) : bool :=
  match rules, irs with
  | [], [] => true
  | r :: t, i :: u => ir_agrees (r_cond r) i && ir_rules t u
  | _, _ => false
  end.
Definition ir_matches (c : case) : bool := ir_rules (c_rules c) (c_ir c).
(* number of IR nodes compared *)
Definition ir_nodes (c : case) : nat := fold_right (fun i n => (irn_size i + n)%nat) 0%nat (c_ir c).

(* the documented meaning predicts the observation, and also the observation
   made with the pattern search forced up-front (regression assert for the
   skipped lazy search repaired by commit e5009a16: both runs must agree) *)
Definition check_case (c : case) : bool := agrees c && agrees_warm c && machine_agrees c && ir_matches c.
Definition spec_case (c : case) : bool := check_case c.

(* 0: both observations are predicted;
   5: only the run with the pattern search forced is predicted (the lazily
      emitted call to search_for_patterns was skipped: regression);
   8: only the plain run is predicted;
   9: only the emitted-code model (Emit.v run on Machine.v) disagrees;
   10: only the IR the compiler built differs from the predicted tree;
   255: neither *)
Definition explain (c : case) : N :=
  if check_case c then 0%N
  else if agrees c && agrees_warm c && machine_agrees c then 10%N
  else if agrees c && agrees_warm c then 9%N
  else if agrees_warm c then 5%N
  else if agrees c then 8%N
  else 255%N.
