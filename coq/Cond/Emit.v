(* C02 - architecture layer: model of lib/src/compiler/emit.rs for a fragment
   of the condition language, producing code for Cond/Machine.v.

   The fragment ([tyof] answers Some): integer and boolean constants,
   filesize, loop / with identifiers, integer and boolean external variables,
   rule references, not / n-ary and / or, defined, unary minus and ~, + - * \ %
   << >> & | ^, comparisons of integers (and == of booleans), uintN/intN[be],
   $a [at e | in (e..e)], #a [in (e..e)], @a[e], !a[e], `with`,
   `for Q x in (lo..hi)`, `for Q x in (e, ..)`, `for Q of <set>` with the
   placeholders $ # @ !, `Q of <set>` [at | in] (the three fast paths over
   runs of consecutive pattern ids, the generic loop otherwise) and
   `Q of (<boolean>, ..)`, with Q = none | any | all | <expr> | <expr>%.
   Outside: strings.
   The emitted WebAssembly of every rule of that fragment is compared with
   [emit] instruction by instruction (Cond/Wasm.v, Cond/Check.v).  [frag1] is
   the part EmitProofs.emit_correct is proved for and Check.v also runs on the
   machine: no emit_switch (generic `of` loop, tuples, for..of) and no
   percentage (its f64 arithmetic is carried as uninterpreted [IRaw]).

   What mirrors emit.rs function by function:
   [throw] / [catch_undef] - throw_undef / catch_undef (the handler's code is
   emitted at the throw site, followed by a br to the handler's block);
   the cases of [emit]: emit_filesize; emit_not / emit_and / emit_or (over the
   operands of the n-ary node, constant ones dropped) / emit_defined;
   [shift_tail] (the < 64 guard); [div_tail] (throw_undef_if_zero, then the
   divisor == -1 branch) / [mod_tail]; [search_check] before EVERY pattern
   operation (commit e5009a16); [load_var] / [set_var] / [set_var_undef] with
   the flag word at (index / 64) * 8 (commit 93e33409); emit_with;
   EForRange = emit_for_in_range + emit_for; [for_gen] / [arm_gen] = emit_for
   for the other loops; [switch] = emit_switch; [of_runs] / [range_call] = the
   fast paths of emit_of_pattern_set.
   More abstract than the emitted code (expanded by Wasm.lower): the field
   lookup of an external variable and the byte load of the matching-rules
   bitmap are single host calls.  Pattern references are PatternIds (Check.v
   renames the rule's pattern indexes with the ids the compiler assigned);
   the slot of the `for .. of` item lives in the identifier environment under
   the reserved key [cur_key]. *)
From Coq Require Import List ZArith Bool Lia.
From YV Require Import Cond.Syntax Cond.Sem Cond.Quirks Cond.Machine Gen.EmitFacts.
Import ListNotations.
Local Open Scope Z_scope.

(* constants and shapes read from lib/src/compiler/emit.rs, lib/src/wasm/mod.rs and
   lib/src/compiler/context.rs by translate/gen_emit.py on every run (Gen/EmitFacts.v) *)
Definition MAX_VARS : Z := EmitFacts.max_vars.
Definition VARS_STACK_START : Z := EmitFacts.vars_stack_start.
Definition FLAG_WORD_BYTES : Z := EmitFacts.flag_word_bytes.
Definition VAR_SLOT_BYTES : Z := EmitFacts.var_slot_bytes.
Definition SHIFT_LIMIT : Z := EmitFacts.shift_guard_const.
Definition FOR_IN_FRAME : nat := EmitFacts.for_in_frame_size.
Definition OF_FRAME : nat := EmitFacts.of_frame_size.

Definition tmpA : nat := 0.
Definition tmpB : nat := 1.
Definition tmpI : nat := 2.      (* the i32 scratch local of emit_switch *)
Definition FOR_OF_FRAME : nat := EmitFacts.for_of_frame_size.
(* the slot of the item of the innermost `for .. of` (the placeholder `$`, `#`,
   `@`, `!`) is kept in the identifier environment under a reserved key that
   no identifier of a condition uses *)
Definition cur_key : nat := 4999.

Inductive ty := TBool | TInt.
Definition ty_eqb (a b : ty) : bool := match a, b with TBool, TBool | TInt, TInt => true | _, _ => false end.

(* identifier -> (variable slot, type), innermost first *)
Definition cenv := list (nat * (nat * ty)).
Fixpoint clookup (x : nat) (g : cenv) : option (nat * ty) :=
  match g with
  | [] => None
  | (y, v) :: t => if Nat.eqb x y then Some v else clookup x t
  end.

(* types of the external variables of the generated rule sets: the harness
   declares gi0, gi1 (integers), gb0, gb1 (booleans); the rest are strings *)
Definition global_ty (g : nat) : option ty :=
  match g with 0 | 1 => Some TInt | 2 | 3 => Some TBool | _ => None end%nat.

(* emit_of_pattern_set sorts the pattern ids and splits them into runs of
   consecutive ids (consecutive_ranges) *)
Fixpoint insert_id (x : nat) (l : list nat) : list nat :=
  match l with
  | [] => [x]
  | y :: t => if Nat.leb x y then x :: l else y :: insert_id x t
  end.
Definition sort_ids (l : list nat) : list nat := fold_right insert_id [] l.
(* consecutive runs of a sorted list of ids: (first, last) *)
Fixpoint runs_from (first last : nat) (l : list nat) : list (nat * nat) :=
  match l with
  | [] => [(first, last)]
  | x :: t => if Nat.eqb x (S last) then runs_from first x t else (first, last) :: runs_from x x t
  end.
Definition runs (l : list nat) : list (nat * nat) :=
  match sort_ids l with [] => [] | x :: t => runs_from x x t end.

Definition consecutive_ids (l : list nat) : bool :=
  match runs l with [_] => true | _ => false end.

(* a frame of n more slots fits *)
Definition fits (sp n : nat) : option ty :=
  if Nat.leb (sp + n) (Z.to_nat MAX_VARS) then Some TBool else None.

(* the type of an expression of the fragment; None: outside the fragment *)
Fixpoint tyof (g : cenv) (sp : nat) (e : expr) {struct e} : option ty :=
  match e with
  | EBool _ => Some TBool
  | EInt _ => Some TInt
  | EFilesize => Some TInt
  | EVar x => option_map snd (clookup x g)
  | EGlobal k => global_ty k
  | ERule _ => Some TBool
  | ENot a => match tyof g sp a with Some TBool => Some TBool | _ => None end
  | EAnd a b | EOr a b =>
      match tyof g sp a, tyof g sp b with Some TBool, Some TBool => Some TBool | _, _ => None end
  | EDefined a => match tyof g sp a with Some _ => Some TBool | None => None end
  | ENeg a | EBitNot a => match tyof g sp a with Some TInt => Some TInt | _ => None end
  | EArith _ a b => match tyof g sp a, tyof g sp b with Some TInt, Some TInt => Some TInt | _, _ => None end
  | ECmp op a b =>
      match tyof g sp a, tyof g sp b with
      | Some TInt, Some TInt => Some TBool
      | Some TBool, Some TBool => match op with Eq => Some TBool | _ => None end
      | _, _ => None
      end
  | ERead (IK n _ _) off =>
      match tyof g sp off with
      | Some TInt => if Nat.eqb n 1 || Nat.eqb n 2 || Nat.eqb n 4 then Some TInt else None
      | _ => None
      end
  | EPat (PId _) ANone _ _ => Some TBool
  | EPat (PId _) AAt a1 _ => match tyof g sp a1 with Some TInt => Some TBool | _ => None end
  | EPat (PId _) AIn a1 a2 => match tyof g sp a1, tyof g sp a2 with Some TInt, Some TInt => Some TBool | _, _ => None end
  | ECount (PId _) false _ _ => Some TInt
  | ECount (PId _) true lo hi => match tyof g sp lo, tyof g sp hi with Some TInt, Some TInt => Some TInt | _, _ => None end
  | EOffset (PId _) i | ELength (PId _) i => match tyof g sp i with Some TInt => Some TInt | _ => None end
  | EOf QAny _ (_ :: _) ANone _ _ | EOf QAll _ (_ :: _) ANone _ _ => Some TBool
  | EOf QExpr q ((_ :: _) as set) ANone _ _ =>
      match tyof g sp q with
      | Some TInt => if consecutive_ids set then Some TBool else fits sp OF_FRAME
      | _ => None
      end
  (* the other shapes of `of` over a pattern set are emitted as a loop *)
  | EOf QNone _ (_ :: _) ANone _ _ => fits sp OF_FRAME
  | EOf QPct q (_ :: _) ANone _ _ => match tyof g sp q with Some TInt => fits sp OF_FRAME | _ => None end
  | EOf qk q (_ :: _) AAt a1 _ =>
      match (match qk with QExpr | QPct => tyof g sp q | _ => Some TInt end), tyof g sp a1 with
      | Some TInt, Some TInt => fits sp OF_FRAME
      | _, _ => None
      end
  | EOf qk q (_ :: _) AIn a1 a2 =>
      match (match qk with QExpr | QPct => tyof g sp q | _ => Some TInt end), tyof g sp a1, tyof g sp a2 with
      | Some TInt, Some TInt, Some TInt => fits sp OF_FRAME
      | _, _, _ => None
      end
  (* the placeholders of `for .. of` *)
  | EPat PCur ak a1 a2 =>
      match clookup cur_key g with
      | Some (_, TInt) =>
          match ak with
          | ANone => Some TBool
          | AAt => match tyof g sp a1 with Some TInt => Some TBool | _ => None end
          | AIn => match tyof g sp a1, tyof g sp a2 with Some TInt, Some TInt => Some TBool | _, _ => None end
          end
      | _ => None
      end
  | ECount PCur rg lo hi =>
      match clookup cur_key g with
      | Some (_, TInt) =>
          if rg then match tyof g sp lo, tyof g sp hi with Some TInt, Some TInt => Some TInt | _, _ => None end
          else Some TInt
      | _ => None
      end
  | EOffset PCur i | ELength PCur i =>
      match clookup cur_key g, tyof g sp i with Some (_, TInt), Some TInt => Some TInt | _, _ => None end
  | EForOf qk q (_ :: _) body =>
      match (match qk with QExpr | QPct => tyof g sp q | _ => Some TInt end) with
      | Some TInt =>
          match fits sp FOR_OF_FRAME,
                tyof ((cur_key, ((sp + 4)%nat, TInt)) :: g) (sp + FOR_OF_FRAME)%nat body with
          | Some TBool, Some TBool => Some TBool
          | _, _ => None
          end
      | _ => None
      end
  | EOfB qk q ((ECons _ _) as items) =>
      match (match qk with QExpr | QPct => tyof g sp q | _ => Some TInt end) with
      | Some TInt =>
          match fits sp OF_FRAME with
          | Some TBool => if tyof_all g (sp + OF_FRAME)%nat TBool items then Some TBool else None
          | _ => None
          end
      | _ => None
      end
  | EForTuple qk q x ((ECons i0 _) as items) body =>
      match (match qk with QExpr | QPct => tyof g sp q | _ => Some TInt end), tyof g sp i0 with
      | Some TInt, Some t =>
          if tyof_all g sp t items then
            match fits sp FOR_IN_FRAME,
                  tyof ((x, ((sp + 5)%nat, t)) :: g) (sp + FOR_IN_FRAME)%nat body with
            | Some TBool, Some TBool => Some TBool
            | _, _ => None
            end
          else None
      | _, _ => None
      end
  | EForRange qk q x lo hi body =>
      match (match qk with QExpr | QPct => tyof g sp q | _ => Some TInt end), tyof g sp lo, tyof g sp hi with
      | Some TInt, Some TInt, Some TInt =>
          if negb (Nat.leb (sp + FOR_IN_FRAME) (Z.to_nat MAX_VARS)) then None else
          match tyof ((x, ((sp + 5)%nat, TInt)) :: g) (sp + FOR_IN_FRAME)%nat body with Some TBool => Some TBool | _ => None end
      | _, _, _ => None
      end
  | EWith x d body =>
      (* the frame of the `with` is opened before its declarations are compiled *)
      match tyof g (S sp) d with
      | Some t =>
          if Nat.ltb sp (Z.to_nat MAX_VARS) then
            match tyof ((x, (sp, t)) :: g) (S sp) body with Some TBool => Some TBool | _ => None end
          else None
      | None => None
      end
  | _ => None
  end
with tyof_all (g : cenv) (sp : nat) (t : ty) (es : exprs) {struct es} : bool :=
  match es with
  | ENil => true
  | ECons e r => match tyof g sp e with Some t' => ty_eqb t t' | None => false end && tyof_all g sp t r
  end.

(* the part of the fragment for which EmitProofs.emit_correct is proved (and
   whose code Check.v also runs on the machine): everything [tyof] types but
   the constructs emitted through emit_switch - `of` over a pattern set when it
   needs a loop, `of` over a tuple, `for .. of` with its placeholders, `for ..
   in` over a tuple - whose code is only compared with the emitted WebAssembly *)
Fixpoint frag1 (e : expr) : bool :=
  match e with
  | EBool _ | EInt _ | EFilesize | EVar _ | EGlobal _ | ERule _ => true
  | ENot a | EDefined a | ENeg a | EBitNot a | ERead _ a => frag1 a
  | EOffset (PId _) a | ELength (PId _) a => frag1 a
  | EAnd a b | EOr a b | EArith _ a b | ECmp _ a b | EWith _ a b => frag1 a && frag1 b
  | EPat (PId _) ANone _ _ => true
  | EPat (PId _) AAt a _ => frag1 a
  | EPat (PId _) AIn a b => frag1 a && frag1 b
  | ECount (PId _) false _ _ => true
  | ECount (PId _) true a b => frag1 a && frag1 b
  | EOf QExpr q set ANone _ _ => frag1 q && consecutive_ids set
  | EOf QAny _ _ ANone _ _ | EOf QAll _ _ ANone _ _ => true
  | EForRange qk q _ lo hi body =>
      match qk with QExpr => frag1 q | QPct => false | _ => true end && frag1 lo && frag1 hi && frag1 body
  | _ => false
  end.

(* ------------------------------------------------- exceptions for undefined *)
Record handler := mkH { h_code : list instr; h_depth : nat }.
Definition deeper (h : handler) : handler := mkH (h_code h) (S (h_depth h)).
(* throw_undef: the innermost handler's code, then a jump out of its block *)
Definition throw (h : handler) : list instr := h_code h ++ [IBr (h_depth h)].
(* catch_undef: a block; inside it the handler is [catch] at depth 0 *)
Definition catch_undef (arity : nat) (body : handler -> list instr) (catch : list instr) : list instr :=
  [IBlock arity (body (mkH catch 0))].

(* emit_call_and_handle_undef: the callee left (value, is_undef) *)
Definition call_handle_undef (f : hostfn) (h : handler) : list instr :=
  [ICall f; IIf 0 (throw (deeper h)) []].

(* throw_undef_if_zero *)
Definition throw_if_zero (h : handler) : list instr :=
  [ILocalTee tmpA; IUn I64Eqz; IIf 1 (throw (deeper h)) [ILocalGet tmpA]].

(* emit_lazy_call_to_search_for_patterns *)
Definition search_check : list instr :=
  if EmitFacts.search_check_unconditional && EmitFacts.search_check_before_every_pattern_op
  then [IGlobalGet GSearchDone; IIf 0 [] [ICall HSearch]] else [].

(* ------------------------------------------------------------------ variables *)
Definition flag_addr (slot : nat) : Z := (Z.of_nat slot / EmitFacts.flag_index_div) * FLAG_WORD_BYTES.
Definition flag_bit (slot : nat) : Z := w64 (2 ^ (Z.of_nat slot mod EmitFacts.flag_index_rem)).
Definition slot_addr (slot : nat) : Z := Z.of_nat slot * VAR_SLOT_BYTES.
Definition width_of (t : ty) : width := match t with TBool => W32 | TInt => W64 end.

Definition set_var_undef (slot : nat) (undef : bool) : list instr :=
  [IConst (V32 (flag_addr slot)); IConst (V32 (flag_addr slot)); ILoad W64 0;
   IConst (V64 (if undef then flag_bit slot else Z.lnot (flag_bit slot)));
   IBin (if undef then I64Or else I64And);
   IStore W64 0].

Definition set_var (slot : nat) (t : ty) (value : list instr) : list instr :=
  [IConst (V32 (slot_addr slot))] ++ value ++ [IStore (width_of t) VARS_STACK_START] ++ set_var_undef slot false.

Definition load_var (slot : nat) (t : ty) (h : handler) : list instr :=
  [IConst (V32 (flag_addr slot)); ILoad W64 0; IConst (V64 (flag_bit slot)); IBin I64And; IUn I64Eqz;
   IIf 0 [] (throw (deeper h));
   IConst (V32 (slot_addr slot)); ILoad (width_of t) VARS_STACK_START].

Definition incr_var (slot : nat) (h : handler) : list instr :=
  set_var slot TInt (load_var slot TInt h ++ [IConst (V64 1); IBin I64Add]).

(* -------------------------------------------------------------------- operators *)
Definition arith_op (op : arith) : binop :=
  match op with
  | Add => I64Add | Sub => I64Sub | Mul => I64Mul | Div => I64DivS | Mod => I64RemS
  | Shl => I64Shl | Shr => I64ShrS | BAnd => I64And | BOr => I64Or | BXor => I64Xor
  end.
Definition cmp_op (op : cmp) : binop :=
  match op with Eq => I64Eq | Ne => I64Ne | Lt => I64LtS | Le => I64LeS | Gt => I64GtS | Ge => I64GeS end.

Definition range_call (r : nat * nat) (required : list instr) : list instr :=
  [IConst (V32 (Z.of_nat (fst r))); IConst (V32 (Z.of_nat (snd r)))] ++ required ++ [ICall HRangeMatch].

(* `any of` / `all of`: one call per run, leaving early *)
Fixpoint of_runs (all : bool) (rs : list (nat * nat)) : list instr :=
  match rs with
  | [] => []
  | r :: t =>
      (if Nat.eqb (fst r) (snd r) then [IConst (V32 (Z.of_nat (fst r))); ICall HCheckMatch]
       else range_call r [IConst (V64 (if all then Z.of_nat (snd r) - Z.of_nat (fst r) + 1 else 1))])
      ++ match t with
         | [] => []
         | _ => (if all then [IIf 0 [] [IConst (V32 0); IBr 1]] else [IIf 0 [IConst (V32 1); IBr 1] []]) ++ of_runs all t
         end
  end.

(* the code after the two operands of << >> (the guard), of \ and of % *)
Definition shift_tail (op : arith) : list instr :=
  [ILocalSet tmpB; ILocalSet tmpA; ILocalGet tmpB; IConst (V64 SHIFT_LIMIT); IBin EmitFacts.shift_guard_cmp;
   IIf 1 [ILocalGet tmpA; ILocalGet tmpB; IBin (arith_op op)] [IConst (V64 EmitFacts.shift_guard_else)]].
Definition div_tail (h : handler) : list instr :=
  (if EmitFacts.div_zero_guard then throw_if_zero h else []) ++
  (if EmitFacts.div_minus_one_branch then
     [ILocalSet tmpB; ILocalSet tmpA; ILocalGet tmpB; IConst (V64 (-1)); IBin I64Eq;
      IIf 1 [IConst (V64 0); ILocalGet tmpA; IBin I64Sub] [ILocalGet tmpA; ILocalGet tmpB; IBin I64DivS]]
   else [IBin I64DivS]).
Definition mod_tail (h : handler) : list instr :=
  (if EmitFacts.mod_zero_guard then throw_if_zero h else []) ++ [IBin I64RemS].

(* emit_for: one branch of the none / all / any arms *)
Definition for_branch (repeats : bool) (value : Z) (repeat_code : list instr) : list instr :=
  (if repeats then repeat_code else []) ++ [IConst (V32 value); IBr 2].
Definition for_arm (a : bool * Z * bool * Z) (repeat_code : list instr) : list instr :=
  let '(r1, v1, r2, v2) := a in
  [IIf 1 (for_branch r1 v1 repeat_code) (for_branch r2 v2 repeat_code)].

(* emit_and / emit_or: the code of the operands that remain, joined by the
   early exits; an operand the IR builder dropped contributes nothing *)
Definition and_exit : list instr := [IIf 0 [] [IConst (V32 0); IBr 1]].
Definition or_exit : list instr := [IIf 0 [IConst (V32 1); IBr 1] []].
Definition join_and (x y : option (list instr)) : option (list instr) :=
  match x, y with
  | None, o => o
  | Some c, None => Some c
  | Some c1, Some c2 => Some (c1 ++ and_exit ++ c2)
  end.
Definition join_or (x y : option (list instr)) : option (list instr) :=
  match x, y with
  | None, o => o
  | Some c, None => Some c
  | Some c1, Some c2 => Some (c1 ++ or_exit ++ c2)
  end.
(* all operands dropped cannot come out of the IR builder (it folds the node);
   the code is then the constant the node stands for *)
Definition code_and (c : option (list instr)) : list instr :=
  match c with Some c => c | None => [IConst (V32 1)] end.
Definition code_or (c : option (list instr)) : list instr :=
  match c with Some c => c | None => [IConst (V32 0)] end.

(* ---------------------------------------------------------------- emit_switch *)
Fixpoint deepen (k : nat) (h : handler) : handler :=
  match k with O => h | S k' => deeper (deepen k' h) end.
(* the blocks around the branches but the last: each is followed by a jump out
   of the outermost block *)
Fixpoint switch_wrap (cur : list instr) (mid : list (list instr)) (d : nat) : list instr :=
  match mid with
  | [] => cur
  | b :: t => switch_wrap [IBlock 0 (cur ++ [IBlock 1 b; IBr d])] t (d - 1)%nat
  end.
(* selector (an i64) on the stack -> the value of the selected branch *)
Definition switch (branches : list (list instr)) : list instr :=
  let n := length branches in
  [IUn I32WrapI64; ILocalSet tmpI] ++
  match rev branches with
  | [] => [IUnreachable]
  | last :: rmid =>
      [IBlock 1
         (switch_wrap [IBlock 0 [IBlock 0 [ILocalGet tmpI; IBrTable (seq 1 n) 0]; IUnreachable]] (rev rmid) (n - 1)%nat
          ++ [IBlock 1 last])]
  end.
(* the handler in force inside branch k of n, given the one around the switch *)
Definition branch_handler (n k : nat) (h : handler) : handler := deepen (n + 1 - k)%nat h.

(* ------------------------------------------------------------------- emit_for *)
(* max_count of a percentage: ceil (n * q / 100) in f64, saturating back to i64 *)
Definition pct_code (nslot : nat) (hh : handler) (qc : list instr) : list instr :=
  load_var nslot TInt hh ++ [IRaw 0xb9 []] ++ qc ++
  [IRaw 0xb9 []; IRaw 0xa2 []; IRaw 0x44 [4636737291354636288]; IRaw 0xa3 []; IRaw 0x9b []; IRaw 0xfc [6]].

(* incr_i_and_repeat: [after] is the loop's own step (the next item of a range) *)
Definition repeat_gen (after : list instr) (sp : nat) (hh : handler) (lbl : nat) : list instr :=
  after ++ incr_var (S sp) hh ++ load_var (S sp) TInt hh ++ load_var sp TInt hh ++ [IBin I64LtS; IBrIf lbl].
Definition arm_gen (after : handler -> list instr) (sp : nat) (h : handler) (qk : qkind) : list instr :=
  let h2 := deeper (deeper h) in let h3 := deeper h2 in
  match qk with
  | QNone => [IIf 1%nat [IConst (V32 0); IBr 2%nat] (repeat_gen (after h3) sp h3 1%nat ++ [IConst (V32 1); IBr 2])]
  | QAll => [IIf 1 (repeat_gen (after h3) sp h3 1%nat ++ [IConst (V32 1); IBr 2]) [IConst (V32 0); IBr 2]]
  | QAny => [IIf 1 [IConst (V32 1); IBr 2] (repeat_gen (after h3) sp h3 1%nat ++ [IConst (V32 0); IBr 2])]
  | _ =>
      [IIf 0
         (incr_var (S (S (S sp))) h3 ++ load_var (S (S (S sp))) TInt h3 ++ load_var (S (S sp)) TInt h3 ++
          [IBin EmitFacts.for_expr_reached;
           IIf 0 (load_var (S (S sp)) TInt (deeper h3) ++ [IConst (V64 0); IBin EmitFacts.for_expr_exit_value; IBr 3]) []])
         []]
      ++ repeat_gen (after h2) sp h2 0%nat
      ++ load_var (S (S sp)) TInt h2 ++ [IUn I64Eqz]
  end.
(* emit_for with the frame n, i, max_count, count at sp .. sp+3 *)
Definition for_gen (sp : nat) (h : handler) (qk : qkind) (qcode : handler -> list instr)
                   (init : handler -> list instr) (before : handler -> list instr)
                   (bodyc : handler -> list instr) (after : handler -> list instr) : list instr :=
  [IBlock 1
     (init (deeper h)
      ++ set_var (S sp) TInt [IConst (V64 0)]
      ++ (match qk with
          | QExpr => set_var (S (S sp)) TInt (qcode (deeper h)) ++ set_var (S (S (S sp))) TInt [IConst (V64 0)]
          | QPct => set_var (S (S sp)) TInt (pct_code sp (deeper h) (qcode (deeper h))) ++ set_var (S (S (S sp))) TInt [IConst (V64 0)]
          | _ => []
          end)
      ++ [ILoop 1 (before (deeper (deeper h)) ++ catch_undef 1 bodyc [IConst (V32 0)] ++ arm_gen after sp h qk)])].
(* the i-th pattern id of a set, into the item variable *)
Definition next_pattern (sp item : nat) (ids : list nat) (hh : handler) : list instr :=
  set_var item TInt (load_var (S sp) TInt hh ++ switch (map (fun id => [IConst (V64 (Z.of_nat id))]) ids)).
Definition set_count (sp n : nat) : list instr := set_var sp TInt [IConst (V64 (Z.of_nat n))].

Section Emit.
  (* emit_expr.  g: identifiers in scope; sp: number of variable slots in use;
     h: the innermost handler for undefined values *)
  Fixpoint emit (g : cenv) (sp : nat) (h : handler) (e : expr) {struct e} : list instr :=
    let emit_bool g sp h e :=
      emit g sp h e ++ match tyof g sp e with Some TInt => [IConst (V64 0); IBin I64Ne] | _ => [] end in
    match e with
    | EBool b => [IConst (V32 (b2z b))]
    | EInt z => [IConst (V64 z)]
    | EFilesize =>
        [IGlobalGet GFilesize; ILocalTee tmpA; IConst (V64 0); IBin I64LtS;
         IIf 1 (throw (deeper h)) [ILocalGet tmpA]]
    | EVar x =>
        match clookup x g with Some (slot, t) => load_var slot t h | None => [IUnreachable] end
    | EGlobal k =>
        match global_ty k with
        | Some TInt => call_handle_undef (HLookupInt k) h
        | Some TBool => call_handle_undef (HLookupBool k) h
        | None => [IUnreachable]
        end
    | ERule r =>
        (* emit_check_for_rule_match: byte & (1 << (r % 8)) >> (r % 8) *)
        [ICall (HRuleBit r); IConst (V32 (2 ^ (Z.of_nat r mod 8))); IBin I32And;
         IConst (V32 (Z.of_nat r mod 8)); IBin I32ShrU]
    | ENot a => emit_bool g sp h a ++ [IUn I32Eqz]
    | EAnd a b =>
        (* emit_and over the operands of the n-ary node: the left-nested chain,
           without the operands the IR builder dropped (known to be true) *)
        catch_undef 1
          (fun h' =>
             let fix chain (x : expr) {struct x} : option (list instr) :=
               match x with
               | EAnd x1 x2 =>
                   join_and (chain x1)
                     (match bconst x2 with Some true => None | _ => Some (emit_bool g sp h' x2) end)
               | _ => match bconst x with Some true => None | _ => Some (emit_bool g sp h' x) end
               end in
             code_and (join_and (chain a)
                         (match bconst b with Some true => None | _ => Some (emit_bool g sp h' b) end)))
          [IConst (V32 0)]
    | EOr a b =>
        (* emit_or: every remaining operand under its own handler *)
        let fix chain (x : expr) {struct x} : option (list instr) :=
          match x with
          | EOr x1 x2 =>
              join_or (chain x1)
                (match bconst x2 with
                 | Some false => None
                 | _ => Some (catch_undef 1 (fun h' => emit_bool g sp h' x2) [IConst (V32 0)])
                 end)
          | _ => match bconst x with
                 | Some false => None
                 | _ => Some (catch_undef 1 (fun h' => emit_bool g sp h' x) [IConst (V32 0)])
                 end
          end in
        [IBlock 1
           (code_or (join_or (chain a)
                       (match bconst b with
                        | Some false => None
                        | _ => Some (catch_undef 1 (fun h' => emit_bool g sp h' b) [IConst (V32 0)])
                        end)))]
    | EDefined a =>
        catch_undef 1 (fun h' => emit_bool g sp h' a ++ [IDrop; IConst (V32 1)]) [IConst (V32 0)]
    | ENeg a => [IConst (V64 0)] ++ emit g sp h a ++ [IBin I64Sub]
    | EBitNot a => emit g sp h a ++ [IConst (V64 (-1)); IBin I64Xor]
    | EArith op a b =>
        match op with
        | Shl | Shr => emit g sp h a ++ emit g sp h b ++ shift_tail op
        | Div => emit g sp h a ++ emit g sp h b ++ div_tail h
        | Mod => emit g sp h a ++ emit g sp h b ++ mod_tail h
        | _ => emit g sp h a ++ emit g sp h b ++ [IBin (arith_op op)]
        end
    | ECmp op a b =>
        match tyof g sp a with
        | Some TBool => emit g sp h a ++ [IUn I64ExtendUI32] ++ emit g sp h b ++ [IUn I64ExtendUI32; IBin (cmp_op op)]
        | _ => emit g sp h a ++ emit g sp h b ++ [IBin (cmp_op op)]
        end
    | ERead (IK n sg be) off => emit g sp h off ++ call_handle_undef (HReadInt n sg be) h
    | EPat (PId i) ak a1 a2 =>
        search_check ++ [IConst (V32 (Z.of_nat i))] ++
        match ak with
        | ANone => [ICall HCheckMatch]
        | AAt => emit g sp h a1 ++ [ICall HMatchAt]
        | AIn => emit g sp h a1 ++ emit g sp h a2 ++ [ICall HMatchIn]
        end
    | ECount (PId i) rg lo hi =>
        search_check ++ [IConst (V32 (Z.of_nat i))] ++
        (if rg then emit g sp h lo ++ emit g sp h hi ++ [ICall HMatchesIn] else [ICall HMatches])
    | EOffset (PId i) idx =>
        search_check ++ [IConst (V32 (Z.of_nat i))] ++ emit g sp h idx ++ call_handle_undef HOffset h
    | ELength (PId i) idx =>
        search_check ++ [IConst (V32 (Z.of_nat i))] ++ emit g sp h idx ++ call_handle_undef HLength h
    | EOf qk q set ak a1 a2 =>
        (* emit_of_pattern_set_with_loop *)
        (* the frame of an `of`: the item first, then n, i, max_count, count *)
        let of_loop :=
          for_gen (S sp) h qk (fun h1 => emit g sp h1 q)
            (fun _ => set_count (S sp) (length set)) (next_pattern (S sp) sp set)
            (fun h' =>
               load_var sp TInt h' ++ [IUn I32WrapI64] ++
               match ak with
               | ANone => [ICall HCheckMatch]
               | AAt => emit g sp h' a1 ++ [ICall HMatchAt]
               | AIn => emit g sp h' a1 ++ emit g sp h' a2 ++ [ICall HMatchIn]
               end)
            (fun _ => []) in
        search_check ++
        match ak, qk with
        | ANone, QAny => [IBlock 1 (of_runs false (runs set))]
        | ANone, QAll => [IBlock 1 (of_runs true (runs set))]
        | ANone, QExpr => match runs set with [r] => range_call r (emit g sp h q) | _ => of_loop end
        | _, _ => of_loop
        end
    | EPat PCur ak a1 a2 =>
        match clookup cur_key g with
        | Some (slot, _) =>
            search_check ++ load_var slot TInt h ++ [IUn I32WrapI64] ++
            match ak with
            | ANone => [ICall HCheckMatch]
            | AAt => emit g sp h a1 ++ [ICall HMatchAt]
            | AIn => emit g sp h a1 ++ emit g sp h a2 ++ [ICall HMatchIn]
            end
        | None => [IUnreachable]
        end
    | ECount PCur rg lo hi =>
        match clookup cur_key g with
        | Some (slot, _) =>
            search_check ++ load_var slot TInt h ++ [IUn I32WrapI64] ++
            (if rg then emit g sp h lo ++ emit g sp h hi ++ [ICall HMatchesIn] else [ICall HMatches])
        | None => [IUnreachable]
        end
    | EOffset PCur idx =>
        match clookup cur_key g with
        | Some (slot, _) =>
            search_check ++ load_var slot TInt h ++ [IUn I32WrapI64] ++ emit g sp h idx ++ call_handle_undef HOffset h
        | None => [IUnreachable]
        end
    | ELength PCur idx =>
        match clookup cur_key g with
        | Some (slot, _) =>
            search_check ++ load_var slot TInt h ++ [IUn I32WrapI64] ++ emit g sp h idx ++ call_handle_undef HLength h
        | None => [IUnreachable]
        end
    | EForOf qk q set body =>
        for_gen sp h qk (fun h1 => emit g sp h1 q)
          (fun _ => set_count sp (length set)) (next_pattern sp (sp + 4)%nat set)
          (fun h' => emit_bool ((cur_key, ((sp + 4)%nat, TInt)) :: g) (sp + FOR_OF_FRAME)%nat h' body)
          (fun _ => [])
    | EOfB qk q items =>
        let n := exprs_length items in
        for_gen (S sp) h qk (fun h1 => emit g sp h1 q)
          (fun _ => set_count (S sp) n)
          (* commit 99b031b0: an undefined item flags the item variable, and is
             raised by the body, inside the per-iteration handler *)
          (fun _ =>
             catch_undef 0
               (fun hc => set_var sp TBool
                            (load_var (S (S sp)) TInt hc ++ switch (emit_items true g (sp + OF_FRAME)%nat hc n 0 items)))
               (set_var_undef sp true))
          (fun h' => load_var sp TBool h')
          (fun _ => [])
    | EForTuple qk q x items body =>
        let n := exprs_length items in
        let t := match items with
                 | ECons i0 _ => match tyof g sp i0 with Some t => t | None => TInt end
                 | ENil => TInt
                 end in
        for_gen sp h qk (fun h1 => emit g sp h1 q)
          (fun _ => set_count sp n)
          (fun _ =>
             catch_undef 0
               (fun hc => set_var (sp + 5)%nat t
                            (load_var (S sp) TInt hc ++ switch (emit_items false g sp hc n 0 items)))
               (set_var_undef (sp + 5)%nat true))
          (fun h' => emit_bool ((x, ((sp + 5)%nat, t)) :: g) (sp + FOR_IN_FRAME)%nat h' body)
          (fun _ => [])
    | EWith x d body =>
        match tyof g (S sp) d with
        | Some t =>
            catch_undef 0 (fun h' => set_var sp t (emit g (S sp) h' d)) (set_var_undef sp true)
            ++ emit ((x, (sp, t)) :: g) (S sp) h body
        | None => [IUnreachable]
        end
    | EForRange qk q x lo hi body =>
        (* for_vars: n, i, max_count, count, item; then the loop variable *)
        let n := sp in let i := S sp in let maxc := S (S sp) in let cnt := S (S (S sp)) in
        let item := (sp + 5)%nat in
        let g' := (x, (item, TInt)) :: g in
        let sp' := (sp + FOR_IN_FRAME)%nat in
        let h1 := deeper h in            (* inside the block whose label is loop_end *)
        let h2 := deeper h1 in           (* inside the loop *)
        let h3 := deeper h2 in           (* inside an if_else of the loop *)
        let incr_i_and_repeat (hh : handler) (loop_start : nat) :=
          incr_var item hh ++ incr_var i hh ++ load_var i TInt hh ++ load_var n TInt hh ++ [IBin I64LtS; IBrIf loop_start] in
        [IBlock 1
          ( (* loop_init of emit_for_in_range *)
            set_var n TInt
              (catch_undef 1
                 (fun h' => emit g sp h' hi ++ emit g sp h' lo ++ [ILocalTee tmpA; IBin I64Sub; IConst (V64 1); IBin I64Add])
                 [IConst (V64 0)])
            ++ load_var n TInt h1 ++ [IConst (V64 0); IBin I64LeS; IIf 0 [IConst (V32 0); IBr 1] []]
            ++ set_var item TInt [ILocalGet tmpA]
            (* emit_for *)
            ++ set_var i TInt [IConst (V64 0)]
            ++ (match qk with
                | QExpr => set_var maxc TInt (emit g sp h1 q) ++ set_var cnt TInt [IConst (V64 0)]
                | QPct => set_var maxc TInt (pct_code n h1 (emit g sp h1 q)) ++ set_var cnt TInt [IConst (V64 0)]
                | _ => []
                end)
            ++ [ILoop 1
                 ( catch_undef 1 (fun h' => emit_bool g' sp' h' body) [IConst (V32 0)]
                   ++ match qk with
                      | QNone =>
                          [IIf 1%nat [IConst (V32 0); IBr 2%nat]
                                 (incr_i_and_repeat h3 1%nat ++ [IConst (V32 1); IBr 2])]
                      | QAll =>
                          [IIf 1 (incr_i_and_repeat h3 1%nat ++ [IConst (V32 1); IBr 2])
                                 [IConst (V32 0); IBr 2]]
                      | QAny =>
                          [IIf 1 [IConst (V32 1); IBr 2]
                                 (incr_i_and_repeat h3 1%nat ++ [IConst (V32 0); IBr 2])]
                      | _ =>
                          [IIf 0
                             (incr_var cnt h3 ++ load_var cnt TInt h3 ++ load_var maxc TInt h3 ++ [IBin EmitFacts.for_expr_reached;
                              IIf 0 (load_var maxc TInt (deeper h3) ++ [IConst (V64 0); IBin EmitFacts.for_expr_exit_value; IBr 3]) []])
                             []]
                          ++ incr_i_and_repeat h2 0%nat
                          ++ load_var maxc TInt h2 ++ [IUn I64Eqz]
                      end ) ] ) ]
    | _ => [IUnreachable]
    end
  (* the branches of a switch over a tuple: item k of n, under the handler that
     is in force inside its block *)
  with emit_items (as_bool : bool) (g : cenv) (sp : nat) (hh : handler) (n k : nat) (es : exprs) {struct es}
      : list (list instr) :=
    match es with
    | ENil => []
    | ECons e r =>
        (emit g sp (branch_handler n k hh) e ++
         (if as_bool then match tyof g sp e with Some TInt => [IConst (V64 0); IBin I64Ne] | _ => [] end else []))
        :: emit_items as_bool g sp hh n (S k) r
    end.

  Definition emit_bool (g : cenv) (sp : nat) (h : handler) (e : expr) : list instr :=
    emit g sp h e ++ match tyof g sp e with Some TInt => [IConst (V64 0); IBin I64Ne] | _ => [] end.

  (* the chains of the [EAnd] / [EOr] cases of [emit], by name (EmitBase.v:
     [emit_and_eq], [emit_or_eq]) *)
  Definition and_opnd (g : cenv) (sp : nat) (h : handler) (y : expr) : option (list instr) :=
    match bconst y with Some true => None | _ => Some (emit_bool g sp h y) end.
  Fixpoint and_chain (g : cenv) (sp : nat) (h : handler) (x : expr) : option (list instr) :=
    match x with
    | EAnd x1 x2 => join_and (and_chain g sp h x1) (and_opnd g sp h x2)
    | _ => and_opnd g sp h x
    end.
  Definition or_opnd (g : cenv) (sp : nat) (y : expr) : option (list instr) :=
    match bconst y with
    | Some false => None
    | _ => Some (catch_undef 1 (fun h' => emit_bool g sp h' y) [IConst (V32 0)])
    end.
  Fixpoint or_chain (g : cenv) (sp : nat) (x : expr) : option (list instr) :=
    match x with
    | EOr x1 x2 => join_or (or_chain g sp x1) (or_opnd g sp x2)
    | _ => or_opnd g sp x
    end.

  (* emit_rule_condition: the whole condition under a handler that answers false *)
  Definition emit_condition (e : expr) : list instr :=
    catch_undef 1 (fun h => emit_bool [] 0 h e) [IConst (V32 0)].
End Emit.

(* ------------------------------------------------------------ host functions *)
(* lib/src/wasm/mod.rs, over the data of a scan: the match lists [pm] become
   visible once search_for_patterns has run *)
Section Host.
  Variables (data : list Z) (pm : nat -> mlist) (rules : nat -> bool) (globals : nat -> value).

  Definition with_undef (v : value) (as_bool : bool) : option (list val) :=
    match v, as_bool with
    | VInt z, false => Some [V32 0; V64 z]
    | VBool b, true => Some [V32 0; V32 (b2z b)]
    | VUndef, false => Some [V32 1; V64 0]
    | VUndef, true => Some [V32 1; V32 0]
    | _, _ => None
    end.

  (* the byte of the matching-rules bitmap that holds the bit of rule r *)
  Definition rule_byte (r : nat) : Z :=
    let base := (8 * (r / 8))%nat in
    fold_right (fun j acc => b2z (rules (base + j)%nat) * 2 ^ Z.of_nat j + acc) 0 (seq 0 8).

  Definition host_spec (f : hostfn) (done : bool) (args : list val) : option (list val) :=
    let vis := fun i : nat => if done then pm i else [] in
    match f, args with
    | HSearch, [] => Some []
    | HCheckMatch, [V32 id] => Some [V32 (b2z (matched (vis (Z.to_nat id))))]
    | HMatchAt, [V32 id; V64 off] => Some [V32 (b2z (match_at (vis (Z.to_nat id)) off))]
    | HMatchIn, [V32 id; V64 lo; V64 hi] => Some [V32 (b2z (match_in (vis (Z.to_nat id)) lo hi))]
    | HMatches, [V32 id] => Some [V64 (Z.of_nat (length (vis (Z.to_nat id))))]
    | HMatchesIn, [V32 id; V64 lo; V64 hi] => Some [V64 (count_in (vis (Z.to_nat id)) lo hi)]
    | HOffset, [V32 id; V64 idx] => with_undef (v_offset (vis (Z.to_nat id)) (VInt idx)) false
    | HLength, [V32 id; V64 idx] => with_undef (v_length (vis (Z.to_nat id)) (VInt idx)) false
    | HRangeMatch, [V32 s; V32 e; V64 req] =>
        Some [V32 (b2z (pat_range_match req (map vis (seq (Z.to_nat s) (Z.to_nat e - Z.to_nat s + 1)))))]
    | HReadInt n sg be, [V64 off] => with_undef (read_int (IK n sg be) data (Z.of_nat (length data)) off) false
    | HLookupInt k, [] => with_undef (globals k) false
    | HLookupBool k, [] => with_undef (globals k) true
    | HRuleBit r, [] => Some [V32 (rule_byte r)]
    | _, _ => None
    end.

  Definition init_state : state :=
    mkState [] (fun _ => V64 0) (fun _ => 0) (Z.of_nat (length data)) false.

  (* the verdict computed by the emitted code: Some b, or None when the
     machine traps, gets stuck or runs out of fuel *)
  Definition run_condition (fuel : nat) (e : expr) : option bool :=
    match exec host_spec fuel (emit_condition e) init_state with
    | Done (ONormal st) => match s_stack st with [V32 c] => Some (negb (c =? 0)) | _ => None end
    | _ => None
    end.
End Host.
