(* C02 - lemmas used by EmitProofs.v: one-instruction steps of the relational
   semantics, the layout of the variable area (flag words, slots), and the
   relation between an evaluation environment and a machine state. *)
From Coq Require Import List ZArith Bool Lia.
From YV Require Import Cond.Syntax Cond.Sem Cond.Quirks Cond.Machine Cond.MachineProofs Cond.Emit.
Import ListNotations.
Local Open Scope Z_scope.

Section Steps.
  Variable host : hostfn -> bool -> list val -> option (list val).
  Notation bs := (bstep host).

  Lemma step_const : forall v rest st o,
    bs rest (set_stack st (v :: s_stack st)) o -> bs (IConst v :: rest) st o.
  Proof. intros. eapply BSimple; [reflexivity | reflexivity | assumption]. Qed.

  Lemma step_local_get : forall x rest st o,
    bs rest (set_stack st (s_locals st x :: s_stack st)) o -> bs (ILocalGet x :: rest) st o.
  Proof. intros. eapply BSimple; [reflexivity | reflexivity | assumption]. Qed.

  Lemma step_local_set : forall x rest st v s o,
    s_stack st = v :: s -> bs rest (set_local (set_stack st s) x v) o -> bs (ILocalSet x :: rest) st o.
  Proof. intros x rest st v s o Hs H. eapply BSimple; [reflexivity | cbn [step_simple]; rewrite Hs; reflexivity | assumption]. Qed.

  Lemma step_local_tee : forall x rest st v s o,
    s_stack st = v :: s -> bs rest (set_local st x v) o -> bs (ILocalTee x :: rest) st o.
  Proof. intros x rest st v s o Hs H. eapply BSimple; [reflexivity | cbn [step_simple]; rewrite Hs; reflexivity | assumption]. Qed.

  Lemma step_filesize : forall rest st o,
    bs rest (set_stack st (V64 (s_filesize st) :: s_stack st)) o -> bs (IGlobalGet GFilesize :: rest) st o.
  Proof. intros. eapply BSimple; [reflexivity | reflexivity | assumption]. Qed.

  Lemma step_done : forall rest st o,
    bs rest (set_stack st (V32 (b2z (s_done st)) :: s_stack st)) o -> bs (IGlobalGet GSearchDone :: rest) st o.
  Proof. intros. eapply BSimple; [reflexivity | reflexivity | assumption]. Qed.

  Lemma step_bin : forall op rest st a b s v o,
    s_stack st = b :: a :: s -> eval_bin op a b = Some (Some v) ->
    bs rest (set_stack st (v :: s)) o -> bs (IBin op :: rest) st o.
  Proof.
    intros op rest st a b s v o Hs He H.
    eapply BSimple; [reflexivity | cbn [step_simple]; rewrite Hs, He; reflexivity | assumption].
  Qed.

  Lemma step_un : forall op rest st a s v o,
    s_stack st = a :: s -> eval_un op a = Some v ->
    bs rest (set_stack st (v :: s)) o -> bs (IUn op :: rest) st o.
  Proof.
    intros op rest st a s v o Hs He H.
    eapply BSimple; [reflexivity | cbn [step_simple]; rewrite Hs, He; reflexivity | assumption].
  Qed.

  Lemma step_drop : forall rest st v s o,
    s_stack st = v :: s -> bs rest (set_stack st s) o -> bs (IDrop :: rest) st o.
  Proof. intros rest st v s o Hs H. eapply BSimple; [reflexivity | cbn [step_simple]; rewrite Hs; reflexivity | assumption]. Qed.

  Lemma step_load : forall w off rest st a s o,
    s_stack st = V32 a :: s -> aligned (a + off) = true ->
    bs rest (set_stack st ((match w with W64 => V64 (s_mem st (a + off)) | W32 => V32 (s_mem st (a + off)) end) :: s)) o ->
    bs (ILoad w off :: rest) st o.
  Proof.
    intros w off rest st a s o Hs Ha H.
    eapply BSimple; [reflexivity | cbn [step_simple]; rewrite Hs, Ha; reflexivity | assumption].
  Qed.

  Lemma step_store64 : forall off rest st v a s o,
    s_stack st = V64 v :: V32 a :: s -> aligned (a + off) = true ->
    bs rest (set_mem (set_stack st s) (a + off) v) o -> bs (IStore W64 off :: rest) st o.
  Proof.
    intros off rest st v a s o Hs Ha H.
    eapply BSimple; [reflexivity | cbn [step_simple]; rewrite Hs, Ha; reflexivity | assumption].
  Qed.
  Lemma step_store32 : forall off rest st v a s o,
    s_stack st = V32 v :: V32 a :: s -> aligned (a + off) = true ->
    bs rest (set_mem (set_stack st s) (a + off) v) o -> bs (IStore W32 off :: rest) st o.
  Proof.
    intros off rest st v a s o Hs Ha H.
    eapply BSimple; [reflexivity | cbn [step_simple]; rewrite Hs, Ha; reflexivity | assumption].
  Qed.

  (* a host call: n arguments on the stack, results pushed *)
  Lemma step_call : forall f rest st args res s o,
    s_stack st = rev args ++ s -> length args = host_arity f ->
    host f (s_done st) args = Some res ->
    bs rest (let st' := set_stack st (res ++ s) in match f with HSearch => set_done st' | _ => st' end) o ->
    bs (ICall f :: rest) st o.
  Proof.
    intros f rest st args res s o Hs Hl Hh H.
    eapply BSimple; [reflexivity | | exact H].
    cbn [step_simple]. unfold call. rewrite Hs.
    assert (L : length (rev args) = host_arity f) by (rewrite rev_length; exact Hl).
    replace (Nat.leb (host_arity f) (length (rev args ++ s))) with true
      by (symmetry; apply Nat.leb_le; rewrite app_length; lia).
    rewrite <- L. rewrite firstn_app, Nat.sub_diag, firstn_all. cbn [firstn]. rewrite app_nil_r, rev_involutive.
    rewrite skipn_app, Nat.sub_diag, skipn_all. cbn [skipn app]. rewrite Hh. reflexivity.
  Qed.

  Lemma step_br : forall l rest st, bs (IBr l :: rest) st (OBranch l st).
  Proof. intros. apply BBr. Qed.

  (* if / block: the body's outcome, closed, then the rest *)
  Lemma step_if : forall n th el rest st c s o1 o,
    s_stack st = V32 c :: s ->
    bs (if c =? 0 then el else th) (set_stack st []) o1 ->
    bseq host (close n s o1) rest o ->
    bs (IIf n th el :: rest) st o.
  Proof. intros. eapply BIf; eassumption. Qed.

  Lemma seq_normal : forall st rest o, bs rest st o -> bseq host (ONormal st) rest o.
  Proof. intros. apply SNormal. assumption. Qed.
  Lemma seq_branch : forall l st rest, bseq host (OBranch l st) rest (OBranch l st).
  Proof. intros. apply SStop. intros st' H. discriminate. Qed.
End Steps.

(* ------------------------------------------------------------ variable area *)
Ltac unf :=
  unfold FLAG_WORD_BYTES, VAR_SLOT_BYTES, VARS_STACK_START, MAX_VARS,
         EmitFacts.flag_word_bytes, EmitFacts.flag_index_div, EmitFacts.flag_index_rem,
         EmitFacts.var_slot_bytes, EmitFacts.vars_stack_start, EmitFacts.max_vars in *.
Lemma flag_addr_aligned : forall slot, aligned (flag_addr slot + 0) = true.
Proof.
  intros slot. unfold aligned, flag_addr. unf. rewrite Z.add_0_r.
  apply andb_true_iff. split.
  - apply Z.leb_le. apply Z.mul_nonneg_nonneg; [apply Z.div_pos|]; lia.
  - apply Z.eqb_eq. apply Z_mod_mult.
Qed.
Lemma slot_addr_aligned : forall slot, aligned (slot_addr slot + VARS_STACK_START) = true.
Proof.
  intros slot. unfold aligned, slot_addr. unf.
  apply andb_true_iff. split.
  - apply Z.leb_le. change (2048 / 8) with 256. lia.
  - apply Z.eqb_eq. change (2048 / 8) with (32 * 8). rewrite <- Z.mul_add_distr_r. apply Z_mod_mult.
Qed.
Lemma flag_below_slots : forall s1 s2, (s1 < Z.to_nat MAX_VARS)%nat ->
  flag_addr s1 <> slot_addr s2 + VARS_STACK_START.
Proof.
  intros s1 s2 H. unfold flag_addr, slot_addr in *. unf.
  change (2048 / 8) with 256. change (Z.to_nat 2048) with 2048%nat in H.
  assert (Z.of_nat s1 / 64 < 32) by (apply Z.div_lt_upper_bound; lia). lia.
Qed.
Lemma slot_addr_inj : forall s1 s2, slot_addr s1 + VARS_STACK_START = slot_addr s2 + VARS_STACK_START -> s1 = s2.
Proof. intros s1 s2 H. unfold slot_addr in H. unf. lia. Qed.

(* the bit of a flag word that belongs to a slot *)
Definition flag_pos (slot : nat) : Z := Z.of_nat slot mod EmitFacts.flag_index_rem.
Lemma flag_pos_range : forall slot, 0 <= flag_pos slot < 64.
Proof. intros. unfold flag_pos. unf. apply Z.mod_pos_bound. lia. Qed.

Lemma flag_bit_spec : forall slot j, 0 <= j < 64 ->
  Z.testbit (flag_bit slot) j = (j =? flag_pos slot).
Proof.
  intros slot j Hj. unfold flag_bit. fold (flag_pos slot).
  pose proof (flag_pos_range slot) as Hk. set (k := flag_pos slot) in *.
  destruct (Z.eq_dec k 63) as [E | NE].
  - rewrite E. change (w64 (2 ^ 63)) with (Z.lnot (Z.ones 63)).
    rewrite Z.lnot_spec by lia.
    destruct (Z.eq_dec j 63) as [-> | J].
    + rewrite Z.ones_spec_high by lia. reflexivity.
    + rewrite Z.ones_spec_low by lia. symmetry. apply Z.eqb_neq. exact J.
  - assert (W : w64 (2 ^ k) = 2 ^ k).
    { unfold w64. assert (2 ^ k < 2 ^ 63) by (apply Z.pow_lt_mono_r; lia).
      assert (0 < 2 ^ k) by (apply Z.pow_pos_nonneg; lia).
      rewrite Z.mod_small; unfold m63, m64 in *; change (2 ^ 63) with 9223372036854775808 in *; lia. }
    rewrite W. rewrite Z.pow2_bits_eqb by lia. rewrite Z.eqb_sym. reflexivity.
Qed.

Lemma flag_bit_high : forall slot j, 63 <= j ->
  Z.testbit (flag_bit slot) j = (flag_pos slot =? 63).
Proof.
  intros slot j Hj. unfold flag_bit. fold (flag_pos slot).
  pose proof (flag_pos_range slot) as Hk. set (k := flag_pos slot) in *.
  destruct (Z.eq_dec k 63) as [E | NE].
  - rewrite E. change (w64 (2 ^ 63)) with (Z.lnot (Z.ones 63)).
    rewrite Z.lnot_spec by lia. rewrite Z.ones_spec_high by lia. reflexivity.
  - assert (W : w64 (2 ^ k) = 2 ^ k).
    { unfold w64. assert (2 ^ k < 2 ^ 63) by (apply Z.pow_lt_mono_r; lia).
      assert (0 < 2 ^ k) by (apply Z.pow_pos_nonneg; lia).
      rewrite Z.mod_small; unfold m63, m64 in *; change (2 ^ 63) with 9223372036854775808 in *; lia. }
    rewrite W. rewrite Z.pow2_bits_eqb by lia.
    replace (k =? 63) with false by (symmetry; apply Z.eqb_neq; exact NE).
    apply Z.eqb_neq. lia.
Qed.

(* a flag word is a sign-extended 64-bit value *)
Definition word_ok (w : Z) : Prop := forall j, 63 <= j -> Z.testbit w j = Z.testbit w 63.

Lemma word_ok_0 : word_ok 0.
Proof. intros j _. rewrite !Z.bits_0. reflexivity. Qed.

Lemma word_ok_set : forall w slot, word_ok w -> word_ok (Z.lor w (flag_bit slot)).
Proof.
  intros w slot H j Hj. rewrite !Z.lor_spec. rewrite (H j Hj).
  rewrite (flag_bit_high slot j Hj), (flag_bit_high slot 63) by lia. reflexivity.
Qed.
Lemma word_ok_clear : forall w slot, word_ok w -> word_ok (Z.land w (Z.lnot (flag_bit slot))).
Proof.
  intros w slot H j Hj. rewrite !Z.land_spec. rewrite (H j Hj).
  rewrite !Z.lnot_spec by lia.
  rewrite (flag_bit_high slot j Hj), (flag_bit_high slot 63) by lia. reflexivity.
Qed.

(* the test emitted by load_var: (word & bit) == 0 *)
Lemma flag_test : forall w slot, word_ok w ->
  (Z.land w (flag_bit slot) =? 0) = negb (Z.testbit w (flag_pos slot)).
Proof.
  intros w slot H. pose proof (flag_pos_range slot) as Hk.
  destruct (Z.testbit w (flag_pos slot)) eqn:T; cbn [negb].
  - apply Z.eqb_neq. intros E.
    assert (B : Z.testbit (Z.land w (flag_bit slot)) (flag_pos slot) = false) by (rewrite E; apply Z.bits_0).
    rewrite Z.land_spec, T, flag_bit_spec, Z.eqb_refl in B by lia. discriminate.
  - apply Z.eqb_eq. apply Z.bits_inj_0. intros j. rewrite Z.land_spec.
    destruct (Z_lt_le_dec j 0) as [N | N]; [rewrite (Z.testbit_neg_r w j N); reflexivity|].
    destruct (Z_lt_le_dec j 64) as [L | L].
    + rewrite flag_bit_spec by lia. destruct (j =? flag_pos slot) eqn:J.
      * apply Z.eqb_eq in J. subst j. rewrite T. reflexivity.
      * apply andb_false_r.
    + rewrite (H j) by lia. rewrite flag_bit_high by lia.
      destruct (flag_pos slot =? 63) eqn:P; [|apply andb_false_r].
      apply Z.eqb_eq in P. rewrite P in T. rewrite T. reflexivity.
Qed.

(* ------------------------------------------------- reading the variable area *)
Definition flag_set (st : state) (slot : nat) : bool := Z.testbit (s_mem st (flag_addr slot)) (flag_pos slot).
Definition slot_word (st : state) (slot : nat) : Z := s_mem st (slot_addr slot + VARS_STACK_START).
Definition flags_wf (st : state) : Prop :=
  forall slot, (slot < Z.to_nat MAX_VARS)%nat -> word_ok (s_mem st (flag_addr slot)).

Definition set_flag (st : state) (slot : nat) (b : bool) : state :=
  set_mem st (flag_addr slot)
    (if b then Z.lor (s_mem st (flag_addr slot)) (flag_bit slot)
     else Z.land (s_mem st (flag_addr slot)) (Z.lnot (flag_bit slot))).
Definition write_slot (st : state) (slot : nat) (z : Z) : state :=
  set_mem st (slot_addr slot + VARS_STACK_START) z.

Lemma same_word_same_pos : forall s1 s2,
  flag_addr s1 = flag_addr s2 -> flag_pos s1 = flag_pos s2 -> s1 = s2.
Proof.
  intros s1 s2 Ha Hp. unfold flag_addr, flag_pos in *. unf.
  pose proof (Z.div_mod (Z.of_nat s1) 64 ltac:(lia)). pose proof (Z.div_mod (Z.of_nat s2) 64 ltac:(lia)). lia.
Qed.

Lemma flag_set_set_flag : forall st slot b s',
  flag_set (set_flag st slot b) s' = if Nat.eqb s' slot then b else flag_set st s'.
Proof.
  intros st slot b s'. unfold flag_set, set_flag, set_mem. cbn [s_mem].
  pose proof (flag_pos_range s') as R1.
  destruct (flag_addr s' =? flag_addr slot) eqn:A.
  - apply Z.eqb_eq in A.
    destruct (Nat.eqb s' slot) eqn:E.
    + apply Nat.eqb_eq in E. subst s'. destruct b.
      * rewrite Z.lor_spec, flag_bit_spec, Z.eqb_refl by lia. apply orb_true_r.
      * rewrite Z.land_spec, Z.lnot_spec, flag_bit_spec, Z.eqb_refl by lia. apply andb_false_r.
    + apply Nat.eqb_neq in E.
      assert (P : flag_pos s' <> flag_pos slot) by (intros P; apply E; apply same_word_same_pos; assumption).
      rewrite A. destruct b.
      * rewrite Z.lor_spec, flag_bit_spec by lia.
        replace (flag_pos s' =? flag_pos slot) with false by (symmetry; apply Z.eqb_neq; exact P). apply orb_false_r.
      * rewrite Z.land_spec, Z.lnot_spec, flag_bit_spec by lia.
        replace (flag_pos s' =? flag_pos slot) with false by (symmetry; apply Z.eqb_neq; exact P). apply andb_true_r.
  - destruct (Nat.eqb s' slot) eqn:E; [|reflexivity].
    apply Nat.eqb_eq in E. subst s'. rewrite Z.eqb_refl in A. discriminate.
Qed.

Lemma slot_word_set_flag : forall st slot b s', (slot < Z.to_nat MAX_VARS)%nat ->
  slot_word (set_flag st slot b) s' = slot_word st s'.
Proof.
  intros st slot b s' H. unfold slot_word, set_flag, set_mem. cbn [s_mem].
  replace (slot_addr s' + VARS_STACK_START =? flag_addr slot) with false; [reflexivity|].
  symmetry. apply Z.eqb_neq. intros E. symmetry in E. exact (flag_below_slots slot s' H E).
Qed.

Lemma flag_set_write_slot : forall st slot z s', (s' < Z.to_nat MAX_VARS)%nat ->
  flag_set (write_slot st slot z) s' = flag_set st s'.
Proof.
  intros st slot z s' H. unfold flag_set, write_slot, set_mem. cbn [s_mem].
  replace (flag_addr s' =? slot_addr slot + VARS_STACK_START) with false; [reflexivity|].
  symmetry. apply Z.eqb_neq. exact (flag_below_slots s' slot H).
Qed.

Lemma slot_word_write_slot : forall st slot z s',
  slot_word (write_slot st slot z) s' = if Nat.eqb s' slot then z else slot_word st s'.
Proof.
  intros st slot z s'. unfold slot_word, write_slot, set_mem. cbn [s_mem].
  destruct (Nat.eqb s' slot) eqn:E.
  - apply Nat.eqb_eq in E. subst s'. rewrite Z.eqb_refl. reflexivity.
  - apply Nat.eqb_neq in E.
    replace (slot_addr s' + VARS_STACK_START =? slot_addr slot + VARS_STACK_START) with false; [reflexivity|].
    symmetry. apply Z.eqb_neq. intros H. apply E. exact (slot_addr_inj _ _ H).
Qed.

Lemma flags_wf_set_flag : forall st slot b, flags_wf st -> flags_wf (set_flag st slot b).
Proof.
  intros st slot b H s' Hs. unfold set_flag, set_mem. cbn [s_mem].
  destruct (flag_addr s' =? flag_addr slot) eqn:A; [|apply H; exact Hs].
  apply Z.eqb_eq in A. rewrite <- A.
  destruct b; [apply word_ok_set | apply word_ok_clear]; apply H; exact Hs.
Qed.
Lemma flags_wf_write_slot : forall st slot z, flags_wf st -> flags_wf (write_slot st slot z).
Proof.
  intros st slot z H s' Hs. unfold write_slot, set_mem. cbn [s_mem].
  replace (flag_addr s' =? slot_addr slot + VARS_STACK_START) with false; [apply H; exact Hs|].
  symmetry. apply Z.eqb_neq. exact (flag_below_slots s' slot Hs).
Qed.

(* --------------------------------------------- environment vs machine state *)
Definition var_ok (st : state) (slot : nat) (t : ty) (v : value) : Prop :=
  match v with
  | VUndef => flag_set st slot = true
  | VInt z => t = TInt /\ flag_set st slot = false /\ slot_word st slot = z
  | VBool b => t = TBool /\ flag_set st slot = false /\ slot_word st slot = b2z b
  | VStr _ => False
  end.

(* the variables in scope live in slots below sp and hold the values of the
   evaluation environment *)
Definition R (g : cenv) (sp : nat) (en : env) (st : state) : Prop :=
  s_filesize st = e_len en /\ (sp <= Z.to_nat MAX_VARS)%nat /\ flags_wf st /\
  forall x slot t, clookup x g = Some (slot, t) ->
    (slot < sp)%nat /\ var_ok st slot t (lookup x (e_vars en)).

(* what the code emitted for an expression compiled with sp slots in use
   may change: nothing below sp *)
Definition keeps (sp : nat) (st st' : state) : Prop :=
  s_filesize st' = s_filesize st /\
  (forall slot, (slot < sp)%nat -> flag_set st' slot = flag_set st slot /\ slot_word st' slot = slot_word st slot) /\
  (s_done st = true -> s_done st' = true) /\
  (flags_wf st -> flags_wf st').

Lemma keeps_refl : forall sp st, keeps sp st st.
Proof. intros. repeat split; auto. Qed.
Lemma keeps_trans : forall sp a b c, keeps sp a b -> keeps sp b c -> keeps sp a c.
Proof.
  intros sp a b c [F1 [M1 [D1 W1]]] [F2 [M2 [D2 W2]]]. repeat split; try congruence; auto.
  - destruct (M1 slot H), (M2 slot H). congruence.
  - destruct (M1 slot H), (M2 slot H). congruence.
Qed.
Lemma keeps_weaken : forall sp sp' a b, (sp' <= sp)%nat -> keeps sp a b -> keeps sp' a b.
Proof. intros sp sp' a b L [F [M [D W]]]. repeat split; auto; apply M; lia. Qed.

Lemma keeps_stack : forall sp st s, keeps sp st (set_stack st s).
Proof. intros. repeat split; auto. Qed.
Lemma keeps_local : forall sp st x v, keeps sp st (set_local st x v).
Proof. intros. repeat split; auto. Qed.
Lemma keeps_done : forall sp st, keeps sp st (set_done st).
Proof. intros. repeat split; auto. Qed.

Lemma keeps_set_flag : forall sp st slot b, (sp <= slot)%nat -> (slot < Z.to_nat MAX_VARS)%nat ->
  keeps sp st (set_flag st slot b).
Proof.
  intros sp st slot b L M. repeat split; auto.
  - rewrite flag_set_set_flag. replace (Nat.eqb slot0 slot) with false; [reflexivity|].
    symmetry. apply Nat.eqb_neq. lia.
  - apply slot_word_set_flag. exact M.
  - apply flags_wf_set_flag.
Qed.
Lemma keeps_write_slot : forall sp st slot z, (sp <= slot)%nat -> (sp <= Z.to_nat MAX_VARS)%nat ->
  keeps sp st (write_slot st slot z).
Proof.
  intros sp st slot z L M. repeat split; auto.
  - apply flag_set_write_slot. lia.
  - rewrite slot_word_write_slot. replace (Nat.eqb slot0 slot) with false; [reflexivity|].
    symmetry. apply Nat.eqb_neq. lia.
  - apply flags_wf_write_slot.
Qed.

Lemma R_keeps : forall g sp en st st', R g sp en st -> keeps sp st st' -> R g sp en st'.
Proof.
  intros g sp en st st' [F [B [W V]]] [F' [M [D W']]]. repeat split; auto; try congruence.
  - destruct (V x slot t H). assumption.
  - destruct (V x slot t H) as [L OK]. destruct (M slot L) as [E1 E2].
    unfold var_ok in *. destruct (lookup x (e_vars en)); rewrite ?E1, ?E2; assumption.
Qed.

Section Code.
  Variable host : hostfn -> bool -> list val -> option (list val).
  Notation bs := (bstep host).

  (* set_var_undef *)
  Lemma set_var_undef_ok : forall slot b rest st o,
    bs rest (set_flag st slot b) o -> bs (set_var_undef slot b ++ rest) st o.
  Proof.
    intros slot b rest st o H. unfold set_var_undef. cbn [app].
    apply step_const. apply step_const.
    eapply step_load; [reflexivity | apply flag_addr_aligned |].
    apply step_const.
    destruct b.
    - eapply step_bin; [reflexivity | reflexivity |].
      eapply step_store64; [reflexivity | apply flag_addr_aligned |].
      destruct st. cbn in *. rewrite !Z.add_0_r. exact H.
    - eapply step_bin; [reflexivity | reflexivity |].
      eapply step_store64; [reflexivity | apply flag_addr_aligned |].
      destruct st. cbn in *. rewrite !Z.add_0_r. exact H.
  Qed.

  (* the tail of set_var, once the value is on the stack above the address *)
  Lemma set_var_tail_int : forall slot rest st z s o,
    s_stack st = V64 z :: V32 (slot_addr slot) :: s ->
    bs rest (set_flag (write_slot (set_stack st s) slot z) slot false) o ->
    bs ([IStore W64 VARS_STACK_START] ++ set_var_undef slot false ++ rest) st o.
  Proof.
    intros slot rest st z s o Hs H. cbn [app].
    eapply step_store64; [exact Hs | apply slot_addr_aligned |].
    apply set_var_undef_ok. exact H.
  Qed.
  Lemma set_var_tail_bool : forall slot rest st z s o,
    s_stack st = V32 z :: V32 (slot_addr slot) :: s ->
    bs rest (set_flag (write_slot (set_stack st s) slot z) slot false) o ->
    bs ([IStore W32 VARS_STACK_START] ++ set_var_undef slot false ++ rest) st o.
  Proof.
    intros slot rest st z s o Hs H. cbn [app].
    eapply step_store32; [exact Hs | apply slot_addr_aligned |].
    apply set_var_undef_ok. exact H.
  Qed.

  (* what a handler's code does, as a function on states *)
  Definition hspec (hc : list instr) (F : state -> state) : Prop :=
    forall d st1, bs (hc ++ [IBr d]) st1 (OBranch d (F st1)).

  (* load_var of a defined variable *)
  Lemma load_var_defined : forall slot t h rest st o,
    flags_wf st -> (slot < Z.to_nat MAX_VARS)%nat -> flag_set st slot = false ->
    bs rest (set_stack st ((match t with TInt => V64 (slot_word st slot) | TBool => V32 (slot_word st slot) end) :: s_stack st)) o ->
    bs (load_var slot t h ++ rest) st o.
  Proof.
    intros slot t h rest st o W M Fl H. unfold load_var. cbn [app].
    apply step_const.
    eapply step_load; [reflexivity | apply flag_addr_aligned |].
    apply step_const.
    eapply step_bin; [reflexivity | reflexivity |].
    eapply step_un; [reflexivity | reflexivity |].
    cbn [set_stack s_stack s_mem s_locals s_filesize s_done]. rewrite Z.add_0_r.
    rewrite (flag_test _ slot (W slot M)). unfold flag_set in Fl. rewrite Fl. cbn [negb b2z].
    eapply step_if; [reflexivity | cbn; apply BNil | ].
    cbn [close leave take_top Nat.leb length firstn app set_stack s_stack]. apply seq_normal.
    apply step_const.
    eapply step_load; [reflexivity | apply slot_addr_aligned |].
    destruct st, t; cbn in *; exact H.
  Qed.

  (* load_var of an undefined variable: the handler runs *)
  Lemma load_var_undefined : forall slot t h F rest st,
    hspec (h_code h) F ->
    flags_wf st -> (slot < Z.to_nat MAX_VARS)%nat -> flag_set st slot = true ->
    exists st1, keeps (Z.to_nat MAX_VARS) st st1 /\
      bs (load_var slot t h ++ rest) st (OBranch (h_depth h) (F st1)).
  Proof.
    intros slot t h F rest st HF W M Fl. unfold load_var. cbn [app].
    eexists. split; [|
    apply step_const;
    (eapply step_load; [reflexivity | apply flag_addr_aligned |]);
    apply step_const;
    (eapply step_bin; [reflexivity | reflexivity |]);
    (eapply step_un; [reflexivity | reflexivity |]);
    cbn [set_stack s_stack s_mem s_locals s_filesize s_done]; rewrite Z.add_0_r;
    rewrite (flag_test _ slot (W slot M)); unfold flag_set in Fl; rewrite Fl; cbn [negb b2z];
    (eapply step_if; [reflexivity | cbn [Z.eqb]; unfold throw, deeper; cbn [h_code h_depth]; apply HF | ]);
    cbn [close]; apply seq_branch ].
    exact (keeps_stack _ st []).
  Qed.
End Code.

(* ------------------------------------------ the chains of `and` / `or` by name *)
Lemma and_chain_fix : forall g sp h' x,
  (fix chain (x : expr) {struct x} : option (list instr) :=
     match x with
     | EAnd x1 x2 =>
         join_and (chain x1)
           (match bconst x2 with Some true => None | _ => Some (emit_bool g sp h' x2) end)
     | _ => match bconst x with Some true => None | _ => Some (emit_bool g sp h' x) end
     end) x = and_chain g sp h' x.
Proof.
  intros g sp h'. induction x; try reflexivity.
  cbn [and_chain]. rewrite <- IHx1. reflexivity.
Qed.
Lemma emit_and_eq : forall g sp h a b,
  emit g sp h (EAnd a b) = catch_undef 1 (fun h' => code_and (and_chain g sp h' (EAnd a b))) [IConst (V32 0)].
Proof.
  intros. cbn [emit and_chain]. unfold catch_undef. do 3 f_equal.
  f_equal. apply and_chain_fix.
Qed.
Lemma or_chain_fix : forall g sp x,
  (fix chain (x : expr) {struct x} : option (list instr) :=
     match x with
     | EOr x1 x2 =>
         join_or (chain x1)
           (match bconst x2 with
            | Some false => None
            | _ => Some (catch_undef 1 (fun h' => emit_bool g sp h' x2) [IConst (V32 0)])
            end)
     | _ => match bconst x with
            | Some false => None
            | _ => Some (catch_undef 1 (fun h' => emit_bool g sp h' x) [IConst (V32 0)])
            end
     end) x = or_chain g sp x.
Proof.
  intros g sp. induction x; try reflexivity.
  cbn [or_chain]. rewrite <- IHx1. reflexivity.
Qed.
Lemma emit_or_eq : forall g sp h a b,
  emit g sp h (EOr a b) = [IBlock 1 (code_or (or_chain g sp (EOr a b)))].
Proof.
  intros. cbn [emit or_chain]. do 3 f_equal.
  f_equal. apply or_chain_fix.
Qed.

(* ------------------------------------------- one slot written, the rest kept *)
Definition MAXV : nat := Z.to_nat MAX_VARS.
Definition store (st : state) (slot : nat) (z : Z) : state := set_flag (write_slot st slot z) slot false.

(* everything but [slot] is as before *)
Definition upd (slot : nat) (st st' : state) : Prop :=
  s_filesize st' = s_filesize st /\
  (forall s, (s < MAXV)%nat -> s <> slot -> flag_set st' s = flag_set st s /\ slot_word st' s = slot_word st s) /\
  (s_done st = true -> s_done st' = true) /\
  (flags_wf st -> flags_wf st').

Lemma upd_store : forall st slot z, (slot < MAXV)%nat -> upd slot st (store st slot z).
Proof.
  intros st slot z M. unfold store. repeat split; auto.
  - rewrite flag_set_set_flag. replace (Nat.eqb s slot) with false by (symmetry; apply Nat.eqb_neq; assumption).
    apply flag_set_write_slot. exact H.
  - rewrite slot_word_set_flag by exact M. rewrite slot_word_write_slot.
    replace (Nat.eqb s slot) with false by (symmetry; apply Nat.eqb_neq; assumption). reflexivity.
  - intros W. apply flags_wf_set_flag, flags_wf_write_slot. exact W.
Qed.
Lemma keeps_upd : forall slot a b c, keeps MAXV a b -> upd slot b c -> upd slot a c.
Proof.
  intros slot a b c [F1 [M1 [D1 W1]]] [F2 [M2 [D2 W2]]]. repeat split; try congruence; auto.
  - destruct (M1 s H), (M2 s H H0). congruence.
  - destruct (M1 s H), (M2 s H H0). congruence.
Qed.
Lemma upd_keeps_all : forall slot a b c, upd slot a b -> keeps MAXV b c -> upd slot a c.
Proof.
  intros slot a b c [F1 [M1 [D1 W1]]] [F2 [M2 [D2 W2]]]. repeat split; try congruence; auto.
  - destruct (M1 s H H0), (M2 s H). congruence.
  - destruct (M1 s H H0), (M2 s H). congruence.
Qed.
Lemma upd_keeps : forall sp slot a b, upd slot a b -> (sp <= slot)%nat -> (sp <= MAXV)%nat -> keeps sp a b.
Proof.
  intros sp slot a b [F [M [D W]]] L Lm. repeat split; auto; apply M; lia.
Qed.
Lemma upd_var_ok : forall slot a b s t v, upd slot a b -> (s < MAXV)%nat -> s <> slot ->
  var_ok a s t v -> var_ok b s t v.
Proof.
  intros slot a b s t v [_ [M _]] Hs Hn OK. destruct (M s Hs Hn) as [E1 E2].
  unfold var_ok in *. destruct v; rewrite ?E1, ?E2; exact OK.
Qed.
Lemma keeps_var_ok : forall sp a b s t v, keeps sp a b -> (s < sp)%nat -> var_ok a s t v -> var_ok b s t v.
Proof.
  intros sp a b s t v [_ [M _]] Hs OK. destruct (M s Hs) as [E1 E2].
  unfold var_ok in *. destruct v; rewrite ?E1, ?E2; exact OK.
Qed.
Lemma upd_wf : forall slot a b, upd slot a b -> flags_wf a -> flags_wf b.
Proof. intros slot a b [_ [_ [_ W]]]. exact W. Qed.
Lemma keeps_wf : forall sp a b, keeps sp a b -> flags_wf a -> flags_wf b.
Proof. intros sp a b [_ [_ [_ W]]]. exact W. Qed.
Lemma var_ok_store : forall st slot z, (slot < MAXV)%nat -> var_ok (store st slot z) slot TInt (VInt z).
Proof.
  intros st slot z M. unfold store. cbn [var_ok]. split; [reflexivity|]. split.
  - rewrite flag_set_set_flag, Nat.eqb_refl. reflexivity.
  - rewrite slot_word_set_flag by exact M. rewrite slot_word_write_slot, Nat.eqb_refl. reflexivity.
Qed.
Lemma var_ok_stack : forall st s slot t v, var_ok (set_stack st s) slot t v <-> var_ok st slot t v.
Proof. intros. reflexivity. Qed.

Lemma R_more : forall g sp sp2 en st, R g sp en st -> (sp <= sp2)%nat -> (sp2 <= MAXV)%nat -> R g sp2 en st.
Proof.
  intros g sp sp2 en st [Hf [Hs [Hw Hv]]] L M. repeat split; auto.
  - destruct (Hv x slot t H). lia.
  - destruct (Hv x slot t H). assumption.
Qed.
Lemma R_bind_at : forall g sp sp2 slot en st x t v,
  R g sp en st -> (sp <= slot)%nat -> (slot < sp2)%nat -> (sp2 <= MAXV)%nat ->
  var_ok st slot t v ->
  R ((x, (slot, t)) :: g) sp2 (bind x v en) st.
Proof.
  intros g sp sp2 slot en st x t v [Hf [Hs [Hw Hv]]] L1 L2 M OK. repeat split; auto.
  - cbn [clookup] in H. destruct (Nat.eqb x0 x); [injection H as <- <-; lia | destruct (Hv x0 slot0 t0 H); lia].
  - cbn [clookup] in H. cbn [bind e_vars lookup]. destruct (Nat.eqb x0 x).
    + injection H as <- <-. exact OK.
    + destruct (Hv x0 slot0 t0 H). assumption.
Qed.

(* 64-bit counters *)
Lemma w64_small : forall z, - m63 <= z < m63 -> w64 z = z.
Proof. intros z H. unfold w64. rewrite Z.mod_small; unfold m63, m64 in *; lia. Qed.
Lemma w64_succ : forall a, w64 (w64 a + 1) = w64 (a + 1).
Proof.
  intros a. unfold w64. f_equal.
  replace ((a + m63) mod m64 - m63 + 1 + m63) with ((a + m63) mod m64 + 1) by lia.
  replace (a + 1 + m63) with ((a + m63) + 1) by lia.
  rewrite Zplus_mod_idemp_l. reflexivity.
Qed.
