(* C02 - correctness of the model of emit.rs (Cond/Emit.v) with respect to the
   documented meaning (Cond/Sem.v), on the machine of Cond/Machine.v. *)
From Coq Require Import List ZArith Bool Lia.
From Coq Require Import Permutation.
From YV Require Import Cond.RunsProofs.
From YV Require Import Cond.Syntax Cond.Sem Cond.SemProofs Cond.Quirks Cond.QuirksProofs
  Cond.Machine Cond.MachineProofs Cond.Emit Cond.EmitBase.
Import ListNotations.
Local Open Scope Z_scope.

Definition val_of (v : value) : val :=
  match v with VInt z => V64 z | VBool b => V32 (b2z b) | _ => V32 0 end.
Definition types_as (t : ty) (v : value) : Prop :=
  match v with VInt _ => t = TInt | VBool _ => t = TBool | VUndef => True | VStr _ => False end.

Section Correct.
  Variables (data : list Z) (pm : nat -> mlist) (rules : nat -> bool) (globals : nat -> value).
  (* the external variables have the types the compiler was told *)
  Hypothesis globals_typed : forall k t, global_ty k = Some t -> types_as t (globals k).

  Notation host := (host_spec data pm rules globals).
  Notation bs := (bstep host).

  Definition env_of (vars : list (nat * value)) : env :=
    mkEnv data (Z.of_nat (length data)) pm vars None rules globals.

  (* [c], started in [st] with handler (h, F), computes the value v on top of
     the stack [base] - or, if v is undefined, runs the handler and leaves its
     block - changing nothing below slot sp *)
  Definition computes (sp : nat) (h : handler) (F : state -> state) (base : list val)
                      (c : list instr) (v : value) (st : state) : Prop :=
    (v <> VUndef -> exists st', keeps sp st st' /\ s_stack st' = val_of v :: base /\
                     forall rest o, bs rest st' o -> bs (c ++ rest) st o) /\
    (v = VUndef -> forall rest, exists st1, keeps sp st st1 /\
                     bs (c ++ rest) st (OBranch (h_depth h) (F st1))).

  Lemma computes_bind : forall sp h F base base1 c1 v1 c2 v st,
    computes sp h F base1 c1 v1 st ->
    (v1 = VUndef -> v = VUndef) ->
    (v1 <> VUndef -> forall st', keeps sp st st' -> s_stack st' = val_of v1 :: base1 ->
                     computes sp h F base c2 v st') ->
    computes sp h F base (c1 ++ c2) v st.
  Proof.
    intros sp h F base base1 c1 v1 c2 v st [D1 U1] HU H2. split.
    - intros Hv. assert (N1 : v1 <> VUndef) by (intros E; apply Hv; apply HU; exact E).
      destruct (D1 N1) as [st' [K1 [S1 C1]]].
      destruct (H2 N1 st' K1 S1) as [D2 _]. destruct (D2 Hv) as [st'' [K2 [S2 C2]]].
      exists st''. split; [eapply keeps_trans; eassumption|]. split; [exact S2|].
      intros rest o Hr. rewrite <- app_assoc. apply C1. apply C2. exact Hr.
    - intros Hv rest. destruct v1 eqn:E1.
      1,2,3: (assert (N1 : v1 <> VUndef) by (rewrite E1; discriminate); rewrite E1 in N1;
              destruct (D1 N1) as [st' [K1 [S1 C1]]];
              destruct (H2 N1 st' K1 S1) as [_ U2]; destruct (U2 Hv rest) as [st1 [K2 B2]];
              exists st1; split; [eapply keeps_trans; eassumption|];
              rewrite <- app_assoc; apply C1; exact B2).
      destruct (U1 eq_refl (c2 ++ rest)) as [st1 [K1 B1]]. exists st1. split; [exact K1|].
      rewrite <- app_assoc. exact B1.
  Qed.

  (* straight-line code that always succeeds *)
  Lemma computes_pure : forall sp h F base c v st st',
    v <> VUndef -> keeps sp st st' -> s_stack st' = val_of v :: base ->
    (forall rest o, bs rest st' o -> bs (c ++ rest) st o) ->
    computes sp h F base c v st.
  Proof.
    intros. split; [intros _; exists st'; auto | intros E; contradiction].
  Qed.

  Lemma computes_nil_eq : forall sp h F base c v st,
    computes sp h F base c v st -> computes sp h F base (c ++ []) v st.
  Proof. intros. rewrite app_nil_r. assumption. Qed.

  Ltac solve_keeps :=
    unfold keeps, flag_set, slot_word, flags_wf;
    cbn [set_stack set_local set_done s_stack s_locals s_mem s_filesize s_done];
    repeat split; auto.

  (* shape of the proofs of straight-line code: run it symbolically *)
  Ltac pure_code steps :=
    eexists; split; [|split]; [| | intros rest o Hr; steps; exact Hr]; [solve_keeps | reflexivity].

  Lemma int_or_undef : forall v, types_as TInt v -> v = VUndef \/ exists z, v = VInt z.
  Proof. intros [z|b|s|] H; cbn in H; try discriminate; try contradiction; eauto. Qed.
  Lemma bool_or_undef : forall v, types_as TBool v -> v = VUndef \/ exists b, v = VBool b.
  Proof. intros [z|b|s|] H; cbn in H; try discriminate; try contradiction; eauto. Qed.

  (* ------------------------------------------------------------- leaves *)
  Lemma c_const : forall sp h F st v w, v <> VUndef -> val_of v = w ->
    computes sp h F (s_stack st) [IConst w] v st.
  Proof.
    intros sp h F st v w Hv <-. split; [intros _|intros E; contradiction].
    pure_code ltac:(cbn [app]; apply step_const).
  Qed.

  Lemma c_filesize : forall sp h F st,
    s_filesize st = Z.of_nat (length data) ->
    computes sp h F (s_stack st)
      [IGlobalGet GFilesize; ILocalTee tmpA; IConst (V64 0); IBin I64LtS; IIf 1 (throw (deeper h)) [ILocalGet tmpA]]
      (VInt (Z.of_nat (length data))) st.
  Proof.
    intros sp h F st Hf. split; [intros _|intros E; discriminate].
    pure_code ltac:(cbn [app];
      apply step_filesize;
      (eapply step_local_tee; [reflexivity|]);
      apply step_const;
      (eapply step_bin; [reflexivity | reflexivity |]);
      cbn [set_stack set_local s_stack s_locals s_mem s_filesize s_done]; rewrite Hf;
      replace (Z.of_nat (length data) <? 0) with false by (symmetry; apply Z.ltb_ge; lia);
      cbn [b2z];
      (eapply step_if; [reflexivity | cbn [Z.eqb]; apply step_local_get; apply BNil | ]);
      cbn; apply seq_normal).
  Qed.

  (* ------------------------------------------------- tails: operators *)
  Lemma c_bin : forall sp h F base st op a b r v,
    s_stack st = b :: a :: base -> eval_bin op a b = Some (Some r) -> v <> VUndef -> val_of v = r ->
    computes sp h F base [IBin op] v st.
  Proof.
    intros sp h F base st op a b r v Hs He Hv <-. split; [intros _|intros E; contradiction].
    pure_code ltac:(cbn [app]; (eapply step_bin; [exact Hs | exact He |])).
  Qed.
  Lemma c_un : forall sp h F base st op a r v,
    s_stack st = a :: base -> eval_un op a = Some r -> v <> VUndef -> val_of v = r ->
    computes sp h F base [IUn op] v st.
  Proof.
    intros sp h F base st op a r v Hs He Hv <-. split; [intros _|intros E; contradiction].
    pure_code ltac:(cbn [app]; (eapply step_un; [exact Hs | exact He |])).
  Qed.

  (* two operands, then a tail that consumes them; strict in both *)
  Lemma c_strict2 : forall sp h F base basea st ca cb tail va vb v,
    computes sp h F basea ca va st ->
    (va <> VUndef -> forall st', keeps sp st st' -> s_stack st' = val_of va :: basea ->
       computes sp h F (val_of va :: basea) cb vb st') ->
    (va = VUndef \/ vb = VUndef -> v = VUndef) ->
    (va <> VUndef -> vb <> VUndef -> forall st'', keeps sp st st'' ->
       s_stack st'' = val_of vb :: val_of va :: basea -> computes sp h F base tail v st'') ->
    computes sp h F base (ca ++ cb ++ tail) v st.
  Proof.
    intros sp h F base basea st ca cb tail va vb v Ha Hb Hu Ht.
    eapply computes_bind; [exact Ha | intros E; apply Hu; left; exact E |].
    intros Na st' K S.
    eapply computes_bind; [exact (Hb Na st' K S) | intros E; apply Hu; right; exact E |].
    intros Nb st'' K' S'. apply (Ht Na Nb). eapply keeps_trans; eassumption. exact S'.
  Qed.

  Lemma w64_wrap64 : forall z, w64 z = wrap64 z.
  Proof. reflexivity. Qed.

  (* throw (deeper^k h) after the handler's code *)
  Lemma hspec_throw : forall hc F d st1, hspec host hc F -> bs (hc ++ [IBr d]) st1 (OBranch d (F st1)).
  Proof. intros. apply H. Qed.

  (* a tail that throws: `if` whose taken branch is throw (deeper h) *)
  Lemma c_tail_throw : forall sp h F base code st,
    hspec host (h_code h) F ->
    (forall rest, exists st1, keeps sp st st1 /\ bs (code ++ rest) st (OBranch (h_depth h) (F st1))) ->
    computes sp h F base code VUndef st.
  Proof. intros. split; [intros E; contradiction | intros _; assumption]. Qed.

  (* + - * & | ^ *)
  Lemma c_arith_plain : forall sp h F base st op x y,
    match op with Add | Sub | Mul | BAnd | BOr | BXor => True | _ => False end ->
    s_stack st = V64 y :: V64 x :: base ->
    computes sp h F base [IBin (arith_op op)] (arith_int op x y) st.
  Proof.
    intros sp h F base st op x y Hop Hs.
    destruct op; try contradiction; (eapply c_bin; [exact Hs | reflexivity | discriminate | reflexivity]).
  Qed.

  (* << >> with the < 64 guard *)
  Lemma c_shift : forall sp h F base st op x y,
    op = Shl \/ op = Shr ->
    s_stack st = V64 y :: V64 x :: base ->
    computes sp h F base (shift_tail op) (arith_int op x y) st.
  Proof.
    intros sp h F base st op x y Hop Hs.
    unfold shift_tail, EmitFacts.shift_guard_cmp, EmitFacts.shift_guard_else.
    assert (N : arith_int op x y <> VUndef) by (destruct Hop; subst op; cbn; destruct (64 <=? y); discriminate).
    split; [intros _|intros E; contradiction].
    unfold SHIFT_LIMIT, EmitFacts.shift_guard_const.
    destruct (64 <=? y) eqn:G.
    - (* count >= 64: the result is 0 *)
      assert (V : arith_int op x y = VInt 0) by (destruct Hop; subst op; cbn; rewrite G; reflexivity).
      rewrite V.
      pure_code ltac:(cbn [app];
        (eapply step_local_set; [exact Hs|]);
        (eapply step_local_set; [reflexivity|]);
        apply step_local_get; apply step_const;
        (eapply step_bin; [reflexivity | reflexivity |]);
        cbn [set_stack set_local s_stack s_locals Nat.eqb tmpA tmpB];
        replace (y <? 64) with false by (symmetry; apply Z.ltb_ge; apply Z.leb_le; exact G);
        (eapply step_if; [reflexivity | cbn [b2z Z.eqb]; apply step_const; apply BNil |]);
        cbn; apply seq_normal).
    - assert (V : exists r, arith_int op x y = VInt r /\ eval_bin (arith_op op) (V64 x) (V64 y) = Some (Some (V64 r))).
      { destruct Hop; subst op; cbn; rewrite G; eexists; split; reflexivity. }
      destruct V as [r [V E]]. rewrite V.
      pure_code ltac:(cbn [app];
        (eapply step_local_set; [exact Hs|]);
        (eapply step_local_set; [reflexivity|]);
        apply step_local_get; apply step_const;
        (eapply step_bin; [reflexivity | reflexivity |]);
        cbn [set_stack set_local s_stack s_locals Nat.eqb tmpA tmpB];
        replace (y <? 64) with true by (symmetry; apply Z.ltb_lt; apply Z.leb_gt; exact G);
        (eapply step_if; [reflexivity |
           cbn [b2z Z.eqb]; apply step_local_get; apply step_local_get;
           (eapply step_bin; [reflexivity | cbn [set_stack set_local s_stack s_locals Nat.eqb tmpA tmpB]; exact E |]); apply BNil |]);
        cbn; apply seq_normal).
  Qed.

  (* throw_undef_if_zero *)
  Lemma tiz_nonzero : forall h st y base rest o, y <> 0 ->
    s_stack st = V64 y :: base ->
    bs rest (set_local st tmpA (V64 y)) o -> bs (throw_if_zero h ++ rest) st o.
  Proof.
    intros h st y base rest o Hy Hs Hr. unfold throw_if_zero. cbn [app].
    eapply step_local_tee; [exact Hs|].
    eapply step_un; [cbn [set_local s_stack]; exact Hs | reflexivity |].
    replace (y =? 0) with false by (symmetry; apply Z.eqb_neq; exact Hy). cbn [b2z].
    eapply step_if; [reflexivity | cbn [Z.eqb]; apply step_local_get; apply BNil |].
    cbn [close leave take_top set_stack set_local s_stack s_locals Nat.leb length firstn app Nat.eqb tmpA].
    apply seq_normal. destruct st; cbn in *; subst; exact Hr.
  Qed.
  Lemma tiz_zero : forall h F st base rest,
    hspec host (h_code h) F -> s_stack st = V64 0 :: base ->
    exists st1, keeps (Z.to_nat MAX_VARS) st st1 /\ bs (throw_if_zero h ++ rest) st (OBranch (h_depth h) (F st1)).
  Proof.
    intros h F st base rest HF Hs. unfold throw_if_zero. cbn [app].
    eexists. split; [|
      (eapply step_local_tee; [exact Hs|]);
      (eapply step_un; [cbn [set_local s_stack]; exact Hs | reflexivity |]);
      cbn [Z.eqb b2z];
      (eapply step_if; [reflexivity | cbn [Z.eqb]; unfold throw, deeper; cbn [h_code h_depth]; apply HF |]);
      cbn [close]; apply seq_branch].
    solve_keeps.
  Qed.

  Lemma c_div : forall sp h F base st x y,
    hspec host (h_code h) F -> (sp <= Z.to_nat MAX_VARS)%nat ->
    s_stack st = V64 y :: V64 x :: base ->
    computes sp h F base (div_tail h) (arith_int Div x y) st.
  Proof.
    intros sp h F base st x y HF Hsp Hs. cbn [arith_int].
    unfold div_tail, EmitFacts.div_zero_guard, EmitFacts.div_minus_one_branch. cbv beta iota.
    destruct (y =? 0) eqn:Z0.
    - apply Z.eqb_eq in Z0. subst y. split; [intros E; contradiction | intros _ rest].
      destruct (tiz_zero h F st _ (
        [ILocalSet tmpB; ILocalSet tmpA; ILocalGet tmpB; IConst (V64 (-1)); IBin I64Eq;
         IIf 1 [IConst (V64 0); ILocalGet tmpA; IBin I64Sub] [ILocalGet tmpA; ILocalGet tmpB; IBin I64DivS]] ++ rest) HF Hs)
        as [st1 [K B]].
      exists st1. split; [eapply keeps_weaken; eassumption|]. rewrite <- app_assoc. exact B.
    - apply Z.eqb_neq in Z0. split; [intros _|intros E; discriminate].
      destruct (y =? -1) eqn:M1.
      + apply Z.eqb_eq in M1. subst y.
        replace (Z.quot x (-1)) with (0 - x) by (change (-1) with (Z.opp 1); rewrite Z.quot_opp_r by lia; rewrite Z.quot_1_r; lia).
        pure_code ltac:(rewrite <- app_assoc;
          (eapply (tiz_nonzero _ _ (-1)); [lia | exact Hs |]); cbn [app];
          (eapply step_local_set; [cbn [set_local s_stack]; exact Hs|]);
          (eapply step_local_set; [reflexivity|]);
          apply step_local_get; apply step_const;
          (eapply step_bin; [reflexivity | reflexivity |]);
          cbn [set_stack set_local s_stack s_locals Nat.eqb tmpA tmpB Z.eqb b2z];
          (eapply step_if; [reflexivity |
             cbn [Z.eqb]; apply step_const; apply step_local_get;
             (eapply step_bin; [reflexivity | reflexivity |]); apply BNil |]);
          cbn; apply seq_normal).
      + assert (D : eval_bin I64DivS (V64 x) (V64 y) = Some (Some (V64 (wrap64 (Z.quot x y))))).
        { cbn [eval_bin]. unfold i64_div_s.
          replace (y =? 0) with false by (symmetry; apply Z.eqb_neq; exact Z0).
          rewrite M1, andb_false_r. reflexivity. }
        pure_code ltac:(rewrite <- app_assoc;
          (eapply tiz_nonzero; [exact Z0 | exact Hs |]); cbn [app];
          (eapply step_local_set; [cbn [set_local s_stack]; exact Hs|]);
          (eapply step_local_set; [reflexivity|]);
          apply step_local_get; apply step_const;
          (eapply step_bin; [reflexivity | reflexivity |]);
          cbn [set_stack set_local s_stack s_locals Nat.eqb tmpA tmpB]; rewrite M1; cbn [b2z];
          (eapply step_if; [reflexivity |
             cbn [Z.eqb]; apply step_local_get; apply step_local_get;
             (eapply step_bin; [reflexivity | cbn [set_stack set_local s_stack s_locals Nat.eqb tmpA tmpB]; exact D |]); apply BNil |]);
          cbn; apply seq_normal).
  Qed.

  Lemma c_mod : forall sp h F base st x y,
    hspec host (h_code h) F -> (sp <= Z.to_nat MAX_VARS)%nat ->
    s_stack st = V64 y :: V64 x :: base ->
    computes sp h F base (mod_tail h) (arith_int Mod x y) st.
  Proof.
    intros sp h F base st x y HF Hsp Hs. cbn [arith_int].
    unfold mod_tail, EmitFacts.mod_zero_guard. cbv beta iota.
    destruct (y =? 0) eqn:Z0.
    - apply Z.eqb_eq in Z0. subst y. split; [intros E; contradiction | intros _ rest].
      destruct (tiz_zero h F st _ ([IBin I64RemS] ++ rest) HF Hs) as [st1 [K B]].
      exists st1. split; [eapply keeps_weaken; eassumption|]. rewrite <- app_assoc. exact B.
    - apply Z.eqb_neq in Z0. split; [intros _|intros E; discriminate].
      assert (D : eval_bin I64RemS (V64 x) (V64 y) = Some (Some (V64 (wrap64 (Z.rem x y))))).
      { cbn [eval_bin]. unfold i64_rem_s.
        replace (y =? 0) with false by (symmetry; apply Z.eqb_neq; exact Z0). reflexivity. }
      pure_code ltac:(rewrite <- app_assoc;
        (eapply tiz_nonzero; [exact Z0 | exact Hs |]); cbn [app];
        (eapply step_bin; [cbn [set_local s_stack]; exact Hs | exact D |])).
  Qed.

  (* ------------------------------------------------------------ host calls *)
  Definition not_search (f : hostfn) : Prop := match f with HSearch => False | _ => True end.

  Lemma c_call_pure : forall sp h F base st f args r v,
    s_stack st = rev args ++ base -> length args = host_arity f -> not_search f ->
    host f (s_done st) args = Some [r] -> v <> VUndef -> val_of v = r ->
    computes sp h F base [ICall f] v st.
  Proof.
    intros sp h F base st f args r v Hs Hl Hn Hh Hv <-. split; [intros _|intros E; contradiction].
    pure_code ltac:(cbn [app]; (eapply step_call; [exact Hs | exact Hl | exact Hh |]);
                    destruct f; try contradiction; cbn [app]).
  Qed.

  (* emit_call_and_handle_undef *)
  Lemma c_call_undef : forall sp h F base st f args u w v,
    hspec host (h_code h) F ->
    s_stack st = rev args ++ base -> length args = host_arity f -> not_search f ->
    host f (s_done st) args = Some [V32 u; w] ->
    (v <> VUndef -> u = 0 /\ w = val_of v) -> (v = VUndef -> u = 1) ->
    computes sp h F base (call_handle_undef f h) v st.
  Proof.
    intros sp h F base st f args u w v HF Hs Hl Hn Hh Hd Hu. unfold call_handle_undef. split.
    - intros Hv. destruct (Hd Hv) as [-> ->].
      pure_code ltac:(cbn [app]; (eapply step_call; [exact Hs | exact Hl | exact Hh |]);
                      destruct f; try contradiction; cbn [app];
                      (eapply step_if; [reflexivity | cbn [Z.eqb]; apply BNil |]);
                      cbn; apply seq_normal).
    - intros Hv rest. rewrite (Hu Hv) in Hh.
      eexists. split; [|
        cbn [app]; (eapply step_call; [exact Hs | exact Hl | exact Hh |]);
        destruct f; try contradiction; cbn [app];
        (eapply step_if; [reflexivity | cbn [Z.eqb]; unfold throw, deeper; cbn [h_code h_depth]; apply HF |]);
        cbn [close]; apply seq_branch].
      solve_keeps.
  Qed.

  (* emit_lazy_call_to_search_for_patterns: afterwards the search is done *)
  Lemma search_ok : forall sp st,
    exists st', keeps sp st st' /\ s_stack st' = s_stack st /\ s_done st' = true /\
      forall rest o, bs rest st' o -> bs (search_check ++ rest) st o.
  Proof.
    intros sp st. unfold search_check, EmitFacts.search_check_unconditional, EmitFacts.search_check_before_every_pattern_op. cbv beta iota. cbn [andb].
    destruct (s_done st) eqn:D.
    - exists st. split; [apply keeps_refl|]. split; [reflexivity|]. split; [exact D|].
      intros rest o Hr. cbn [app]. apply step_done. rewrite D. cbn [b2z].
      eapply step_if; [reflexivity | cbn [Z.eqb]; apply BNil |].
      cbn. apply seq_normal. destruct st; cbn in *; exact Hr.
    - exists (set_done st). split; [apply keeps_done|]. split; [reflexivity|]. split; [reflexivity|].
      intros rest o Hr. cbn [app]. apply step_done. rewrite D. cbn [b2z].
      eapply step_if; [reflexivity |
        cbn [Z.eqb]; (eapply (step_call host HSearch _ _ [] []); [reflexivity | reflexivity | reflexivity |]); apply BNil |].
      cbn. apply seq_normal. destruct st; cbn in *; exact Hr.
  Qed.

  (* prefix that always succeeds and leaves the stack unchanged *)
  Lemma computes_after : forall sp h F base c1 c2 v st st',
    keeps sp st st' ->
    (forall rest o, bs rest st' o -> bs (c1 ++ rest) st o) ->
    computes sp h F base c2 v st' ->
    computes sp h F base (c1 ++ c2) v st.
  Proof.
    intros sp h F base c1 c2 v st st' K C [D U]. split.
    - intros Hv. destruct (D Hv) as [st'' [K' [S' C']]]. exists st''.
      split; [eapply keeps_trans; eassumption|]. split; [exact S'|].
      intros rest o Hr. rewrite <- app_assoc. apply C. apply C'. exact Hr.
    - intros Hv rest. destruct (U Hv rest) as [st1 [K' B]]. exists st1.
      split; [eapply keeps_trans; eassumption|]. rewrite <- app_assoc. apply C. exact B.
  Qed.

  (* --------------------------------------------------------- catch_undef *)
  Definition h0 : handler := mkH [IConst (V32 0)] 0.
  Definition F0 (st : state) : state := set_stack st (V32 0 :: s_stack st).
  Lemma hspec_h0 : hspec host (h_code h0) F0.
  Proof. intros d st1. cbn [h0 h_code app]. apply step_const. apply BBr. Qed.

  Definition or_false (v : value) : value := match v with VUndef => VBool false | _ => v end.

  (* a block of arity 1 whose body runs under the handler that answers false *)
  Lemma c_block_catch : forall sp h F st body v,
    computes sp h0 F0 [] body v (set_stack st []) ->
    computes sp h F (s_stack st) [IBlock 1 body] (or_false v) st.
  Proof.
    intros sp h F st body v [D U]. split; [intros _ | intros E; destruct v; discriminate].
    assert (Dv : v <> VUndef \/ v = VUndef) by (destruct v; [left|left|left|right]; congruence).
    destruct Dv as [N | E].
    { destruct (D N) as [st' [K [S C]]].
      exists (set_stack st' (val_of v :: s_stack st)).
      replace (or_false v) with v by (destruct v; try reflexivity; contradiction).
      split; [eapply keeps_trans; [apply (keeps_stack sp st [])| eapply keeps_trans; [exact K | apply keeps_stack]]|].
      split; [reflexivity|].
      intros rest o Hr. cbn [app].
      eapply BBlock; [ rewrite <- (app_nil_r body); apply C; apply BNil |].
      unfold close, leave. rewrite S. cbn [take_top Nat.leb length firstn app]. apply seq_normal. exact Hr. }
    subst v. cbn [or_false].
    destruct (U eq_refl []) as [st1 [K B]]. rewrite app_nil_r in B.
    exists (set_stack st1 (V32 0 :: s_stack st)).
    split; [eapply keeps_trans; [apply (keeps_stack sp st [])| eapply keeps_trans; [exact K | apply keeps_stack]]|].
    split; [reflexivity|].
    intros rest o Hr. cbn [app].
    eapply BBlock; [exact B|].
    cbn [close leave h0 h_depth F0 set_stack s_stack take_top Nat.leb length firstn app]. apply seq_normal.
    destruct st1; cbn in *; exact Hr.
  Qed.


  Lemma c_and_body : forall sp st ca cb va vb,
    computes sp h0 F0 [] ca va st -> s_stack st = [] ->
    types_as TBool va ->
    (forall st', keeps sp st st' -> s_stack st' = [] -> computes sp h0 F0 [] cb vb st') ->
    computes sp h0 F0 [] (ca ++ and_exit ++ cb)
      (match va with VBool true => vb | _ => VUndef end) st.
  Proof.
    intros sp st ca cb va vb Ha Hs Ta Hb.
    destruct va as [z|[|]|s|]; cbn in Ta; try discriminate; try contradiction.
    - (* a is true: continue with b *)
      destruct Ha as [Da _]. destruct (Da ltac:(discriminate)) as [st1 [K1 [S1 C1]]].
      assert (Hb' := Hb (set_stack st1 []) (keeps_trans _ _ _ _ K1 (keeps_stack _ _ _)) eq_refl).
      rewrite app_assoc.
      eapply computes_after; [ | | exact Hb'].
      + eapply keeps_trans; [exact K1 | apply keeps_stack].
      + intros rest o Hr. rewrite <- app_assoc. apply C1. unfold and_exit. cbn [app].
        eapply step_if; [exact S1 | cbn [val_of b2z Z.eqb]; apply BNil |].
        cbn. apply seq_normal. exact Hr.
    - (* a is false: leave the block with false, like the handler does *)
      destruct Ha as [Da _]. destruct (Da ltac:(discriminate)) as [st1 [K1 [S1 C1]]].
      split; [intros E; contradiction | intros _ rest].
      exists (set_stack st1 []). split; [eapply keeps_trans; [exact K1 | apply keeps_stack]|].
      rewrite <- app_assoc. apply C1. unfold and_exit. cbn [app].
      eapply step_if; [exact S1 | cbn [val_of b2z Z.eqb]; apply step_const; apply BBr |].
      cbn [close h0 h_depth F0 set_stack s_stack]. apply seq_branch.
    - (* a is undefined *)
      destruct Ha as [_ Ua]. split; [intros E; contradiction | intros _ rest].
      destruct (Ua eq_refl ((and_exit ++ cb) ++ rest)) as [st1 [K B]].
      exists st1. split; [exact K|]. rewrite <- app_assoc. exact B.
  Qed.

  Lemma or_false_bool : forall v, types_as TBool v -> or_false v = VBool (truthy v).
  Proof. intros [z|[|]|s|] H; cbn in *; try discriminate; try contradiction; reflexivity. Qed.

  (* emit_or: the early exit pushes true and leaves the block of the `or` *)
  Definition h1 : handler := mkH [IConst (V32 1)] 0.
  Definition F1 (st : state) : state := set_stack st (V32 1 :: s_stack st).
  Definition or_true (v : value) : value := match v with VUndef => VBool true | _ => v end.
  (* what a chain of `or` operands has established: exited with true, or the
     value of its last operand on the stack *)
  Definition rawt (v : value) : bool := match v with VUndef => true | _ => truthy v end.

  Lemma c_block_catch1 : forall sp h F st body v,
    computes sp h1 F1 [] body v (set_stack st []) ->
    computes sp h F (s_stack st) [IBlock 1 body] (or_true v) st.
  Proof.
    intros sp h F st body v [D U]. split; [intros _ | intros E; destruct v; discriminate].
    assert (Dv : v <> VUndef \/ v = VUndef) by (destruct v; [left|left|left|right]; congruence).
    destruct Dv as [N | E].
    { destruct (D N) as [st' [K [S C]]].
      exists (set_stack st' (val_of v :: s_stack st)).
      replace (or_true v) with v by (destruct v; try reflexivity; contradiction).
      split; [eapply keeps_trans; [apply (keeps_stack sp st [])| eapply keeps_trans; [exact K | apply keeps_stack]]|].
      split; [reflexivity|].
      intros rest o Hr. cbn [app].
      eapply BBlock; [ rewrite <- (app_nil_r body); apply C; apply BNil |].
      unfold close, leave. rewrite S. cbn [take_top Nat.leb length firstn app]. apply seq_normal. exact Hr. }
    subst v. cbn [or_true].
    destruct (U eq_refl []) as [st1 [K B]]. rewrite app_nil_r in B.
    exists (set_stack st1 (V32 1 :: s_stack st)).
    split; [eapply keeps_trans; [apply (keeps_stack sp st [])| eapply keeps_trans; [exact K | apply keeps_stack]]|].
    split; [reflexivity|].
    intros rest o Hr. cbn [app].
    eapply BBlock; [exact B|].
    cbn [close leave h1 h_depth F1 set_stack s_stack take_top Nat.leb length firstn app]. apply seq_normal.
    destruct st1; cbn in *; exact Hr.
  Qed.

  Lemma c_or_body : forall sp st ca cb va vb,
    computes sp h1 F1 [] ca va st -> s_stack st = [] ->
    types_as TBool va ->
    (forall st', keeps sp st st' -> s_stack st' = [] -> computes sp h1 F1 [] cb vb st') ->
    computes sp h1 F1 [] (ca ++ or_exit ++ cb)
      (match va with VBool false => vb | _ => VUndef end) st.
  Proof.
    intros sp st ca cb va vb Ha Hs Ta Hb.
    destruct va as [z|[|]|s|]; cbn in Ta; try discriminate; try contradiction.
    - (* a is true: leave the block with true *)
      destruct Ha as [Da _]. destruct (Da ltac:(discriminate)) as [st1 [K1 [S1 C1]]].
      split; [intros E; contradiction | intros _ rest].
      exists (set_stack st1 []). split; [eapply keeps_trans; [exact K1 | apply keeps_stack]|].
      rewrite <- app_assoc. apply C1. unfold or_exit. cbn [app].
      eapply step_if; [exact S1 | cbn [val_of b2z Z.eqb]; apply step_const; apply BBr |].
      cbn [close h1 h_depth F1 set_stack s_stack]. apply seq_branch.
    - (* a is false: continue with b *)
      destruct Ha as [Da _]. destruct (Da ltac:(discriminate)) as [st1 [K1 [S1 C1]]].
      assert (Hb' := Hb (set_stack st1 []) (keeps_trans _ _ _ _ K1 (keeps_stack _ _ _)) eq_refl).
      rewrite app_assoc.
      eapply computes_after; [ | | exact Hb'].
      + eapply keeps_trans; [exact K1 | apply keeps_stack].
      + intros rest o Hr. rewrite <- app_assoc. apply C1. unfold or_exit. cbn [app].
        eapply step_if; [exact S1 | cbn [val_of b2z Z.eqb]; apply BNil |].
        cbn. apply seq_normal. exact Hr.
    - (* the chain has already left *)
      destruct Ha as [_ Ua]. split; [intros E; contradiction | intros _ rest].
      destruct (Ua eq_refl ((or_exit ++ cb) ++ rest)) as [st1 [K B]].
      exists st1. split; [exact K|]. rewrite <- app_assoc. exact B.
  Qed.

  (* the cast of emit_bool_expr *)
  Definition bool_cast (v : value) : value :=
    match v with VInt z => VBool (negb (z =? 0)) | _ => v end.

  Lemma c_cast : forall sp h F base c v st,
    computes sp h F base c v st -> types_as TInt v ->
    computes sp h F base (c ++ [IConst (V64 0); IBin I64Ne]) (bool_cast v) st.
  Proof.
    intros sp h F base c v st Hc Tv.
    eapply computes_bind; [exact Hc | intros ->; reflexivity |].
    intros N st' K S. destruct (int_or_undef v Tv) as [-> | [z ->]]; [contradiction|].
    cbn [bool_cast]. split; [intros _ | intros E; discriminate].
    pure_code ltac:(cbn [app]; apply step_const; (eapply step_bin; [cbn [set_stack s_stack]; rewrite S; reflexivity | reflexivity |])).
  Qed.

  (* emit_defined: the body is evaluated, dropped, and 1 is pushed *)
  Lemma c_defined_body : forall sp st c v,
    computes sp h0 F0 [] c v st -> s_stack st = [] ->
    computes sp h0 F0 [] (c ++ [IDrop; IConst (V32 1)])
      (match v with VUndef => VUndef | _ => VBool true end) st.
  Proof.
    intros sp st c v Hc Hs.
    eapply computes_bind; [exact Hc | intros ->; reflexivity |].
    intros N st' K S.
    replace (match v with VUndef => VUndef | _ => VBool true end) with (VBool true)
      by (destruct v; try reflexivity; contradiction).
    split; [intros _ | intros E; discriminate].
    pure_code ltac:(cbn [app]; (eapply step_drop; [exact S|]); apply step_const).
  Qed.

  Lemma computes_weaken : forall sp sp' h F base c v st, (sp <= sp')%nat ->
    computes sp' h F base c v st -> computes sp h F base c v st.
  Proof.
    intros sp sp' h F base c v st L [D U]. split.
    - intros N. destruct (D N) as [st' [K R']]. exists st'. split; [eapply keeps_weaken; eassumption | exact R'].
    - intros E rest. destruct (U E rest) as [st1 [K B]]. exists st1. split; [eapply keeps_weaken; eassumption | exact B].
  Qed.

  (* ------------------------------------------------------------ variables *)
  Lemma c_var : forall g sp h F vars st x slot t,
    hspec host (h_code h) F -> R g sp (env_of vars) st -> clookup x g = Some (slot, t) ->
    types_as t (lookup x vars) /\
    computes sp h F (s_stack st) (load_var slot t h) (lookup x vars) st.
  Proof.
    intros g sp h F vars st x slot t HF [Hf [Hsp [Hw Hv]]] Hx.
    destruct (Hv x slot t Hx) as [Lt OK]. cbn [env_of e_vars] in OK.
    assert (M : (slot < Z.to_nat MAX_VARS)%nat) by lia.
    destruct (lookup x vars) as [z|b|s|] eqn:L; cbn [var_ok] in OK.
    - destruct OK as [-> [Fl W]]. split; [reflexivity|]. split; [intros _ | intros E; discriminate].
      exists (set_stack st (V64 z :: s_stack st)). split; [apply keeps_stack|]. split; [reflexivity|].
      intros rest o Hr. apply (load_var_defined host slot TInt h rest st o Hw M Fl). rewrite W. exact Hr.
    - destruct OK as [-> [Fl W]]. split; [reflexivity|]. split; [intros _ | intros E; discriminate].
      exists (set_stack st (V32 (b2z b) :: s_stack st)). split; [apply keeps_stack|]. split; [reflexivity|].
      intros rest o Hr. apply (load_var_defined host slot TBool h rest st o Hw M Fl). rewrite W. exact Hr.
    - contradiction.
    - split; [exact I|]. split; [intros E; contradiction | intros _ rest].
      destruct (load_var_undefined host slot t h F rest st HF Hw M OK) as [st1 [K B]].
      exists st1. split; [eapply keeps_weaken; [exact Hsp | exact K] | exact B].
  Qed.

  (* the handler of a `with` declaration: flag the variable as undefined *)
  Definition hW (slot : nat) : handler := mkH (set_var_undef slot true) 0.
  Definition FW (slot : nat) (st : state) : state := set_flag st slot true.
  Lemma hspec_hW : forall slot, hspec host (h_code (hW slot)) (FW slot).
  Proof. intros slot d st1. cbn [hW h_code]. apply set_var_undef_ok. apply BBr. Qed.

  Lemma var_ok_fresh_int : forall st slot z, (slot < Z.to_nat MAX_VARS)%nat ->
    var_ok (set_flag (write_slot st slot z) slot false) slot TInt (VInt z).
  Proof.
    intros st slot z M. cbn [var_ok]. split; [reflexivity|]. split.
    - rewrite flag_set_set_flag, Nat.eqb_refl. reflexivity.
    - rewrite slot_word_set_flag by exact M. rewrite slot_word_write_slot, Nat.eqb_refl. reflexivity.
  Qed.
  Lemma var_ok_fresh_bool : forall st slot b, (slot < Z.to_nat MAX_VARS)%nat ->
    var_ok (set_flag (write_slot st slot (b2z b)) slot false) slot TBool (VBool b).
  Proof.
    intros st slot b M. cbn [var_ok]. split; [reflexivity|]. split.
    - rewrite flag_set_set_flag, Nat.eqb_refl. reflexivity.
    - rewrite slot_word_set_flag by exact M. rewrite slot_word_write_slot, Nat.eqb_refl. reflexivity.
  Qed.

  (* set_var of slot sp from code that computes v (the `with` declaration and
     the bookkeeping variables of loops) *)
  Lemma c_set_var_catch : forall sp t code v st,
    (sp < Z.to_nat MAX_VARS)%nat -> types_as t v -> v <> VStr [] -> (forall s, v <> VStr s) ->
    computes (S sp) (hW sp) (FW sp) [V32 (slot_addr sp)] code v
             (set_stack st [V32 (slot_addr sp)]) ->
    exists st', keeps sp st st' /\ s_stack st' = s_stack st /\ var_ok st' sp t v /\
      forall rest o, bs rest st' o -> bs ([IBlock 0 (set_var sp t code)] ++ rest) st o.
  Proof.
    intros sp t code v st M Tv _ Ns [D U].
    assert (KS : forall a b, keeps (S sp) a b -> keeps sp a b) by (intros; eapply keeps_weaken; [|eassumption]; lia).
    destruct v as [z|b|s|].
    - destruct (D ltac:(discriminate)) as [st1 [K [S C]]]. cbn in Tv. subst t.
      exists (set_stack (set_flag (write_slot (set_stack st1 []) sp z) sp false) (s_stack st)).
      split; [|split; [reflexivity | split]].
      + eapply keeps_trans; [apply (keeps_stack sp st [V32 (slot_addr sp)])|].
        eapply keeps_trans; [apply KS; exact K|].
        eapply keeps_trans; [apply (keeps_stack sp st1 [])|].
        eapply keeps_trans; [apply (keeps_write_slot sp _ sp z); lia|].
        eapply keeps_trans; [apply (keeps_set_flag sp _ sp false); lia| apply keeps_stack].
      + apply (var_ok_fresh_int (set_stack st1 []) sp z M).
      + intros rest o Hr. cbn [app]. eapply BBlock.
        * unfold set_var. cbn [app]. apply step_const. cbn [set_stack s_stack].
          apply C. cbn [width_of]. rewrite <- (app_nil_r (set_var_undef sp false)).
          apply (set_var_tail_int host sp [] st1 z [] _ S). apply BNil.
        * cbn [close leave take_top Nat.leb firstn app]. apply seq_normal.
          destruct st1; cbn in *; exact Hr.
    - destruct (D ltac:(discriminate)) as [st1 [K [S C]]]. cbn in Tv. subst t.
      exists (set_stack (set_flag (write_slot (set_stack st1 []) sp (b2z b)) sp false) (s_stack st)).
      split; [|split; [reflexivity | split]].
      + eapply keeps_trans; [apply (keeps_stack sp st [V32 (slot_addr sp)])|].
        eapply keeps_trans; [apply KS; exact K|].
        eapply keeps_trans; [apply (keeps_stack sp st1 [])|].
        eapply keeps_trans; [apply (keeps_write_slot sp _ sp (b2z b)); lia|].
        eapply keeps_trans; [apply (keeps_set_flag sp _ sp false); lia| apply keeps_stack].
      + apply (var_ok_fresh_bool (set_stack st1 []) sp b M).
      + intros rest o Hr. cbn [app]. eapply BBlock.
        * unfold set_var. cbn [app]. apply step_const. cbn [set_stack s_stack].
          apply C. cbn [width_of]. rewrite <- (app_nil_r (set_var_undef sp false)).
          apply (set_var_tail_bool host sp [] st1 (b2z b) [] _ S). apply BNil.
        * cbn [close leave take_top Nat.leb firstn app]. apply seq_normal.
          destruct st1; cbn in *; exact Hr.
    - exfalso. exact (Ns s eq_refl).
    - destruct (U eq_refl ([IStore (width_of t) VARS_STACK_START] ++ set_var_undef sp false)) as [st1 [K B]].
      exists (set_stack (set_flag st1 sp true) (s_stack st)).
      split; [|split; [reflexivity | split]].
      + eapply keeps_trans; [apply (keeps_stack sp st [V32 (slot_addr sp)])|].
        eapply keeps_trans; [apply KS; exact K|].
        eapply keeps_trans; [apply (keeps_set_flag sp _ sp true); lia| apply keeps_stack].
      + cbn [var_ok]. unfold flag_set. cbn [set_stack s_mem]. fold (flag_set (set_flag st1 sp true) sp).
        rewrite flag_set_set_flag, Nat.eqb_refl. reflexivity.
      + intros rest o Hr. cbn [app]. eapply BBlock.
        * unfold set_var. cbn [app]. apply step_const. cbn [set_stack s_stack]. exact B.
        * cbn [close hW h_depth FW leave take_top Nat.leb firstn app]. apply seq_normal.
          destruct st1; cbn in *; exact Hr.
  Qed.

  (* emit_check_for_rule_match: (byte & (1 << (r % 8))) >> (r % 8) *)
  Lemma byte_bit : forall b0 b1 b2 b3 b4 b5 b6 b7 k, (k < 8)%nat ->
    Z.shiftr (Z.land (b2z b0 * 2 ^ 0 + (b2z b1 * 2 ^ 1 + (b2z b2 * 2 ^ 2 + (b2z b3 * 2 ^ 3 + (b2z b4 * 2 ^ 4 +
             (b2z b5 * 2 ^ 5 + (b2z b6 * 2 ^ 6 + (b2z b7 * 2 ^ 7 + 0))))))))
                     (2 ^ Z.of_nat k)) (Z.of_nat k mod 32)
    = b2z (nth k [b0; b1; b2; b3; b4; b5; b6; b7] false).
  Proof.
    intros b0 b1 b2 b3 b4 b5 b6 b7 k Hk.
    do 8 (destruct k as [|k]; [destruct b0, b1, b2, b3, b4, b5, b6, b7; reflexivity|]). lia.
  Qed.

  Lemma c_rule : forall sp h F st r,
    computes sp h F (s_stack st)
      [ICall (HRuleBit r); IConst (V32 (2 ^ (Z.of_nat r mod 8))); IBin I32And;
       IConst (V32 (Z.of_nat r mod 8)); IBin I32ShrU]
      (VBool (rules r)) st.
  Proof.
    intros sp h F st r. split; [intros _ | intros E; discriminate].
    assert (B : Z.shiftr (Z.land (rule_byte rules r) (2 ^ (Z.of_nat r mod 8))) ((Z.of_nat r mod 8) mod 32) = b2z (rules r)).
    { unfold rule_byte. cbn [seq fold_right].
      replace (Z.of_nat r mod 8) with (Z.of_nat (r mod 8)) by (rewrite Nat2Z.inj_mod; reflexivity).
      assert (Hk : (r mod 8 < 8)%nat) by (apply Nat.mod_upper_bound; lia).
      change (Z.of_nat 0) with 0. change (Z.of_nat 1) with 1. change (Z.of_nat 2) with 2. change (Z.of_nat 3) with 3.
      change (Z.of_nat 4) with 4. change (Z.of_nat 5) with 5. change (Z.of_nat 6) with 6. change (Z.of_nat 7) with 7.
      rewrite (byte_bit _ _ _ _ _ _ _ _ (r mod 8) Hk).
      f_equal.
      assert (E : r = (8 * (r / 8) + r mod 8)%nat) by (apply Nat.div_mod; lia).
      remember (r mod 8)%nat as k. remember (8 * (r / 8))%nat as base.
      rewrite E. clear E Heqk Heqbase.
      do 8 (destruct k as [|k]; [cbn [nth]; reflexivity|]). lia. }
    pure_code ltac:(cbn [app];
      (eapply (step_call host (HRuleBit r) _ _ [] [V32 (rule_byte rules r)]); [reflexivity | reflexivity | reflexivity |]);
      apply step_const; (eapply step_bin; [reflexivity | reflexivity |]);
      apply step_const; (eapply step_bin; [reflexivity | reflexivity |]);
      cbn [set_stack s_stack app]; rewrite B).
  Qed.

  (* strict operators on integers *)
  Definition on_ints2 (f : Z -> Z -> value) (va vb : value) : value :=
    match va, vb with VInt x, VInt y => f x y | _, _ => VUndef end.
  Definition on_int1 (f : Z -> value) (va : value) : value :=
    match va with VInt x => f x | _ => VUndef end.

  Lemma c_int2 : forall sp h F base basea st ca cb tail va vb f,
    types_as TInt va -> types_as TInt vb ->
    computes sp h F basea ca va st ->
    (forall st', keeps sp st st' -> s_stack st' = val_of va :: basea ->
       computes sp h F (val_of va :: basea) cb vb st') ->
    (forall x y st'', keeps sp st st'' -> s_stack st'' = V64 y :: V64 x :: basea ->
       computes sp h F base tail (f x y) st'') ->
    computes sp h F base (ca ++ cb ++ tail) (on_ints2 f va vb) st.
  Proof.
    intros sp h F base basea st ca cb tail va vb f Ta Tb Ha Hb Ht.
    eapply c_strict2; [exact Ha | intros _; exact Hb | |].
    - intros [-> | ->]; [reflexivity | destruct va; reflexivity].
    - intros Na Nb st'' K S.
      destruct (int_or_undef va Ta) as [-> | [x ->]]; [contradiction|].
      destruct (int_or_undef vb Tb) as [-> | [y ->]]; [contradiction|].
      cbn [on_ints2]. apply Ht; assumption.
  Qed.

  Lemma c_int1 : forall sp h F base basea st ca tail va f,
    types_as TInt va ->
    computes sp h F basea ca va st ->
    (forall x st'', keeps sp st st'' -> s_stack st'' = V64 x :: basea ->
       computes sp h F base tail (f x) st'') ->
    computes sp h F base (ca ++ tail) (on_int1 f va) st.
  Proof.
    intros sp h F base basea st ca tail va f Ta Ha Ht.
    eapply computes_bind; [exact Ha | intros ->; reflexivity |].
    intros Na st' K S. destruct (int_or_undef va Ta) as [-> | [x ->]]; [contradiction|].
    cbn [on_int1]. apply Ht; assumption.
  Qed.

  Lemma v_arith_ints : forall op va vb, types_as TInt va -> types_as TInt vb ->
    v_arith op va vb = on_ints2 (arith_int op) va vb.
  Proof.
    intros op va vb Ta Tb.
    destruct (int_or_undef va Ta) as [-> | [x ->]]; destruct (int_or_undef vb Tb) as [-> | [y ->]]; reflexivity.
  Qed.
  Lemma v_cmp_ints : forall op va vb, types_as TInt va -> types_as TInt vb ->
    v_cmp op va vb = on_ints2 (fun x y => VBool (cmp_int op x y)) va vb.
  Proof.
    intros op va vb Ta Tb.
    destruct (int_or_undef va Ta) as [-> | [x ->]]; destruct (int_or_undef vb Tb) as [-> | [y ->]]; reflexivity.
  Qed.
  Lemma arith_int_types : forall op x y, types_as TInt (arith_int op x y).
  Proof.
    intros op x y. destruct op; cbn; try reflexivity;
      try (destruct (y =? 0); reflexivity); destruct (64 <=? y); reflexivity.
  Qed.
  Lemma on_ints2_types : forall f va vb t, (forall x y, types_as t (f x y)) -> types_as t (on_ints2 f va vb).
  Proof. intros f va vb t H. destruct va; try exact I. destruct vb; try exact I. apply H. Qed.
  Lemma on_int1_types : forall f va t, (forall x, types_as t (f x)) -> types_as t (on_int1 f va).
  Proof. intros f va t H. destruct va; try exact I. apply H. Qed.

  Lemma cmp_bin : forall op x y,
    eval_bin (cmp_op op) (V64 x) (V64 y) = Some (Some (V32 (b2z (cmp_int op x y)))).
  Proof. intros op x y. destruct op; reflexivity. Qed.

  (* the prefix of every pattern operation: the search check, then the pattern id *)
  Lemma c_pat_prefix : forall sp h F base i c v st,
    (forall st1, keeps sp st st1 -> s_done st1 = true -> s_stack st1 = V32 (Z.of_nat i) :: s_stack st ->
       computes sp h F base c v st1) ->
    computes sp h F base (search_check ++ [IConst (V32 (Z.of_nat i))] ++ c) v st.
  Proof.
    intros sp h F base i c v st H.
    destruct (search_ok sp st) as [st' [K [S [D C]]]].
    eapply computes_after; [exact K | exact C |].
    eapply (computes_after sp h F base [IConst (V32 (Z.of_nat i))] c v st' (set_stack st' (V32 (Z.of_nat i) :: s_stack st'))).
    - apply keeps_stack.
    - intros rest o Hr. cbn [app]. apply step_const. exact Hr.
    - apply H.
      + eapply keeps_trans; [exact K | apply keeps_stack].
      + exact D.
      + cbn [set_stack s_stack]. rewrite S. reflexivity.
  Qed.

  Lemma read_int_shape : forall k d l o, types_as TInt (read_int k d l o).
  Proof. intros [n sg be] d l o. unfold read_int. destruct (read_bytes d l o n); reflexivity. Qed.
  Lemma v_offset_shape : forall m i, types_as TInt (v_offset m i).
  Proof. intros m [z|b|s|]; cbn; try exact I. destruct (nth_match m z) as [[o l]|]; reflexivity. Qed.
  Lemma v_length_shape : forall m i, types_as TInt (v_length m i).
  Proof. intros m [z|b|s|]; cbn; try exact I. destruct (nth_match m z) as [[o l]|]; reflexivity. Qed.

  (* a host function that answers (value, is_undef) for an integer-or-undefined value *)
  Lemma c_call_undef_int : forall sp h F base st f args v,
    hspec host (h_code h) F ->
    s_stack st = rev args ++ base -> length args = host_arity f -> not_search f ->
    types_as TInt v ->
    host f (s_done st) args = with_undef v false ->
    computes sp h F base (call_handle_undef f h) v st.
  Proof.
    intros sp h F base st f args v HF Hs Hl Hn Tv Hh.
    destruct (int_or_undef v Tv) as [-> | [z ->]].
    - eapply (c_call_undef sp h F base st f args 1 (V64 0)); try eassumption.
      + intros N; contradiction.
      + reflexivity.
    - eapply (c_call_undef sp h F base st f args 0 (V64 z)); try eassumption.
      + intros _. split; reflexivity.
      + intros E; discriminate.
  Qed.

  (* ------------------------------------------------------------ main theorem *)
  Definition Ok (e : expr) : Prop :=
    forall g sp h F vars st t,
      tyof g sp e = Some t -> R g sp (env_of vars) st -> hspec host (h_code h) F ->
      types_as t (eval (env_of vars) e) /\
      computes sp h F (s_stack st) (emit g sp h e) (eval (env_of vars) e) st.

  Lemma R_filesize : forall g sp vars st, R g sp (env_of vars) st -> s_filesize st = Z.of_nat (length data).
  Proof. intros g sp vars st [H _]. exact H. Qed.
  Lemma R_sp : forall g sp vars st, R g sp (env_of vars) st -> (sp <= Z.to_nat MAX_VARS)%nat.
  Proof. intros g sp vars st [_ [H _]]. exact H. Qed.

  Lemma R_more_slots : forall g sp vars st, R g sp (env_of vars) st -> (S sp <= Z.to_nat MAX_VARS)%nat ->
    R g (S sp) (env_of vars) st.
  Proof.
    intros g sp vars st [Hf [Hs [Hw Hv]]] Hb. repeat split; auto.
    - destruct (Hv x slot t H). lia.
    - destruct (Hv x slot t H). assumption.
  Qed.

  Lemma R_bind : forall g sp vars st st' x t v,
    R g sp (env_of vars) st -> keeps sp st st' -> (S sp <= Z.to_nat MAX_VARS)%nat ->
    var_ok st' sp t v ->
    R ((x, (sp, t)) :: g) (S sp) (env_of ((x, v) :: vars)) st'.
  Proof.
    intros g sp vars st st' x t v HR K Hb OK.
    pose proof (R_keeps _ _ _ _ _ HR K) as [Hf [Hs [Hw Hv]]].
    repeat split; auto.
    - cbn [clookup] in H. destruct (Nat.eqb x0 x); [injection H as <- <-; lia | destruct (Hv x0 slot t0 H); lia].
    - cbn [clookup] in H. cbn [env_of e_vars lookup]. destruct (Nat.eqb x0 x).
      + injection H as <- <-. exact OK.
      + destruct (Hv x0 slot t0 H). assumption.
  Qed.

  (* ---- n-ary `and` / `or`: the operands of the left-nested chain *)
  Fixpoint esize (e : expr) : nat :=
    match e with
    | EBool _ | EInt _ | EStr _ | EFilesize | EVar _ | EGlobal _ | ERule _ => 1
    | ENot a | EDefined a | ENeg a | EBitNot a | ERead _ a | EOffset _ a | ELength _ a => S (esize a)
    | EAnd a b | EOr a b | EArith _ a b | ECmp _ a b | EStrOp _ a b | EPat _ _ a b | ECount _ _ a b | EWith _ a b =>
        S (esize a + esize b)
    | EOf _ q _ _ a b => S (esize q + esize a + esize b)
    | EOfB _ q items => S (esize q + esizes items)
    | EForOf _ q _ body => S (esize q + esize body)
    | EForRange _ q _ lo hi body => S (esize q + esize lo + esize hi + esize body)
    | EForTuple _ q _ items body => S (esize q + esizes items + esize body)
    end
  with esizes (es : exprs) : nat :=
    match es with ENil => 0 | ECons e t => S (esize e + esizes t) end.

  (* what a chain has established so far, next to its code: for `and`,
     VUndef = left the block with false; for `or`, VUndef = left with true *)
  Definition andv (u w : value) : value := match u with VBool true => w | _ => VUndef end.
  Definition orv (u w : value) : value := match u with VBool false => w | _ => VUndef end.
  Definition joinv (f : value -> value -> value) (a b : option value) : option value :=
    match a, b with
    | None, o => o
    | Some u, None => Some u
    | Some u, Some w => Some (f u w)
    end.
  Definition opv_and (en : env) (y : expr) : option value :=
    match bconst y with Some true => None | _ => Some (eval en y) end.
  Fixpoint and_val (en : env) (x : expr) : option value :=
    match x with
    | EAnd x1 x2 => joinv andv (and_val en x1) (opv_and en x2)
    | _ => opv_and en x
    end.
  Definition opv_or (en : env) (y : expr) : option value :=
    match bconst y with Some false => None | _ => Some (or_false (eval en y)) end.
  Fixpoint or_val (en : env) (x : expr) : option value :=
    match x with
    | EOr x1 x2 => joinv orv (or_val en x1) (opv_or en x2)
    | _ => opv_or en x
    end.

  Definition chain_ok (T : value -> bool) (sp : nat) (h : handler) (F : state -> state) (st : state)
                      (oc : option (list instr)) (ov : option value) (target dflt : bool) : Prop :=
    match oc, ov with
    | Some c, Some v => types_as TBool v /\ computes sp h F [] c v st /\ T v = target
    | None, None => target = dflt
    | _, _ => False
    end.
  Definition AndChain (x : expr) : Prop :=
    forall cg sp vars st, tyof cg sp x = Some TBool -> R cg sp (env_of vars) st -> s_stack st = [] ->
      chain_ok truthy sp h0 F0 st (and_chain cg sp h0 x) (and_val (env_of vars) x)
               (truthy (eval (env_of vars) x)) true.
  Definition OrChain (x : expr) : Prop :=
    forall cg sp vars st, tyof cg sp x = Some TBool -> R cg sp (env_of vars) st -> s_stack st = [] ->
      chain_ok rawt sp h1 F1 st (or_chain cg sp x) (or_val (env_of vars) x)
               (truthy (eval (env_of vars) x)) false.

  Lemma emit_bool_bool : forall cg sp h x, tyof cg sp x = Some TBool -> emit_bool cg sp h x = emit cg sp h x.
  Proof. intros cg sp h x H. unfold emit_bool. rewrite H. apply app_nil_r. Qed.

  (* one operand *)
  Lemma and_opnd_ok : forall x cg sp vars st, Ok x ->
    tyof cg sp x = Some TBool -> R cg sp (env_of vars) st -> s_stack st = [] ->
    chain_ok truthy sp h0 F0 st (and_opnd cg sp h0 x) (opv_and (env_of vars) x) (truthy (eval (env_of vars) x)) true.
  Proof.
    intros x cg sp vars st OkX Ht HR Hs. unfold and_opnd, opv_and.
    assert (K : chain_ok truthy sp h0 F0 st (Some (emit_bool cg sp h0 x)) (Some (eval (env_of vars) x))
                         (truthy (eval (env_of vars) x)) true).
    { destruct (OkX cg sp h0 F0 vars st TBool Ht HR hspec_h0) as [Tv Hc]. rewrite Hs in Hc.
      cbn [chain_ok]. rewrite (emit_bool_bool _ _ _ _ Ht). auto. }
    destruct (bconst x) as [[|]|] eqn:B; try exact K.
    cbn [chain_ok]. rewrite (bconst_sound _ _ B). reflexivity.
  Qed.
  Lemma or_opnd_ok : forall x cg sp vars st, Ok x ->
    tyof cg sp x = Some TBool -> R cg sp (env_of vars) st -> s_stack st = [] ->
    chain_ok rawt sp h1 F1 st (or_opnd cg sp x) (opv_or (env_of vars) x) (truthy (eval (env_of vars) x)) false.
  Proof.
    intros x cg sp vars st OkX Ht HR Hs. unfold or_opnd, opv_or.
    assert (K : chain_ok rawt sp h1 F1 st
                  (Some (catch_undef 1 (fun h' => emit_bool cg sp h' x) [IConst (V32 0)]))
                  (Some (or_false (eval (env_of vars) x))) (truthy (eval (env_of vars) x)) false).
    { assert (HR0 : R cg sp (env_of vars) (set_stack st [])) by (eapply R_keeps; [exact HR | apply keeps_stack]).
      destruct (OkX cg sp h0 F0 vars (set_stack st []) TBool Ht HR0 hspec_h0) as [Tv Hc].
      cbn [chain_ok]. unfold catch_undef. fold h0. rewrite (emit_bool_bool _ _ _ _ Ht).
      pose proof (c_block_catch sp h1 F1 st _ _ Hc) as Blk. rewrite Hs in Blk.
      rewrite (or_false_bool _ Tv). split; [reflexivity|]. split; [rewrite <- (or_false_bool _ Tv); exact Blk|].
      destruct (truthy (eval (env_of vars) x)); reflexivity. }
    destruct (bconst x) as [[|]|] eqn:B; try exact K.
    cbn [chain_ok]. rewrite (bconst_sound _ _ B). reflexivity.
  Qed.

  Lemma and_chain_leaf : forall x, (forall a b, x <> EAnd a b) -> Ok x -> AndChain x.
  Proof.
    intros x Hn OkX cg sp vars st Ht HR Hs.
    replace (and_chain cg sp h0 x) with (and_opnd cg sp h0 x)
      by (destruct x; try reflexivity; exfalso; eapply Hn; reflexivity).
    replace (and_val (env_of vars) x) with (opv_and (env_of vars) x)
      by (destruct x; try reflexivity; exfalso; eapply Hn; reflexivity).
    apply and_opnd_ok; assumption.
  Qed.
  Lemma or_chain_leaf : forall x, (forall a b, x <> EOr a b) -> Ok x -> OrChain x.
  Proof.
    intros x Hn OkX cg sp vars st Ht HR Hs.
    replace (or_chain cg sp x) with (or_opnd cg sp x)
      by (destruct x; try reflexivity; exfalso; eapply Hn; reflexivity).
    replace (or_val (env_of vars) x) with (opv_or (env_of vars) x)
      by (destruct x; try reflexivity; exfalso; eapply Hn; reflexivity).
    apply or_opnd_ok; assumption.
  Qed.

  Lemma truthy_vbool : forall b, truthy (VBool b) = b.
  Proof. intros [|]; reflexivity. Qed.
  Lemma truthy_andv : forall u w, types_as TBool u -> truthy (andv u w) = truthy u && truthy w.
  Proof. intros u w T. destruct (bool_or_undef _ T) as [-> | [[|] ->]]; reflexivity. Qed.
  Lemma rawt_orv : forall u w, types_as TBool u -> rawt (orv u w) = rawt u || rawt w.
  Proof. intros u w T. destruct (bool_or_undef _ T) as [-> | [[|] ->]]; reflexivity. Qed.

  (* one more operand *)
  Lemma and_chain_step : forall x1 x2, AndChain x1 -> Ok x2 -> AndChain (EAnd x1 x2).
  Proof.
    intros x1 x2 C1 Ok2 cg sp vars st Ht HR Hs. cbn [tyof] in Ht.
    destruct (tyof cg sp x1) as [[|]|] eqn:Ta; try discriminate.
    destruct (tyof cg sp x2) as [[|]|] eqn:Tb; try discriminate.
    specialize (C1 cg sp vars st Ta HR Hs). cbn [and_chain and_val eval]. rewrite truthy_vbool.
    pose proof (fun st' HR' S => and_opnd_ok x2 cg sp vars st' Ok2 Tb HR' S) as O2.
    unfold and_opnd, opv_and in *.
    destruct (and_chain cg sp h0 x1) as [c1|]; destruct (and_val (env_of vars) x1) as [v1|]; cbn [chain_ok] in C1; try contradiction.
    - destruct C1 as [T1 [H1 E1]].
      destruct (bconst x2) as [[|]|] eqn:B2; cbn [join_and joinv chain_ok].
      + (* dropped *) split; [exact T1|]. split; [exact H1|]. rewrite E1, (bconst_sound _ _ B2). cbn [truthy]. apply eq_sym, andb_true_r.
      + destruct (O2 st HR Hs) as [T2 [_ E2]].
        split; [destruct (bool_or_undef _ T1) as [-> | [[|] ->]]; try exact I; try exact T2|].
        split.
        * apply (c_and_body sp st c1 _ v1 _ H1 Hs T1).
          intros st' K S. assert (HR' : R cg sp (env_of vars) st') by (eapply R_keeps; eassumption).
          destruct (O2 st' HR' S) as [_ [H2 _]]. exact H2.
        * rewrite (truthy_andv _ _ T1), E1. reflexivity.
      + destruct (O2 st HR Hs) as [T2 [_ E2]].
        split; [destruct (bool_or_undef _ T1) as [-> | [[|] ->]]; try exact I; try exact T2|].
        split.
        * apply (c_and_body sp st c1 _ v1 _ H1 Hs T1).
          intros st' K S. assert (HR' : R cg sp (env_of vars) st') by (eapply R_keeps; eassumption).
          destruct (O2 st' HR' S) as [_ [H2 _]]. exact H2.
        * rewrite (truthy_andv _ _ T1), E1. reflexivity.
    - (* nothing so far: all operands before were known to be true *)
      rewrite C1. cbn [andb].
      destruct (bconst x2) as [[|]|] eqn:B2; cbn [join_and joinv chain_ok]; exact (O2 st HR Hs).
  Qed.
  Lemma or_chain_step : forall x1 x2, OrChain x1 -> Ok x2 -> OrChain (EOr x1 x2).
  Proof.
    intros x1 x2 C1 Ok2 cg sp vars st Ht HR Hs. cbn [tyof] in Ht.
    destruct (tyof cg sp x1) as [[|]|] eqn:Ta; try discriminate.
    destruct (tyof cg sp x2) as [[|]|] eqn:Tb; try discriminate.
    specialize (C1 cg sp vars st Ta HR Hs). cbn [or_chain or_val eval]. rewrite truthy_vbool.
    pose proof (fun st' HR' S => or_opnd_ok x2 cg sp vars st' Ok2 Tb HR' S) as O2.
    unfold or_opnd, opv_or in *.
    destruct (or_chain cg sp x1) as [c1|]; destruct (or_val (env_of vars) x1) as [v1|]; cbn [chain_ok] in C1; try contradiction.
    - destruct C1 as [T1 [H1 E1]].
      destruct (bconst x2) as [[|]|] eqn:B2; cbn [join_or joinv chain_ok].
      + destruct (O2 st HR Hs) as [T2 [_ E2]].
        split; [destruct (bool_or_undef _ T1) as [-> | [[|] ->]]; try exact I; try exact T2|].
        split.
        * apply (c_or_body sp st c1 _ v1 _ H1 Hs T1).
          intros st' K S. assert (HR' : R cg sp (env_of vars) st') by (eapply R_keeps; eassumption).
          destruct (O2 st' HR' S) as [_ [H2 _]]. exact H2.
        * rewrite (rawt_orv _ _ T1), E1, E2. reflexivity.
      + (* dropped *) split; [exact T1|]. split; [exact H1|]. rewrite E1, (bconst_sound _ _ B2). cbn [truthy]. apply eq_sym, orb_false_r.
      + destruct (O2 st HR Hs) as [T2 [_ E2]].
        split; [destruct (bool_or_undef _ T1) as [-> | [[|] ->]]; try exact I; try exact T2|].
        split.
        * apply (c_or_body sp st c1 _ v1 _ H1 Hs T1).
          intros st' K S. assert (HR' : R cg sp (env_of vars) st') by (eapply R_keeps; eassumption).
          destruct (O2 st' HR' S) as [_ [H2 _]]. exact H2.
        * rewrite (rawt_orv _ _ T1), E1, E2. reflexivity.
    - rewrite C1. cbn [orb].
      destruct (bconst x2) as [[|]|] eqn:B2; cbn [join_or joinv chain_ok]; exact (O2 st HR Hs).
  Qed.

  (* the whole chain, given the theorem for every smaller expression *)
  Lemma and_chain_ok : forall x, (forall y, (esize y <= esize x)%nat -> frag1 y = true -> Ok y) ->
    frag1 x = true -> AndChain x.
  Proof.
    induction x; intros IH Fr;
      try (apply and_chain_leaf; [intros ? ? E; discriminate E | apply IH; [apply le_n | exact Fr]]).
    cbn [frag1] in Fr. apply andb_true_iff in Fr. destruct Fr as [Fr1 Fr2].
    apply and_chain_step.
    - apply IHx1; [|exact Fr1]. intros y Hy. apply IH. cbn [esize]. lia.
    - apply IH; [cbn [esize]; lia | exact Fr2].
  Qed.
  Lemma or_chain_ok : forall x, (forall y, (esize y <= esize x)%nat -> frag1 y = true -> Ok y) ->
    frag1 x = true -> OrChain x.
  Proof.
    induction x; intros IH Fr;
      try (apply or_chain_leaf; [intros ? ? E; discriminate E | apply IH; [apply le_n | exact Fr]]).
    cbn [frag1] in Fr. apply andb_true_iff in Fr. destruct Fr as [Fr1 Fr2].
    apply or_chain_step.
    - apply IHx1; [|exact Fr1]. intros y Hy. apply IH. cbn [esize]. lia.
    - apply IH; [cbn [esize]; lia | exact Fr2].
  Qed.

  (* ---- `of` over a pattern set without anchor: emit_of_pattern_set's fast paths *)
  Definition pats_of (l : list nat) : list mlist := map pm l.

  (* the call for one run of consecutive ids, under a finished search *)
  Lemma c_range_const : forall sp h F st r req,
    s_done st = true -> (fst r <= snd r)%nat ->
    computes sp h F (s_stack st) (range_call r [IConst (V64 req)])
             (VBool (pat_range_match req (pats_of (run_ids r)))) st.
  Proof.
    intros sp h F st [f l] req D Hle. cbn [fst snd] in *. unfold range_call. cbn [fst snd app].
    change [IConst (V32 (Z.of_nat f)); IConst (V32 (Z.of_nat l)); IConst (V64 req); ICall HRangeMatch]
      with ([IConst (V32 (Z.of_nat f)); IConst (V32 (Z.of_nat l)); IConst (V64 req)] ++ [ICall HRangeMatch]).
    eapply (computes_after sp h F (s_stack st) _ _ _ st
              (set_stack st (V64 req :: V32 (Z.of_nat l) :: V32 (Z.of_nat f) :: s_stack st))).
    - apply keeps_stack.
    - intros rest o Hr. cbn [app]. do 3 apply step_const. exact Hr.
    - eapply (c_call_pure sp h F (s_stack st) _ HRangeMatch [V32 (Z.of_nat f); V32 (Z.of_nat l); V64 req]).
      + reflexivity.
      + reflexivity.
      + exact I.
      + cbn [host_spec set_stack s_done]. rewrite D, !Nat2Z.id. reflexivity.
      + discriminate.
      + unfold pats_of, run_ids. cbn [fst snd val_of]. rewrite Nat.add_1_r. reflexivity.
  Qed.
  Lemma c_check_one : forall sp h F st i,
    s_done st = true ->
    computes sp h F (s_stack st) [IConst (V32 (Z.of_nat i)); ICall HCheckMatch] (VBool (matched (pm i))) st.
  Proof.
    intros sp h F st i D.
    change [IConst (V32 (Z.of_nat i)); ICall HCheckMatch] with ([IConst (V32 (Z.of_nat i))] ++ [ICall HCheckMatch]).
    eapply (computes_after sp h F (s_stack st) _ _ _ st (set_stack st (V32 (Z.of_nat i) :: s_stack st))).
    - apply keeps_stack.
    - intros rest o Hr. cbn [app]. apply step_const. exact Hr.
    - eapply (c_call_pure sp h F (s_stack st) _ HCheckMatch [V32 (Z.of_nat i)]).
      + reflexivity.
      + reflexivity.
      + exact I.
      + cbn [host_spec set_stack s_done]. rewrite D, Nat2Z.id. reflexivity.
      + discriminate.
      + reflexivity.
  Qed.

  (* what one run contributes to `any of` / `all of` *)
  Definition run_val (all : bool) (r : nat * nat) : bool :=
    if all then forallb matched (pats_of (run_ids r)) else existsb matched (pats_of (run_ids r)).
  Definition run_code (all : bool) (r : nat * nat) : list instr :=
    if Nat.eqb (fst r) (snd r) then [IConst (V32 (Z.of_nat (fst r))); ICall HCheckMatch]
    else range_call r [IConst (V64 (if all then Z.of_nat (snd r) - Z.of_nat (fst r) + 1 else 1))].
  Lemma run_code_ok : forall sp h F st all r,
    s_done st = true -> (fst r <= snd r)%nat ->
    computes sp h F (s_stack st) (run_code all r) (VBool (run_val all r)) st.
  Proof.
    intros sp h F st all [f l] D Hle. cbn [fst snd] in Hle. unfold run_code, run_val. cbn [fst snd].
    destruct (Nat.eqb f l) eqn:E.
    - apply Nat.eqb_eq in E. subst l. unfold pats_of, run_ids. cbn [fst snd]. rewrite Nat.sub_diag. cbn [seq map forallb existsb].
      replace (if all then matched (pm f) && true else matched (pm f) || false) with (matched (pm f))
        by (destruct all; [rewrite andb_true_r | rewrite orb_false_r]; reflexivity).
      apply c_check_one. exact D.
    - apply Nat.eqb_neq in E.
      pose proof (c_range_const sp h F st (f, l) (if all then Z.of_nat l - Z.of_nat f + 1 else 1) D Hle) as C.
      cbn [fst snd] in C. destruct all.
      + replace (Z.of_nat l - Z.of_nat f + 1)%Z with (Z.of_nat (length (pats_of (run_ids (f, l))))) in C |- *.
        * rewrite range_all in C; [exact C|].
          unfold pats_of, run_ids. cbn [fst snd seq map]. discriminate.
        * unfold pats_of, run_ids. cbn [fst snd]. rewrite map_length, seq_length. lia.
      + rewrite range_any in C. exact C.
  Qed.

  (* the runs after one another, with the early exit between them *)
  Fixpoint any_val (rs : list (nat * nat)) : value :=
    match rs with
    | [] => VBool false
    | [r] => VBool (run_val false r)
    | r :: t => orv (VBool (run_val false r)) (any_val t)
    end.
  Fixpoint all_val (rs : list (nat * nat)) : value :=
    match rs with
    | [] => VBool true
    | [r] => VBool (run_val true r)
    | r :: t => andv (VBool (run_val true r)) (all_val t)
    end.
  Lemma of_runs_unfold : forall all r t,
    of_runs all (r :: t) = run_code all r ++ match t with [] => [] | _ => (if all then and_exit else or_exit) ++ of_runs all t end.
  Proof. intros all r t. destruct all; reflexivity. Qed.

  Lemma any_val_types : forall rs, types_as TBool (any_val rs).
  Proof.
    induction rs as [|r t IH]; [reflexivity|]. destruct t as [|r2 t2]; [reflexivity|].
    change (any_val (r :: r2 :: t2)) with (orv (VBool (run_val false r)) (any_val (r2 :: t2))).
    destruct (run_val false r); [exact I | exact IH].
  Qed.
  Lemma all_val_types : forall rs, types_as TBool (all_val rs).
  Proof.
    induction rs as [|r t IH]; [reflexivity|]. destruct t as [|r2 t2]; [reflexivity|].
    change (all_val (r :: r2 :: t2)) with (andv (VBool (run_val true r)) (all_val (r2 :: t2))).
    destruct (run_val true r); [exact IH | exact I].
  Qed.
  Lemma any_val_raw : forall rs, rs <> [] -> rawt (any_val rs) = existsb matched (pats_of (runs_ids rs)).
  Proof.
    induction rs as [|r t IH]; [intros H; contradiction|]. intros _.
    unfold runs_ids, pats_of in *. cbn [flat_map]. rewrite map_app, existsb_app.
    destruct t as [|r2 t2].
    - cbn [any_val flat_map map existsb rawt]. rewrite orb_false_r, truthy_vbool. reflexivity.
    - change (any_val (r :: r2 :: t2)) with (orv (VBool (run_val false r)) (any_val (r2 :: t2))).
      rewrite (rawt_orv (VBool (run_val false r)) _ eq_refl), IH by discriminate. cbn [rawt]. rewrite truthy_vbool. reflexivity.
  Qed.
  Lemma all_val_raw : forall rs, rs <> [] -> truthy (all_val rs) = forallb matched (pats_of (runs_ids rs)).
  Proof.
    induction rs as [|r t IH]; [intros H; contradiction|]. intros _.
    unfold runs_ids, pats_of in *. cbn [flat_map]. rewrite map_app, forallb_app.
    destruct t as [|r2 t2].
    - cbn [all_val flat_map map forallb]. rewrite andb_true_r, truthy_vbool. reflexivity.
    - change (all_val (r :: r2 :: t2)) with (andv (VBool (run_val true r)) (all_val (r2 :: t2))).
      rewrite (truthy_andv (VBool (run_val true r)) _ eq_refl), IH by discriminate. rewrite truthy_vbool. reflexivity.
  Qed.

  Lemma any_runs_ok : forall sp rs st, rs <> [] -> Forall (fun r => (fst r <= snd r)%nat) rs ->
    s_done st = true -> s_stack st = [] ->
    computes sp h1 F1 [] (of_runs false rs) (any_val rs) st.
  Proof.
    intros sp. induction rs as [|r t IH]; [intros st H; contradiction|]. intros st _ Hle D S.
    inversion Hle as [|? ? Hr Ht]; subst. rewrite of_runs_unfold.
    pose proof (run_code_ok sp h1 F1 st false r D Hr) as C. rewrite S in C.
    destruct t as [|r2 t2]; [rewrite app_nil_r; exact C|].
    change (any_val (r :: r2 :: t2)) with (orv (VBool (run_val false r)) (any_val (r2 :: t2))).
    apply (c_or_body sp st _ _ (VBool (run_val false r)) (any_val (r2 :: t2)) C S eq_refl).
    intros st' K S'. apply IH; [discriminate | exact Ht | destruct K as [_ [_ [Dn _]]]; exact (Dn D) | exact S'].
  Qed.
  Lemma all_runs_ok : forall sp rs st, rs <> [] -> Forall (fun r => (fst r <= snd r)%nat) rs ->
    s_done st = true -> s_stack st = [] ->
    computes sp h0 F0 [] (of_runs true rs) (all_val rs) st.
  Proof.
    intros sp. induction rs as [|r t IH]; [intros st H; contradiction|]. intros st _ Hle D S.
    inversion Hle as [|? ? Hr Ht]; subst. rewrite of_runs_unfold.
    pose proof (run_code_ok sp h0 F0 st true r D Hr) as C. rewrite S in C.
    destruct t as [|r2 t2]; [rewrite app_nil_r; exact C|].
    change (all_val (r :: r2 :: t2)) with (andv (VBool (run_val true r)) (all_val (r2 :: t2))).
    apply (c_and_body sp st _ _ (VBool (run_val true r)) (all_val (r2 :: t2)) C S eq_refl).
    intros st' K S'. apply IH; [discriminate | exact Ht | destruct K as [_ [_ [Dn _]]]; exact (Dn D) | exact S'].
  Qed.

  Lemma runs_nonempty : forall set, set <> [] -> runs set <> [].
  Proof.
    intros set H E. pose proof (runs_perm set) as P. rewrite E in P. cbn in P.
    apply Permutation_sym, Permutation_nil in P. contradiction.
  Qed.
  Lemma of_items_none : forall en0 (set : list nat) v1 v2,
    map (fun i => pat_item (e_pm en0 i) ANone v1 v2) set = map (fun m => VBool (matched m)) (map (e_pm en0) set).
  Proof. intros. rewrite map_map. reflexivity. Qed.
  Lemma existsb_truthy_matched : forall ms, existsb truthy (map (fun m => VBool (matched m)) ms) = existsb matched ms.
  Proof. induction ms as [|m t IH]; [reflexivity|]. cbn [map existsb]. rewrite IH, truthy_vbool. reflexivity. Qed.
  Lemma forallb_truthy_matched : forall ms, forallb truthy (map (fun m => VBool (matched m)) ms) = forallb matched ms.
  Proof. induction ms as [|m t IH]; [reflexivity|]. cbn [map forallb]. rewrite IH, truthy_vbool. reflexivity. Qed.

  (* ================================================================ for..in *)
  (* wp-style steps: to run the code and then [rest] it suffices to run [rest]
     from the state the code leaves *)
  Lemma set_stack_same : forall st, set_stack st (s_stack st) = st.
  Proof. intros []. reflexivity. Qed.

  Lemma load_run : forall slot z hh rest st o,
    flags_wf st -> (slot < MAXV)%nat -> var_ok st slot TInt (VInt z) ->
    bs rest (set_stack st (V64 z :: s_stack st)) o -> bs (load_var slot TInt hh ++ rest) st o.
  Proof.
    intros slot z hh rest st o W M [_ [Fl Wd]] H.
    apply (load_var_defined host slot TInt hh rest st o W M Fl). rewrite Wd. exact H.
  Qed.

  Lemma set_var_run : forall slot code rest st st1 z o,
    (forall r o', bs r st1 o' -> bs (code ++ r) (set_stack st (V32 (slot_addr slot) :: s_stack st)) o') ->
    s_stack st1 = V64 z :: V32 (slot_addr slot) :: s_stack st ->
    bs rest (store (set_stack st1 (s_stack st)) slot z) o ->
    bs (set_var slot TInt code ++ rest) st o.
  Proof.
    intros slot code rest st st1 z o Hc S H. unfold set_var. cbn [width_of].
    rewrite <- !app_assoc. cbn [app]. apply step_const. apply Hc.
    apply (set_var_tail_int host slot rest st1 z (s_stack st) o S). exact H.
  Qed.

  Lemma incr_run : forall slot z hh rest st o,
    flags_wf st -> (slot < MAXV)%nat -> var_ok st slot TInt (VInt z) ->
    bs rest (store st slot (w64 (z + 1))) o -> bs (incr_var slot hh ++ rest) st o.
  Proof.
    intros slot z hh rest st o W M OK H. unfold incr_var.
    eapply (set_var_run slot _ rest st
              (set_stack st (V64 (w64 (z + 1)) :: V32 (slot_addr slot) :: s_stack st)) (w64 (z + 1))).
    - intros r o' Hr. rewrite <- app_assoc.
      apply (load_run slot z hh _ (set_stack st (V32 (slot_addr slot) :: s_stack st)) o'); [exact W | exact M | exact OK |].
      cbn [app set_stack s_stack]. apply step_const.
      eapply step_bin; [reflexivity | reflexivity |]. exact Hr.
    - reflexivity.
    - destruct st. exact H.
  Qed.

  (* the code of `for <quantifier> x in (lo..hi) : (body)` by name *)
  Definition incr_rep (sp : nat) (hh : handler) (lbl : nat) : list instr :=
    incr_var (sp + 5) hh ++ incr_var (S sp) hh ++ load_var (S sp) TInt hh ++ load_var sp TInt hh ++ [IBin I64LtS; IBrIf lbl].
  Definition loop_arm (sp : nat) (h : handler) (qk : qkind) : list instr :=
    let h2 := deeper (deeper h) in let h3 := deeper h2 in
    match qk with
    | QNone => [IIf 1%nat [IConst (V32 0); IBr 2%nat] (incr_rep sp h3 1%nat ++ [IConst (V32 1); IBr 2])]
    | QAll => [IIf 1 (incr_rep sp h3 1%nat ++ [IConst (V32 1); IBr 2]) [IConst (V32 0); IBr 2]]
    | QAny => [IIf 1 [IConst (V32 1); IBr 2] (incr_rep sp h3 1%nat ++ [IConst (V32 0); IBr 2])]
    | _ =>
        [IIf 0
           (incr_var (S (S (S sp))) h3 ++ load_var (S (S (S sp))) TInt h3 ++ load_var (S (S sp)) TInt h3 ++
            [IBin EmitFacts.for_expr_reached;
             IIf 0 (load_var (S (S sp)) TInt (deeper h3) ++ [IConst (V64 0); IBin EmitFacts.for_expr_exit_value; IBr 3]) []])
           []]
        ++ incr_rep sp h2 0%nat
        ++ load_var (S (S sp)) TInt h2 ++ [IUn I64Eqz]
    end.
  Definition loop_body (g : cenv) (sp : nat) (h : handler) (qk : qkind) (x : nat) (body : expr) : list instr :=
    catch_undef 1 (fun h' => emit_bool ((x, ((sp + 5)%nat, TInt)) :: g) (sp + FOR_IN_FRAME) h' body) [IConst (V32 0)]
    ++ loop_arm sp h qk.
  Definition loop_init (g : cenv) (sp : nat) (h : handler) (qk : qkind) (q lo hi : expr) : list instr :=
    let h1 := deeper h in
    set_var sp TInt
      (catch_undef 1
         (fun h' => emit g sp h' hi ++ emit g sp h' lo ++ [ILocalTee tmpA; IBin I64Sub; IConst (V64 1); IBin I64Add])
         [IConst (V64 0)])
    ++ load_var sp TInt h1 ++ [IConst (V64 0); IBin I64LeS; IIf 0 [IConst (V32 0); IBr 1] []]
    ++ set_var (sp + 5) TInt [ILocalGet tmpA]
    ++ set_var (S sp) TInt [IConst (V64 0)]
    ++ (match qk with
        | QExpr => set_var (S (S sp)) TInt (emit g sp h1 q) ++ set_var (S (S (S sp))) TInt [IConst (V64 0)]
        | QPct => set_var (S (S sp)) TInt (pct_code sp h1 (emit g sp h1 q)) ++ set_var (S (S (S sp))) TInt [IConst (V64 0)]
        | _ => []
        end).
  Lemma emit_for_eq : forall g sp h qk q x lo hi body,
    emit g sp h (EForRange qk q x lo hi body)
    = [IBlock 1 (loop_init g sp h qk q lo hi ++ [ILoop 1 (loop_body g sp h qk x body)])].
  Proof.
    intros. cbn [emit]. unfold loop_init, loop_body, loop_arm, incr_rep. rewrite <- !app_assoc.
    destruct qk; reflexivity.
  Qed.

  Lemma frame7 : FOR_IN_FRAME = 7%nat.
  Proof. reflexivity. Qed.
  Lemma stack_nil_same : forall st, s_stack st = [] -> set_stack st [] = st.
  Proof. intros [] H. cbn in *. subst. reflexivity. Qed.

  Definition zfrom (k : Z) (n : nat) : list Z := map (fun j => k + Z.of_nat j) (seq 0 n).
  Lemma zfrom_S : forall k n, zfrom k (S n) = k :: zfrom (k + 1) n.
  Proof.
    intros k n. unfold zfrom. cbn [seq map]. rewrite Z.add_0_r. f_equal.
    rewrite <- seq_shift, map_map. apply map_ext. intros j. lia.
  Qed.
  Lemma zseq_zfrom : forall n, zseq n = zfrom 0 (Z.to_nat n).
  Proof. intros n. unfold zseq, zfrom. apply map_ext. intros j. reflexivity. Qed.

  Lemma range_item_next : forall l k, 0 <= k -> w64 (range_item l k + 1) = range_item l (k + 1).
  Proof.
    intros l k Hk. unfold range_item.
    replace (k + 1 =? 0) with false by (symmetry; apply Z.eqb_neq; lia).
    destruct (k =? 0) eqn:E.
    - apply Z.eqb_eq in E. subst k. rewrite w64_wrap64. reflexivity.
    - rewrite <- (w64_wrap64 (l + k)), <- (w64_wrap64 (l + (k + 1))), w64_succ. f_equal. lia.
  Qed.

  (* what one turn of the loop decides: leave with a value, go round again with
     a new count, or (the arm of <expr>) fall out of the loop with a value *)
  Inductive turn := Exit (v : bool) | Again (c : Z) | Fall (v : bool).
  Definition arm_step (qk : qkind) (M c : Z) (b more : bool) : turn :=
    match qk with
    | QNone => if b then Exit false else if more then Again c else Exit true
    | QAll => if b then (if more then Again c else Exit true) else Exit false
    | QAny => if b then Exit true else if more then Again c else Exit false
    | _ =>
        if b && (M <=? c + 1) then Exit (negb (M =? 0))
        else if more then Again (if b then c + 1 else c) else Fall (M =? 0)
    end.
  Lemma loop_q_step : forall qk M c v rest, qk <> QPct ->
    loop_q qk M c false (v :: rest)
    = match arm_step qk M c (truthy v) (match rest with [] => false | _ => true end) with
      | Exit z | Fall z => VBool z
      | Again c' => loop_q qk M c' false rest
      end.
  Proof.
    intros qk M c v rest Hq. cbn [loop_q andb]. unfold arm_step.
    destruct qk; try contradiction; destruct (truthy v); destruct rest; cbn [loop_q andb]; try reflexivity.
    - destruct (M <=? c + 1); reflexivity.
    - destruct (M <=? c + 1); reflexivity.
  Qed.

  Section Loop.
    Variables (cg : cenv) (sp : nat) (vars : list (nat * value)) (x : nat) (body : expr) (qk : qkind) (h : handler).
    Variables (l N M : Z).
    Let g' : cenv := (x, ((sp + 5)%nat, TInt)) :: cg.
    Let sp' : nat := (sp + FOR_IN_FRAME)%nat.
    Hypothesis Hfit : (sp + FOR_IN_FRAME <= MAXV)%nat.
    Hypothesis Tbody : tyof g' sp' body = Some TBool.
    Hypothesis OkBody : Ok body.
    Hypothesis HN : 0 < N < m63.
    Hypothesis Hqk : qk <> QPct.

    Definition fbody (k : Z) : value := eval (env_of ((x, VInt (range_item l k)) :: vars)) body.

    (* the bookkeeping variables of the loop: n, i, the loop variable, and for
       the arm of <expr> max_count and count *)
    Definition Fr (k c : Z) (st : state) : Prop :=
      flags_wf st /\
      var_ok st sp TInt (VInt N) /\ var_ok st (S sp) TInt (VInt k) /\
      var_ok st (sp + 5)%nat TInt (VInt (range_item l k)) /\
      (qk = QExpr -> var_ok st (S (S sp)) TInt (VInt M) /\ var_ok st (S (S (S sp))) TInt (VInt c)).

    Lemma Fr_keeps : forall k c st st', keeps sp' st st' -> Fr k c st -> Fr k c st'.
    Proof.
      intros k c st st' K [W [A [B [C D]]]]. unfold sp' in K. rewrite frame7 in K.
      assert (P : forall s t v, (s < sp + 7)%nat -> var_ok st s t v -> var_ok st' s t v)
        by (intros s t v Hs OK; eapply keeps_var_ok; [exact K | exact Hs | exact OK]).
      split; [eapply keeps_wf; eassumption|].
      split; [apply P; [lia | exact A]|]. split; [apply P; [lia | exact B]|]. split; [apply P; [lia | exact C]|].
      intros E. destruct (D E) as [D1 D2]. split; apply P; try lia; assumption.
    Qed.

    Lemma body_run : forall k c st,
      R cg sp (env_of vars) st -> Fr k c st -> s_stack st = [] ->
      exists st1, keeps sp' st st1 /\ s_stack st1 = [V32 (b2z (truthy (fbody k)))] /\
        forall rest o, bs rest st1 o ->
          bs (catch_undef 1 (fun h' => emit_bool g' sp' h' body) [IConst (V32 0)] ++ rest) st o.
    Proof.
      intros k c st HR [W [A [B [C D]]]] S.
      assert (HRb : R g' sp' (env_of ((x, VInt (range_item l k)) :: vars)) (set_stack st [])).
      { change (env_of ((x, VInt (range_item l k)) :: vars)) with (bind x (VInt (range_item l k)) (env_of vars)).
        unfold g', sp'. rewrite frame7 in *.
        apply (R_bind_at cg sp (sp + 7)%nat (sp + 5)%nat); [eapply R_keeps; [exact HR | apply keeps_stack] | lia | lia | exact Hfit | exact C]. }
      destruct (OkBody g' sp' h0 F0 _ _ TBool Tbody HRb hspec_h0) as [Tv Hc]. cbn [set_stack s_stack] in Hc.
      fold (fbody k) in Tv, Hc.
      pose proof (c_block_catch sp' h0 F0 st _ _ (eq_rect _ (fun c0 => computes sp' h0 F0 [] c0 (fbody k) (set_stack st [])) Hc _ (eq_sym (emit_bool_bool _ _ _ _ Tbody)))) as Blk.
      rewrite (or_false_bool _ Tv) in Blk. destruct Blk as [Dd _].
      destruct (Dd ltac:(discriminate)) as [st1 [K [S1 C1]]].
      exists st1. split; [exact K|]. split; [rewrite S1, S; reflexivity|].
      intros rest o Hr. unfold catch_undef. fold h0. cbn [app]. exact (C1 rest o Hr).
    Qed.
    (* Fr after a write to one of the frame's slots *)
    Lemma Fr_slots : (sp + 7 <= MAXV)%nat.
    Proof. rewrite <- frame7. exact Hfit. Qed.

    (* incr item; incr i; i < n ? repeat : go on *)
    Lemma incr_rep_run : forall hh lbl k c st,
      Fr k c st -> 0 <= k < N ->
      exists st2, keeps sp st st2 /\ Fr (k + 1) c st2 /\ s_stack st2 = s_stack st /\
        (k + 1 < N -> forall rest, bs (incr_rep sp hh lbl ++ rest) st (OBranch lbl st2)) /\
        (N <= k + 1 -> forall rest o, bs rest st2 o -> bs (incr_rep sp hh lbl ++ rest) st o).
    Proof.
      intros hh lbl k c st [W [A [B [C D]]]] Hk. pose proof Fr_slots as FS.
      set (sA := store st (sp + 5)%nat (w64 (range_item l k + 1))).
      set (sB := store sA (S sp) (w64 (k + 1))).
      assert (UA : upd (sp + 5)%nat st sA) by (apply upd_store; lia).
      assert (UB : upd (S sp) sA sB) by (apply upd_store; lia).
      assert (WA : flags_wf sA) by (eapply upd_wf; eassumption).
      assert (WB : flags_wf sB) by (eapply upd_wf; eassumption).
      assert (BA : var_ok sA (S sp) TInt (VInt k)) by (eapply upd_var_ok; [exact UA | lia | lia | exact B]).
      assert (Ek : w64 (k + 1) = k + 1) by (apply w64_small; unfold m63 in *; lia).
      assert (FrB : Fr (k + 1) c sB).
      { split; [exact WB|].
        split; [eapply upd_var_ok; [exact UB | lia | lia |]; eapply upd_var_ok; [exact UA | lia | lia | exact A]|].
        split; [rewrite <- Ek; apply var_ok_store; lia|].
        split; [eapply upd_var_ok; [exact UB | lia | lia |]; rewrite <- range_item_next by lia; apply var_ok_store; lia|].
        intros E. destruct (D E) as [D1 D2].
        split; (eapply upd_var_ok; [exact UB | lia | lia |]; eapply upd_var_ok; [exact UA | lia | lia | assumption]). }
      exists sB. split; [|split; [exact FrB | split; [reflexivity|]]].
      - eapply keeps_trans; [eapply (upd_keeps sp); [exact UA | lia | lia] | eapply (upd_keeps sp); [exact UB | lia | lia]].
      - assert (RUN : forall tail o, bs tail (set_stack sB (V32 (b2z (k + 1 <? N)) :: s_stack st)) o ->
                  bs (incr_var (sp + 5) hh ++ incr_var (S sp) hh ++ load_var (S sp) TInt hh ++ load_var sp TInt hh ++ IBin I64LtS :: tail) st o).
        { intros tail o H.
          apply (incr_run (sp + 5)%nat _ hh _ st o W ltac:(lia) C). fold sA.
          apply (incr_run (S sp) _ hh _ sA o WA ltac:(lia) BA). fold sB.
          destruct FrB as [_ [A' [B' _]]].
          apply (load_run (S sp) _ hh _ sB o WB ltac:(lia) B').
          apply (load_run sp N hh _ _ o); [exact WB | lia | exact A' |].
          cbn [set_stack s_stack]. eapply step_bin; [reflexivity | reflexivity |].
          cbn [set_stack s_stack]. destruct st; exact H. }
        split.
        + intros Hlt rest. unfold incr_rep. rewrite <- !app_assoc. cbn [app]. apply RUN.
          replace (k + 1 <? N) with true by (symmetry; apply Z.ltb_lt; exact Hlt).
          replace sB with (set_stack (set_stack sB (V32 (b2z true) :: s_stack st)) (s_stack st)) at 2 by (destruct st; reflexivity).
          eapply BBrIfYes; [reflexivity | discriminate].
        + intros Hge rest o H. unfold incr_rep. rewrite <- !app_assoc. cbn [app]. apply RUN.
          replace (k + 1 <? N) with false by (symmetry; apply Z.ltb_ge; exact Hge).
          eapply BBrIfNo; [reflexivity | reflexivity |]. destruct st; exact H.
    Qed.

    Lemma b2z_eqb0 : forall b, (b2z b =? 0) = negb b.
    Proof. intros [|]; reflexivity. Qed.

    (* the branch that ends the loop with a constant *)
    Lemma exit_const : forall v st, bs [IConst (V32 v); IBr 2] st (OBranch 2 (set_stack st (V32 v :: s_stack st))).
    Proof. intros v st. apply step_const. apply BBr. Qed.

    (* the branch `incr; repeat or leave with v` of the arms none / all / any *)
    Lemma repeat_or_exit : forall hh k c v s0,
      Fr k c s0 -> s_stack s0 = [] -> 0 <= k < N ->
      if k + 1 <? N
      then exists st2, keeps sp s0 st2 /\ Fr (k + 1) c st2 /\ s_stack st2 = [] /\
             bs (incr_rep sp hh 1 ++ [IConst (V32 v); IBr 2]) s0 (OBranch 1 st2)
      else exists stx, keeps sp s0 stx /\ s_stack stx = [V32 v] /\
             bs (incr_rep sp hh 1 ++ [IConst (V32 v); IBr 2]) s0 (OBranch 2 stx).
    Proof.
      intros hh k c v s0 F0' S0 Hk.
      destruct (incr_rep_run hh 1%nat k c s0 F0' Hk) as [st2 [K [F2 [S2 [Hm Hn]]]]].
      destruct (k + 1 <? N) eqn:E.
      - apply Z.ltb_lt in E. exists st2. split; [exact K|]. split; [exact F2|]. split; [congruence|]. apply Hm. exact E.
      - apply Z.ltb_ge in E. exists (set_stack st2 (V32 v :: s_stack st2)).
        split; [eapply keeps_trans; [exact K | apply keeps_stack]|]. split; [cbn [set_stack s_stack]; congruence|].
        apply Hn; [exact E | apply exit_const].
    Qed.

    Lemma Fr_stack : forall k c st s, Fr k c st -> Fr k c (set_stack st s).
    Proof. intros k c st s H. exact H. Qed.

    Lemma arm_run : forall k c st1 b,
      Fr k c st1 -> s_stack st1 = [V32 (b2z b)] -> 0 <= k < N -> 0 <= c <= k ->
      match arm_step qk M c b (k + 1 <? N) with
      | Exit v => exists stx, keeps sp st1 stx /\ s_stack stx = [V32 (b2z v)] /\ bs (loop_arm sp h qk) st1 (OBranch 1 stx)
      | Again c' => exists st2, keeps sp st1 st2 /\ Fr (k + 1) c' st2 /\ s_stack st2 = [] /\
                                0 <= c' <= k + 1 /\ bs (loop_arm sp h qk) st1 (OBranch 0 st2)
      | Fall v => exists stx, keeps sp st1 stx /\ s_stack stx = [V32 (b2z v)] /\ bs (loop_arm sp h qk) st1 (ONormal stx)
      end.
    Proof.
      intros k c st1 b F1' S1 Hk Hc. pose proof Fr_slots as FS.
      set (s0 := set_stack st1 []).
      assert (F0' : Fr k c s0) by exact F1'.
      assert (K0 : keeps sp st1 s0) by apply keeps_stack.
      (* the arms none / all / any: one if_else *)
      assert (SIMPLE : forall (vexit vend : bool) (rep_on : bool) TH EL,
                (if rep_on then TH else EL) = incr_rep sp (deeper (deeper (deeper h))) 1 ++ [IConst (V32 (b2z vend)); IBr 2] ->
                (if rep_on then EL else TH) = [IConst (V32 (b2z vexit)); IBr 2] ->
                match (if Bool.eqb b rep_on then (if k + 1 <? N then Again c else Exit vend) else Exit vexit) with
                | Exit v => exists stx, keeps sp st1 stx /\ s_stack stx = [V32 (b2z v)] /\ bs [IIf 1 TH EL] st1 (OBranch 1 stx)
                | Again c' => exists st2, keeps sp st1 st2 /\ Fr (k + 1) c' st2 /\ s_stack st2 = [] /\
                                          0 <= c' <= k + 1 /\ bs [IIf 1 TH EL] st1 (OBranch 0 st2)
                | Fall v => True
                end).
      { intros vexit vend rep_on TH EL Hrep Hexit.
        assert (BR : (if b2z b =? 0 then EL else TH) = if Bool.eqb b rep_on then (if rep_on then TH else EL) else (if rep_on then EL else TH))
          by (rewrite b2z_eqb0; destruct b, rep_on; reflexivity).
        destruct (Bool.eqb b rep_on).
        - rewrite Hrep in BR.
          pose proof (repeat_or_exit (deeper (deeper (deeper h))) k c (b2z vend) s0 F0' eq_refl Hk) as RE.
          destruct (k + 1 <? N).
          + destruct RE as [st2 [K [F2 [S2 B2]]]]. exists st2.
            split; [exact (keeps_trans _ _ _ _ K0 K)|]. split; [exact F2|]. split; [exact S2|]. split; [lia|].
            eapply step_if; [exact S1 | rewrite BR; exact B2 |]. cbn [close]. apply seq_branch.
          + destruct RE as [stx [K [Sx Bx]]]. exists stx.
            split; [exact (keeps_trans _ _ _ _ K0 K)|]. split; [exact Sx|].
            eapply step_if; [exact S1 | rewrite BR; exact Bx |]. cbn [close]. apply seq_branch.
        - rewrite Hexit in BR. exists (set_stack s0 (V32 (b2z vexit) :: s_stack s0)).
          split; [eapply keeps_trans; [exact K0 | apply keeps_stack]|]. split; [reflexivity|].
          eapply step_if; [exact S1 | rewrite BR; apply exit_const |]. cbn [close]. apply seq_branch. }
      unfold arm_step, loop_arm. destruct qk eqn:Eq; try (exfalso; apply Hqk; reflexivity).
      - (* none *) pose proof (SIMPLE false true false _ _ eq_refl eq_refl) as P. destruct b; cbn [Bool.eqb] in P; destruct (k + 1 <? N); exact P.
      - (* any *) pose proof (SIMPLE true false false _ _ eq_refl eq_refl) as P. destruct b; cbn [Bool.eqb] in P; destruct (k + 1 <? N); exact P.
      - (* all *) pose proof (SIMPLE false true true _ _ eq_refl eq_refl) as P. destruct b; cbn [Bool.eqb] in P; destruct (k + 1 <? N); exact P.
      - (* <expr> *)
        destruct F1' as [W1 [A1 [B1 [C1 D1]]]]. destruct (D1 Eq) as [DM DC].
        clear SIMPLE.
        (* after the if_else: count is c' and the stack is empty, or the loop has been left *)
        assert (PART1 : (b && (M <=? c + 1) = true ->
                           exists stx, keeps sp st1 stx /\ s_stack stx = [V32 (b2z (negb (M =? 0)))] /\
                             forall tail, bs (IIf 0
                               (incr_var (S (S (S sp))) (deeper (deeper (deeper h))) ++ load_var (S (S (S sp))) TInt (deeper (deeper (deeper h))) ++
                                load_var (S (S sp)) TInt (deeper (deeper (deeper h))) ++
                                [IBin EmitFacts.for_expr_reached;
                                 IIf 0 (load_var (S (S sp)) TInt (deeper (deeper (deeper (deeper h)))) ++
                                        [IConst (V64 0); IBin EmitFacts.for_expr_exit_value; IBr 3]) []]) [] :: tail) st1 (OBranch 1 stx)) /\
                        (b && (M <=? c + 1) = false ->
                           exists sC, keeps sp st1 sC /\ Fr k (if b then c + 1 else c) sC /\ s_stack sC = [] /\
                             forall tail o, bs tail sC o -> bs (IIf 0
                               (incr_var (S (S (S sp))) (deeper (deeper (deeper h))) ++ load_var (S (S (S sp))) TInt (deeper (deeper (deeper h))) ++
                                load_var (S (S sp)) TInt (deeper (deeper (deeper h))) ++
                                [IBin EmitFacts.for_expr_reached;
                                 IIf 0 (load_var (S (S sp)) TInt (deeper (deeper (deeper (deeper h)))) ++
                                        [IConst (V64 0); IBin EmitFacts.for_expr_exit_value; IBr 3]) []]) [] :: tail) st1 o)).
        { set (h3 := deeper (deeper (deeper h))).
          destruct b.
          - (* the body was true: count it *)
            set (sC := store s0 (S (S (S sp))) (w64 (c + 1))).
            assert (UC : upd (S (S (S sp))) s0 sC) by (apply upd_store; lia).
            assert (WC : flags_wf sC) by (eapply upd_wf; [exact UC | exact W1]).
            assert (Ec : w64 (c + 1) = c + 1) by (apply w64_small; unfold m63 in *; lia).
            assert (FC : Fr k (c + 1) sC).
            { split; [exact WC|].
              split; [eapply upd_var_ok; [exact UC | lia | lia | exact A1]|].
              split; [eapply upd_var_ok; [exact UC | lia | lia | exact B1]|].
              split; [eapply upd_var_ok; [exact UC | lia | lia | exact C1]|].
              intros _. split; [eapply upd_var_ok; [exact UC | lia | lia | exact DM] | rewrite <- Ec; apply var_ok_store; lia]. }
            destruct FC as [_ [_ [_ [_ DD]]]]. destruct (DD Eq) as [DM' DC'].
            assert (FC : Fr k (c + 1) sC).
            { split; [exact WC|].
              split; [eapply upd_var_ok; [exact UC | lia | lia | exact A1]|].
              split; [eapply upd_var_ok; [exact UC | lia | lia | exact B1]|].
              split; [eapply upd_var_ok; [exact UC | lia | lia | exact C1]|].
              intros _. split; assumption. }
            (* the code of the then branch up to the comparison *)
            assert (RUN : forall tail o, bs tail (set_stack sC [V32 (b2z (M <=? c + 1))]) o ->
                      bs (incr_var (S (S (S sp))) h3 ++ load_var (S (S (S sp))) TInt h3 ++ load_var (S (S sp)) TInt h3 ++
                          IBin EmitFacts.for_expr_reached :: tail) s0 o).
            { intros tail o H.
              apply (incr_run (S (S (S sp))) c h3 _ s0 o W1 ltac:(lia) DC). fold sC.
              apply (load_run (S (S (S sp))) _ h3 _ sC o WC ltac:(lia) DC').
              apply (load_run (S (S sp)) M h3 _ _ o); [exact WC | lia | exact DM' |].
              cbn [set_stack s_stack]. eapply step_bin; [reflexivity | reflexivity |]. exact H. }
            cbn [andb]. split.
            + intros Hr. exists (set_stack sC [V32 (b2z (negb (M =? 0)))]).
              split; [eapply keeps_trans; [exact K0|]; eapply keeps_trans; [eapply (upd_keeps sp); [exact UC | lia | lia] | apply keeps_stack]|].
              split; [reflexivity|]. intros tail.
              eapply step_if; [exact S1 | cbn [b2z Z.eqb] | ].
              * apply RUN. rewrite Hr.
                eapply step_if; [reflexivity | cbn [b2z Z.eqb] | ].
                -- apply (load_run (S (S sp)) M _ _ _ _ WC ltac:(lia) DM').
                   cbn [set_stack s_stack app]. apply step_const.
                   eapply step_bin; [reflexivity | reflexivity |]. cbn [set_stack s_stack]. apply BBr.
                -- cbn [close]. apply seq_branch.
              * cbn [close]. apply seq_branch.
            + intros Hr. exists sC.
              split; [eapply keeps_trans; [exact K0|]; eapply (upd_keeps sp); [exact UC | lia | lia]|].
              split; [exact FC|]. split; [reflexivity|]. intros tail o H.
              eapply step_if; [exact S1 | cbn [b2z Z.eqb] | ].
              * apply RUN. rewrite Hr.
                eapply step_if; [reflexivity | cbn [b2z Z.eqb]; apply BNil | ].
                cbn [close leave take_top Nat.leb firstn app set_stack s_stack]. apply seq_normal. apply BNil.
              * cbn [close leave take_top Nat.leb firstn app set_stack s_stack]. apply seq_normal.
                destruct st1; exact H.
          - cbn [andb]. split; [discriminate|]. intros _. exists s0.
            split; [exact K0|]. split; [exact F0'|]. split; [reflexivity|]. intros tail o H.
            eapply step_if; [exact S1 | cbn [b2z Z.eqb]; apply BNil |].
            cbn [close leave take_top Nat.leb firstn app set_stack s_stack]. apply seq_normal.
            destruct st1; exact H. }
        destruct PART1 as [P1 P2].
        destruct (b && (M <=? c + 1)) eqn:Er.
        + destruct (P1 eq_refl) as [stx [Kx [Sx Bx]]]. exists stx. split; [exact Kx|]. split; [exact Sx|]. cbn [app]. apply Bx.
        + destruct (P2 eq_refl) as [sC [KC [FC [SC BC]]]].
          assert (Hc' : 0 <= (if b then c + 1 else c) <= k + 1) by (destruct b; lia).
          destruct (incr_rep_run (deeper (deeper h)) 0%nat k _ sC FC Hk) as [st2 [K2 [F2 [S2 [Hm Hn]]]]].
          destruct (k + 1 <? N) eqn:E.
          * apply Z.ltb_lt in E. exists st2. split; [eapply keeps_trans; eassumption|]. split; [exact F2|].
            split; [congruence|]. split; [exact Hc'|]. cbn [app]. apply BC. apply Hm. exact E.
          * apply Z.ltb_ge in E.
            destruct F2 as [W2 [_ [_ [_ D2]]]]. destruct (D2 Eq) as [DM2 _].
            exists (set_stack st2 [V32 (b2z (M =? 0))]).
            split; [eapply keeps_trans; [exact KC|]; eapply keeps_trans; [exact K2 | apply keeps_stack]|].
            split; [reflexivity|]. cbn [app]. apply BC. apply Hn; [exact E|].
            apply (load_run (S (S sp)) M _ _ _ _ W2 ltac:(lia) DM2).
            cbn [app]. eapply step_un; [reflexivity | reflexivity |]. cbn [set_stack s_stack]. rewrite S2, SC. apply BNil.
    Qed.

    (* the loop, from any iteration on *)
    Lemma loop_ok : forall r k c st,
      Z.of_nat (S r) = N - k -> 0 <= k -> 0 <= c <= k ->
      R cg sp (env_of vars) st -> Fr k c st -> s_stack st = [] ->
      exists st' o b,
        loop_q qk M c false (map fbody (zfrom k (S r))) = VBool b /\
        keeps sp st st' /\ s_stack st' = [V32 (b2z b)] /\
        (o = ONormal st' \/ o = OBranch 0 st') /\
        bs [ILoop 1 (loop_body cg sp h qk x body)] st o.
    Proof.
      induction r as [|r IH]; intros k c st Hr Hk Hc HR HF Sst.
      - (* the last iteration *)
        destruct (body_run k c st HR HF Sst) as [st1 [K1 [S1 C1]]].
        pose proof (arm_run k c st1 _ (Fr_keeps _ _ _ _ K1 HF) S1 ltac:(lia) Hc) as ARM.
        rewrite zfrom_S. cbn [map zfrom seq]. rewrite (loop_q_step qk M c _ _ Hqk).
        replace (k + 1 <? N) with false in ARM by (symmetry; apply Z.ltb_ge; lia).
        assert (K1' : keeps sp st st1) by (eapply keeps_weaken; [|exact K1]; unfold sp'; lia).
        destruct (arm_step qk M c (truthy (fbody k)) false) as [v | c' | v] eqn:ST.
        + destruct ARM as [stx [Kx [Sx Bx]]]. exists stx, (OBranch 0 stx), v.
          split; [reflexivity|]. split; [eapply keeps_trans; eassumption|]. split; [exact Sx|]. split; [right; reflexivity|].
          eapply BLoopExit.
          * rewrite (stack_nil_same _ Sst). unfold loop_body. apply C1. exact Bx.
          * intros st' E. discriminate E.
          * cbn [close]. apply seq_branch.
        + exfalso. unfold arm_step in ST. destruct qk, (truthy (fbody k)); try discriminate ST; try (apply Hqk; reflexivity);
            cbn [andb] in ST; try destruct (M <=? c + 1); discriminate ST.
        + destruct ARM as [stx [Kx [Sx Bx]]]. exists (set_stack stx ([V32 (b2z v)] ++ s_stack st)), (ONormal (set_stack stx ([V32 (b2z v)] ++ s_stack st))), v.
          split; [reflexivity|]. split; [eapply keeps_trans; [exact K1'|]; eapply keeps_trans; [exact Kx | apply keeps_stack]|].
          split; [cbn [set_stack s_stack]; rewrite Sst; reflexivity|]. split; [left; reflexivity|].
          eapply BLoopExit.
          * rewrite (stack_nil_same _ Sst). unfold loop_body. apply C1. exact Bx.
          * intros st' E. discriminate E.
          * cbn [close]. unfold leave. rewrite Sx. cbn [take_top length Nat.leb firstn]. apply seq_normal. apply BNil.
      - (* an iteration followed by others *)
        destruct (body_run k c st HR HF Sst) as [st1 [K1 [S1 C1]]].
        pose proof (arm_run k c st1 _ (Fr_keeps _ _ _ _ K1 HF) S1 ltac:(lia) Hc) as ARM.
        rewrite zfrom_S. cbn [map]. rewrite (loop_q_step qk M c _ _ Hqk).
        assert (MORE : match map fbody (zfrom (k + 1) (S r)) with [] => false | _ => true end = true) by (rewrite zfrom_S; reflexivity).
        rewrite MORE.
        replace (k + 1 <? N) with true in ARM by (symmetry; apply Z.ltb_lt; lia).
        assert (K1' : keeps sp st st1) by (eapply keeps_weaken; [|exact K1]; unfold sp'; lia).
        destruct (arm_step qk M c (truthy (fbody k)) true) as [v | c' | v] eqn:ST.
        + destruct ARM as [stx [Kx [Sx Bx]]]. exists stx, (OBranch 0 stx), v.
          split; [reflexivity|]. split; [eapply keeps_trans; eassumption|]. split; [exact Sx|]. split; [right; reflexivity|].
          eapply BLoopExit.
          * rewrite (stack_nil_same _ Sst). unfold loop_body. apply C1. exact Bx.
          * intros st' E. discriminate E.
          * cbn [close]. apply seq_branch.
        + destruct ARM as [st2 [K2 [F2 [S2 [Hc' B2]]]]].
          assert (K02 : keeps sp st st2) by (eapply keeps_trans; eassumption).
          destruct (IH (k + 1) c' st2 ltac:(lia) ltac:(lia) Hc' (R_keeps _ _ _ _ _ HR K02) F2 S2) as [st' [o [b [Eb [K' [S' [Ho B']]]]]]].
          exists st', o, b. split; [exact Eb|].
          split; [eapply keeps_trans; eassumption|]. split; [exact S'|]. split; [exact Ho|].
          eapply BLoopAgain.
          * rewrite (stack_nil_same _ Sst). unfold loop_body. apply C1. exact B2.
          * rewrite Sst, (stack_nil_same _ S2). exact B'.
        + exfalso. unfold arm_step in ST. destruct qk, (truthy (fbody k)); try discriminate ST; try (apply Hqk; reflexivity);
            cbn [andb] in ST; try destruct (M <=? c + 1); discriminate ST.
    Qed.
  End Loop.

  (* ---- integer expressions do not touch the variable area: their code does
     not depend on the number of slots in use, so it keeps every slot *)
  Ltac kill H :=
    repeat (match type of H with
            | context [match tyof ?a ?b ?c with _ => _ end] => destruct (tyof a b c) as [[|]|]; try discriminate H
            | context [match clookup ?a ?b with _ => _ end] => destruct (clookup a b) as [[? [|]]|]; try discriminate H
            | context [match fits ?a ?b with _ => _ end] => destruct (fits a b) as [[|]|]; try discriminate H
            | context [if ?c then _ else _] => destruct c; try discriminate H
            end); try discriminate H.
  Lemma int_sp_indep : forall e G sp sp2, tyof G sp e = Some TInt ->
    tyof G sp2 e = Some TInt /\ forall h, emit G sp2 h e = emit G sp h e.
  Proof.
    induction e; intros G sp sp2 H; cbn [tyof] in H |- *; try discriminate H;
      try (split; [exact H | reflexivity]).
    - (* ENot *) kill H.
    - (* EAnd *) kill H.
    - (* EOr *) kill H.
    - (* EDefined *) destruct (tyof G sp e) as [|]; discriminate.
    - (* ENeg *) destruct (tyof G sp e) as [[|]|] eqn:T; try discriminate.
      destruct (IHe G sp sp2 T) as [T2 E2]. rewrite T2. split; [reflexivity|]. intros h. cbn [emit]. rewrite E2. reflexivity.
    - (* EBitNot *) destruct (tyof G sp e) as [[|]|] eqn:T; try discriminate.
      destruct (IHe G sp sp2 T) as [T2 E2]. rewrite T2. split; [reflexivity|]. intros h. cbn [emit]. rewrite E2. reflexivity.
    - (* EArith *) destruct (tyof G sp e1) as [[|]|] eqn:Ta; try discriminate. destruct (tyof G sp e2) as [[|]|] eqn:Tb; try discriminate.
      destruct (IHe1 G sp sp2 Ta) as [Ta2 Ea]. destruct (IHe2 G sp sp2 Tb) as [Tb2 Eb]. rewrite Ta2, Tb2.
      split; [reflexivity|]. intros h. cbn [emit]. rewrite Ea, Eb. reflexivity.
    - (* ECmp *) destruct (tyof G sp e1) as [[|]|]; try discriminate; destruct (tyof G sp e2) as [[|]|]; try discriminate; destruct op; discriminate.
    - (* ERead *) destruct k as [n sg be]. destruct (tyof G sp e) as [[|]|] eqn:T; try discriminate.
      destruct (IHe G sp sp2 T) as [T2 E2]. rewrite T2. split; [exact H|]. intros h. cbn [emit]. rewrite E2. reflexivity.
    - (* EPat *) destruct p; destruct ak; kill H.
    - (* ECount *) destruct p.
      + destruct ranged.
        * destruct (tyof G sp e1) as [[|]|] eqn:Ta; try discriminate. destruct (tyof G sp e2) as [[|]|] eqn:Tb; try discriminate.
          destruct (IHe1 G sp sp2 Ta) as [Ta2 Ea]. destruct (IHe2 G sp sp2 Tb) as [Tb2 Eb]. rewrite Ta2, Tb2.
          split; [reflexivity|]. intros h. cbn [emit]. rewrite Ea, Eb. reflexivity.
        * split; [reflexivity|]. reflexivity.
      + destruct (clookup cur_key G) as [[slot [|]]|]; try discriminate. destruct ranged.
        * destruct (tyof G sp e1) as [[|]|] eqn:Ta; try discriminate. destruct (tyof G sp e2) as [[|]|] eqn:Tb; try discriminate.
          destruct (IHe1 G sp sp2 Ta) as [Ta2 Ea]. destruct (IHe2 G sp sp2 Tb) as [Tb2 Eb]. rewrite Ta2, Tb2.
          split; [reflexivity|]. intros h. cbn [emit]. rewrite Ea, Eb. reflexivity.
        * split; [reflexivity|]. reflexivity.
    - (* EOffset *) destruct p.
      + destruct (tyof G sp e) as [[|]|] eqn:T; try discriminate.
        destruct (IHe G sp sp2 T) as [T2 E2]. rewrite T2. split; [reflexivity|]. intros h. cbn [emit]. rewrite E2. reflexivity.
      + destruct (clookup cur_key G) as [[slot [|]]|]; try discriminate.
        destruct (tyof G sp e) as [[|]|] eqn:T; try discriminate.
        destruct (IHe G sp sp2 T) as [T2 E2]. rewrite T2. split; [reflexivity|]. intros h. cbn [emit]. rewrite E2. reflexivity.
    - (* ELength *) destruct p.
      + destruct (tyof G sp e) as [[|]|] eqn:T; try discriminate.
        destruct (IHe G sp sp2 T) as [T2 E2]. rewrite T2. split; [reflexivity|]. intros h. cbn [emit]. rewrite E2. reflexivity.
      + destruct (clookup cur_key G) as [[slot [|]]|]; try discriminate.
        destruct (tyof G sp e) as [[|]|] eqn:T; try discriminate.
        destruct (IHe G sp sp2 T) as [T2 E2]. rewrite T2. split; [reflexivity|]. intros h. cbn [emit]. rewrite E2. reflexivity.
    - (* EOf *) destruct qk; destruct set; destruct ak; try discriminate H; unfold fits in H; kill H.
    - (* EOfB *) destruct items; try discriminate H. destruct qk; unfold fits in H; kill H.
    - (* EForOf *) destruct set; try discriminate H. destruct qk; unfold fits in H; kill H.
    - (* EForRange *) destruct qk; try discriminate; kill H.
    - (* EForTuple *) destruct items; try discriminate H. destruct qk; unfold fits in H; kill H.
    - (* EWith *) destruct (tyof G (S sp) e1) as [td|]; try discriminate.
      destruct (Nat.ltb sp (Z.to_nat MAX_VARS)); try discriminate.
      destruct (tyof ((x, (sp, td)) :: G) (S sp) e2) as [[|]|]; discriminate.
  Qed.

  Lemma int_all : forall e, Ok e -> forall g sp h F vars st,
    tyof g sp e = Some TInt -> R g sp (env_of vars) st -> hspec host (h_code h) F ->
    types_as TInt (eval (env_of vars) e) /\
    computes MAXV h F (s_stack st) (emit g sp h e) (eval (env_of vars) e) st.
  Proof.
    intros e OkE g sp h F vars st T HR HF.
    destruct (int_sp_indep e g sp MAXV T) as [T2 E2].
    assert (HR2 : R g MAXV (env_of vars) st).
    { apply (R_more g sp); [exact HR | destruct HR as [_ [L _]]; exact L | apply le_n]. }
    destruct (OkE g MAXV h F vars st TInt T2 HR2 HF) as [Tv Hc]. rewrite E2 in Hc. split; assumption.
  Qed.

  (* ---- the initialisation of the loop *)
  (* catch_undef of the range's length: 0 when a bound is undefined *)
  Definition hZ : handler := mkH [IConst (V64 0)] 0.
  Definition FZ (st : state) : state := set_stack st (V64 0 :: s_stack st).
  Lemma hspec_hZ : hspec host (h_code hZ) FZ.
  Proof. intros d st1. cbn [hZ h_code app]. apply step_const. apply BBr. Qed.

  Lemma upd_stack_l : forall slot a b s, upd slot a b -> upd slot (set_stack a s) b.
  Proof. intros slot a b s H. exact H. Qed.
  Lemma upd_stack_r : forall slot a b s, upd slot a b -> upd slot a (set_stack b s).
  Proof. intros slot a b s H. exact H. Qed.
  Lemma keeps_stack_l : forall sp a b s, keeps sp a b -> keeps sp (set_stack a s) b.
  Proof. intros sp a b s H. exact H. Qed.

  (* n := hi - lo + 1 (0 if a bound is undefined); tmpA := lo *)
  Lemma n_init_run : forall cg sp vars st lo hi,
    Ok lo -> Ok hi -> tyof cg sp lo = Some TInt -> tyof cg sp hi = Some TInt ->
    R cg sp (env_of vars) st -> (sp < MAXV)%nat ->
    exists sN n, upd sp st sN /\ s_stack sN = s_stack st /\ var_ok sN sp TInt (VInt n) /\
      match eval (env_of vars) lo, eval (env_of vars) hi with
      | VInt l, VInt hh => n = w64 (hh - l + 1) /\ s_locals sN tmpA = V64 l
      | _, _ => n = 0
      end /\
      forall rest o, bs rest sN o ->
        bs (set_var sp TInt
              (catch_undef 1
                 (fun h' => emit cg sp h' hi ++ emit cg sp h' lo ++ [ILocalTee tmpA; IBin I64Sub; IConst (V64 1); IBin I64Add])
                 [IConst (V64 0)]) ++ rest) st o.
  Proof.
    intros cg sp vars st lo hi OkLo OkHi Tlo Thi HR M.
    set (sA := set_stack st (V32 (slot_addr sp) :: s_stack st)).
    set (sB := set_stack sA []).
    assert (HRB : R cg sp (env_of vars) sB) by (eapply R_keeps; [exact HR | exact (keeps_stack sp st [])]).
    destruct (int_all hi OkHi cg sp hZ FZ vars sB Thi HRB hspec_hZ) as [Thv [Dh Uh]].
    unfold catch_undef. fold hZ.
    (* the block leaves n on top of the address; then the store *)
    assert (FIN : forall s1 n, keeps MAXV sB s1 ->
              (forall r o', bs r (set_stack s1 (V64 n :: V32 (slot_addr sp) :: s_stack st)) o' ->
                 bs ([IBlock 1 (emit cg sp hZ hi ++ emit cg sp hZ lo ++ [ILocalTee tmpA; IBin I64Sub; IConst (V64 1); IBin I64Add])] ++ r) sA o') ->
              upd sp st (store (set_stack s1 (s_stack st)) sp n) /\
              forall rest o, bs rest (store (set_stack s1 (s_stack st)) sp n) o ->
                bs (set_var sp TInt [IBlock 1 (emit cg sp hZ hi ++ emit cg sp hZ lo ++ [ILocalTee tmpA; IBin I64Sub; IConst (V64 1); IBin I64Add])] ++ rest) st o).
    { intros s1 n K1 C. split.
      - eapply keeps_upd; [exact K1|]. exact (upd_store (set_stack s1 (s_stack st)) sp n M).
      - intros rest o H.
        apply (set_var_run sp _ rest st (set_stack s1 (V64 n :: V32 (slot_addr sp) :: s_stack st)) n o); [| reflexivity | exact H].
        intros r o' Hr. fold sA. apply C. exact Hr. }
    (* a bound is undefined: the handler leaves 0 *)
    assert (UNDEF : forall s1, keeps MAXV sB s1 ->
              bs (emit cg sp hZ hi ++ emit cg sp hZ lo ++ [ILocalTee tmpA; IBin I64Sub; IConst (V64 1); IBin I64Add]) sB (OBranch 0 (FZ s1)) ->
              exists sN, upd sp st sN /\ s_stack sN = s_stack st /\ var_ok sN sp TInt (VInt 0) /\
                forall rest o, bs rest sN o ->
                  bs (set_var sp TInt [IBlock 1 (emit cg sp hZ hi ++ emit cg sp hZ lo ++ [ILocalTee tmpA; IBin I64Sub; IConst (V64 1); IBin I64Add])] ++ rest) st o).
    { intros s1 K1 B.
      destruct (FIN s1 0 K1) as [U C].
      - intros r o' Hr. cbn [app]. eapply BBlock; [exact B|].
        cbn [close leave FZ set_stack s_stack take_top length Nat.leb firstn app sA]. apply seq_normal.
        destruct s1; exact Hr.
      - exists (store (set_stack s1 (s_stack st)) sp 0). split; [exact U|]. split; [reflexivity|].
        split; [apply var_ok_store; exact M | exact C]. }
    destruct (eval (env_of vars) hi) as [hh| | |] eqn:Ehi; cbn in Thv; try discriminate; try contradiction.
    - destruct (Dh ltac:(discriminate)) as [s1 [K1 [S1 C1]]]. cbn [sB set_stack s_stack val_of] in S1.
      assert (HR1 : R cg sp (env_of vars) s1) by (eapply R_keeps; [exact HRB | eapply keeps_weaken; [|exact K1]; lia]).
      destruct (int_all lo OkLo cg sp hZ FZ vars s1 Tlo HR1 hspec_hZ) as [Tlv [Dl Ul]]. rewrite S1 in Dl.
      destruct (eval (env_of vars) lo) as [l| | |] eqn:Elo; cbn in Tlv; try discriminate; try contradiction.
      + (* both bounds are defined *)
        destruct (Dl ltac:(discriminate)) as [s2 [K2 [S2 C2]]]. cbn [val_of] in S2.
        set (s3 := set_local s2 tmpA (V64 l)).
        destruct (FIN s3 (w64 (hh - l + 1))) as [U C].
        * eapply keeps_trans; [exact K1|]. eapply keeps_trans; [exact K2 | apply keeps_local].
        * intros r o' Hr. cbn [app]. eapply BBlock.
          -- apply C1. apply C2.
             eapply BSimple; [reflexivity | cbn [step_simple]; rewrite S2; reflexivity |].
             eapply step_bin; [cbn [set_local s_stack]; exact S2 | reflexivity |].
             apply step_const. eapply step_bin; [reflexivity | reflexivity |]. apply BNil.
          -- cbn [close leave set_stack s_stack take_top length Nat.leb firstn app sA]. apply seq_normal.
             rewrite w64_succ. destruct s2; exact Hr.
        * exists (store (set_stack s3 (s_stack st)) sp (w64 (hh - l + 1))), (w64 (hh - l + 1)).
          split; [exact U|]. split; [reflexivity|]. split; [apply var_ok_store; exact M|].
          split; [split; reflexivity | exact C].
      + (* lo is undefined *)
        destruct (Ul eq_refl [ILocalTee tmpA; IBin I64Sub; IConst (V64 1); IBin I64Add]) as [s2 [K2 B2]].
        destruct (UNDEF s2 (keeps_trans _ _ _ _ K1 K2)) as [sN [U [S [OK C]]]].
        * apply C1. exact B2.
        * exists sN, 0. repeat (split; [assumption|]). split; [reflexivity | exact C].
    - (* hi is undefined *)
      destruct (Uh eq_refl (emit cg sp hZ lo ++ [ILocalTee tmpA; IBin I64Sub; IConst (V64 1); IBin I64Add])) as [s1 [K1 B1]].
      destruct (UNDEF s1 K1) as [sN [U [S [OK C]]]].
      + exact B1.
      + exists sN, 0. repeat (split; [assumption|]).
        split; [destruct (eval (env_of vars) lo); reflexivity | exact C].
  Qed.

  (* the block around the whole loop *)
  Lemma block_value : forall sp h F st inner st' o1 (b : bool),
    bs inner (set_stack st []) o1 -> (o1 = ONormal st' \/ o1 = OBranch 0 st') ->
    s_stack st' = [V32 (b2z b)] -> keeps sp st st' ->
    computes sp h F (s_stack st) [IBlock 1 inner] (VBool b) st.
  Proof.
    intros sp h F st inner st' o1 b B Ho S K. split; [intros _ | intros E; discriminate].
    exists (set_stack st' (V32 (b2z b) :: s_stack st)).
    split; [eapply keeps_trans; [exact K | apply keeps_stack]|]. split; [reflexivity|].
    intros rest o Hr. cbn [app]. eapply BBlock; [exact B|].
    destruct Ho as [-> | ->]; cbn [close]; unfold leave; rewrite S; cbn [take_top length Nat.leb firstn app];
      apply seq_normal; exact Hr.
  Qed.
  Lemma block_throw : forall sp h F st inner s1 v,
    bs inner (set_stack st []) (OBranch (S (h_depth h)) (F s1)) -> keeps sp st s1 -> v = VUndef ->
    computes sp h F (s_stack st) [IBlock 1 inner] v st.
  Proof.
    intros sp h F st inner s1 v B K ->. split; [intros E; contradiction | intros _ rest].
    exists s1. split; [exact K|]. cbn [app]. eapply BBlock; [exact B|]. cbn [close]. apply seq_branch.
  Qed.

  Lemma quantified_loop : forall qk vq items, qk <> QPct ->
    quantified qk vq false items =
    match qk, vq with
    | QExpr, VInt m => loop_q QExpr m 0 false items
    | QExpr, _ => VUndef
    | _, _ => loop_q qk 0 0 false items
    end.
  Proof.
    intros qk vq items H. unfold quantified. destruct qk; try contradiction; cbn [max_count]; try reflexivity.
    destruct vq; reflexivity.
  Qed.

  Lemma for_range_ok : forall qk q x lo hi body,
    qk <> QPct -> (qk = QExpr -> Ok q) -> Ok lo -> Ok hi -> Ok body -> Ok (EForRange qk q x lo hi body).
  Proof.
    intros qk q x lo hi body NotPct OkQ OkLo OkHi OkB cg sp h F vars st t Ht HR HF.
    set (g' := (x, ((sp + 5)%nat, TInt)) :: cg). set (sp' := (sp + FOR_IN_FRAME)%nat).
    assert (HT : qk <> QPct /\ (qk = QExpr -> tyof cg sp q = Some TInt) /\ tyof cg sp lo = Some TInt /\
                 tyof cg sp hi = Some TInt /\ (sp + FOR_IN_FRAME <= MAXV)%nat /\ tyof g' sp' body = Some TBool /\ t = TBool).
    { cbn [tyof] in Ht. fold g' sp' in Ht.
      destruct qk; try (exfalso; apply NotPct; reflexivity);
        repeat match type of Ht with context [match tyof ?a ?b ?c with _ => _ end] => destruct (tyof a b c) as [[|]|] eqn:?; try discriminate Ht end;
        (destruct (Nat.leb sp' (Z.to_nat MAX_VARS)) eqn:Lb; cbn [negb] in Ht; try discriminate Ht);
        apply Nat.leb_le in Lb; injection Ht as <-;
        (repeat split; try assumption; try discriminate; try reflexivity; try (intros E; discriminate E)). }
    destruct HT as [Hqk [Tq [Tlo [Thi [Hfit [Tb ->]]]]]].
    pose proof Hfit as Hfit7. rewrite frame7 in Hfit7.
    rewrite emit_for_eq.
    set (s0 := set_stack st []).
    assert (HR0 : R cg sp (env_of vars) s0) by (eapply R_keeps; [exact HR | apply keeps_stack]).
    destruct (n_init_run cg sp vars s0 lo hi OkLo OkHi Tlo Thi HR0 ltac:(lia)) as [sN [n [UN [SN [OKn [INFO Cn]]]]]].
    cbn [s0 set_stack s_stack] in SN.
    assert (WN : flags_wf sN) by (eapply upd_wf; [exact UN | destruct HR0 as [_ [_ [W _]]]; exact W]).
    assert (KN : keeps sp st sN) by (eapply keeps_trans; [apply (keeps_stack sp st []) | eapply (upd_keeps sp); [exact UN | lia | lia]]).
    (* the test n <= 0 *)
    assert (CHECK : forall tail o, bs tail (set_stack sN [V32 (b2z (n <=? 0))]) o ->
              bs (load_var sp TInt (deeper h) ++ IConst (V64 0) :: IBin I64LeS :: tail) sN o).
    { intros tail o H. apply (load_run sp n _ _ sN o WN ltac:(lia) OKn).
      cbn [app]. apply step_const. eapply step_bin; [reflexivity | reflexivity |]. cbn [set_stack s_stack]. rewrite SN. exact H. }
    (* no iteration: the loop is false *)
    assert (EMPTY : forall v, n <= 0 -> v = VBool false ->
              types_as TBool v /\
              computes sp h F (s_stack st)
                [IBlock 1 (loop_init cg sp h qk q lo hi ++ [ILoop 1 (loop_body cg sp h qk x body)])] v st).
    { intros v Hn ->. split; [reflexivity|].
      apply (block_value sp h F st _ (set_stack sN [V32 0]) (OBranch 0 (set_stack sN [V32 0])) false).
      - unfold loop_init. rewrite <- !app_assoc. fold s0. apply Cn. cbn [app]. apply CHECK.
        replace (n <=? 0) with true by (symmetry; apply Z.leb_le; exact Hn).
        eapply step_if; [reflexivity | cbn [b2z Z.eqb]; apply step_const; apply BBr |].
        cbn [close set_stack s_stack]. apply seq_branch.
      - right. reflexivity.
      - reflexivity.
      - eapply keeps_trans; [exact KN | apply keeps_stack]. }
    cbn [eval].
    destruct (eval (env_of vars) lo) as [l| | |] eqn:Elo; [| apply EMPTY; [lia | reflexivity] ..].
    destruct (eval (env_of vars) hi) as [hh| | |] eqn:Ehi; [| apply EMPTY; [lia | reflexivity] ..].
    destruct INFO as [En LA]. cbn [range_items]. rewrite <- w64_wrap64, <- En.
    destruct (0 <? n) eqn:Pos; [| apply EMPTY; [apply Z.ltb_ge in Pos; lia | reflexivity]].
    apply Z.ltb_lt in Pos.
    assert (Nb : 0 < n < m63).
    { split; [exact Pos|]. rewrite En. unfold w64. pose proof (Z.mod_pos_bound (hh - l + 1 + m63) m64 ltac:(unfold m64; lia)). unfold m63, m64 in *. lia. }
    (* item := lo; i := 0 *)
    set (s1 := set_stack sN []).
    set (sX := store s1 (sp + 5)%nat l).
    set (sI := store sX (S sp) 0).
    assert (UX : upd (sp + 5)%nat sN sX) by (exact (upd_store s1 (sp + 5)%nat l ltac:(lia))).
    assert (UI : upd (S sp) sX sI) by (apply upd_store; lia).
    assert (WI : flags_wf sI) by (eapply upd_wf; [exact UI|]; eapply upd_wf; [exact UX | exact WN]).
    assert (KI : keeps sp st sI).
    { eapply keeps_trans; [exact KN|]. eapply keeps_trans; [eapply (upd_keeps sp); [exact UX | lia | lia] | eapply (upd_keeps sp); [exact UI | lia | lia]]. }
    assert (OKnI : var_ok sI sp TInt (VInt n)).
    { eapply upd_var_ok; [exact UI | lia | lia |]. eapply upd_var_ok; [exact UX | lia | lia | exact OKn]. }
    assert (OKxI : var_ok sI (sp + 5)%nat TInt (VInt (range_item l 0))).
    { eapply upd_var_ok; [exact UI | lia | lia |]. cbn [range_item Z.eqb]. apply var_ok_store. lia. }
    assert (OKiI : var_ok sI (S sp) TInt (VInt 0)) by (apply var_ok_store; lia).
    assert (CI : forall tail o, bs tail sI o ->
              bs (IIf 0 [IConst (V32 0); IBr 1] [] :: set_var (sp + 5) TInt [ILocalGet tmpA] ++ set_var (S sp) TInt [IConst (V64 0)] ++ tail)
                 (set_stack sN [V32 (b2z (n <=? 0))]) o).
    { intros tail o H.
      replace (n <=? 0) with false by (symmetry; apply Z.leb_gt; exact Pos).
      eapply step_if; [reflexivity | cbn [b2z Z.eqb]; apply BNil |].
      cbn [close leave take_top length Nat.leb firstn app set_stack s_stack]. apply seq_normal. fold s1.
      apply (set_var_run (sp + 5)%nat _ _ s1 (set_stack s1 (V64 l :: V32 (slot_addr (sp + 5)) :: s_stack s1)) l o).
      - intros r o' Hr. cbn [app]. eapply BSimple; [reflexivity | cbn [step_simple set_stack s_stack s_locals s1]; rewrite LA; reflexivity | exact Hr].
      - reflexivity.
      - cbn [set_stack s_stack]. replace (set_stack s1 (s_stack s1)) with s1 by (symmetry; apply set_stack_same). fold sX.
        apply (set_var_run (S sp) _ _ sX (set_stack sX (V64 0 :: V32 (slot_addr (S sp)) :: s_stack sX)) 0 o).
        + intros r o' Hr. cbn [app]. apply step_const. exact Hr.
        + reflexivity.
        + cbn [set_stack s_stack]. replace (set_stack sX (s_stack sX)) with sX by (symmetry; apply set_stack_same). exact H. }
    (* the loop itself, from a state that holds the frame *)
    assert (LOOP : forall M sL, keeps sp st sL -> s_stack sL = [] ->
              Fr sp qk l n M 0 0 sL ->
              exists st' o b, loop_q qk M 0 false (map (fbody vars x body l) (zfrom 0 (Z.to_nat n))) = VBool b /\
                keeps sp st st' /\ s_stack st' = [V32 (b2z b)] /\ (o = ONormal st' \/ o = OBranch 0 st') /\
                bs [ILoop 1 (loop_body cg sp h qk x body)] sL o).
    { intros M sL KL SL FL.
      destruct (loop_ok cg sp vars x body qk h l n M Hfit Tb OkB Nb Hqk (Z.to_nat n - 1) 0 0 sL) as [st' [o [b [Eb [K' [S' [Ho B']]]]]]];
        try lia; try assumption.
      - eapply R_keeps; eassumption.
      - exists st', o, b. replace (S (Z.to_nat n - 1)) with (Z.to_nat n) in Eb by lia.
        split; [exact Eb|]. split; [eapply keeps_trans; eassumption|]. auto. }
    assert (ITEMS : map (fun k => eval (bind x (VInt (range_item l k)) (env_of vars)) body) (zseq n)
                    = map (fbody vars x body l) (zfrom 0 (Z.to_nat n))) by (rewrite zseq_zfrom; reflexivity).
    rewrite ITEMS, (quantified_loop qk _ _ Hqk).
    assert (SI : s_stack sI = []) by reflexivity.
    assert (NONQ : qk <> QExpr ->
      types_as TBool (match qk, eval (env_of vars) q with
                      | QExpr, VInt m => loop_q QExpr m 0 false (map (fbody vars x body l) (zfrom 0 (Z.to_nat n)))
                      | QExpr, _ => VUndef
                      | _, _ => loop_q qk 0 0 false (map (fbody vars x body l) (zfrom 0 (Z.to_nat n)))
                      end) /\
      computes sp h F (s_stack st)
        [IBlock 1 (loop_init cg sp h qk q lo hi ++ [ILoop 1 (loop_body cg sp h qk x body)])]
        (match qk, eval (env_of vars) q with
         | QExpr, VInt m => loop_q QExpr m 0 false (map (fbody vars x body l) (zfrom 0 (Z.to_nat n)))
         | QExpr, _ => VUndef
         | _, _ => loop_q qk 0 0 false (map (fbody vars x body l) (zfrom 0 (Z.to_nat n)))
         end) st).
    { intros NQ.
      assert (FL : Fr sp qk l n 0 0 0 sI).
      { split; [exact WI|]. split; [exact OKnI|]. split; [exact OKiI|]. split; [exact OKxI|]. intros E. contradiction. }
      destruct (LOOP 0 sI KI SI FL) as [st' [o [b [Eb [K' [S' [Ho B']]]]]]].
      replace (match qk, eval (env_of vars) q with
               | QExpr, VInt m => loop_q QExpr m 0 false (map (fbody vars x body l) (zfrom 0 (Z.to_nat n)))
               | QExpr, _ => VUndef
               | _, _ => loop_q qk 0 0 false (map (fbody vars x body l) (zfrom 0 (Z.to_nat n)))
               end) with (VBool b) by (rewrite <- Eb; destruct qk; try reflexivity; contradiction).
      split; [reflexivity|].
      apply (block_value sp h F st _ st' o b); [| exact Ho | exact S' | exact K'].
      unfold loop_init. rewrite <- !app_assoc. fold s0. apply Cn. cbn [app]. apply CHECK. apply CI.
      replace (match qk with
               | QExpr => set_var (S (S sp)) TInt (emit cg sp (deeper h) q) ++ set_var (S (S (S sp))) TInt [IConst (V64 0)]
               | QPct => set_var (S (S sp)) TInt (pct_code sp (deeper h) (emit cg sp (deeper h) q)) ++ set_var (S (S (S sp))) TInt [IConst (V64 0)]
               | _ => []
               end) with (@nil instr) by (destruct qk; try reflexivity; contradiction).
      exact B'. }
    destruct qk; try (apply NONQ; discriminate); try (exfalso; apply Hqk; reflexivity).
    (* <expr>: max_count := q; count := 0 *)
    clear NONQ. specialize (Tq eq_refl).
    assert (HRI : R cg sp (env_of vars) (set_stack sI (V32 (slot_addr (S (S sp))) :: s_stack sI))).
    { eapply R_keeps; [exact HR|]. eapply keeps_trans; [exact KI | apply keeps_stack]. }
    destruct (int_all q (OkQ eq_refl) cg sp (deeper h) F vars _ Tq HRI HF) as [Tvq [Dq Uq]]. cbn [set_stack s_stack] in Dq.
    destruct (eval (env_of vars) q) as [M| | |] eqn:Eq'; cbn in Tvq; try discriminate; try contradiction.
    - destruct (Dq ltac:(discriminate)) as [s2 [K2 [S2 C2]]]. cbn [val_of] in S2.
      set (sM := store (set_stack s2 (s_stack sI)) (S (S sp)) M).
      set (sC := store sM (S (S (S sp))) 0).
      assert (UM : upd (S (S sp)) sI sM).
      { eapply keeps_upd; [exact K2|]. exact (upd_store (set_stack s2 (s_stack sI)) (S (S sp)) M ltac:(lia)). }
      assert (UC : upd (S (S (S sp))) sM sC) by (apply upd_store; lia).
      assert (P : forall s t v, (s < MAXV)%nat -> s <> S (S sp) -> s <> S (S (S sp)) -> var_ok sI s t v -> var_ok sC s t v).
      { intros s t v Hs N1 N2 OK. eapply upd_var_ok; [exact UC | exact Hs | exact N2 |]. eapply upd_var_ok; [exact UM | exact Hs | exact N1 | exact OK]. }
      assert (FL : Fr sp QExpr l n M 0 0 sC).
      { split; [eapply upd_wf; [exact UC|]; eapply upd_wf; [exact UM | exact WI]|].
        split; [apply P; try lia; exact OKnI|]. split; [apply P; try lia; exact OKiI|]. split; [apply P; try lia; exact OKxI|].
        intros _. split; [eapply upd_var_ok; [exact UC | lia | lia |]; apply var_ok_store; lia | apply var_ok_store; lia]. }
      assert (KC : keeps sp st sC).
      { eapply keeps_trans; [exact KI|]. eapply keeps_trans; [eapply (upd_keeps sp); [exact UM | lia | lia] | eapply (upd_keeps sp); [exact UC | lia | lia]]. }
      destruct (LOOP M sC KC eq_refl FL) as [st' [o [b [Eb [K' [S' [Ho B']]]]]]].
      rewrite Eb. split; [reflexivity|].
      apply (block_value sp h F st _ st' o b); [| exact Ho | exact S' | exact K'].
      unfold loop_init. rewrite <- !app_assoc. fold s0. apply Cn. cbn [app]. apply CHECK. apply CI.
      apply (set_var_run (S (S sp)) _ _ sI s2 M o); [exact C2 | exact S2 |]. fold sM.
      apply (set_var_run (S (S (S sp))) _ _ sM (set_stack sM (V64 0 :: V32 (slot_addr (S (S (S sp)))) :: s_stack sM)) 0 o).
      + intros r o' Hr. cbn [app]. apply step_const. exact Hr.
      + reflexivity.
      + cbn [set_stack s_stack]. replace (set_stack sM (s_stack sM)) with sM by (symmetry; apply set_stack_same). exact B'.
    - (* the quantifier is undefined: the whole loop is *)
      destruct (Uq eq_refl ([IStore (width_of TInt) VARS_STACK_START] ++ set_var_undef (S (S sp)) false ++
                            set_var (S (S (S sp))) TInt [IConst (V64 0)] ++ [ILoop 1 (loop_body cg sp h QExpr x body)])) as [s2 [K2 B2]].
      split; [exact I|].
      apply (block_throw sp h F st _ s2 VUndef); [| | reflexivity].
      + unfold loop_init. rewrite <- !app_assoc. fold s0. apply Cn. cbn [app]. apply CHECK. apply CI.
        unfold set_var at 1. rewrite <- !app_assoc. cbn [app]. apply step_const. exact B2.
      + eapply keeps_trans; [exact KI|]. eapply keeps_weaken; [|exact K2]. lia.
  Qed.

  Lemma emit_ok_size : forall bound e, (esize e < bound)%nat -> frag1 e = true -> Ok e.
  Proof.
    induction bound as [|bound IHn]; [intros e H; inversion H|].
    intros e Hsz Fr.
    destruct e; try discriminate Fr;
      try (assert (IHe : frag1 e = true -> Ok e) by (intros X; apply IHn; [cbn [esize] in Hsz; lia | exact X]));
      try (assert (IHe1 : frag1 e1 = true -> Ok e1) by (intros X; apply IHn; [cbn [esize] in Hsz; lia | exact X]));
      try (assert (IHe2 : frag1 e2 = true -> Ok e2) by (intros X; apply IHn; [cbn [esize] in Hsz; lia | exact X]));
      try (assert (IHe3 : frag1 e3 = true -> Ok e3) by (intros X; apply IHn; [cbn [esize] in Hsz; lia | exact X]));
      try (assert (IHe4 : frag1 e4 = true -> Ok e4) by (intros X; apply IHn; [cbn [esize] in Hsz; lia | exact X]));
      unfold Ok; intros cg sp h F vars st t Ht HR HF.
    - (* EBool *) cbn in Ht. injection Ht as <-. split; [reflexivity|]. cbn [emit eval]. apply c_const; [discriminate|reflexivity].
    - (* EInt *) cbn in Ht. injection Ht as <-. split; [reflexivity|]. cbn [emit eval]. apply c_const; [discriminate|reflexivity].
    - (* EFilesize *) cbn in Ht. injection Ht as <-. split; [reflexivity|]. cbn [emit eval env_of e_len].
      apply c_filesize. exact (R_filesize _ _ _ _ HR).
    - (* EVar *) cbn [tyof] in Ht. destruct (clookup x cg) as [[slot t']|] eqn:L; [|discriminate]. cbn in Ht. injection Ht as <-.
      cbn [emit eval env_of e_vars]. rewrite L. exact (c_var cg sp h F vars st x slot t' HF HR L).
    - (* EGlobal *) cbn [tyof] in Ht. cbn [emit eval env_of e_globals]. rewrite Ht.
      pose proof (globals_typed g t Ht) as Tg. split; [exact Tg|].
      destruct t.
      + destruct (bool_or_undef _ Tg) as [E | [b E]]; rewrite E.
        * eapply (c_call_undef sp h F (s_stack st) st (HLookupBool g) [] 1 (V32 0)); try reflexivity; try exact HF; try exact I.
          -- cbn [host_spec]. rewrite E. reflexivity.
          -- intros N; contradiction.
        * eapply (c_call_undef sp h F (s_stack st) st (HLookupBool g) [] 0 (V32 (b2z b))); try reflexivity; try exact HF; try exact I.
          -- cbn [host_spec]. rewrite E. reflexivity.
          -- intros _. split; reflexivity.
          -- intros N; discriminate.
      + destruct (int_or_undef _ Tg) as [E | [z E]]; rewrite E.
        * eapply (c_call_undef sp h F (s_stack st) st (HLookupInt g) [] 1 (V64 0)); try reflexivity; try exact HF; try exact I.
          -- cbn [host_spec]. rewrite E. reflexivity.
          -- intros N; contradiction.
        * eapply (c_call_undef sp h F (s_stack st) st (HLookupInt g) [] 0 (V64 z)); try reflexivity; try exact HF; try exact I.
          -- cbn [host_spec]. rewrite E. reflexivity.
          -- intros _. split; reflexivity.
          -- intros N; discriminate.
    - (* ERule *) cbn in Ht. injection Ht as <-. split; [reflexivity|]. cbn [emit eval env_of e_rules]. apply c_rule.
    - (* ENot *) cbn [frag1] in Fr. cbn [tyof] in Ht.
      destruct (tyof cg sp e) as [[|]|] eqn:Ta; try discriminate. injection Ht as <-.
      destruct (IHe Fr cg sp h F vars st TBool Ta HR HF) as [Tv Ha].
      cbn [eval]. split; [destruct (eval (env_of vars) e); try exact I; reflexivity|].
      cbn [emit]. rewrite Ta, app_nil_r.
      eapply computes_bind; [exact Ha | intros ->; reflexivity |].
      intros N st' K S. destruct (bool_or_undef _ Tv) as [E | [b E]]; [contradiction|]. rewrite E in *.
      cbn [v_not]. eapply c_un; [exact S | reflexivity | discriminate | destruct b; reflexivity].
    - (* EAnd *) pose proof Fr as Fr0. cbn [frag1] in Fr. apply andb_true_iff in Fr. destruct Fr as [Fr1 Fr2].
      pose proof Ht as Ht0. cbn [tyof] in Ht.
      destruct (tyof cg sp e1) as [[|]|] eqn:Ta; try discriminate.
      destruct (tyof cg sp e2) as [[|]|] eqn:Tb; try discriminate. injection Ht as <-.
      split; [reflexivity|].
      assert (HR0 : R cg sp (env_of vars) (set_stack st [])) by (eapply R_keeps; [exact HR | apply keeps_stack]).
      assert (CH : AndChain (EAnd e1 e2)).
      { apply and_chain_step; [|exact (IHe2 Fr2)].
        apply and_chain_ok; [|exact Fr1]. intros y Hy Fy. apply IHn; [cbn [esize] in Hsz; lia | exact Fy]. }
      specialize (CH cg sp vars (set_stack st []) Ht0 HR0 eq_refl).
      rewrite emit_and_eq. unfold catch_undef. fold h0.
      destruct (and_chain cg sp h0 (EAnd e1 e2)) as [c|]; destruct (and_val (env_of vars) (EAnd e1 e2)) as [v|];
        cbn [chain_ok] in CH; try contradiction; cbn [code_and].
      + destruct CH as [Tv [Hc Ev]].
        pose proof (c_block_catch sp h F st _ _ Hc) as Blk. rewrite (or_false_bool _ Tv), Ev in Blk.
        cbn [eval] in Blk |- *. rewrite truthy_vbool in Blk. exact Blk.
      + cbn [eval] in CH |- *. rewrite truthy_vbool in CH. rewrite CH.
        apply (c_block_catch sp h F st [IConst (V32 1)] (VBool true)).
        apply (c_const sp h0 F0 (set_stack st []) (VBool true) (V32 1)); [discriminate | reflexivity].
    - (* EOr *) pose proof Fr as Fr0. cbn [frag1] in Fr. apply andb_true_iff in Fr. destruct Fr as [Fr1 Fr2].
      pose proof Ht as Ht0. cbn [tyof] in Ht.
      destruct (tyof cg sp e1) as [[|]|] eqn:Ta; try discriminate.
      destruct (tyof cg sp e2) as [[|]|] eqn:Tb; try discriminate. injection Ht as <-.
      split; [reflexivity|].
      assert (HR0 : R cg sp (env_of vars) (set_stack st [])) by (eapply R_keeps; [exact HR | apply keeps_stack]).
      assert (CH : OrChain (EOr e1 e2)).
      { apply or_chain_step; [|exact (IHe2 Fr2)].
        apply or_chain_ok; [|exact Fr1]. intros y Hy Fy. apply IHn; [cbn [esize] in Hsz; lia | exact Fy]. }
      specialize (CH cg sp vars (set_stack st []) Ht0 HR0 eq_refl).
      rewrite emit_or_eq.
      destruct (or_chain cg sp (EOr e1 e2)) as [c|]; destruct (or_val (env_of vars) (EOr e1 e2)) as [v|];
        cbn [chain_ok] in CH; try contradiction; cbn [code_or].
      + destruct CH as [Tv [Hc Ev]].
        pose proof (c_block_catch1 sp h F st _ _ Hc) as Blk.
        replace (or_true v) with (VBool (rawt v)) in Blk
          by (destruct (bool_or_undef _ Tv) as [-> | [[|] ->]]; reflexivity).
        rewrite Ev in Blk. cbn [eval] in Blk |- *. rewrite truthy_vbool in Blk. exact Blk.
      + cbn [eval] in CH |- *. rewrite truthy_vbool in CH. rewrite CH.
        apply (c_block_catch sp h F st [IConst (V32 0)] (VBool false)).
        apply (c_const sp h0 F0 (set_stack st []) (VBool false) (V32 0)); [discriminate | reflexivity].
    - (* EDefined *) cbn [frag1] in Fr. cbn [tyof] in Ht.
      destruct (tyof cg sp e) as [ta|] eqn:Ta; try discriminate. injection Ht as <-.
      cbn [eval]. split; [reflexivity|].
      assert (HR0 : R cg sp (env_of vars) (set_stack st [])) by (eapply R_keeps; [exact HR | apply keeps_stack]).
      destruct (IHe Fr cg sp h0 F0 vars (set_stack st []) ta Ta HR0 hspec_h0) as [Tv Ha].
      cbn [emit]. rewrite Ta. unfold catch_undef. fold h0.
      destruct ta.
      + rewrite app_nil_r.
        pose proof (c_block_catch sp h F st _ _ (c_defined_body sp (set_stack st []) _ _ Ha eq_refl)) as Blk.
        replace (VBool (negb (is_undef (eval (env_of vars) e))))
          with (or_false (match eval (env_of vars) e with VUndef => VUndef | _ => VBool true end));
          [exact Blk | destruct (eval (env_of vars) e); reflexivity].
      + pose proof (c_cast sp h0 F0 [] _ _ _ Ha Tv) as Hc.
        pose proof (c_block_catch sp h F st _ _ (c_defined_body sp (set_stack st []) _ _ Hc eq_refl)) as Blk.
        replace (VBool (negb (is_undef (eval (env_of vars) e))))
          with (or_false (match bool_cast (eval (env_of vars) e) with VUndef => VUndef | _ => VBool true end));
          [exact Blk | destruct (eval (env_of vars) e); reflexivity].
    - (* ENeg *) cbn [frag1] in Fr. cbn [tyof] in Ht.
      destruct (tyof cg sp e) as [[|]|] eqn:Ta; try discriminate. injection Ht as <-.
      cbn [eval emit].
      assert (HR1 : R cg sp (env_of vars) (set_stack st (V64 0 :: s_stack st))) by (eapply R_keeps; [exact HR | apply keeps_stack]).
      destruct (IHe Fr cg sp h F vars _ TInt Ta HR1 HF) as [Tv Ha]. cbn [set_stack s_stack] in Ha.
      split; [destruct (eval (env_of vars) e); try exact I; reflexivity|].
      eapply (computes_after sp h F (s_stack st) [IConst (V64 0)]); [apply keeps_stack | intros rest o Hr; cbn [app]; apply step_const; exact Hr |].
      eapply computes_bind; [exact Ha | intros ->; reflexivity |].
      intros N st' K S. destruct (int_or_undef _ Tv) as [E | [x E]]; [contradiction|]. rewrite E in *.
      cbn [v_neg]. eapply c_bin; [exact S | reflexivity | discriminate | cbn [val_of]; rewrite <- (Z.sub_0_l x); reflexivity].
    - (* EBitNot *) cbn [frag1] in Fr. cbn [tyof] in Ht.
      destruct (tyof cg sp e) as [[|]|] eqn:Ta; try discriminate. injection Ht as <-.
      cbn [eval emit].
      destruct (IHe Fr cg sp h F vars st TInt Ta HR HF) as [Tv Ha].
      split; [destruct (eval (env_of vars) e); try exact I; reflexivity|].
      eapply computes_bind; [exact Ha | intros ->; reflexivity |].
      intros N st' K S. destruct (int_or_undef _ Tv) as [E | [x E]]; [contradiction|]. rewrite E in *.
      cbn [v_bitnot].
      assert (X : Z.lxor x (-1) = Z.lnot x) by apply Z.lxor_m1_r.
      eapply (computes_after sp h F (s_stack st) [IConst (V64 (-1))]); [apply keeps_stack | intros rest o Hr; cbn [app]; apply step_const; exact Hr |].
      eapply c_bin; [cbn [set_stack s_stack]; rewrite S; reflexivity | reflexivity | discriminate | cbn [val_of]; rewrite X; reflexivity].
    - (* EArith *) cbn [frag1] in Fr. apply andb_true_iff in Fr. destruct Fr as [Fr1 Fr2]. cbn [tyof] in Ht.
      destruct (tyof cg sp e1) as [[|]|] eqn:Ta; try discriminate.
      destruct (tyof cg sp e2) as [[|]|] eqn:Tb; try discriminate. injection Ht as <-.
      destruct (IHe1 Fr1 cg sp h F vars st TInt Ta HR HF) as [Tva Ha].
      assert (Hb : forall st', keeps sp st st' -> s_stack st' = val_of (eval (env_of vars) e1) :: s_stack st ->
                   types_as TInt (eval (env_of vars) e2) /\
                   computes sp h F (val_of (eval (env_of vars) e1) :: s_stack st) (emit cg sp h e2) (eval (env_of vars) e2) st').
      { intros st' K S. assert (HR' : R cg sp (env_of vars) st') by (eapply R_keeps; eassumption).
        destruct (IHe2 Fr2 cg sp h F vars st' TInt Tb HR' HF) as [T Hb]. rewrite S in Hb. split; assumption. }
      assert (Tvb : types_as TInt (eval (env_of vars) e2)).
      { destruct (IHe2 Fr2 cg sp h F vars st TInt Tb HR HF) as [T _]. exact T. }
      cbn [eval]. rewrite (v_arith_ints op _ _ Tva Tvb).
      split; [apply on_ints2_types; apply arith_int_types|].
      pose proof (R_sp _ _ _ _ HR) as Hsp.
      cbn [emit]. destruct op.
      1,2,3,8,9,10: (apply (c_int2 sp h F (s_stack st) (s_stack st)); [exact Tva | exact Tvb | exact Ha | intros st' K S; exact (proj2 (Hb st' K S)) |
                     intros x y st'' K S; apply c_arith_plain; [exact I | exact S]]).
      + apply (c_int2 sp h F (s_stack st) (s_stack st)); [exact Tva | exact Tvb | exact Ha | intros st' K S; exact (proj2 (Hb st' K S)) |].
        intros x y st'' K S. apply c_div; [exact HF | exact Hsp | exact S].
      + apply (c_int2 sp h F (s_stack st) (s_stack st)); [exact Tva | exact Tvb | exact Ha | intros st' K S; exact (proj2 (Hb st' K S)) |].
        intros x y st'' K S. apply c_mod; [exact HF | exact Hsp | exact S].
      + apply (c_int2 sp h F (s_stack st) (s_stack st)); [exact Tva | exact Tvb | exact Ha | intros st' K S; exact (proj2 (Hb st' K S)) |].
        intros x y st'' K S. apply c_shift; [left; reflexivity | exact S].
      + apply (c_int2 sp h F (s_stack st) (s_stack st)); [exact Tva | exact Tvb | exact Ha | intros st' K S; exact (proj2 (Hb st' K S)) |].
        intros x y st'' K S. apply c_shift; [right; reflexivity | exact S].
    - (* ECmp *) cbn [frag1] in Fr. apply andb_true_iff in Fr. destruct Fr as [Fr1 Fr2]. cbn [tyof] in Ht.
      destruct (tyof cg sp e1) as [[|]|] eqn:Ta; try discriminate;
      destruct (tyof cg sp e2) as [[|]|] eqn:Tb; try discriminate.
      + (* booleans: only == *)
        destruct op; try discriminate. injection Ht as <-.
        destruct (IHe1 Fr1 cg sp h F vars st TBool Ta HR HF) as [Tva Ha].
        assert (Tvb : types_as TBool (eval (env_of vars) e2)).
        { destruct (IHe2 Fr2 cg sp h F vars st TBool Tb HR HF) as [T _]. exact T. }
        cbn [eval emit]. rewrite Ta.
        split.
        { destruct (bool_or_undef _ Tva) as [-> | [x ->]]; [exact I|].
          destruct (bool_or_undef _ Tvb) as [-> | [y ->]]; [exact I|]. reflexivity. }
        eapply computes_bind; [exact Ha | intros ->; reflexivity |].
        intros Na st1 K1 S1. destruct (bool_or_undef _ Tva) as [E | [x E]]; [contradiction|]. rewrite E in *.
        eapply (computes_after sp h F (s_stack st) [IUn I64ExtendUI32] _ _ st1 (set_stack st1 (V64 (b2z x) :: s_stack st))).
        { apply keeps_stack. }
        { intros rest o Hr. cbn [app]. eapply step_un; [exact S1 | reflexivity | exact Hr]. }
        assert (HR2 : R cg sp (env_of vars) (set_stack st1 (V64 (b2z x) :: s_stack st))).
        { eapply R_keeps; [exact HR | eapply keeps_trans; [exact K1 | apply keeps_stack]]. }
        destruct (IHe2 Fr2 cg sp h F vars _ TBool Tb HR2 HF) as [_ Hb]. cbn [set_stack s_stack] in Hb.
        eapply computes_bind; [exact Hb | intros ->; reflexivity |].
        intros Nb st3 K3 S3. destruct (bool_or_undef _ Tvb) as [E2 | [y E2]]; [contradiction|]. rewrite E2 in *.
        cbn [v_cmp]. split; [intros _ | intros E'; discriminate].
        pure_code ltac:(cbn [app]; (eapply step_un; [exact S3 | reflexivity |]);
          (eapply step_bin; [reflexivity | reflexivity |]); cbn [set_stack s_stack];
          replace (b2z x =? b2z y) with (Bool.eqb x y) by (destruct x, y; reflexivity)).
      + (* integers *)
        injection Ht as <-.
        destruct (IHe1 Fr1 cg sp h F vars st TInt Ta HR HF) as [Tva Ha].
        assert (Tvb : types_as TInt (eval (env_of vars) e2)).
        { destruct (IHe2 Fr2 cg sp h F vars st TInt Tb HR HF) as [T _]. exact T. }
        cbn [eval emit]. rewrite Ta. rewrite (v_cmp_ints op _ _ Tva Tvb).
        split; [apply on_ints2_types; intros; reflexivity|].
        apply (c_int2 sp h F (s_stack st) (s_stack st)); [exact Tva | exact Tvb | exact Ha | |].
        * intros st' K S. assert (HR' : R cg sp (env_of vars) st') by (eapply R_keeps; eassumption).
          destruct (IHe2 Fr2 cg sp h F vars st' TInt Tb HR' HF) as [_ Hb]. rewrite S in Hb. exact Hb.
        * intros x y st'' K S. eapply c_bin; [exact S | apply cmp_bin | discriminate | reflexivity].
    - (* ERead *) cbn [frag1] in Fr. destruct k as [n sg be]. cbn [tyof] in Ht.
      destruct (tyof cg sp e) as [[|]|] eqn:Ta; try discriminate.
      destruct (Nat.eqb n 1 || Nat.eqb n 2 || Nat.eqb n 4); try discriminate. injection Ht as <-.
      destruct (IHe Fr cg sp h F vars st TInt Ta HR HF) as [Tv Ha].
      cbn [eval emit env_of e_data e_len].
      change (match eval (env_of vars) e with
              | VInt o => read_int (IK n sg be) data (Z.of_nat (length data)) o
              | _ => VUndef end)
        with (on_int1 (fun o => read_int (IK n sg be) data (Z.of_nat (length data)) o) (eval (env_of vars) e)).
      split; [apply on_int1_types; intros; apply read_int_shape|].
      apply (c_int1 sp h F (s_stack st) (s_stack st)); [exact Tv | exact Ha |].
      intros x st'' K S.
      apply (c_call_undef_int sp h F (s_stack st) st'' (HReadInt n sg be) [V64 x]); try exact HF; try exact I; try reflexivity.
      * exact S.
      * apply read_int_shape.
    - (* EPat *) cbn [tyof] in Ht.
      destruct p as [i|]; [|discriminate Fr].
      cbn [eval resolve emit]. destruct ak; cbn [frag1] in Fr;
        [ | pose proof Fr as Fr1 | apply andb_true_iff in Fr; destruct Fr as [Fr1 Fr2] ].
      + (* $a *) injection Ht as <-. cbn [pat_item]. split; [reflexivity|].
        apply c_pat_prefix. intros st1 K D S.
        eapply (c_call_pure sp h F (s_stack st) st1 HCheckMatch [V32 (Z.of_nat i)]);
          [exact S | reflexivity | exact I | cbn [host_spec]; rewrite D, Nat2Z.id; reflexivity | discriminate | reflexivity].
      + (* $a at e *)
        destruct (tyof cg sp e1) as [[|]|] eqn:Ta; try discriminate. injection Ht as <-.
        cbn [env_of e_pm].
        change (pat_item (pm i) AAt (eval (env_of vars) e1) (eval (env_of vars) e2))
          with (on_int1 (fun o => VBool (match_at (pm i) o)) (eval (env_of vars) e1)).
        split; [apply on_int1_types; intros; reflexivity|].
        apply c_pat_prefix. intros st1 K D S.
        assert (HR1 : R cg sp (env_of vars) st1) by (eapply R_keeps; eassumption).
        destruct (IHe1 Fr1 cg sp h F vars st1 TInt Ta HR1 HF) as [Tv Ha]. rewrite S in Ha.
        apply (c_int1 sp h F (s_stack st) (V32 (Z.of_nat i) :: s_stack st)); [exact Tv | exact Ha |].
        intros x st'' K' S'.
        eapply (c_call_pure sp h F (s_stack st) st'' HMatchAt [V32 (Z.of_nat i); V64 x]);
          [exact S' | reflexivity | exact I | cbn [host_spec]; destruct K' as [_ [_ [Dn _]]]; rewrite (Dn D), Nat2Z.id; reflexivity | discriminate | reflexivity].
      + (* $a in (lo..hi) *)
        destruct (tyof cg sp e1) as [[|]|] eqn:Ta; try discriminate.
        destruct (tyof cg sp e2) as [[|]|] eqn:Tb; try discriminate. injection Ht as <-.
        cbn [env_of e_pm].
        change (pat_item (pm i) AIn (eval (env_of vars) e1) (eval (env_of vars) e2))
          with (on_ints2 (fun l hh => VBool (match_in (pm i) l hh)) (eval (env_of vars) e1) (eval (env_of vars) e2)).
        split; [apply on_ints2_types; intros; reflexivity|].
        apply c_pat_prefix. intros st1 K D S.
        assert (HR1 : R cg sp (env_of vars) st1) by (eapply R_keeps; eassumption).
        destruct (IHe1 Fr1 cg sp h F vars st1 TInt Ta HR1 HF) as [Tva Ha]. rewrite S in Ha.
        assert (Tvb : types_as TInt (eval (env_of vars) e2)).
        { destruct (IHe2 Fr2 cg sp h F vars st1 TInt Tb HR1 HF) as [T _]. exact T. }
        apply (c_int2 sp h F (s_stack st) (V32 (Z.of_nat i) :: s_stack st)); [exact Tva | exact Tvb | exact Ha | |].
        * intros st' K' S'. assert (HR' : R cg sp (env_of vars) st') by (eapply R_keeps; eassumption).
          destruct (IHe2 Fr2 cg sp h F vars st' TInt Tb HR' HF) as [_ Hb]. rewrite S' in Hb. exact Hb.
        * intros x y st'' K' S'.
          eapply (c_call_pure sp h F (s_stack st) st'' HMatchIn [V32 (Z.of_nat i); V64 x; V64 y]);
            [exact S' | reflexivity | exact I | cbn [host_spec]; destruct K' as [_ [_ [Dn _]]]; rewrite (Dn D), Nat2Z.id; reflexivity | discriminate | reflexivity].
    - (* ECount *) cbn [tyof] in Ht.
      destruct p as [i|]; [|discriminate Fr].
      cbn [eval resolve emit env_of e_pm]. destruct ranged; cbn [frag1] in Fr;
        [ apply andb_true_iff in Fr; destruct Fr as [Fr1 Fr2] | ].
      + destruct (tyof cg sp e1) as [[|]|] eqn:Ta; try discriminate.
        destruct (tyof cg sp e2) as [[|]|] eqn:Tb; try discriminate. injection Ht as <-.
        change (v_count (pm i) true (eval (env_of vars) e1) (eval (env_of vars) e2))
          with (on_ints2 (fun l hh => VInt (count_in (pm i) l hh)) (eval (env_of vars) e1) (eval (env_of vars) e2)).
        split; [apply on_ints2_types; intros; reflexivity|].
        apply c_pat_prefix. intros st1 K D S.
        assert (HR1 : R cg sp (env_of vars) st1) by (eapply R_keeps; eassumption).
        destruct (IHe1 Fr1 cg sp h F vars st1 TInt Ta HR1 HF) as [Tva Ha]. rewrite S in Ha.
        assert (Tvb : types_as TInt (eval (env_of vars) e2)).
        { destruct (IHe2 Fr2 cg sp h F vars st1 TInt Tb HR1 HF) as [T _]. exact T. }
        apply (c_int2 sp h F (s_stack st) (V32 (Z.of_nat i) :: s_stack st)); [exact Tva | exact Tvb | exact Ha | |].
        * intros st' K' S'. assert (HR' : R cg sp (env_of vars) st') by (eapply R_keeps; eassumption).
          destruct (IHe2 Fr2 cg sp h F vars st' TInt Tb HR' HF) as [_ Hb]. rewrite S' in Hb. exact Hb.
        * intros x y st'' K' S'.
          eapply (c_call_pure sp h F (s_stack st) st'' HMatchesIn [V32 (Z.of_nat i); V64 x; V64 y]);
            [exact S' | reflexivity | exact I | cbn [host_spec]; destruct K' as [_ [_ [Dn _]]]; rewrite (Dn D), Nat2Z.id; reflexivity | discriminate | reflexivity].
      + injection Ht as <-. cbn [v_count]. split; [reflexivity|].
        apply c_pat_prefix. intros st1 K D S.
        eapply (c_call_pure sp h F (s_stack st) st1 HMatches [V32 (Z.of_nat i)]);
          [exact S | reflexivity | exact I | cbn [host_spec]; rewrite D, Nat2Z.id; reflexivity | discriminate | reflexivity].
    - (* EOffset *) destruct p as [i|]; [|discriminate Fr]. cbn [frag1] in Fr. cbn [tyof] in Ht.
      destruct (tyof cg sp e) as [[|]|] eqn:Ta; try discriminate. injection Ht as <-.
      cbn [eval resolve emit env_of e_pm].
      replace (v_offset (pm i) (eval (env_of vars) e))
        with (on_int1 (fun z => v_offset (pm i) (VInt z)) (eval (env_of vars) e))
        by (destruct (eval (env_of vars) e); reflexivity).
      split; [apply on_int1_types; intros; apply v_offset_shape|].
      apply c_pat_prefix. intros st1 K D S.
      assert (HR1 : R cg sp (env_of vars) st1) by (eapply R_keeps; eassumption).
      destruct (IHe Fr cg sp h F vars st1 TInt Ta HR1 HF) as [Tv Ha]. rewrite S in Ha.
      apply (c_int1 sp h F (s_stack st) (V32 (Z.of_nat i) :: s_stack st)); [exact Tv | exact Ha |].
      intros x st'' K' S'.
      apply (c_call_undef_int sp h F (s_stack st) st'' HOffset [V32 (Z.of_nat i); V64 x]);
        [exact HF | exact S' | reflexivity | exact I | apply v_offset_shape | cbn [host_spec]; destruct K' as [_ [_ [Dn _]]]; rewrite (Dn D), Nat2Z.id; reflexivity].
    - (* ELength *) destruct p as [i|]; [|discriminate Fr]. cbn [frag1] in Fr. cbn [tyof] in Ht.
      destruct (tyof cg sp e) as [[|]|] eqn:Ta; try discriminate. injection Ht as <-.
      cbn [eval resolve emit env_of e_pm].
      replace (v_length (pm i) (eval (env_of vars) e))
        with (on_int1 (fun z => v_length (pm i) (VInt z)) (eval (env_of vars) e))
        by (destruct (eval (env_of vars) e); reflexivity).
      split; [apply on_int1_types; intros; apply v_length_shape|].
      apply c_pat_prefix. intros st1 K D S.
      assert (HR1 : R cg sp (env_of vars) st1) by (eapply R_keeps; eassumption).
      destruct (IHe Fr cg sp h F vars st1 TInt Ta HR1 HF) as [Tv Ha]. rewrite S in Ha.
      apply (c_int1 sp h F (s_stack st) (V32 (Z.of_nat i) :: s_stack st)); [exact Tv | exact Ha |].
      intros x st'' K' S'.
      apply (c_call_undef_int sp h F (s_stack st) st'' HLength [V32 (Z.of_nat i); V64 x]);
        [exact HF | exact S' | reflexivity | exact I | apply v_length_shape | cbn [host_spec]; destruct K' as [_ [_ [Dn _]]]; rewrite (Dn D), Nat2Z.id; reflexivity].
    - (* EOf: `any / all / N of <set>` without anchor *)
      assert (Fq : qk = QExpr -> frag1 e1 = true /\ consecutive_ids set = true)
        by (intros ->; destruct ak; try discriminate Fr; cbn [frag1] in Fr; apply andb_true_iff in Fr; exact Fr).
      assert (ak = ANone) as -> by (destruct ak, qk; try discriminate Fr; reflexivity).
      assert (Hqk : qk = QAny \/ qk = QAll \/ qk = QExpr) by (destruct qk; try discriminate Fr; auto).
      clear Fr. cbn [tyof] in Ht.
      destruct (search_ok sp st) as [st' [K [S [D C]]]].
      assert (EI : map (fun i => pat_item (e_pm (env_of vars) i) ANone (eval (env_of vars) e2) (eval (env_of vars) e3)) set
                   = map (fun m => VBool (matched m)) (pats_of set))
        by (unfold pats_of; rewrite map_map; reflexivity).
      destruct qk; try (destruct Hqk as [X | [X | X]]; discriminate X);
        destruct set as [|i0 set']; cbn in Ht; try discriminate Ht;
        assert (NE : i0 :: set' <> []) by discriminate.
      + (* any *) injection Ht as <-. rewrite (of_any (env_of vars) (i0 :: set') ANone e2 e3 e1). unfold of_items.
        rewrite EI, existsb_truthy_matched. split; [reflexivity|].
        cbn [emit]. eapply computes_after; [exact K | exact C |].
        assert (Dn : s_done (set_stack st' []) = true) by exact D.
        pose proof (any_runs_ok sp (runs (i0 :: set')) (set_stack st' []) (runs_nonempty (i0 :: set') NE) (runs_le _) Dn eq_refl) as B.
        pose proof (c_block_catch1 sp h F st' _ _ B) as Blk. rewrite S in Blk.
        replace (or_true (any_val (runs (i0 :: set')))) with (VBool (rawt (any_val (runs (i0 :: set'))))) in Blk
          by (destruct (bool_or_undef _ (any_val_types (runs (i0 :: set')))) as [-> | [[|] ->]]; reflexivity).
        rewrite (any_val_raw _ (runs_nonempty (i0 :: set') NE)) in Blk.
        unfold pats_of in Blk |- *.
        rewrite <- (perm_existsb _ matched _ _ (Permutation_map pm (runs_perm (i0 :: set')))) in Blk.
        exact Blk.
      + (* all *) injection Ht as <-. rewrite (of_all (env_of vars) (i0 :: set') ANone e2 e3 e1). unfold of_items.
        rewrite EI, forallb_truthy_matched. split; [reflexivity|].
        cbn [emit]. eapply computes_after; [exact K | exact C |].
        assert (Dn : s_done (set_stack st' []) = true) by exact D.
        pose proof (all_runs_ok sp (runs (i0 :: set')) (set_stack st' []) (runs_nonempty (i0 :: set') NE) (runs_le _) Dn eq_refl) as B.
        pose proof (c_block_catch sp h F st' _ _ B) as Blk. rewrite S in Blk.
        rewrite (or_false_bool _ (all_val_types _)), (all_val_raw _ (runs_nonempty (i0 :: set') NE)) in Blk.
        unfold pats_of in Blk |- *.
        rewrite <- (perm_forallb _ matched _ _ (Permutation_map pm (runs_perm (i0 :: set')))) in Blk.
        exact Blk.
      + (* N of: one call of pat_range_match over the single run *)
        destruct (tyof cg sp e1) as [[|]|] eqn:Tq; try discriminate.
        destruct (Fq eq_refl) as [Fq1 Cs]. rewrite Cs in Ht. injection Ht as <-.
        unfold consecutive_ids in Cs. destruct (runs (i0 :: set')) as [|r [|r' rs']] eqn:Rs; try discriminate.
        destruct (single_run _ _ Rs) as [P Hle].
        assert (HR1 : R cg sp (env_of vars) st') by (eapply R_keeps; eassumption).
        destruct (IHe1 Fq1 cg sp h F vars st' TInt Tq HR1 HF) as [Tvq _].
        cbn [eval]. rewrite EI.
        assert (EV : v_of QExpr (eval (env_of vars) e1) (map (fun m => VBool (matched m)) (pats_of (i0 :: set')))
                     = on_int1 (fun z => VBool (pat_range_match z (pats_of (run_ids r)))) (eval (env_of vars) e1)).
        { destruct (int_or_undef _ Tvq) as [-> | [z ->]]; [reflexivity|]. cbn [on_int1].
          rewrite of_fast_path_equiv_loop. unfold pats_of. rewrite (pat_range_match_perm z pm _ _ P). reflexivity. }
        rewrite EV. split; [destruct (int_or_undef _ Tvq) as [-> | [z ->]]; [exact I | reflexivity]|].
        cbn [emit]. rewrite Rs. eapply computes_after; [exact K | exact C |].
        unfold range_call. destruct r as [f l]. cbn [fst snd app] in *.
        change (IConst (V32 (Z.of_nat f)) :: IConst (V32 (Z.of_nat l)) :: emit cg sp h e1 ++ [ICall HRangeMatch])
          with ([IConst (V32 (Z.of_nat f)); IConst (V32 (Z.of_nat l))] ++ emit cg sp h e1 ++ [ICall HRangeMatch]).
        eapply (computes_after sp h F (s_stack st) _ _ _ st'
                  (set_stack st' (V32 (Z.of_nat l) :: V32 (Z.of_nat f) :: s_stack st))).
        * apply keeps_stack.
        * intros rest o Hr. rewrite <- S in Hr. cbn [app]. do 2 apply step_const. exact Hr.
        * assert (HR2 : R cg sp (env_of vars) (set_stack st' (V32 (Z.of_nat l) :: V32 (Z.of_nat f) :: s_stack st)))
            by (eapply R_keeps; [exact HR1 | apply keeps_stack]).
          destruct (IHe1 Fq1 cg sp h F vars _ TInt Tq HR2 HF) as [_ Hq]. cbn [set_stack s_stack] in Hq.
          apply (c_int1 sp h F (s_stack st) (V32 (Z.of_nat l) :: V32 (Z.of_nat f) :: s_stack st)); [exact Tvq | exact Hq |].
          intros x st'' K' S'.
          eapply (c_call_pure sp h F (s_stack st) st'' HRangeMatch [V32 (Z.of_nat f); V32 (Z.of_nat l); V64 x]).
          -- exact S'.
          -- reflexivity.
          -- exact I.
          -- cbn [host_spec]. destruct K' as [_ [_ [Dn _]]]. rewrite (Dn D), !Nat2Z.id. reflexivity.
          -- discriminate.
          -- unfold pats_of, run_ids. cbn [fst snd val_of]. rewrite Nat.add_1_r. reflexivity.
    - (* EForRange *) cbn [frag1] in Fr.
      apply andb_true_iff in Fr. destruct Fr as [Fr Fr4]. apply andb_true_iff in Fr. destruct Fr as [Fr Fr3].
      apply andb_true_iff in Fr. destruct Fr as [Fr1 Fr2].
      refine (for_range_ok qk e1 x e2 e3 e4 _ _ (IHe2 Fr2) (IHe3 Fr3) (IHe4 Fr4) cg sp h F vars st t Ht HR HF).
      + intros ->. discriminate Fr1.
      + intros ->. exact (IHe1 Fr1).
    - (* EWith *) cbn [frag1] in Fr. apply andb_true_iff in Fr. destruct Fr as [Fr1 Fr2]. cbn [tyof] in Ht.
      destruct (tyof cg (S sp) e1) as [td|] eqn:Td; try discriminate.
      destruct (Nat.ltb sp (Z.to_nat MAX_VARS)) eqn:Lt; try discriminate. apply Nat.ltb_lt in Lt.
      destruct (tyof ((x, (sp, td)) :: cg) (S sp) e2) as [[|]|] eqn:Tb; try discriminate. injection Ht as <-.
      cbn [eval emit]. rewrite Td. unfold catch_undef. fold (hW sp).
      change (bind x (eval (env_of vars) e1) (env_of vars)) with (env_of ((x, eval (env_of vars) e1) :: vars)).
      set (vd := eval (env_of vars) e1).
      (* the declaration *)
      assert (HRA : R cg (S sp) (env_of vars) (set_stack st [V32 (slot_addr sp)])).
      { apply R_more_slots; [eapply R_keeps; [exact HR | apply keeps_stack] | lia]. }
      destruct (IHe1 Fr1 cg (S sp) (hW sp) (FW sp) vars _ td Td HRA (hspec_hW sp)) as [Tvd Hd].
      cbn [set_stack s_stack] in Hd. fold vd in Tvd, Hd.
      assert (NS : forall s, vd <> VStr s) by (intros s E; rewrite E in Tvd; exact Tvd).
      destruct (c_set_var_catch sp td _ vd st Lt Tvd (NS []) NS Hd) as [st' [K [Sk [OK C]]]].
      (* the body *)
      assert (HRB : R ((x, (sp, td)) :: cg) (S sp) (env_of ((x, vd) :: vars)) st') by (eapply R_bind; try eassumption; lia).
      destruct (IHe2 Fr2 _ (S sp) h F _ st' TBool Tb HRB HF) as [Tvb Hb].
      split; [exact Tvb|].
      eapply computes_after; [exact K | exact C |].
      rewrite Sk in Hb. eapply computes_weaken; [|exact Hb]. lia.
  Qed.

  Theorem emit_ok1 : forall e, frag1 e = true -> Ok e.
  Proof. intros e. apply (emit_ok_size (S (esize e))). apply Nat.lt_succ_diag_r. Qed.

  (* ----------------------------------------------------- whole conditions *)
  (* any state a rule's code can start in: the data's size in the filesize
     global, sign-extended flag words; the contents of the variable area
     are arbitrary *)
  Definition start_ok (st : state) : Prop :=
    s_filesize st = Z.of_nat (length data) /\ flags_wf st.

  Lemma R_start : forall st, start_ok st -> R [] 0 (env_of []) st.
  Proof.
    intros st [Hf Hw]. repeat split; auto; try (cbn in *; discriminate). lia.
  Qed.

  (* the statement: for every condition of the fragment of Cond/Emit.v (the
     conditions [tyof] types: arithmetic with the guards of shift / division /
     remainder, comparisons, not / n-ary and / or / defined, uintN, $a [at|in],
     #a [in], @a[i], !a[i], external variables, rule references, with,
     any / all / N of <set>, for <none|any|all|N> x in (lo..hi); [Emit.frag1]
     leaves out what is emitted through emit_switch), the emitted
     code, run from any start state, ends normally with exactly the documented
     verdict on top of the stack.  No fuel: the relational semantics only has
     terminating runs (MachineProofs.bstep_exec gives the fuel). *)
  Definition emit_correct_statement : Prop :=
    forall e st, frag1 e = true -> tyof [] 0 e = Some TBool -> start_ok st ->
      exists st', bs (emit_condition e) st (ONormal st') /\
                  s_stack st' = V32 (b2z (holds (env_of []) e)) :: s_stack st.

  Theorem emit_correct : emit_correct_statement.
  Proof.
    intros e st Fr Ht Hs.
    assert (HR0 : R [] 0 (env_of []) (set_stack st [])).
    { eapply R_keeps; [apply R_start; exact Hs | apply keeps_stack]. }
    destruct (emit_ok1 e Fr [] 0%nat h0 F0 [] (set_stack st []) TBool Ht HR0 hspec_h0) as [Tv Hc].
    pose proof (c_block_catch 0 h0 F0 st (emit [] 0 h0 e) _ Hc) as Blk.
    rewrite (or_false_bool _ Tv) in Blk. destruct Blk as [D _].
    destruct (D ltac:(discriminate)) as [st' [K [S C]]].
    exists st'. split; [|exact S].
    unfold emit_condition, catch_undef, emit_bool. rewrite Ht, app_nil_r. fold h0.
    rewrite <- (app_nil_r [IBlock 1 (emit [] 0 h0 e)]). apply C. apply BNil.
  Qed.

  (* ... hence the executable semantics computes it for every sufficient
     amount of fuel *)
  Corollary run_condition_correct : forall e,
    frag1 e = true -> tyof [] 0 e = Some TBool ->
    exists N, forall fuel, (N <= fuel)%nat ->
      run_condition data pm rules globals fuel e = Some (holds (env_of []) e).
  Proof.
    intros e Fr Ht.
    assert (Hs : start_ok (init_state data)) by (split; [reflexivity | intros slot _; apply word_ok_0]).
    destruct (emit_correct e _ Fr Ht Hs) as [st' [B S]].
    destruct (bstep_exec host _ _ _ B) as [N HN]. exists N. intros fuel Hf.
    unfold run_condition. rewrite (HN fuel Hf), S. cbn [init_state s_stack].
    destruct (holds (env_of []) e); reflexivity.
  Qed.

  (* the emitted code never traps and never gets stuck *)
  Corollary emit_no_trap : forall e st o,
    frag1 e = true -> tyof [] 0 e = Some TBool -> start_ok st ->
    bs (emit_condition e) st o -> exists st', o = ONormal st'.
  Proof.
    intros e st o Fr Ht Hs Ho. destruct (emit_correct e st Fr Ht Hs) as [st' [B _]].
    exists st'. exact (bstep_deterministic host _ _ _ _ Ho B).
  Qed.

  (* variables are written before they are read: whatever the variable area
     contains when a rule's code starts (left-overs of the rules evaluated
     before, of other loops that used the same slots), the verdict is the same *)
  Corollary vars_written_before_read : forall e st1 st2 o1 o2,
    frag1 e = true -> tyof [] 0 e = Some TBool -> start_ok st1 -> start_ok st2 ->
    s_stack st1 = [] -> s_stack st2 = [] ->
    bs (emit_condition e) st1 o1 -> bs (emit_condition e) st2 o2 ->
    exists a b, o1 = ONormal a /\ o2 = ONormal b /\ s_stack a = s_stack b.
  Proof.
    intros e st1 st2 o1 o2 Fr Ht H1 H2 S1 S2 B1 B2.
    destruct (emit_correct e st1 Fr Ht H1) as [a [Ba Sa]].
    destruct (emit_correct e st2 Fr Ht H2) as [b [Bb Sb]].
    exists a, b. split; [exact (bstep_deterministic host _ _ _ _ B1 Ba)|].
    split; [exact (bstep_deterministic host _ _ _ _ B2 Bb)|]. rewrite Sa, Sb, S1, S2. reflexivity.
  Qed.
End Correct.

(* the fragment is not empty: a condition with undefined values, a pattern
   anchored at a computed offset, a division and a `with` *)
Example frag1_example :
  let e := EWith 0%nat (EArith Div EFilesize (EArith Sub EFilesize (EInt 5)))
             (EOr (ECmp Eq (EVar 0%nat) (EInt 1)) (EPat (PId 0) AAt (EArith Add EFilesize (EInt (-2))) (EInt 0))) in
  frag1 e = true /\ tyof [] 0 e = Some TBool /\
  run_condition [97; 98; 99; 97; 98] (fun _ => [(3, 2)]) (fun _ => false) (fun _ => VUndef) 1000 e = Some true.
Proof. vm_compute. repeat split. Qed.

(* `N of <set>` with N computed at run time (here 0: true when no pattern of the
   set matches) and `all of` over ids that do not form one run are in the part
   the theorem covers *)
Example frag1_of_example :
  let e := EAnd (EOf QExpr (EArith Sub EFilesize (EInt 5)) [1%nat; 0%nat] ANone (EInt 0) (EInt 0))
                (ENot (EOf QAll (EInt 0) [0%nat; 2%nat] ANone (EInt 0) (EInt 0))) in
  frag1 e = true /\ tyof [] 0 e = Some TBool /\
  run_condition [97; 98; 99; 97; 98] (fun i => match i with 2%nat => [(3, 2)] | _ => [] end)
                (fun _ => false) (fun _ => VUndef) 1000 e = Some true.
Proof. vm_compute. repeat split. Qed.

(* nested loops (the inner one reuses the slots above the outer frame, and is
   re-initialised on every outer iteration), the arm of <expr>; an inverted
   range and an undefined bound make the loop false whatever the quantifier *)
Example frag1_loop_example :
  let inner := EForRange QAny (EInt 0) 1%nat (EVar 0%nat) (EArith Add (EVar 0%nat) (EInt 1))
                 (ECmp Eq (ERead (IK 1 false false) (EVar 1%nat)) (EInt 97)) in
  let e := EForRange QExpr (EInt 2) 0%nat (EInt 0) (EArith Sub EFilesize (EInt 3)) inner in
  let inverted := EForRange QAll (EInt 0) 0%nat (EInt 5) (EInt 3) (EBool true) in
  let undefined_bound := EForRange QNone (EInt 0) 0%nat (EInt 0) (ERead (IK 1 false false) (EInt 99)) (EBool false) in
  frag1 e = true /\ tyof [] 0 e = Some TBool /\ tyof [] 0 inverted = Some TBool /\ tyof [] 0 undefined_bound = Some TBool /\
  run_condition [97; 98; 99; 97; 98] (fun _ => []) (fun _ => false) (fun _ => VUndef) 5000 e = Some true /\
  run_condition [97; 98; 99; 97; 98] (fun _ => []) (fun _ => false) (fun _ => VUndef) 5000 inverted = Some false /\
  run_condition [97; 98; 99; 97; 98] (fun _ => []) (fun _ => false) (fun _ => VUndef) 5000 undefined_bound = Some false.
Proof. vm_compute. repeat split. Qed.
