(* Correspondence cases for C05.  For a generated (rule set, buffer, scan mode)
   the harness records the expression shape of every rule with the run-time
   integer operands it evaluated (None: the operand is undefined in that mode,
   e.g. filesize in block mode), and the outcome of the scan and of the reuse
   scan on the same scanner, observed in a child process.

   K: the model predicts the outcome CLASS (crash / no crash) of the shapes it
      covers: host-function argument conversions through the generated table
      (Gen/HostFns.v) and the interpreter of Cond/HostModel.v, WASM traps
      through Cond/Traps.v and the generated guards.
   S: the property itself: the outcome is Ok or a documented error. *)
From Coq Require Import List ZArith Bool String.
From YV Require Import Cond.HostTypes Cond.HostModel Cond.Traps Cond.StrModel Gen.HostFns.
Import ListNotations.
Local Open Scope string_scope.
Local Open Scope Z_scope.

Inductive shape :=
| SPatRangeMatch (required : option Z)            (* N of (contiguous pattern ids) *)
| SPct (n q : option Z)                           (* percentage quantifier over n items *)
| SDiv (a b : option Z)
| SRem (a b : option Z)
| SShift (left : bool) (a b : option Z)
| SPatMatchAt (off : option Z)                    (* $a at N *)
| SMatchesInRange (fname : string) (lo hi : option Z)   (* $a in (lo..hi): is_pat_match_in, #a in (lo..hi): pat_matches_in *)
| SPatIndex (fname : string) (i : option Z)       (* @a[N]: pat_offset, !a[N]: pat_length *)
| SUintN (fname : string) (width : Z) (off : option Z) (datalen : option Z)
| SAbs (x : option Z)
| SHashRange (fname : string) (off size : option Z)
| SConsoleRange (off len : option Z) (datalen : option Z)
| SDataRange (fname : string) (off len : option Z)
| SStrOp (op : str_op) (runtime : bool) (a b : option bytes) (matched : option bool)
    (* `a op b`; runtime: some operand is known only at scan time, so the host function of
       wasm/string.rs runs; matched: whether the rule (whose condition is this expression) matched *)
| SOther.                                         (* outside the model *)

Inductive obs := OOk | OErr (timeout : bool) | OPanic | OAbort | OTimeout | ONotRun.

Record case := mkCase { release : bool; scans : list (list shape * obs) }.

Definition prof_of (c : case) : profile := if release c then Release else Debug.

(* Some true: the model says the evaluation crashes; Some false: it does not;
   None: the shape is outside the model *)
Definition shape_crashes (prof : profile) (s : shape) : option bool :=
  match s with
  | SPatRangeMatch (Some r) => Some (is_rpanic (pat_range_match host_fns prof 0 r))
  | SPct (Some n) (Some q) => Some ((0 <? n) && traps_become_panics && is_trap (emit_pct pct_trunc_trapping n q))
  | SDiv (Some a) (Some b) => Some (traps_become_panics && is_trap (emit_div div_guards a b))
  | SRem (Some a) (Some b) => Some (traps_become_panics && is_trap (emit_rem div_guards a b))
  | SShift l (Some a) (Some b) => Some (traps_become_panics && is_trap (emit_shift div_guards l a b))
  | SPatMatchAt (Some o) => Some (is_rpanic (is_pat_match_at host_fns prof [] o))
  | SMatchesInRange f (Some lo) (Some hi) => Some (is_rpanic (matches_in_range host_fns prof f [] lo hi))
  | SPatIndex f (Some i) => Some (is_rpanic (pat_index host_fns prof f [] i))
  | SUintN f w (Some o) dl => Some (is_rpanic (read_at host_fns prof f w dl o))
  | SAbs (Some x) => Some (is_rpanic (math_abs module_fns prof x))
  | SHashRange f (Some o) (Some sz) => Some (is_rpanic (hash_range module_fns prof f (Some 0) o sz))
  | SConsoleRange (Some o) (Some l) dl => Some (is_rpanic (console_range module_fns prof "console.log_bytes" dl o l))
  | SDataRange f (Some o) (Some l) => Some (is_rpanic (data_range module_fns prof f o l))
  | SStrOp op rt (Some a) (Some b) _ => Some (rt && is_rpanic (str_eval str_guards op a b))
  | SOther => None
  (* an undefined operand: the expression is undefined before the call / instruction *)
  | _ => Some false
  end.

(* where the model gives a verdict and the rule's verdict was observed, they agree *)
Definition verdict_ok (s : shape) : bool :=
  match s with
  | SStrOp op _ (Some a) (Some b) (Some m) =>
      match str_eval str_guards op a b with Ret (Some v) => Bool.eqb v m | _ => true end
  | _ => true
  end.

Definition crashed (o : obs) : bool := match o with OPanic | OAbort => true | _ => false end.

Definition agree (prof : profile) (sc : list shape * obs) : bool :=
  let preds := map (shape_crashes prof) (fst sc) in
  match snd sc with
  | ONotRun | OErr true | OTimeout => true          (* nothing observed / time is not modelled *)
  | o =>
      (if existsb (fun p => match p with Some true => true | _ => false end) preds then crashed o
       else if forallb (fun p => match p with Some false => true | _ => false end) preds then negb (crashed o)
       else true)
      && (crashed o || forallb verdict_ok (fst sc))
  end.

Definition check_case (c : case) : bool := forallb (agree (prof_of c)) (scans c).

Definition acceptable (o : obs) : bool := match o with OOk | OErr _ => true | _ => false end.
(* the scan returns results or a documented error, and so does the next scan on the same scanner *)
Definition spec_case (c : case) : bool := forallb (fun sc => acceptable (snd sc)) (scans c).
