(* C05 - model of how host functions (called from the WASM code of a rule
   condition) treat the i64 / i32 arguments they receive.  Definitions only.

   Two layers:
   1. a small interpreter [run_uses] for the per-argument conversion tables
      that translate/gen_hostfns.py extracts from the source (Gen/HostFns.v),
      with an explicit [Panic] outcome, and an interval analysis [safe_uses]
      that decides, from the table alone, that no value of the argument can
      reach a panic (proved sound in HostModelProofs.v);
   2. functional models of the host functions with non-trivial argument
      handling; they take the conversion part from the generated table
      ([conv_named]) so that they follow the source. *)
From Coq Require Import List ZArith String Bool.
From YV Require Import Cond.HostTypes.
Import ListNotations.
Local Open Scope Z_scope.

(* ------------------------------------------------------------------ integer types *)
Definition ity_min (t : ity) : Z :=
  match t with
  | I8 => -128 | I16 => -32768 | I32 => -2147483648
  | I64 | ISize => -9223372036854775808
  | U8 | U16 | U32 | U64 | USize => 0
  end.
Definition ity_max (t : ity) : Z :=
  match t with
  | I8 => 127 | I16 => 32767 | I32 => 2147483647
  | I64 | ISize => 9223372036854775807
  | U8 => 255 | U16 => 65535 | U32 => 4294967295
  | U64 | USize => 18446744073709551615
  end.
Definition ity_card (t : ity) : Z := ity_max t - ity_min t + 1.
Definition fits (t : ity) (v : Z) : bool := (ity_min t <=? v) && (v <=? ity_max t).
(* `as` between integer types: two's complement wrap-around *)
Definition wrap (t : ity) (v : Z) : Z := (v - ity_min t) mod ity_card t + ity_min t.

Definition i64_min : Z := ity_min I64.
Definition i64_max : Z := ity_max I64.

(* Rust profile: overflow checks on (dev) or off (release) *)
Inductive profile := Debug | Release.

(* ------------------------------------------------------------------ layer 1: interpreter *)
Inductive outcome := Done | Panic.

(* raw argument and the most recent conversion result *)
Record st := mkSt { raw : Z; rawty : ity; cv : Z; cvty : ity }.
Inductive step_res := Next (s : st) | Stop | Crash.

Definition cur (oc : bool) (s : st) : Z * ity := if oc then (cv s, cvty s) else (raw s, rawty s).
Definition set_cv (v : Z) (t : ity) (s : st) : st := mkSt (raw s) (rawty s) v t.

Definition opval (env : string -> Z) (o : operand) : Z :=
  match o with OpConst k => k | OpArg n => env n | OpUnknown n => env n end.
Definition arith_apply (op : arith) (a b : Z) : Z :=
  match op with Add => a + b | Sub => a - b | Mul => a * b end.

(* [len]: length of the collection a LookupUnwrap indexes *)
Definition step (prof : profile) (env : string -> Z) (len : Z) (u : use) (s : st) : step_res :=
  let '(v, t) := cur (u_on_conv u) s in
  match u_conv u with
  | TryIntoUnwrap t' => if fits t' v then Next (set_cv v t' s) else Crash
  | TryIntoOk t' => if fits t' v then Next (set_cv v t' s) else Stop
  | TryIntoOr t' d => if fits t' v then Next (set_cv v t' s)
                      else match d with
                           | Some k => Next (set_cv (wrap t' k) t' s)
                           | None => Next (set_cv (ity_min t') t' s)   (* some value of the type *)
                           end
  | AsCast t' => Next (set_cv (wrap t' v) t' s)
  | GuardNonNeg => if v <? 0 then Stop else Next s
  | AssertPos => if 0 <? v then Next s else Crash
  | UncheckedArith op o =>
      let r := arith_apply op v (opval env o) in
      if fits t r then Next (if u_binds u then set_cv r t s else s)
      else match prof with
           | Debug => Crash
           | Release => Next (if u_binds u then set_cv (wrap t r) t s else s)
           end
  | UncheckedAbs =>
      if (v =? ity_min t) && (ity_min t <? 0) then
        match prof with Debug => Crash | Release => Next s end
      else Next s
  | LookupUnwrap => if (0 <=? v) && (v <? len) then Next s else Crash
  | Checked _ | Compared _ | Passed _ | Formatted => Next s
  end.

Fixpoint run_uses (prof : profile) (env : string -> Z) (len : Z) (us : list use) (s : st) : outcome :=
  match us with
  | [] => Done
  | u :: rest =>
      match step prof env len u s with
      | Crash => Panic
      | Stop => Done
      | Next s' => run_uses prof env len rest s'
      end
  end.

Definition init_st (t : ity) (v : Z) : st := mkSt v t v t.
Definition run_arg (prof : profile) (env : string -> Z) (len : Z) (a : harg) (v : Z) : outcome :=
  run_uses prof env len (a_uses a) (init_st (a_ty a) v).

(* a whole function: every integer argument is run with its value from env *)
Definition run_fn (prof : profile) (env : string -> Z) (len : Z) (f : hfn) : outcome :=
  if existsb (fun a => match run_arg prof env len a (env (a_name a)) with Panic => true | Done => false end) (f_args f)
  then Panic else Done.

(* ------------------------------------------------------------------ interval analysis *)
Record ast := mkA { alo : Z; ahi : Z; aty : ity; clo : Z; chi : Z; cty : ity }.

Definition acur (oc : bool) (a : ast) : Z * Z * ity := if oc then (clo a, chi a, cty a) else (alo a, ahi a, aty a).
Definition aset_cv (lo hi : Z) (t : ity) (a : ast) : ast := mkA (alo a) (ahi a) (aty a) lo hi t.
Definition aset_src (oc : bool) (lo hi : Z) (a : ast) : ast :=
  if oc then mkA (alo a) (ahi a) (aty a) lo hi (cty a) else mkA lo hi (aty a) (clo a) (chi a) (cty a).

Definition within (t : ity) (lo hi : Z) : bool := (ity_min t <=? lo) && (hi <=? ity_max t).

(* [oenv]: interval known for the other integer arguments (operands of + -) *)
Definition full_oenv : string -> Z * Z := fun _ => (i64_min, i64_max).

Definition astep (prof : profile) (oenv : string -> Z * Z) (u : use) (a : ast) : option ast :=
  let '(lo, hi, t) := acur (u_on_conv u) a in
  match u_conv u with
  | TryIntoUnwrap t' => if within t' lo hi then Some (aset_cv lo hi t' a) else None
  | TryIntoOk t' =>
      let lo' := Z.max lo (ity_min t') in let hi' := Z.min hi (ity_max t') in
      Some (aset_cv lo' hi' t' (aset_src (u_on_conv u) lo' hi' a))
  | TryIntoOr t' _ => Some (aset_cv (ity_min t') (ity_max t') t' a)
  | AsCast t' => if within t' lo hi then Some (aset_cv lo hi t' a) else Some (aset_cv (ity_min t') (ity_max t') t' a)
  | GuardNonNeg => Some (aset_src (u_on_conv u) (Z.max lo 0) hi a)
  | AssertPos => if 0 <? lo then Some a else None
  | UncheckedArith op o =>
      match prof with
      | Release => Some (if u_binds u then aset_cv (ity_min t) (ity_max t) t a else a)
      | Debug =>
          let oi := match o with
                    | OpConst k => Some (k, k)
                    | OpArg n => Some (oenv n)
                    | OpUnknown _ => None
                    end in
          match oi, op with
          | Some (ol, oh), Add =>
              if within t (lo + ol) (hi + oh) then Some (if u_binds u then aset_cv (lo + ol) (hi + oh) t a else a) else None
          | Some (ol, oh), Sub =>
              if within t (lo - oh) (hi - ol) then Some (if u_binds u then aset_cv (lo - oh) (hi - ol) t a else a) else None
          | _, _ => None
          end
      end
  | UncheckedAbs =>
      match prof with
      | Release => Some a
      | Debug => if (ity_min t <? lo) || (0 <=? ity_min t) then Some a else None
      end
  | LookupUnwrap => None
  | Checked _ | Compared _ | Passed _ | Formatted => Some a
  end.

Fixpoint safe_uses (prof : profile) (oenv : string -> Z * Z) (us : list use) (a : ast) : bool :=
  match us with
  | [] => true
  | u :: rest => match astep prof oenv u a with Some a' => safe_uses prof oenv rest a' | None => false end
  end.

Definition ast_of (t : ity) (lo hi : Z) : ast := mkA lo hi t lo hi t.
(* the argument restricted to [lo, hi], the other arguments to oenv *)
Definition arg_safe_on (prof : profile) (oenv : string -> Z * Z) (a : harg) (lo hi : Z) : bool :=
  safe_uses prof oenv (a_uses a) (ast_of (a_ty a) lo hi).
Definition init_ast (t : ity) : ast := ast_of t (ity_min t) (ity_max t).
(* every value of the argument's type, every i64 value of the other arguments *)
Definition arg_safe (prof : profile) (a : harg) : bool := arg_safe_on prof full_oenv a (ity_min (a_ty a)) (ity_max (a_ty a)).

(* ------------------------------------------------------------------ allow lists and the table check *)
Definition prefixb (p s : string) : bool := String.prefix p s.

Definition is_emitter_controlled (ctl : list (string * string * string)) (f a : string) : bool :=
  existsb (fun e => prefixb (fst (fst e)) f && String.eqb (snd (fst e)) a) ctl.
Definition is_known_unsafe (known : list (string * string * string)) (f a : string) : bool :=
  existsb (fun e => String.eqb (fst (fst e)) f && String.eqb (snd (fst e)) a) known.

(* every integer argument of every function of the table is safe, or is
   emitter-controlled (never a rule's run-time value), or is a recorded finding *)
Definition table_safe_with (prof : profile) (ctl known : list (string * string * string)) (fns : list hfn) : bool :=
  forallb (fun f => forallb (fun a => arg_safe prof a
                                      || is_emitter_controlled ctl (f_name f) (a_name a)
                                      || is_known_unsafe known (f_name f) (a_name a)) (f_args f)) fns.

(* the (function, argument) pairs that need the known-findings allow list *)
Definition unsafe_runtime_args (prof : profile) (ctl : list (string * string * string)) (fns : list hfn) : list (string * string) :=
  flat_map (fun f => map (fun a => (f_name f, a_name a))
                         (filter (fun a => negb (arg_safe prof a) && negb (is_emitter_controlled ctl (f_name f) (a_name a))) (f_args f))) fns.

Definition find_fn (fns : list hfn) (name : string) : option hfn := find (fun f => String.eqb (f_name f) name) fns.
Definition find_arg (fns : list hfn) (fname aname : string) : option harg :=
  match find_fn fns fname with
  | Some f => find (fun a => String.eqb (a_name a) aname) (f_args f)
  | None => None
  end.

(* ------------------------------------------------------------------ layer 2: functional models *)
Inductive res (A : Type) := Ret (a : A) | Undef | RPanic.
Arguments Ret {A} a. Arguments Undef {A}. Arguments RPanic {A}.

(* result of the conversion part of an argument: the value the body goes on with *)
Inductive cres := CVal (v : Z) | CStop | CPanic | CMissing.

Fixpoint conv_uses (prof : profile) (env : string -> Z) (len : Z) (us : list use) (s : st) : cres :=
  match us with
  | [] => CVal (cv s)
  | u :: rest =>
      match step prof env len u s with
      | Crash => CPanic
      | Stop => CStop
      | Next s' => conv_uses prof env len rest s'
      end
  end.

(* the argument [aname] of function [fname] of table [fns], applied to v *)
Definition conv_named (fns : list hfn) (prof : profile) (env : string -> Z) (fname aname : string) (v : Z) : cres :=
  match find_arg fns fname aname with
  | Some a => conv_uses prof env 0 (a_uses a) (init_st (a_ty a) v)
  | None => CMissing
  end.

Definition no_env : string -> Z := fun _ => 0.

Section Models.
  (* the generated tables (Gen/HostFns.v supplies them) *)
  Variable wasm_fns : list hfn.
  Variable mod_fns : list hfn.
  Variable prof : profile.

  (* pat_range_match(start, end, required): at least `required` of the patterns match.
     [nmatching]: how many patterns of the id range have a match. *)
  Definition pat_range_match (nmatching required : Z) : res bool :=
    match conv_named wasm_fns prof no_env "pat_range_match" "required" required with
    | CVal r => Ret (r <=? nmatching)
    | CStop => Undef | CPanic => RPanic | CMissing => Undef
    end.

  (* is_pat_match_at(pattern, offset): [starts] are the match offsets of the pattern *)
  Definition is_pat_match_at (starts : list Z) (offset : Z) : res bool :=
    match conv_named wasm_fns prof no_env "is_pat_match_at" "offset" offset with
    | CVal o => Ret (existsb (Z.eqb o) starts)
    | CStop => Ret false           (* `return false` of the negative-offset guard *)
    | CPanic => RPanic | CMissing => Undef
    end.

  (* MatchList::matches_in_range(lo..=hi) reached from is_pat_match_in / pat_matches_in *)
  Definition matches_in_range (fname : string) (starts : list Z) (lo hi : Z) : res Z :=
    match conv_named wasm_fns prof no_env fname "upper_bound" hi with
    | CStop => Ret 0               (* `return 0` when the end of the range is negative *)
    | CPanic => RPanic | CMissing => Undef
    | CVal e =>
        match conv_named wasm_fns prof no_env fname "lower_bound" lo with
        | CVal s => Ret (Z.of_nat (List.length (filter (fun m => (s <=? m) && (m <=? e)) starts)))
        | CStop => Ret 0 | CPanic => RPanic | CMissing => Undef
        end
    end.

  (* pat_offset / pat_length (pattern, index): 1-based index into the match list *)
  Definition pat_index (fname : string) (vals : list Z) (index : Z) : res Z :=
    match conv_named wasm_fns prof no_env fname "index" index with
    | CVal i => if i =? 0 then Undef                     (* checked_sub(1)? *)
                else if Z.of_nat (List.length vals) <? i then Undef     (* matches.get(i - 1)? *)
                else match nth_error vals (Z.to_nat (i - 1)) with Some v => Ret v | None => Undef end
    | CStop => Undef | CPanic => RPanic | CMissing => Undef
    end.

  (* uintN / intN / floatN (offset): reads [width] bytes at offset from data of length datalen
     (None: no scanned data, block mode); the value read is abstracted to the offset *)
  Definition read_at (fname : string) (width : Z) (datalen : option Z) (offset : Z) : res Z :=
    match conv_named wasm_fns prof no_env fname "offset" offset with
    | CVal o => match datalen with
                | None => Undef
                | Some n => if o + width <=? n then Ret o else Undef
                end
    | CStop => Undef | CPanic => RPanic | CMissing => Undef
    end.

  (* math.abs *)
  Definition math_abs (x : Z) : res Z :=
    match conv_named mod_fns prof no_env "math.abs" "x" x with
    | CVal v => Ret (if v =? i64_min then i64_min else Z.abs v)
    | CStop => Undef | CPanic => RPanic | CMissing => Undef
    end.

  (* hash.md5 / sha1 / sha256 / crc32 / checksum32 (offset, size) *)
  Definition hash_range (fname : string) (datalen : option Z) (offset size : Z) : res (Z * Z) :=
    let env := fun n => if String.eqb n "size" then size else 0 in
    match conv_named mod_fns prof env fname "offset" offset with
    | CVal e => match datalen with
                | Some n => if (offset <=? e) && (e <=? n) then Ret (offset, e) else Undef
                | None => Undef
                end
    | CStop => Undef | CPanic => RPanic | CMissing => Undef
    end.

  (* console.log(offset, length) *)
  Definition console_range (fname : string) (datalen : option Z) (offset length : Z) : res unit :=
    match datalen with
    | None => Ret tt                 (* scanned_data()? comes first: nothing is computed in block mode *)
    | Some _ =>
        let env := fun n => if String.eqb n "length" then length else 0 in
        match conv_named mod_fns prof env fname "offset" offset with
        | CVal _ | CStop => Ret tt
        | CPanic => RPanic | CMissing => Undef
        end
    end.

  (* math.entropy / mean / ... (offset, length) through data_range, math.count(byte, offset, length) *)
  Definition data_range (fname : string) (offset length : Z) : res unit :=
    match conv_named mod_fns prof no_env fname "offset" offset,
          conv_named mod_fns prof no_env fname "length" length with
    | CPanic, _ | _, CPanic => RPanic
    | CMissing, _ | _, CMissing => Undef
    | _, _ => Ret tt
    end.
End Models.

Definition is_rpanic {A} (r : res A) : bool := match r with RPanic => true | _ => false end.
Definition is_missing (fns : list hfn) (fname aname : string) : bool :=
  match find_arg fns fname aname with Some _ => false | None => true end.
