(* C05 - proofs about Cond/HostModel.v: the interval analysis over the
   generated conversion tables is sound (an argument it accepts can never
   reach a panic, for any value of its type), the generated table is safe up
   to the explicit allow lists, and the recorded exceptions have witnesses. *)
From Coq Require Import List ZArith String Bool Lia.
From YV Require Import Cond.HostTypes Cond.HostModel Gen.HostFns.
Import ListNotations.
Local Open Scope Z_scope.

(* ------------------------------------------------------------------ integer types *)
Lemma fits_iff : forall t v, fits t v = true <-> ity_min t <= v <= ity_max t.
Proof. intros t v. unfold fits. rewrite andb_true_iff, !Z.leb_le. tauto. Qed.

Lemma fits_false_iff : forall t v, fits t v = false <-> ~ (ity_min t <= v <= ity_max t).
Proof.
  intros t v. rewrite <- fits_iff. destruct (fits t v); split; intro H; try discriminate; auto.
  exfalso; apply H; reflexivity.
Qed.

Lemma card_pos : forall t, 0 < ity_card t.
Proof. destruct t; vm_compute; reflexivity. Qed.

Lemma min_le_max : forall t, ity_min t <= ity_max t.
Proof. destruct t; vm_compute; discriminate. Qed.

Lemma wrap_fits : forall t v, fits t (wrap t v) = true.
Proof.
  intros t v. apply fits_iff. unfold wrap.
  pose proof (Z.mod_pos_bound (v - ity_min t) (ity_card t) (card_pos t)) as H.
  unfold ity_card in *. lia.
Qed.

Lemma wrap_id : forall t v, fits t v = true -> wrap t v = v.
Proof.
  intros t v H. apply fits_iff in H. unfold wrap.
  rewrite Z.mod_small; [lia|]. unfold ity_card. lia.
Qed.

Lemma within_iff : forall t lo hi, within t lo hi = true <-> ity_min t <= lo /\ hi <= ity_max t.
Proof. intros. unfold within. rewrite andb_true_iff, !Z.leb_le. tauto. Qed.

(* ------------------------------------------------------------------ soundness of the analysis *)
(* values stay inside their Rust type *)
Definition inv (s : st) : Prop := fits (rawty s) (raw s) = true /\ fits (cvty s) (cv s) = true.

(* concretisation: the state is described by the abstract state *)
Definition gamma (s : st) (a : ast) : Prop :=
  rawty s = aty a /\ cvty s = cty a /\
  alo a <= raw s <= ahi a /\ clo a <= cv s <= chi a.

Definition env_ok (env : string -> Z) (oenv : string -> Z * Z) : Prop := forall n, fst (oenv n) <= env n <= snd (oenv n).

Lemma full_env_ok : forall env, (forall n, fits I64 (env n) = true) -> env_ok env full_oenv.
Proof. intros env H n. specialize (H n). apply fits_iff in H. exact H. Qed.

Lemma cur_acur : forall oc s a, gamma s a ->
  let '(v, t) := cur oc s in let '(lo, hi, t') := acur oc a in t = t' /\ lo <= v <= hi.
Proof. intros oc s a (H1 & H2 & H3 & H4). destruct oc; cbn; auto. Qed.

Lemma cur_fits : forall oc s, inv s -> let '(v, t) := cur oc s in fits t v = true.
Proof. intros oc s [H1 H2]. destruct oc; cbn; auto. Qed.

Lemma gamma_set_cv : forall s a v t lo hi, gamma s a -> lo <= v <= hi ->
  gamma (set_cv v t s) (aset_cv lo hi t a).
Proof. intros s a v t lo hi (H1 & H2 & H3 & H4) Hv. unfold gamma, set_cv, aset_cv; cbn. auto. Qed.

Lemma inv_set_cv : forall s v t, inv s -> fits t v = true -> inv (set_cv v t s).
Proof. intros s v t [H1 H2] Hv. unfold inv, set_cv; cbn. auto. Qed.

Lemma gamma_set_src : forall oc s a lo hi, gamma s a ->
  lo <= fst (cur oc s) <= hi -> gamma s (aset_src oc lo hi a).
Proof.
  intros oc s a lo hi (H1 & H2 & H3 & H4) Hv. destruct oc; cbn in *; unfold gamma; cbn; auto.
Qed.

Lemma step_sound : forall prof env oenv len u s a a',
  inv s -> gamma s a -> env_ok env oenv -> astep prof oenv u a = Some a' ->
  match step prof env len u s with
  | Crash => False
  | Stop => True
  | Next s' => inv s' /\ gamma s' a'
  end.
Proof.
  intros prof env oenv len u s a a' Hinv Hg Henv Ha.
  pose proof (cur_acur (u_on_conv u) s a Hg) as Hc.
  pose proof (cur_fits (u_on_conv u) s Hinv) as Hf.
  unfold step, astep in *.
  destruct (cur (u_on_conv u) s) as [v t] eqn:Ecur.
  destruct (acur (u_on_conv u) a) as [[lo hi] t'] eqn:Eacur.
  destruct Hc as [Ht Hv]. subst t'.
  assert (Hfst : fst (cur (u_on_conv u) s) = v) by (rewrite Ecur; reflexivity).
  destruct (u_conv u) as [t1|t1|t1 d|t1|w|w| | |op o| | |w| ].
  - (* TryIntoUnwrap *)
    destruct (within t1 lo hi) eqn:W; [|discriminate]. inversion Ha; subst a'; clear Ha.
    apply within_iff in W.
    assert (F : fits t1 v = true) by (apply fits_iff; lia).
    rewrite F. split; [apply inv_set_cv; auto|apply gamma_set_cv; auto].
  - (* TryIntoOk *)
    inversion Ha; subst a'; clear Ha.
    destruct (fits t1 v) eqn:F; [|exact I].
    apply fits_iff in F.
    split; [apply inv_set_cv; auto; apply fits_iff; lia|].
    apply gamma_set_cv; [|lia].
    apply gamma_set_src; [assumption|]. rewrite Hfst. lia.
  - (* TryIntoOr *)
    inversion Ha; subst a'; clear Ha.
    destruct (fits t1 v) eqn:F.
    + apply fits_iff in F. split; [apply inv_set_cv; auto; apply fits_iff; lia|apply gamma_set_cv; auto; lia].
    + destruct d as [k|].
      * pose proof (wrap_fits t1 k) as Fw. split; [apply inv_set_cv; auto|].
        apply fits_iff in Fw. apply gamma_set_cv; auto.
      * pose proof (min_le_max t1). split; [apply inv_set_cv; auto; apply fits_iff; lia|apply gamma_set_cv; auto; lia].
  - (* AsCast *)
    destruct (within t1 lo hi) eqn:W; inversion Ha; subst a'; clear Ha.
    + apply within_iff in W.
      assert (F : fits t1 v = true) by (apply fits_iff; lia).
      rewrite (wrap_id t1 v F). split; [apply inv_set_cv; auto|apply gamma_set_cv; auto].
    + pose proof (wrap_fits t1 v) as Fw. split; [apply inv_set_cv; auto|].
      apply fits_iff in Fw. apply gamma_set_cv; auto.
  - inversion Ha; subst; auto.
  - inversion Ha; subst; auto.
  - (* GuardNonNeg *)
    inversion Ha; subst a'; clear Ha.
    destruct (v <? 0) eqn:N; [exact I|]. apply Z.ltb_ge in N.
    split; [assumption|]. apply gamma_set_src; [assumption|]. rewrite Hfst. lia.
  - (* AssertPos *)
    destruct (0 <? lo) eqn:P; [|discriminate]. inversion Ha; subst a'; clear Ha.
    apply Z.ltb_lt in P. assert (Q : (0 <? v) = true) by (apply Z.ltb_lt; lia).
    rewrite Q. auto.
  - (* UncheckedArith *)
    destruct prof.
    + (* Debug *)
      assert (Hop : exists ol oh, (match o with OpConst k => Some (k, k) | OpArg n => Some (oenv n) | OpUnknown _ => None end) = Some (ol, oh)
                                  /\ ol <= opval env o <= oh).
      { destruct o as [k|n|n]; cbn.
        - exists k, k. split; [reflexivity|lia].
        - exists (fst (oenv n)), (snd (oenv n)). split; [destruct (oenv n); reflexivity|]. exact (Henv n).
        - destruct op; discriminate. }
      destruct Hop as (ol & oh & Eo & Ho). rewrite Eo in Ha.
      destruct op; try discriminate.
      * destruct (within t (lo + ol) (hi + oh)) eqn:W; [|discriminate].
        apply within_iff in W.
        assert (F : fits t (v + opval env o) = true) by (apply fits_iff; lia).
        cbn [arith_apply]. rewrite F.
        destruct (u_binds u); inversion Ha; subst a'; clear Ha; [|auto].
        split; [apply inv_set_cv; auto|apply gamma_set_cv; auto; lia].
      * destruct (within t (lo - oh) (hi - ol)) eqn:W; [|discriminate].
        apply within_iff in W.
        assert (F : fits t (v - opval env o) = true) by (apply fits_iff; lia).
        cbn [arith_apply]. rewrite F.
        destruct (u_binds u); inversion Ha; subst a'; clear Ha; [|auto].
        split; [apply inv_set_cv; auto|apply gamma_set_cv; auto; lia].
    + (* Release: wraps *)
      inversion Ha; subst a'; clear Ha.
      destruct (fits t (arith_apply op v (opval env o))) eqn:F.
      * destruct (u_binds u); [|auto].
        apply fits_iff in F. split; [apply inv_set_cv; auto; apply fits_iff; lia|apply gamma_set_cv; auto].
      * destruct (u_binds u); [|auto].
        pose proof (wrap_fits t (arith_apply op v (opval env o))) as Fw.
        split; [apply inv_set_cv; auto|]. apply fits_iff in Fw. apply gamma_set_cv; auto.
  - (* UncheckedAbs *)
    destruct prof.
    + destruct ((ity_min t <? lo) || (0 <=? ity_min t)) eqn:P; [|discriminate].
      inversion Ha; subst a'; clear Ha.
      assert (Q : ((v =? ity_min t) && (ity_min t <? 0)) = false).
      { apply orb_true_iff in P. destruct P as [P|P].
        - apply Z.ltb_lt in P. assert (v =? ity_min t = false) by (apply Z.eqb_neq; lia). rewrite H. reflexivity.
        - apply Z.leb_le in P. assert (ity_min t <? 0 = false) by (apply Z.ltb_ge; lia). rewrite H. apply andb_false_r. }
      rewrite Q. auto.
    + inversion Ha; subst a'; clear Ha.
      destruct ((v =? ity_min t) && (ity_min t <? 0)); auto.
  - discriminate.
  - inversion Ha; subst; auto.
  - inversion Ha; subst; auto.
Qed.

Lemma run_sound : forall prof env oenv len us s a,
  inv s -> gamma s a -> env_ok env oenv -> safe_uses prof oenv us a = true ->
  run_uses prof env len us s <> Panic.
Proof.
  intros prof env oenv len us. induction us as [|u rest IH]; intros s a Hinv Hg Henv Hs; cbn in *.
  - discriminate.
  - destruct (astep prof oenv u a) as [a'|] eqn:Ea; [|discriminate].
    pose proof (step_sound prof env oenv len u s a a' Hinv Hg Henv Ea) as H.
    destruct (step prof env len u s) as [s'| |]; [|discriminate|contradiction].
    destruct H as [Hi' Hg']. eapply IH; eauto.
Qed.

Lemma init_inv : forall t v, fits t v = true -> inv (init_st t v).
Proof. intros t v H. split; exact H. Qed.
Lemma init_gamma : forall t v lo hi, lo <= v <= hi -> gamma (init_st t v) (ast_of t lo hi).
Proof. intros t v lo hi H. unfold gamma, init_st, ast_of; cbn. auto. Qed.

(* An argument accepted by the analysis on [lo, hi] cannot make the host
   function panic for any value in [lo, hi], whatever the other arguments are
   (within oenv), whatever the length of the indexed collection. *)
Theorem arg_no_panic_on : forall prof oenv a lo hi env len v,
  arg_safe_on prof oenv a lo hi = true -> fits (a_ty a) v = true -> lo <= v <= hi -> env_ok env oenv ->
  run_arg prof env len a v <> Panic.
Proof.
  intros prof oenv a lo hi env len v Hs Hv Hr Henv. unfold run_arg, arg_safe_on in *.
  eapply run_sound; eauto using init_inv, init_gamma.
Qed.

Theorem arg_no_panic : forall prof a env len v,
  arg_safe prof a = true -> fits (a_ty a) v = true -> (forall n, fits I64 (env n) = true) ->
  run_arg prof env len a v <> Panic.
Proof.
  intros prof a env len v Hs Hv Henv. unfold arg_safe in Hs.
  eapply arg_no_panic_on; eauto using full_env_ok. apply fits_iff; assumption.
Qed.

Theorem fn_no_panic : forall prof f env len,
  forallb (arg_safe prof) (f_args f) = true ->
  (forall a, In a (f_args f) -> fits (a_ty a) (env (a_name a)) = true) -> (forall n, fits I64 (env n) = true) ->
  run_fn prof env len f <> Panic.
Proof.
  intros prof f env len Hs Hv Henv. unfold run_fn.
  destruct (existsb _ (f_args f)) eqn:E; [|discriminate].
  apply existsb_exists in E. destruct E as (a & Ha & Hp).
  rewrite forallb_forall in Hs.
  pose proof (arg_no_panic prof a env len (env (a_name a)) (Hs a Ha) (Hv a Ha) Henv) as N.
  destruct (run_arg prof env len a (env (a_name a))); [discriminate|contradiction].
Qed.

(* ------------------------------------------------------------------ the generated table *)
Definition all_fns : list hfn := host_fns ++ module_fns.

Definition table_safe (prof : profile) : bool := table_safe_with prof emitter_controlled known_unsafe all_fns.

(* host_no_panic: for every function of the generated tables and every integer
   argument that is not emitter-controlled and not a recorded finding, no
   value can make the conversion code panic. *)
Theorem host_no_panic_of_table : forall prof, table_safe prof = true ->
  forall f a env len v,
    In f all_fns -> In a (f_args f) ->
    is_emitter_controlled emitter_controlled (f_name f) (a_name a) = false ->
    is_known_unsafe known_unsafe (f_name f) (a_name a) = false ->
    fits (a_ty a) v = true -> (forall n, fits I64 (env n) = true) ->
    run_arg prof env len a v <> Panic.
Proof.
  intros prof Ht f a env len v Hf Ha Hc Hk Hv Henv.
  unfold table_safe, table_safe_with in Ht. rewrite forallb_forall in Ht.
  specialize (Ht f Hf). rewrite forallb_forall in Ht. specialize (Ht a Ha).
  rewrite Hc, Hk, !orb_false_r in Ht. apply arg_no_panic; assumption.
Qed.

(* the allow list is exactly what is needed: every recorded finding that names
   a host argument still corresponds to an unsafe argument or has been repaired
   (then the entry is merely stale), and nothing unsafe is missing *)
Definition allow_list_covers (prof : profile) : bool :=
  forallb (fun fa => is_known_unsafe known_unsafe (fst fa) (snd fa)) (unsafe_runtime_args prof emitter_controlled all_fns).

Lemma table_safe_iff_covers : forall prof, allow_list_covers prof = true -> table_safe prof = true.
Proof.
  intros prof H. unfold table_safe, table_safe_with. apply forallb_forall. intros f Hf.
  apply forallb_forall. intros a Ha.
  destruct (arg_safe prof a) eqn:S; [reflexivity|].
  destruct (is_emitter_controlled emitter_controlled (f_name f) (a_name a)) eqn:C; [reflexivity|].
  cbn. unfold allow_list_covers in H. rewrite forallb_forall in H.
  apply (H (f_name f, a_name a)). unfold unsafe_runtime_args.
  apply in_flat_map. exists f. split; [assumption|].
  apply in_map_iff. exists a. split; [reflexivity|].
  apply filter_In. split; [assumption|]. rewrite S, C. reflexivity.
Qed.

(* ------------------------------------------------------------------ witnesses for the recorded exceptions *)
(* (function, argument, value of the argument, value of every other argument).
   Each is a value in range that makes the interpreter panic on the generated
   table of that argument, in the debug profile. *)
Definition witnesses : list (string * string * Z * Z) :=
  [ ("pat_range_match", "required", 2147483648, 0);
    ("math.abs", "x", i64_min, 0);
    ("hash.md5_data", "offset", i64_max, 1);
    ("hash.sha1_data", "offset", i64_max, 1);
    ("hash.sha256_data", "offset", i64_max, 1);
    ("hash.crc_data", "offset", i64_max, 1);
    ("hash.checksum_data", "offset", i64_max, 1);
    ("console.log_bytes", "offset", 1, i64_max);
    ("console.log_msg_bytes", "offset", 1, i64_max) ]%string.

Definition witness_panics (prof : profile) (w : string * string * Z * Z) : bool :=
  let '(f, a, v, other) := w in
  match find_arg all_fns f a with
  | Some arg => fits (a_ty arg) v && fits I64 other &&
                match run_arg prof (fun _ => other) 0 arg v with Panic => true | Done => false end
  | None => false
  end.

(* robust against a later repair of the source: an entry either still panics
   on its witness, or its argument has become safe *)
Definition witness_ok (prof : profile) (w : string * string * Z * Z) : bool :=
  let '(f, a, _, _) := w in
  witness_panics prof w ||
  match find_arg all_fns f a with Some arg => arg_safe prof arg | None => true end.

Lemma witness_panics_spec : forall prof f a v other,
  witness_panics prof (f, a, v, other) = true ->
  exists arg, find_arg all_fns f a = Some arg /\ fits (a_ty arg) v = true /\ fits I64 other = true /\
              run_arg prof (fun _ => other) 0 arg v = Panic.
Proof.
  intros prof f a v other H. unfold witness_panics in H.
  destruct (find_arg all_fns f a) as [arg|]; [|discriminate].
  apply andb_true_iff in H. destruct H as [H H3]. apply andb_true_iff in H. destruct H as [H1 H2].
  exists arg. repeat split; auto.
  destruct (run_arg prof (fun _ => other) 0 arg v); [discriminate|reflexivity].
Qed.

(* every recorded exception that names a host argument has a witness here *)
Definition known_have_witnesses : bool :=
  forallb (fun k => existsb (fun w => let '(f, a, _, _) := w in
                                      String.eqb f (fst (fst k)) && String.eqb a (snd (fst k))) witnesses) known_unsafe.

(* exact status of each witness: it panics iff the analysis rejects its argument *)
Definition witness_exact (prof : profile) (w : string * string * Z * Z) : bool :=
  let '(f, a, _, _) := w in
  match find_arg all_fns f a with
  | Some arg => Bool.eqb (witness_panics prof w) (negb (arg_safe prof arg))
  | None => false
  end.

Lemma witness_exact_ok : forall prof w, witness_exact prof w = true -> witness_ok prof w = true.
Proof.
  intros prof [[[f a] v] o] H. unfold witness_exact, witness_ok in *.
  destruct (find_arg all_fns f a) as [arg|] eqn:E; [|discriminate].
  destruct (witness_panics prof (f, a, v, o)); [reflexivity|].
  cbn in *. destruct (arg_safe prof arg); [reflexivity|discriminate].
Qed.

(* ------------------------------------------------------------------ the functional models follow the interpreter *)
Lemma conv_uses_panic_iff : forall prof env len us s,
  conv_uses prof env len us s = CPanic <-> run_uses prof env len us s = Panic.
Proof.
  intros prof env len us. induction us as [|u rest IH]; intros s; cbn.
  - split; discriminate.
  - destruct (step prof env len u s); [apply IH|split; discriminate|split; reflexivity].
Qed.

Lemma conv_named_no_panic_on : forall fns prof oenv env f a arg lo hi v,
  find_arg fns f a = Some arg -> arg_safe_on prof oenv arg lo hi = true ->
  fits (a_ty arg) v = true -> lo <= v <= hi -> env_ok env oenv ->
  conv_named fns prof env f a v <> CPanic.
Proof.
  intros fns prof oenv env f a arg lo hi v Hf Hs Hv Hr Henv. unfold conv_named. rewrite Hf.
  intro C. apply conv_uses_panic_iff in C.
  exact (arg_no_panic_on prof oenv arg lo hi env 0 v Hs Hv Hr Henv C).
Qed.

Lemma no_env_ok : env_ok no_env full_oenv.
Proof. intro n. unfold no_env, full_oenv, i64_min, i64_max. cbn. lia. Qed.

(* boolean side conditions evaluated on the generated table *)
Definition named_safe_on (fns : list hfn) (prof : profile) (oenv : string -> Z * Z) (f a : string) (lo hi : Z) : bool :=
  match find_arg fns f a with
  | Some arg => arg_safe_on prof oenv arg lo hi && (ity_min (a_ty arg) <=? lo) && (hi <=? ity_max (a_ty arg))
  | None => false
  end.

Lemma named_no_panic : forall fns prof oenv env f a lo hi v,
  named_safe_on fns prof oenv f a lo hi = true -> lo <= v <= hi -> env_ok env oenv ->
  conv_named fns prof env f a v <> CPanic.
Proof.
  intros fns prof oenv env f a lo hi v H Hr Henv. unfold named_safe_on in H.
  destruct (find_arg fns f a) as [arg|] eqn:E; [|discriminate].
  apply andb_true_iff in H. destruct H as [H H3]. apply andb_true_iff in H. destruct H as [H1 H2].
  apply Z.leb_le in H2. apply Z.leb_le in H3.
  eapply conv_named_no_panic_on; eauto. apply fits_iff. lia.
Qed.

(* is_pat_match_at / $a at N: total for every i64 offset *)
Definition at_safe (prof : profile) : bool := named_safe_on host_fns prof full_oenv "is_pat_match_at" "offset" i64_min i64_max.
Lemma is_pat_match_at_total : forall prof starts off,
  at_safe prof = true -> i64_min <= off <= i64_max ->
  is_pat_match_at host_fns prof starts off <> RPanic.
Proof.
  intros prof starts off Hs Hr. unfold is_pat_match_at.
  pose proof (named_no_panic host_fns prof full_oenv no_env _ _ _ _ off Hs Hr no_env_ok) as N.
  destruct (conv_named host_fns prof no_env "is_pat_match_at" "offset" off); first [contradiction|discriminate].
Qed.

(* matches_in_range with i64 bounds coming from WASM: $a in (lo..hi), #a in (lo..hi) *)
Definition in_safe (prof : profile) (f : string) : bool :=
  named_safe_on host_fns prof full_oenv f "lower_bound" i64_min i64_max &&
  named_safe_on host_fns prof full_oenv f "upper_bound" i64_min i64_max.
Lemma matches_in_range_total : forall prof f starts lo hi,
  in_safe prof f = true -> i64_min <= lo <= i64_max -> i64_min <= hi <= i64_max ->
  matches_in_range host_fns prof f starts lo hi <> RPanic.
Proof.
  intros prof f starts lo hi Hs Hlo Hhi. unfold in_safe in Hs. apply andb_true_iff in Hs. destruct Hs as [S1 S2].
  unfold matches_in_range.
  pose proof (named_no_panic host_fns prof full_oenv no_env _ _ _ _ hi S2 Hhi no_env_ok) as N2.
  pose proof (named_no_panic host_fns prof full_oenv no_env _ _ _ _ lo S1 Hlo no_env_ok) as N1.
  destruct (conv_named host_fns prof no_env f "upper_bound" hi); try contradiction; try discriminate;
  destruct (conv_named host_fns prof no_env f "lower_bound" lo); first [contradiction|discriminate].
Qed.

(* @a[N], !a[N] *)
Definition index_safe (prof : profile) (f : string) : bool := named_safe_on host_fns prof full_oenv f "index" i64_min i64_max.
Lemma pat_index_total : forall prof f vals i,
  index_safe prof f = true -> i64_min <= i <= i64_max -> pat_index host_fns prof f vals i <> RPanic.
Proof.
  intros prof f vals i Hs Hr. unfold pat_index.
  pose proof (named_no_panic host_fns prof full_oenv no_env _ _ _ _ i Hs Hr no_env_ok) as N.
  destruct (conv_named host_fns prof no_env f "index" i) as [v| | |]; try contradiction; try discriminate;
  destruct (v =? 0); try discriminate; destruct (Z.of_nat (Datatypes.length vals) <? v); try discriminate;
  destruct (nth_error vals (Z.to_nat (v - 1))); discriminate.
Qed.

(* uintN(offset) and friends: negative and huge offsets are undefined, never a panic *)
Definition read_fns : list string :=
  ["uint8"; "uint16"; "uint32"; "uint8be"; "uint16be"; "uint32be"; "int8"; "int16"; "int32"; "int8be"; "int16be"; "int32be";
   "float32"; "float64"; "float32be"; "float64be"]%string.
Definition read_safe (prof : profile) : bool :=
  forallb (fun f => named_safe_on host_fns prof full_oenv f "offset" i64_min i64_max) read_fns.
Lemma read_at_total : forall prof f w dl off,
  read_safe prof = true -> In f read_fns -> i64_min <= off <= i64_max ->
  read_at host_fns prof f w dl off <> RPanic.
Proof.
  intros prof f w dl off Hs Hf Hr. unfold read_safe in Hs. rewrite forallb_forall in Hs. specialize (Hs f Hf).
  unfold read_at.
  pose proof (named_no_panic host_fns prof full_oenv no_env _ _ _ _ off Hs Hr no_env_ok) as N.
  destruct (conv_named host_fns prof no_env f "offset" off) as [v| | |]; try contradiction; try discriminate;
  destruct dl as [z|]; try discriminate; destruct (v + w <=? z); discriminate.
Qed.

(* pat_range_match: no panic under the guard that excludes the recorded class
   (required fits i32) *)
Definition range_match_safe_i32 (prof : profile) : bool :=
  named_safe_on host_fns prof full_oenv "pat_range_match" "required" (ity_min I32) (ity_max I32).
Lemma pat_range_match_guarded : forall prof n r,
  range_match_safe_i32 prof = true -> ity_min I32 <= r <= ity_max I32 ->
  pat_range_match host_fns prof n r <> RPanic.
Proof.
  intros prof n r Hs Hr. unfold pat_range_match.
  pose proof (named_no_panic host_fns prof full_oenv no_env _ _ _ _ r Hs Hr no_env_ok) as N.
  destruct (conv_named host_fns prof no_env "pat_range_match" "required" r); first [contradiction|discriminate].
Qed.

(* math.abs: no panic for x > i64::MIN *)
Definition abs_safe_above_min (prof : profile) : bool :=
  named_safe_on module_fns prof full_oenv "math.abs" "x" (i64_min + 1) i64_max.
Lemma math_abs_guarded : forall prof x,
  abs_safe_above_min prof = true -> i64_min + 1 <= x <= i64_max -> math_abs module_fns prof x <> RPanic.
Proof.
  intros prof x Hs Hr. unfold math_abs.
  pose proof (named_no_panic module_fns prof full_oenv no_env _ _ _ _ x Hs Hr no_env_ok) as N.
  destruct (conv_named module_fns prof no_env "math.abs" "x" x); first [contradiction|discriminate].
Qed.

(* hash.*(offset, size): no panic when offset + size cannot overflow: offset and size below 2^62 *)
Definition half : Z := 4611686018427387904.
Definition hash_fns : list string := ["hash.md5_data"; "hash.sha1_data"; "hash.sha256_data"; "hash.crc_data"; "hash.checksum_data"]%string.
Definition size_oenv : string -> Z * Z := fun _ => (i64_min, half - 1).
Definition hash_safe_small (prof : profile) : bool :=
  forallb (fun f => named_safe_on module_fns prof size_oenv f "offset" i64_min half) hash_fns.
Lemma hash_range_guarded : forall prof f dl off size,
  hash_safe_small prof = true -> In f hash_fns ->
  i64_min <= off <= half -> i64_min <= size <= half - 1 ->
  hash_range module_fns prof f dl off size <> RPanic.
Proof.
  intros prof f dl off size Hs Hf Ho Hsz. unfold hash_safe_small in Hs. rewrite forallb_forall in Hs. specialize (Hs f Hf).
  unfold hash_range.
  set (env := fun n : string => if String.eqb n "size" then size else 0).
  assert (Henv : env_ok env size_oenv).
  { intro n. unfold env, size_oenv. cbn. destruct (String.eqb n "size"); unfold half, i64_min in *; cbn in *; lia. }
  pose proof (named_no_panic module_fns prof size_oenv env _ _ _ _ off Hs Ho Henv) as N.
  destruct (conv_named module_fns prof env f "offset" off) as [v| | |]; try contradiction; try discriminate;
  destruct dl as [z|]; try discriminate; destruct ((off <=? v) && (v <=? z)); discriminate.
Qed.

(* math.entropy / mean / ... (offset, length): total *)
Definition data_range_fns : list string :=
  ["math.entropy_data"; "math.mean_data"; "math.deviation_data"; "math.serial_correlation_data"; "math.monte_carlo_pi_data";
   "math.mode_range"; "math.count_range"; "math.percentage_range"]%string.
Definition data_range_safe (prof : profile) : bool :=
  forallb (fun f => named_safe_on module_fns prof full_oenv f "offset" i64_min i64_max &&
                    named_safe_on module_fns prof full_oenv f "length" i64_min i64_max) data_range_fns.
Lemma data_range_total : forall prof f off len,
  data_range_safe prof = true -> In f data_range_fns ->
  i64_min <= off <= i64_max -> i64_min <= len <= i64_max ->
  data_range module_fns prof f off len <> RPanic.
Proof.
  intros prof f off len Hs Hf Ho Hl. unfold data_range_safe in Hs. rewrite forallb_forall in Hs. specialize (Hs f Hf).
  apply andb_true_iff in Hs. destruct Hs as [S1 S2]. unfold data_range.
  pose proof (named_no_panic module_fns prof full_oenv no_env _ _ _ _ off S1 Ho no_env_ok) as N1.
  pose proof (named_no_panic module_fns prof full_oenv no_env _ _ _ _ len S2 Hl no_env_ok) as N2.
  destruct (conv_named module_fns prof no_env f "offset" off); try contradiction;
  destruct (conv_named module_fns prof no_env f "length" len); first [contradiction|discriminate].
Qed.

(* ------------------------------------------------------------------ no allow list at all *)
Theorem host_no_panic_without_exceptions : forall prof,
  table_safe_with prof emitter_controlled [] all_fns = true ->
  forall f a env len v,
    In f all_fns -> In a (f_args f) ->
    is_emitter_controlled emitter_controlled (f_name f) (a_name a) = false ->
    fits (a_ty a) v = true -> (forall n, fits I64 (env n) = true) ->
    run_arg prof env len a v <> Panic.
Proof.
  intros prof Ht f a env len v Hf Ha Hc Hv Henv.
  unfold table_safe_with in Ht. rewrite forallb_forall in Ht.
  specialize (Ht f Hf). rewrite forallb_forall in Ht. specialize (Ht a Ha).
  rewrite Hc in Ht. cbn in Ht. rewrite !orb_false_r in Ht. apply arg_no_panic; assumption.
Qed.

(* the functions that used to need the allow list, for every i64 argument *)
Definition range_match_safe (prof : profile) : bool :=
  named_safe_on host_fns prof full_oenv "pat_range_match" "required" i64_min i64_max.
Lemma pat_range_match_total : forall prof n r,
  range_match_safe prof = true -> i64_min <= r <= i64_max -> pat_range_match host_fns prof n r <> RPanic.
Proof.
  intros prof n r Hs Hr. unfold pat_range_match.
  pose proof (named_no_panic host_fns prof full_oenv no_env _ _ _ _ r Hs Hr no_env_ok) as N.
  destruct (conv_named host_fns prof no_env "pat_range_match" "required" r); first [contradiction|discriminate].
Qed.

Definition abs_safe (prof : profile) : bool := named_safe_on module_fns prof full_oenv "math.abs" "x" i64_min i64_max.
Lemma math_abs_total : forall prof x,
  abs_safe prof = true -> i64_min <= x <= i64_max -> math_abs module_fns prof x <> RPanic.
Proof.
  intros prof x Hs Hr. unfold math_abs.
  pose proof (named_no_panic module_fns prof full_oenv no_env _ _ _ _ x Hs Hr no_env_ok) as N.
  destruct (conv_named module_fns prof no_env "math.abs" "x" x); first [contradiction|discriminate].
Qed.

Definition hash_safe (prof : profile) : bool :=
  forallb (fun f => named_safe_on module_fns prof full_oenv f "offset" i64_min i64_max) hash_fns.
Lemma hash_range_total : forall prof f dl off size,
  hash_safe prof = true -> In f hash_fns -> i64_min <= off <= i64_max -> i64_min <= size <= i64_max ->
  hash_range module_fns prof f dl off size <> RPanic.
Proof.
  intros prof f dl off size Hs Hf Ho Hsz. unfold hash_safe in Hs. rewrite forallb_forall in Hs. specialize (Hs f Hf).
  unfold hash_range.
  set (env := fun n : string => if String.eqb n "size" then size else 0).
  assert (Henv : env_ok env full_oenv).
  { intro n. unfold env, full_oenv. cbn. destruct (String.eqb n "size"); unfold i64_min, i64_max in *; cbn in *; lia. }
  pose proof (named_no_panic module_fns prof full_oenv env _ _ _ _ off Hs Ho Henv) as N.
  destruct (conv_named module_fns prof env f "offset" off) as [v| | |]; try contradiction; try discriminate;
  destruct dl as [z|]; try discriminate; destruct ((off <=? v) && (v <=? z)); discriminate.
Qed.

Definition console_fns : list string := ["console.log_bytes"; "console.log_msg_bytes"]%string.
Definition console_safe (prof : profile) : bool :=
  forallb (fun f => named_safe_on module_fns prof full_oenv f "offset" i64_min i64_max) console_fns.
Lemma console_range_total : forall prof f dl off len,
  console_safe prof = true -> In f console_fns -> i64_min <= off <= i64_max -> i64_min <= len <= i64_max ->
  console_range module_fns prof f dl off len <> RPanic.
Proof.
  intros prof f dl off len Hs Hf Ho Hl. unfold console_safe in Hs. rewrite forallb_forall in Hs. specialize (Hs f Hf).
  unfold console_range. destruct dl as [z|]; [|discriminate].
  set (env := fun n : string => if String.eqb n "length" then len else 0).
  assert (Henv : env_ok env full_oenv).
  { intro n. unfold env, full_oenv. cbn. destruct (String.eqb n "length"); unfold i64_min, i64_max in *; cbn in *; lia. }
  pose proof (named_no_panic module_fns prof full_oenv env _ _ _ _ off Hs Ho Henv) as N.
  destruct (conv_named module_fns prof env f "offset" off); first [contradiction|discriminate].
Qed.

(* the conversion shapes of the repaired defects, as literals: they panic (these
   statements do not depend on the source and stay true) *)
Definition before_fix_required : harg := mkArg "required" I64 [mkUse (TryIntoUnwrap I32) false true; mkUse (Compared "comparison") true false].
Definition before_fix_abs : harg := mkArg "x" I64 [mkUse UncheckedAbs false false].
Definition before_fix_hash_offset : harg :=
  mkArg "offset" I64 [mkUse (TryIntoOk USize) false false; mkUse (UncheckedArith Add (OpArg "size")) false true; mkUse (TryIntoOk USize) true true].
Definition before_fix_console_offset : harg :=
  mkArg "offset" I64 [mkUse (AsCast USize) false false; mkUse (UncheckedArith Add (OpArg "length")) false true; mkUse (AsCast USize) true false].
