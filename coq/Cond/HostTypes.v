(* Datatypes shared by the generated table Gen/HostFns.v and the models
   Cond/HostModel.v, Cond/Traps.v (C05).  Definitions only. *)
From Coq Require Import List ZArith String.
Import ListNotations.

(* Rust integer types that occur in the host functions *)
Inductive ity := I8 | I16 | I32 | I64 | ISize | U8 | U16 | U32 | U64 | USize.

Inductive arith := Add | Sub | Mul.

(* the other operand of an unchecked + - * *)
Inductive operand :=
| OpConst (k : Z)             (* literal or mem::size_of::<T>() *)
| OpArg (name : string)       (* another run-time integer argument of the same function *)
| OpUnknown (text : string).  (* anything else *)

(* What the body of a host function does with an integer argument (syntactic
   classification done by translate/gen_hostfns.py). *)
Inductive conv :=
| TryIntoUnwrap (t : ity)     (* x.try_into().unwrap() / T::try_from(x).unwrap() / .expect(..) : panics when x does not fit *)
| TryIntoOk (t : ity)         (* x.try_into().ok()?  : the function returns None (undefined) when x does not fit *)
| TryIntoOr (t : ity) (d : option Z)   (* x.try_into().unwrap_or(d); None: a default the translator cannot evaluate *)
| AsCast (t : ity)            (* x as T : wraps *)
| Checked (what : string)     (* checked_ / saturating_ / wrapping_ arithmetic *)
| Compared (what : string)
| GuardNonNeg                 (* if x < 0 { return .. }  /  if x.is_negative() { return .. } *)
| AssertPos                   (* assert!(x > 0) *)
| UncheckedArith (op : arith) (o : operand)   (* + - * that panics on overflow when overflow checks are on *)
| UncheckedAbs                (* x.abs() *)
| LookupUnwrap                (* coll.get_index(x as usize)...unwrap() *)
| Passed (to : string)
| Formatted.

(* u_on_conv: the use applies to the most recent conversion result (the
   shadowing / derived binding) instead of the raw argument; u_binds: the result
   of the arithmetic becomes the current conversion result (conversions always do) *)
Record use := mkUse { u_conv : conv; u_on_conv : bool; u_binds : bool }.
Record harg := mkArg { a_name : string; a_ty : ity; a_uses : list use }.
Record hfn := mkFn { f_name : string; f_pub : string; f_origin : string; f_args : list harg; f_others : list string }.

(* emit.rs: guards in front of the trapping integer instructions *)
Record guards := mkGuards {
  g_div_zero : bool;        (* throw_undef_if_zero before i64.div_s *)
  g_div_min_neg1 : bool;    (* a guard against i64::MIN / -1 before i64.div_s *)
  g_rem_zero : bool;        (* throw_undef_if_zero before i64.rem_s *)
  g_shift_lt64 : bool }.    (* shift amount compared (signed) with 64 before i64.shl / i64.shr_s *)

(* wasm/string.rs: guards of the ASCII fast paths of the case-insensitive operators *)
Record sguards := mkSGuards {
  sg_contains_empty : bool;    (* if needle.is_empty() { return true; }   (windows(0) panics) *)
  sg_contains_longer : bool;   (* if needle.len() > haystack.len() { return false; } *)
  sg_starts_len : bool;        (* haystack.len() >= prefix.len() && haystack[..prefix.len()]... *)
  sg_ends_len : bool }.        (* haystack.len() >= suffix.len() && haystack[haystack.len() - suffix.len()..]... *)
