(* C07 - the shape of the source the model of Cond/Independence.v relies on. *)
From Coq Require Import List String Bool.
From YV Require Import Gen.PatternIdentity.
Import ListNotations.
Local Open Scope string_scope.

(* The model's assumptions about the source, re-checked against what
   translate/gen_patident.py reads from the Rust code on every run: the
   de-duplication table is keyed by the WHOLE pattern, whose equality is the
   derived structural one over fields that include the modifiers, the anchor,
   the filesize bounds and the header constraints; fresh ids are handed out
   in declaration order.  (finite facts, by computation) *)
Definition has_fields (want have : list string) : bool :=
  forallb (fun f => existsb (String.eqb f) have) want.
(* what the abstraction of a pattern's identity to (text, tag) stands for *)
Definition wanted_literal_fields : list string := ["flags"; "text"; "anchored_at"; "xor_range"; "filesize_bounds"; "header_constraints"].
Definition wanted_regexp_fields : list string := ["flags"; "hir"; "anchored_at"; "filesize_bounds"; "header_constraints"].
Lemma model_matches_source :
  identity_is_structural = true /\ dedup_keyed_by_whole_pattern = true /\ ids_in_declaration_order = true /\
  has_fields wanted_literal_fields literal_pattern_fields = true /\
  has_fields wanted_regexp_fields regexp_pattern_fields = true.
Proof. vm_compute. repeat split. Qed.
