(* C07 - correspondence cases written by harness/src/bin/c07.rs.

   A case is a rule r with the rules it depends on (the rules it refers to
   and the global rules of its namespace; r is the last rule of [c_core]),
   a buffer, and three observations of r's slice of the scan results
   (matching?, matches of each of r's patterns):
   * [c_single]: core compiled alone;
   * [c_embedded]: core compiled among 0-200 unrelated rules (before/after,
     same and other namespaces, sharing r's patterns verbatim or with other
     modifiers / filesize bounds);
   * [c_warm]: core compiled alone behind a rule that forces the pattern
     search (used by K, see below).

   [spec_case] - the property itself, on the implementation's own outputs:
   the slice is the same alone and embedded.
   [check_case] - K: the documented meaning (Cond/RuleSet.v, match lists by
   the model's naive search) predicts the slice of the warm run. *)
From Coq Require Import List ZArith Bool.
From YV Require Import Cond.Syntax Cond.Sem Cond.RuleSet.
Import ListNotations.
Local Open Scope Z_scope.

(* [o_scan_matches]: did the scan report a match for any pattern of any rule
   of the compiled set?  (false: the pattern search never ran, or found nothing) *)
Record obs := mkObs { o_verdict : bool; o_matches : list mlist; o_scan_matches : bool }.

Record case := mkCase {
  c_data : list Z;
  c_globals : list value;
  c_core : list rule;
  c_matches_compared : bool;  (* false when the scanner runs in fast-scan mode *)
  (* per pattern of r: 0 = matches anywhere are reported; 1, k = the compiler
     anchors the pattern at offset k (all its uses are `at k`): only a match at
     k is searched and reported [undocumented]; 2 = not compared by K *)
  c_anchor : list (nat * Z);
  c_single : obs;
  c_embedded : obs;
  c_warm : obs }.

Fixpoint mlist_eqb (a b : mlist) : bool :=
  match a, b with
  | [], [] => true
  | (o1, l1) :: a', (o2, l2) :: b' => (o1 =? o2) && (l1 =? l2) && mlist_eqb a' b'
  | _, _ => false
  end.
Fixpoint mlists_eqb (a b : list mlist) : bool :=
  match a, b with
  | [], [] => true
  | x :: a', y :: b' => mlist_eqb x y && mlists_eqb a' b'
  | _, _ => false
  end.
Definition obs_eqb (with_matches : bool) (a b : obs) : bool :=
  Bool.eqb (o_verdict a) (o_verdict b) &&
  (negb with_matches || mlists_eqb (o_matches a) (o_matches b)).

(* The pattern search is lazy by design: it runs when the first condition
   that needs pattern information is evaluated, and not at all if no
   condition does (lib/src/compiler/emit.rs,
   emit_lazy_call_to_search_for_patterns).  The API documents
   `Pattern::matches` as "the matches found for this pattern", so a scan in
   which the search never ran reports no match for any pattern.  The
   property is therefore read as: the verdict never changes, and the
   reported matches are the same - except that a scan that reports no match
   at all (for any rule) may correspond to the complete match lists (those
   of the run with the search forced) on the other side. *)
Definition spec_case (c : case) : bool :=
  let s := c_single c in let e := c_embedded c in let w := c_warm c in
  obs_eqb (c_matches_compared c) s e ||
  (Bool.eqb (o_verdict s) (o_verdict e) &&
   ((negb (o_scan_matches s) && mlists_eqb (o_matches e) (o_matches w)) ||
    (negb (o_scan_matches e) && mlists_eqb (o_matches s) (o_matches w)))).

Definition restrict (a : nat * Z) (m : mlist) : mlist :=
  match fst a with
  | 0%nat => m
  | _ => filter (fun x => fst x =? snd a) m
  end.
Fixpoint restrict_all (an : list (nat * Z)) (ms : list mlist) : list mlist :=
  match an, ms with
  | a :: an', m :: ms' => restrict a m :: restrict_all an' ms'
  | _, _ => ms
  end.
(* patterns K does not compare are blanked on both sides *)
Fixpoint blank (an : list (nat * Z)) (ms : list mlist) : list mlist :=
  match an, ms with
  | a :: an', m :: ms' => (match fst a with 2%nat => [] | _ => m end) :: blank an' ms'
  | _, _ => ms
  end.

Definition predicted (c : case) : obs :=
  let k := (length (c_core c) - 1)%nat in
  let '(all, _) := run (fun e => e) (c_data c) (c_globals c) (c_core c) in
  mkObs (existsb (Nat.eqb k) all)
        (match nth_error (c_core c) k with
         | Some r => restrict_all (c_anchor c) (map (fun p => find_all p (c_data c)) (r_pats r))
         | None => []
         end) true.

(* the value of r's own condition (before global-rule suppression) *)
Definition raw_verdict (c : case) : bool :=
  nth (length (c_core c) - 1)%nat
      (verdicts (fun e => e) (c_data c) (c_globals c) (c_core c)) false.

(* K compares the reported matches only when r's condition holds: the
   compiler derives filesize bounds and header constraints from the
   condition and does not search the patterns of a rule that cannot match
   [undocumented], so for a false condition fewer matches may be reported *)
Definition check_case (c : case) : bool :=
  let p := predicted c in
  (* the verdict is also predicted for the plain run (regression assert for the
     skipped lazy search, commit e5009a16) *)
  Bool.eqb (o_verdict p) (o_verdict (c_single c)) &&
  obs_eqb (c_matches_compared c && raw_verdict c)
          (mkObs (o_verdict p) (blank (c_anchor c) (o_matches p)) true)
          (mkObs (o_verdict (c_warm c)) (blank (c_anchor c) (o_matches (c_warm c))) true).
