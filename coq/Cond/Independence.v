(* C07 - a rule's outcome is independent of unrelated rules: model of how the
   compiler numbers patterns (lib/src/compiler/mod.rs c_rule: the table
   `patterns : Pattern -> PatternId` de-duplicates by the FULL identity of a
   pattern) and of how a compiled rule is evaluated against the match lists
   of the whole set, which are indexed by pattern id. *)
From Coq Require Import List ZArith Bool Lia.
From YV Require Import Cond.Syntax Cond.Sem Cond.Rename.
Import ListNotations.

(* the identity of a pattern: its text and a tag standing for everything
   else the compiler makes part of the identity (modifiers, anchor, filesize
   bounds, header constraints) *)
Definition pident := (list Z * nat)%type.

Definition pident_eqb (a b : pident) : bool :=
  str_eqb (fst a) (fst b) && Nat.eqb (snd a) (snd b).

Fixpoint index_of (p : pident) (tbl : list pident) : option nat :=
  match tbl with
  | [] => None
  | q :: t => if pident_eqb p q then Some 0%nat
              else match index_of p t with Some i => Some (S i) | None => None end
  end.

(* ids of the patterns of one rule, and the table afterwards *)
Fixpoint assign (tbl : list pident) (ps : list pident) : list nat * list pident :=
  match ps with
  | [] => ([], tbl)
  | p :: t =>
      match index_of p tbl with
      | Some i => let '(ids, tbl') := assign tbl t in (i :: ids, tbl')
      | None => let '(ids, tbl') := assign (tbl ++ [p]) t in (length tbl :: ids, tbl')
      end
  end.

Record crule := mkCRule { cr_pats : list pident; cr_cond : expr }.

(* per rule: the ids of its patterns; and the final table *)
Fixpoint compile_from (tbl : list pident) (rules : list crule) : list (list nat) * list pident :=
  match rules with
  | [] => ([], tbl)
  | r :: t =>
      let '(ids, tbl1) := assign tbl (cr_pats r) in
      let '(rest, tbl2) := compile_from tbl1 t in
      (ids :: rest, tbl2)
  end.
Definition compile_set (rules : list crule) : list (list nat) * list pident := compile_from [] rules.

Section Scan.
  (* what the scanner finds for a pattern of a given identity in a buffer
     (any function: the theorems hold for every matching semantics) *)
  Variable M : pident -> list Z -> mlist.
  Variables (data : list Z) (globals : nat -> value) (others : nat -> bool).

  (* match lists of the whole compiled set, by pattern id *)
  Definition global_matches (tbl : list pident) (id : nat) : mlist :=
    match nth_error tbl id with Some p => M p data | None => [] end.

  (* rule-local pattern index -> pattern id (an id outside the table for an
     index the rule does not declare) *)
  Definition idmap (tbl : list pident) (ids : list nat) (i : nat) : nat :=
    match nth_error ids i with Some id => id | None => length tbl end.

  Definition scan_env (pm : nat -> mlist) : env :=
    mkEnv data (Z.of_nat (length data)) pm [] None others globals.

  (* the value of the k-th rule's condition inside the compiled set: its
     pattern references are pattern ids *)
  Definition value_in (rules : list crule) (k : nat) : value :=
    let '(idss, tbl) := compile_set rules in
    match nth_error rules k with
    | Some r => eval (scan_env (global_matches tbl)) (rename (idmap tbl (nth k idss [])) (cr_cond r))
    | None => VUndef
    end.
  Definition verdict_in (rules : list crule) (k : nat) : bool := truthy (value_in rules k).

  (* the matches reported for the i-th pattern of the k-th rule *)
  Definition matches_in (rules : list crule) (k i : nat) : mlist :=
    let '(idss, tbl) := compile_set rules in
    global_matches tbl (idmap tbl (nth k idss []) i).

  (* the rule on its own terms: pattern i is looked up by identity *)
  Definition own_matches (r : crule) (i : nat) : mlist :=
    match nth_error (cr_pats r) i with Some p => M p data | None => [] end.
  Definition own_value (r : crule) : value := eval (scan_env (own_matches r)) (cr_cond r).
End Scan.
