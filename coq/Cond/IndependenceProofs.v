(* C07 - theorems about Cond/Independence.v. *)
From Coq Require Import List ZArith Bool Lia.
From YV Require Import Cond.Syntax Cond.Sem Cond.Rename Cond.SemProofs Cond.Independence.
Import ListNotations.



Lemma str_eqb_eq : forall a b, str_eqb a b = true <-> a = b.
Proof.
  induction a as [|x a IH]; destruct b as [|y b]; cbn [str_eqb]; split; intros H; try reflexivity; try discriminate.
  - apply andb_true_iff in H. destruct H as [H1 H2]. apply Z.eqb_eq in H1. apply IH in H2. congruence.
  - injection H as -> ->. rewrite Z.eqb_refl. cbn [andb]. apply IH. reflexivity.
Qed.
Lemma pident_eqb_eq : forall a b, pident_eqb a b = true <-> a = b.
Proof.
  intros [ta ma] [tb mb]. unfold pident_eqb. cbn [fst snd]. rewrite andb_true_iff, str_eqb_eq, Nat.eqb_eq.
  split; [intros [-> ->]; reflexivity | intros H; injection H as -> ->; split; reflexivity].
Qed.

Lemma index_of_sound : forall p tbl i, index_of p tbl = Some i -> nth_error tbl i = Some p.
Proof.
  intros p tbl. induction tbl as [|q t IH]; intros i H; cbn [index_of] in H; [discriminate|].
  destruct (pident_eqb p q) eqn:E.
  - injection H as <-. apply pident_eqb_eq in E. subst q. reflexivity.
  - destruct (index_of p t) as [j|]; [|discriminate]. injection H as <-. cbn [nth_error]. apply IH. reflexivity.
Qed.
(* ... and a pattern that is in the table is found (no second id for it) *)
Lemma index_of_complete : forall p tbl, In p tbl -> index_of p tbl <> None.
Proof.
  intros p tbl. induction tbl as [|q t IH]; intros H; [destruct H|].
  cbn [index_of]. destruct (pident_eqb p q) eqn:E; [discriminate|].
  destruct H as [-> | H]; [rewrite (proj2 (pident_eqb_eq p p) eq_refl) in E; discriminate|].
  specialize (IH H). destruct (index_of p t); [discriminate|contradiction].
Qed.

Lemma nth_error_ext : forall (A : Type) (l ext : list A) i x,
  nth_error l i = Some x -> nth_error (l ++ ext) i = Some x.
Proof.
  intros A l ext i x H. rewrite nth_error_app1; [exact H|]. apply nth_error_Some. congruence.
Qed.

Lemma assign_spec : forall ps tbl ids tbl',
  assign tbl ps = (ids, tbl') ->
  (exists ext, tbl' = tbl ++ ext) /\ length ids = length ps /\
  forall i p, nth_error ps i = Some p -> exists id, nth_error ids i = Some id /\ nth_error tbl' id = Some p.
Proof.
  induction ps as [|p t IH]; intros tbl ids tbl' H; cbn [assign] in H.
  - injection H as <- <-. split; [exists []; rewrite app_nil_r; reflexivity|]. split; [reflexivity|].
    intros i q Hq. destruct i; discriminate.
  - destruct (index_of p tbl) as [j|] eqn:E.
    + destruct (assign tbl t) as [ids0 tbl0] eqn:A. injection H as <- <-.
      destruct (IH _ _ _ A) as [[ext Hext] [Hlen Hall]].
      split; [exists ext; exact Hext|]. split; [cbn [length]; rewrite Hlen; reflexivity|].
      intros i q Hq. destruct i.
      * cbn [nth_error] in Hq. injection Hq as <-. exists j. split; [reflexivity|].
        rewrite Hext. apply nth_error_ext. apply index_of_sound. exact E.
      * cbn [nth_error] in Hq. exact (Hall _ _ Hq).
    + destruct (assign (tbl ++ [p]) t) as [ids0 tbl0] eqn:A. injection H as <- <-.
      destruct (IH _ _ _ A) as [[ext Hext] [Hlen Hall]].
      split; [exists ([p] ++ ext); rewrite Hext, app_assoc; reflexivity|].
      split; [cbn [length]; rewrite Hlen; reflexivity|].
      intros i q Hq. destruct i.
      * cbn [nth_error] in Hq. injection Hq as <-. exists (length tbl). split; [reflexivity|].
        rewrite Hext. apply nth_error_ext. rewrite nth_error_app2 by lia.
        rewrite Nat.sub_diag. reflexivity.
      * cbn [nth_error] in Hq. exact (Hall _ _ Hq).
Qed.

(* The id given to a pattern designates, in the final table, exactly that
   pattern's identity - whatever other rules were compiled before or after,
   and whether or not the pattern was shared with them. *)
Theorem dedup_respects_identity : forall rules tbl idss tbl',
  compile_from tbl rules = (idss, tbl') ->
  (exists ext, tbl' = tbl ++ ext) /\
  forall k r, nth_error rules k = Some r ->
    exists ids, nth_error idss k = Some ids /\ length ids = length (cr_pats r) /\
      forall i p, nth_error (cr_pats r) i = Some p ->
        exists id, nth_error ids i = Some id /\ nth_error tbl' id = Some p.
Proof.
  induction rules as [|r t IH]; intros tbl idss tbl' H; cbn [compile_from] in H.
  - injection H as <- <-. split; [exists []; rewrite app_nil_r; reflexivity|].
    intros k r Hk. destruct k; discriminate.
  - destruct (assign tbl (cr_pats r)) as [ids tbl1] eqn:A.
    destruct (compile_from tbl1 t) as [rest tbl2] eqn:C. injection H as <- <-.
    destruct (assign_spec _ _ _ _ A) as [[ext1 He1] [Hlen Hall]].
    destruct (IH _ _ _ C) as [[ext2 He2] Hrest].
    split; [exists (ext1 ++ ext2); rewrite He2, He1, app_assoc; reflexivity|].
    intros k r0 Hk. destruct k.
    + cbn [nth_error] in Hk. injection Hk as <-. exists ids. split; [reflexivity|]. split; [exact Hlen|].
      intros i p Hp. destruct (Hall _ _ Hp) as [id [H1 H2]]. exists id. split; [exact H1|].
      rewrite He2. apply nth_error_ext. exact H2.
    + cbn [nth_error] in Hk. exact (Hrest _ _ Hk).
Qed.

Lemma NoDup_snoc : forall (A : Type) (l : list A) (x : A), NoDup l -> ~ In x l -> NoDup (l ++ [x]).
Proof.
  intros A l x H. induction H as [|y l Hy Hl IH]; intros Hx; cbn [app].
  - constructor; [intros []|constructor].
  - constructor.
    + intros Hin. apply in_app_or in Hin. destruct Hin as [Hin | [-> | []]]; [exact (Hy Hin)|].
      apply Hx. left. reflexivity.
    + apply IH. intros Hin. apply Hx. right. exact Hin.
Qed.

(* distinct identities never share an id: the table has no duplicates *)
Lemma assign_nodup : forall ps tbl ids tbl',
  NoDup tbl -> assign tbl ps = (ids, tbl') -> NoDup tbl'.
Proof.
  induction ps as [|p t IH]; intros tbl ids tbl' Hnd H; cbn [assign] in H.
  - injection H as <- <-. exact Hnd.
  - destruct (index_of p tbl) as [j|] eqn:E.
    + destruct (assign tbl t) as [ids0 tbl0] eqn:A. injection H as <- <-. exact (IH _ _ _ Hnd A).
    + destruct (assign (tbl ++ [p]) t) as [ids0 tbl0] eqn:A. injection H as <- <-.
      apply (IH (tbl ++ [p]) ids0 tbl0); [|exact A].
      apply NoDup_snoc; [exact Hnd|].
      intros Hin. exact (index_of_complete p tbl Hin E).
Qed.

Section Scan.
  Variable M : pident -> list Z -> mlist.
  Variables (data : list Z) (globals : nat -> value) (others : nat -> bool).

  Lemma matches_in_own : forall rules k r i,
    nth_error rules k = Some r ->
    matches_in M data rules k i = own_matches M data r i.
  Proof.
    intros rules k r i Hk. unfold matches_in, compile_set.
    destruct (compile_from [] rules) as [idss tbl] eqn:C.
    destruct (dedup_respects_identity _ _ _ _ C) as [_ Hall].
    destruct (Hall _ _ Hk) as [ids [Hids [Hlen Hpat]]].
    rewrite (nth_error_nth _ _ [] Hids). unfold own_matches, idmap, global_matches.
    destruct (nth_error (cr_pats r) i) as [p|] eqn:Ep.
    - destruct (Hpat _ _ Ep) as [id [H1 H2]]. rewrite H1, H2. reflexivity.
    - assert (nth_error ids i = None) as ->.
      { apply nth_error_None. rewrite Hlen. apply nth_error_None. exact Ep. }
      replace (nth_error tbl (length tbl)) with (@None pident); [reflexivity|].
      symmetry. apply nth_error_None. lia.
  Qed.

  (* inside any compiled set, the condition of a rule has the value it has on
     the rule's own terms *)
  Lemma value_in_own : forall rules k r,
    nth_error rules k = Some r ->
    value_in M data globals others rules k = own_value M data globals others r.
  Proof.
    intros rules k r Hk. unfold value_in, own_value.
    pose proof (matches_in_own rules k r) as MI. unfold matches_in in MI.
    destruct (compile_set rules) as [idss tbl] eqn:C. rewrite Hk.
    apply id_renaming_invariance. constructor; cbn; try reflexivity.
    intros i. exact (MI i Hk).
  Qed.

  (* C07: verdict and reported matches of a rule do not depend on the rules
     compiled before or after it, however many of its patterns they share.
     [others] are the verdicts of the rules it refers to. *)
  Theorem independence : forall S1 r S2,
    verdict_in M data globals others (S1 ++ r :: S2) (length S1)
    = verdict_in M data globals others [r] 0 /\
    forall i, matches_in M data (S1 ++ r :: S2) (length S1) i = matches_in M data [r] 0 i.
  Proof.
    intros S1 r S2.
    assert (H1 : nth_error (S1 ++ r :: S2) (length S1) = Some r).
    { rewrite nth_error_app2 by lia. rewrite Nat.sub_diag. reflexivity. }
    assert (H2 : nth_error [r] 0 = Some r) by reflexivity.
    split.
    - unfold verdict_in. rewrite (value_in_own _ _ _ H1), (value_in_own _ _ _ H2). reflexivity.
    - intros i. rewrite (matches_in_own _ _ _ i H1), (matches_in_own _ _ _ i H2). reflexivity.
  Qed.
End Scan.

(* the hypotheses are satisfiable and the statement is not vacuous: a rule
   that shares one pattern with an earlier rule *)
Example independence_example :
  let M := fun (p : pident) d => find_all (fst p) d in
  let a := ([97; 98]%Z, 0%nat) in let b := ([99]%Z, 0%nat) in
  let r := mkCRule [a; b] (EAnd (EPat (PId 0) ANone (EInt 0) (EInt 0)) (ENot (EPat (PId 1) ANone (EInt 0) (EInt 0)))) in
  let S1 := [mkCRule [b; ([100]%Z, 0%nat)] (EBool true)] in
  compile_set (S1 ++ [r]) = ([[0; 1]; [2; 0]]%nat, [b; ([100]%Z, 0%nat); a]) /\
  verdict_in M [97; 98]%Z (fun _ => VUndef) (fun _ => false) (S1 ++ [r]) 1 = true.
Proof. vm_compute. split; reflexivity. Qed.

(* the former witness of finding 6 (`0 of ($a, $b)` alone, ids 0 and 1, and
   after a rule that declares $b and another pattern, ids 2 and 0): false in
   both compilations since `0 of` means none whatever the ids are *)
Example independence_zero_of :
  let M := fun (p : pident) d => find_all (fst p) d in
  let S1 := [mkCRule [([99]%Z, 0%nat); ([100]%Z, 0%nat)] (EBool true)] in
  let r := mkCRule [([97; 98]%Z, 0%nat); ([99]%Z, 0%nat)] (EOf QExpr (EInt 0) [0; 1]%nat ANone (EInt 0) (EInt 0)) in
  verdict_in M [97; 98]%Z (fun _ => VUndef) (fun _ => false) (S1 ++ [r]) 1 = false /\
  verdict_in M [97; 98]%Z (fun _ => VUndef) (fun _ => false) [r] 0 = false.
Proof. vm_compute. split; reflexivity. Qed.
