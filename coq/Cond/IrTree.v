(* C02 - the intermediate representation the compiler builds for a condition
   (lib/src/compiler/ir/ast2ir.rs + the builders of ir/mod.rs), as the tree
   that `impl Debug for IR` prints, and the model's prediction of it.

   [irn]: one node = kind, integer attributes, children in the order of the
   dump (ir/dfs.rs dfs_common).  Attributes:
     KConstInt [v]   KConstBool [0|1]   KConstStr bytes
     KSymVar [slot]  KSymField [index of the external variable]  KSymRule [rule id]
     KFnRead [bytes; signed; big-endian]          (uint8 .. int32be)
     KPatMatch  [0; pattern index | 1; slot of the for..of item] ++ [0 | 1 AT | 2 IN]
     KPatCount  [..] ++ [0 | 1 IN]     KPatOffset / KPatLength [..] ++ [0 | 1 INDEX]
     KForOf / KForIn [slots of n, i, max_count, count, item]
   [ir_of]: prediction from the condition as written: [Quirks.prefold] (typing
   of identifiers, constant folding, `0 of` -> none; proved meaning-preserving
   in QuirksProofs.v) followed by [tr], which only lists: operands of an n-ary
   node (the parser merges `a + b + c`, `a and b and c` into one node),
   constant operands dropped from `and` / `or` (a `with` whose body is
   a constant counts as one), the variable slots handed out
   by VarStack (with: 1 per declaration; of: 5; for..of: 5; for..in: 7, the
   loop variable is the sixth), children in dump order (an `of` over a tuple
   lists its items in reverse; the expression of an <expr> and, since commit
   21a3d45e, of an <expr>% quantifier comes first).
   Cond/Check.v compares [ir_of] with the tree parsed from the dump that
   Compiler::set_ir_writer received for the same rule, node by node.

   Normalisations applied by the harness to the real dump before the
   comparison (harness/src/cond_gen.rs parse_ir): a WITH with several
   declarations is nested (the model's syntax has one declaration per EWith),
   `@a` / `!a` get the index 1 they abbreviate. *)
From Coq Require Import List ZArith Bool.
From YV Require Import Cond.Syntax Cond.Sem Cond.Quirks Gen.EmitFacts.
Import ListNotations.
Local Open Scope Z_scope.

Inductive irk :=
  KConstInt | KConstBool | KConstStr | KFilesize | KNot | KAnd | KOr | KMinus | KAdd | KSub | KMul | KDiv | KMod | KShl | KShr | KEq | KNe | KLt | KGt | KLe | KGe | KBitNot | KBitAnd | KBitOr | KBitXor | KContains | KIContains | KStartsWith | KIStartsWith | KEndsWith | KIEndsWith | KIEquals | KDefined | KWith | KSymVar | KSymField | KSymRule | KOf | KForOf | KForIn | KFnRead | KPatMatch | KPatCount | KPatOffset | KPatLength | KOther.

Inductive irn := IR (k : irk) (args : list Z) (kids : list irn).

Definition irk_code (k : irk) : nat :=
  match k with
  | KConstInt => 0
  | KConstBool => 1
  | KConstStr => 2
  | KFilesize => 3
  | KNot => 4
  | KAnd => 5
  | KOr => 6
  | KMinus => 7
  | KAdd => 8
  | KSub => 9
  | KMul => 10
  | KDiv => 11
  | KMod => 12
  | KShl => 13
  | KShr => 14
  | KEq => 15
  | KNe => 16
  | KLt => 17
  | KGt => 18
  | KLe => 19
  | KGe => 20
  | KBitNot => 21
  | KBitAnd => 22
  | KBitOr => 23
  | KBitXor => 24
  | KContains => 25
  | KIContains => 26
  | KStartsWith => 27
  | KIStartsWith => 28
  | KEndsWith => 29
  | KIEndsWith => 30
  | KIEquals => 31
  | KDefined => 32
  | KWith => 33
  | KSymVar => 34
  | KSymField => 35
  | KSymRule => 36
  | KOf => 37
  | KForOf => 38
  | KForIn => 39
  | KFnRead => 40
  | KPatMatch => 41
  | KPatCount => 42
  | KPatOffset => 43
  | KPatLength => 44
  | KOther => 45
  end.
Definition irk_eqb (a b : irk) : bool := Nat.eqb (irk_code a) (irk_code b).
Fixpoint zlist_eqb (a b : list Z) : bool :=
  match a, b with
  | [], [] => true
  | x :: a', y :: b' => (x =? y) && zlist_eqb a' b'
  | _, _ => false
  end.
Fixpoint irn_eqb (a b : irn) : bool :=
  match a, b with
  | IR k1 a1 c1, IR k2 a2 c2 =>
      irk_eqb k1 k2 && zlist_eqb a1 a2 &&
      (fix go (l1 l2 : list irn) : bool :=
         match l1, l2 with
         | [], [] => true
         | x :: t, y :: u => irn_eqb x y && go t u
         | _, _ => false
         end) c1 c2
  end.
Fixpoint irn_size (a : irn) : nat :=
  match a with IR _ _ c => S (fold_right (fun x n => (irn_size x + n)%nat) 0%nat c) end.

(* frames of VarStack (compiler/context.rs), read by translate/gen_emit.py *)
Definition OF_FRAME : nat := EmitFacts.of_frame_size.
Definition FOR_OF_FRAME : nat := EmitFacts.for_of_frame_size.
Definition FOR_IN_FRAME : nat := EmitFacts.for_in_frame_size.

Definition is_nary (op : arith) : bool :=
  match op with Add | Sub | Mul | Div | Mod => true | _ => false end.
Definition arith_kind (op : arith) : irk :=
  match op with
  | Add => KAdd | Sub => KSub | Mul => KMul | Div => KDiv | Mod => KMod
  | Shl => KShl | Shr => KShr | BAnd => KBitAnd | BOr => KBitOr | BXor => KBitXor
  end.
Definition cmp_kind (op : cmp) : irk :=
  match op with Eq => KEq | Ne => KNe | Lt => KLt | Le => KLe | Gt => KGt | Ge => KGe end.
Definition strop_kind (op : strop) : irk :=
  match op with
  | Contains => KContains | IContains => KIContains | StartsWith => KStartsWith
  | IStartsWith => KIStartsWith | EndsWith => KEndsWith | IEndsWith => KIEndsWith | IEquals => KIEquals
  end.
Definition b2z (b : bool) : Z := if b then 1 else 0.
Definition nz (n : nat) : Z := Z.of_nat n.

(* identifier -> variable slot, innermost first *)
Definition slots := list (nat * nat).
Fixpoint slot_of (x : nat) (g : slots) : Z :=
  match g with
  | [] => -1
  | (y, s) :: t => if Nat.eqb x y then nz s else slot_of x t
  end.
Definition pat_args (p : pref) (cur : nat) : list Z :=
  match p with PId i => [0; nz i] | PCur => [1; nz cur] end.
Definition for_vars (sp : nat) : list Z := [nz sp; nz (sp + 1); nz (sp + 2); nz (sp + 3); nz (sp + 4)].

(* which n-ary node the expression is the left operand of *)
Inductive cmode := CNone | CAnd | COr | CAr (op : arith).

Fixpoint tr (m : cmode) (sp : nat) (g : slots) (cur : nat) (e : expr) {struct e} : list irn :=
  match e with
  | EBool b => [IR KConstBool [b2z b] []]
  | EInt z => [IR KConstInt [z] []]
  | EStr s => [IR KConstStr s []]
  | EFilesize => [IR KFilesize [] []]
  | EVar x => [IR KSymVar [slot_of x g] []]
  | EGlobal k => [IR KSymField [nz k] []]
  | ERule r => [IR KSymRule [nz r] []]
  | ENot a => [IR KNot [] (tr CNone sp g cur a)]
  | EAnd a b =>
      let ks := match bconst a with Some true => [] | _ => tr CAnd sp g cur a end ++
                match bconst b with Some true => [] | _ => tr CNone sp g cur b end in
      match m with CAnd => ks | _ => [IR KAnd [] ks] end
  | EOr a b =>
      let ks := match bconst a with Some false => [] | _ => tr COr sp g cur a end ++
                match bconst b with Some false => [] | _ => tr CNone sp g cur b end in
      match m with COr => ks | _ => [IR KOr [] ks] end
  | EDefined a => [IR KDefined [] (tr CNone sp g cur a)]
  | ENeg a => [IR KMinus [] (tr CNone sp g cur a)]
  | EBitNot a => [IR KBitNot [] (tr CNone sp g cur a)]
  | EArith op a b =>
      let ks := tr (if is_nary op then CAr op else CNone) sp g cur a ++ tr CNone sp g cur b in
      match m with
      | CAr op0 => if arith_eqb op op0 then ks else [IR (arith_kind op) [] ks]
      | _ => [IR (arith_kind op) [] ks]
      end
  | ECmp op a b => [IR (cmp_kind op) [] (tr CNone sp g cur a ++ tr CNone sp g cur b)]
  | EStrOp op a b => [IR (strop_kind op) [] (tr CNone sp g cur a ++ tr CNone sp g cur b)]
  | ERead (IK n s be) off => [IR KFnRead [nz n; b2z s; b2z be] (tr CNone sp g cur off)]
  | EPat p ak a1 a2 =>
      match ak with
      | ANone => [IR KPatMatch (pat_args p cur ++ [0]) []]
      | AAt => [IR KPatMatch (pat_args p cur ++ [1]) (tr CNone sp g cur a1)]
      | AIn => [IR KPatMatch (pat_args p cur ++ [2]) (tr CNone sp g cur a1 ++ tr CNone sp g cur a2)]
      end
  | ECount p rg lo hi =>
      [IR KPatCount (pat_args p cur ++ [b2z rg]) (if rg then tr CNone sp g cur lo ++ tr CNone sp g cur hi else [])]
  | EOffset p i => [IR KPatOffset (pat_args p cur ++ [1]) (tr CNone sp g cur i)]
  | ELength p i => [IR KPatLength (pat_args p cur ++ [1]) (tr CNone sp g cur i)]
  | EOf qk q set ak a1 a2 =>
      [IR KOf []
         ((match qk with QExpr | QPct => tr CNone sp g cur q | _ => [] end) ++
          match ak with
          | ANone => []
          | AAt => tr CNone sp g cur a1
          | AIn => tr CNone sp g cur a1 ++ tr CNone sp g cur a2
          end)]
  | EOfB qk q items =>
      [IR KOf []
         ((match qk with QExpr | QPct => tr CNone sp g cur q | _ => [] end) ++
          rev (tr_list (sp + OF_FRAME) g cur items))]
  | EForOf qk q set body =>
      [IR KForOf (for_vars sp)
         ((match qk with QExpr | QPct => tr CNone sp g cur q | _ => [] end) ++
          tr CNone (sp + FOR_OF_FRAME) g (sp + 4) body)]
  | EForRange qk q x lo hi body =>
      [IR KForIn (for_vars sp)
         ((match qk with QExpr | QPct => tr CNone sp g cur q | _ => [] end) ++
          tr CNone sp g cur lo ++ tr CNone sp g cur hi ++
          tr CNone (sp + FOR_IN_FRAME) ((x, (sp + 5)%nat) :: g) cur body)]
  | EForTuple qk q x items body =>
      [IR KForIn (for_vars sp)
         ((match qk with QExpr | QPct => tr CNone sp g cur q | _ => [] end) ++
          tr_list sp g cur items ++
          tr CNone (sp + FOR_IN_FRAME) ((x, (sp + 5)%nat) :: g) cur body)]
  | EWith x d body =>
      [IR KWith [] (tr CNone (S sp) g cur d ++ tr CNone (S sp) ((x, sp) :: g) cur body)]
  end
with tr_list (sp : nat) (g : slots) (cur : nat) (es : exprs) {struct es} : list irn :=
  match es with
  | ENil => []
  | ECons e t => tr CNone sp g cur e ++ tr_list sp g cur t
  end.

(* the IR predicted for a condition *)
Definition ir_of (e : expr) : list irn := tr CNone 0 [] 0 (prefold e).

Definition ir_agrees (e : expr) (real : irn) : bool :=
  match ir_of e with [t] => irn_eqb t real | _ => false end.
