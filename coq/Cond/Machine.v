(* C02 - architecture layer: a small structured stack machine, the target of
   Cond/Emit.v (the model of lib/src/compiler/emit.rs).

   WebAssembly as far as the emitted code uses it: i32 / i64 values, three
   scratch locals, two globals (filesize, pattern_search_done), structured
   control (block / loop / if with a result arity, br / br_if / br_table /
   return with relative label indexes), a linear memory holding the
   undefined-flag words and the variable slots, calls to host functions
   (an oracle: a parameter of the semantics), and the traps of i64.div_s /
   i64.rem_s.  No f64 (percentage quantifiers are outside the fragment).

   Memory is modelled at word granularity: a map from 8-aligned byte
   addresses to 64-bit words; a 32-bit access touches the word at its
   (8-aligned) address - every variable slot is accessed with one width only.
   An unaligned or negative address is [OStuck] (the emitted code never
   produces one; EmitProofs shows it).

   Two semantics are given: an executable one with fuel ([exec], used by K
   and by vm_compute examples) and a relational big-step one ([bstep], used
   by the proofs); MachineProofs.v relates them. *)
From Coq Require Import List ZArith Bool Lia.
Import ListNotations.
Local Open Scope Z_scope.

Inductive val := V32 (z : Z) | V64 (z : Z).

Definition m63 : Z := 9223372036854775808.
Definition m64 : Z := 18446744073709551616.
Definition m32 : Z := 4294967296.
(* i64 values are kept signed, i32 values unsigned *)
Definition w64 (z : Z) : Z := (z + m63) mod m64 - m63.
Definition w32 (z : Z) : Z := z mod m32.

Inductive binop :=
| I64Add | I64Sub | I64Mul | I64DivS | I64RemS | I64And | I64Or | I64Xor | I64Shl | I64ShrS
| I64Eq | I64Ne | I64LtS | I64LeS | I64GtS | I64GeS
| I32And | I32ShrU.
Inductive unop := I64Eqz | I32Eqz | I64ExtendUI32 | I32WrapI64.
Inductive width := W64 | W32.
Inductive glob := GFilesize | GSearchDone.

(* host functions (lib/src/wasm/mod.rs) *)
Inductive hostfn :=
| HSearch                       (* search_for_patterns *)
| HCheckMatch                   (* check_for_pattern_match: pattern id -> i32 *)
| HMatchAt | HMatchIn           (* is_pat_match_at / is_pat_match_in *)
| HMatches | HMatchesIn         (* pat_matches / pat_matches_in -> i64 *)
| HOffset | HLength             (* pat_offset / pat_length -> (i64, is_undef) *)
| HRangeMatch                   (* pat_range_match *)
| HReadInt (bytes : nat) (signed be : bool)   (* uintN / intN [be] -> (i64, is_undef) *)
| HLookupInt (g : nat) | HLookupBool (g : nat)  (* lookup_integer / lookup_bool of a root field -> (v, is_undef) *)
| HRuleBit (r : nat).           (* the byte of the matching-rules bitmap that holds rule r's bit *)

Inductive instr :=
| IConst (v : val)
| ILocalGet (x : nat) | ILocalSet (x : nat) | ILocalTee (x : nat)
| IGlobalGet (g : glob)
| IBin (op : binop) | IUn (op : unop)
| ILoad (w : width) (off : Z) | IStore (w : width) (off : Z)
| ICall (f : hostfn)
| IDrop
| IBlock (arity : nat) (body : list instr)
| ILoop (arity : nat) (body : list instr)
| IIf (arity : nat) (th el : list instr)
| IBr (l : nat) | IBrIf (l : nat) | IBrTable (ls : list nat) (default : nat)
| IReturn
| IUnreachable
(* an instruction the machine does not interpret (the f64 arithmetic of the
   percentage quantifiers): only its encoding is known; executing it is stuck,
   and no condition of the part EmitProofs covers contains one *)
| IRaw (opcode : Z) (imm : list Z).

Record state := mkState {
  s_stack : list val;
  s_locals : nat -> val;
  s_mem : Z -> Z;
  s_filesize : Z;
  s_done : bool }.

Definition set_stack (st : state) (s : list val) : state :=
  mkState s (s_locals st) (s_mem st) (s_filesize st) (s_done st).
Definition push (v : val) (st : state) : state := set_stack st (v :: s_stack st).
Definition set_local (st : state) (x : nat) (v : val) : state :=
  mkState (s_stack st) (fun y => if Nat.eqb y x then v else s_locals st y) (s_mem st) (s_filesize st) (s_done st).
Definition set_mem (st : state) (a : Z) (w : Z) : state :=
  mkState (s_stack st) (s_locals st) (fun b => if b =? a then w else s_mem st b) (s_filesize st) (s_done st).
Definition set_done (st : state) : state :=
  mkState (s_stack st) (s_locals st) (s_mem st) (s_filesize st) true.

Inductive outcome :=
| ONormal (st : state)
| OBranch (l : nat) (st : state)      (* a br to the l-th enclosing label is in flight *)
| OReturn (st : state)
| OTrap                               (* a WebAssembly trap: the scan panics *)
| OStuck.                             (* ill-typed / malformed program *)

Definition i64_div_s (a b : Z) : option Z :=
  if b =? 0 then None else if (a =? - m63) && (b =? -1) then None else Some (Z.quot a b).
Definition i64_rem_s (a b : Z) : option Z :=
  if b =? 0 then None else Some (Z.rem a b).

Definition b2z (b : bool) : Z := if b then 1 else 0.

(* None = stuck (wrong operand types), Some None = trap *)
Definition eval_bin (op : binop) (a b : val) : option (option val) :=
  match op, a, b with
  | I64Add, V64 x, V64 y => Some (Some (V64 (w64 (x + y))))
  | I64Sub, V64 x, V64 y => Some (Some (V64 (w64 (x - y))))
  | I64Mul, V64 x, V64 y => Some (Some (V64 (w64 (x * y))))
  | I64DivS, V64 x, V64 y => Some (option_map (fun z => V64 (w64 z)) (i64_div_s x y))
  | I64RemS, V64 x, V64 y => Some (option_map (fun z => V64 (w64 z)) (i64_rem_s x y))
  | I64And, V64 x, V64 y => Some (Some (V64 (Z.land x y)))
  | I64Or, V64 x, V64 y => Some (Some (V64 (Z.lor x y)))
  | I64Xor, V64 x, V64 y => Some (Some (V64 (Z.lxor x y)))
  | I64Shl, V64 x, V64 y => Some (Some (V64 (w64 (Z.shiftl x (y mod 64)))))
  | I64ShrS, V64 x, V64 y => Some (Some (V64 (Z.shiftr x (y mod 64))))
  | I64Eq, V64 x, V64 y => Some (Some (V32 (b2z (x =? y))))
  | I64Ne, V64 x, V64 y => Some (Some (V32 (b2z (negb (x =? y)))))
  | I64LtS, V64 x, V64 y => Some (Some (V32 (b2z (x <? y))))
  | I64LeS, V64 x, V64 y => Some (Some (V32 (b2z (x <=? y))))
  | I64GtS, V64 x, V64 y => Some (Some (V32 (b2z (y <? x))))
  | I64GeS, V64 x, V64 y => Some (Some (V32 (b2z (y <=? x))))
  | I32And, V32 x, V32 y => Some (Some (V32 (Z.land x y)))
  | I32ShrU, V32 x, V32 y => Some (Some (V32 (Z.shiftr x (y mod 32))))
  | _, _, _ => None
  end.
Definition eval_un (op : unop) (a : val) : option val :=
  match op, a with
  | I64Eqz, V64 x => Some (V32 (b2z (x =? 0)))
  | I32Eqz, V32 x => Some (V32 (b2z (x =? 0)))
  | I64ExtendUI32, V32 x => Some (V64 x)
  | I32WrapI64, V64 x => Some (V32 (w32 x))
  | _, _ => None
  end.

Definition host_arity (f : hostfn) : nat :=
  match f with
  | HSearch => 0 | HCheckMatch => 1 | HMatchAt => 2 | HMatchIn => 3 | HMatches => 1 | HMatchesIn => 3
  | HOffset => 2 | HLength => 2 | HRangeMatch => 3 | HReadInt _ _ _ => 1
  | HLookupInt _ => 0 | HLookupBool _ => 0 | HRuleBit _ => 0
  end%nat.

(* the top n values of a stack (result of a block / target of a branch) *)
Definition take_top (n : nat) (s : list val) : option (list val) :=
  if Nat.leb n (length s) then Some (firstn n s) else None.

Section Semantics.
  (* host f done args = results (pushed so that the head of the list ends on
     top of the stack); args: first argument first *)
  Variable host : hostfn -> bool -> list val -> option (list val).

  (* leave a block of arity n entered with stack [outer] *)
  Definition leave (n : nat) (outer : list val) (st : state) : outcome :=
    match take_top n (s_stack st) with
    | Some vs => ONormal (set_stack st (vs ++ outer))
    | None => OStuck
    end.

  Definition call (f : hostfn) (st : state) : outcome :=
    let n := host_arity f in
    if Nat.leb n (length (s_stack st)) then
      let args := rev (firstn n (s_stack st)) in
      let rest := skipn n (s_stack st) in
      match host f (s_done st) args with
      | Some res =>
          let st' := set_stack st (res ++ rest) in
          ONormal (match f with HSearch => set_done st' | _ => st' end)
      | None => OStuck
      end
    else OStuck.

  Definition aligned (a : Z) : bool := (0 <=? a) && (a mod 8 =? 0).

  (* one non-control instruction *)
  Definition step_simple (i : instr) (st : state) : outcome :=
    match i, s_stack st with
    | IConst v, s => ONormal (set_stack st (v :: s))
    | ILocalGet x, s => ONormal (set_stack st (s_locals st x :: s))
    | ILocalSet x, v :: s => ONormal (set_local (set_stack st s) x v)
    | ILocalTee x, v :: s => ONormal (set_local st x v)
    | IGlobalGet GFilesize, s => ONormal (set_stack st (V64 (s_filesize st) :: s))
    | IGlobalGet GSearchDone, s => ONormal (set_stack st (V32 (b2z (s_done st)) :: s))
    | IBin op, b :: a :: s =>
        match eval_bin op a b with
        | Some (Some v) => ONormal (set_stack st (v :: s))
        | Some None => OTrap
        | None => OStuck
        end
    | IUn op, a :: s =>
        match eval_un op a with Some v => ONormal (set_stack st (v :: s)) | None => OStuck end
    | ILoad w off, V32 a :: s =>
        if aligned (a + off) then
          ONormal (set_stack st ((match w with W64 => V64 (s_mem st (a + off)) | W32 => V32 (s_mem st (a + off)) end) :: s))
        else OStuck
    | IStore W64 off, V64 v :: V32 a :: s =>
        if aligned (a + off) then ONormal (set_mem (set_stack st s) (a + off) v) else OStuck
    | IStore W32 off, V32 v :: V32 a :: s =>
        if aligned (a + off) then ONormal (set_mem (set_stack st s) (a + off) v) else OStuck
    | ICall f, _ => call f st
    | IDrop, _ :: s => ONormal (set_stack st s)
    | IUnreachable, _ => OTrap
    | _, _ => OStuck
    end.

  (* how the outcome of the body of a block of arity n entered with stack
     [outer] becomes the outcome of the block *)
  Definition close (n : nat) (outer : list val) (o : outcome) : outcome :=
    match o with
    | ONormal st' => leave n outer st'
    | OBranch O st' => leave n outer st'
    | OBranch (S l) st' => OBranch l st'
    | other => other
    end.

  (* ------------------------------------------------------------ executable *)
  Inductive res := Done (o : outcome) | OutOfFuel.

  Fixpoint exec (fuel : nat) (is : list instr) (st : state) {struct fuel} : res :=
    match fuel with
    | O => OutOfFuel
    | S f =>
        match is with
        | [] => Done (ONormal st)
        | i :: rest =>
            let continue (o : outcome) : res :=
              match o with
              | ONormal st' => exec f rest st'
              | other => Done other
              end in
            match i with
            | IBlock n body =>
                match exec f body (set_stack st []) with
                | Done o1 => continue (close n (s_stack st) o1)
                | OutOfFuel => OutOfFuel
                end
            | ILoop n body =>
                match exec f body (set_stack st []) with
                | Done (OBranch O st') => exec f (ILoop n body :: rest) (set_stack st' (s_stack st))
                | Done o1 => continue (close n (s_stack st) o1)
                | OutOfFuel => OutOfFuel
                end
            | IIf n th el =>
                match s_stack st with
                | V32 c :: s =>
                    match exec f (if c =? 0 then el else th) (set_stack st []) with
                    | Done o1 => continue (close n s o1)
                    | OutOfFuel => OutOfFuel
                    end
                | _ => Done OStuck
                end
            | IBr l => Done (OBranch l st)
            | IBrIf l =>
                match s_stack st with
                | V32 c :: s => if c =? 0 then exec f rest (set_stack st s) else Done (OBranch l (set_stack st s))
                | _ => Done OStuck
                end
            | IBrTable ls d =>
                match s_stack st with
                | V32 c :: s => Done (OBranch (nth (Z.to_nat c) ls d) (set_stack st s))
                | _ => Done OStuck
                end
            | IReturn => Done (OReturn st)
            | _ => continue (step_simple i st)
            end
        end
    end.

  (* ------------------------------------------------------------ relational *)
  Definition is_control (i : instr) : bool :=
    match i with
    | IBlock _ _ | ILoop _ _ | IIf _ _ _ | IBr _ | IBrIf _ | IBrTable _ _ | IReturn => true
    | _ => false
    end.

  Inductive bstep : list instr -> state -> outcome -> Prop :=
  | BNil : forall st, bstep [] st (ONormal st)
  | BSimple : forall i rest st st' o,
      is_control i = false -> step_simple i st = ONormal st' -> bstep rest st' o ->
      bstep (i :: rest) st o
  | BSimpleStop : forall i rest st o,
      is_control i = false -> step_simple i st = o -> (forall st', o <> ONormal st') ->
      bstep (i :: rest) st o
  | BBlock : forall n body rest st o1 o,
      bstep body (set_stack st []) o1 ->
      bseq (close n (s_stack st) o1) rest o ->
      bstep (IBlock n body :: rest) st o
  | BIf : forall n th el rest st c s o1 o,
      s_stack st = V32 c :: s ->
      bstep (if c =? 0 then el else th) (set_stack st []) o1 ->
      bseq (close n s o1) rest o ->
      bstep (IIf n th el :: rest) st o
  | BLoopExit : forall n body rest st o1 o,
      bstep body (set_stack st []) o1 ->
      (forall st', o1 <> OBranch O st') ->
      bseq (close n (s_stack st) o1) rest o ->
      bstep (ILoop n body :: rest) st o
  | BLoopAgain : forall n body rest st st' o,
      bstep body (set_stack st []) (OBranch O st') ->
      bstep (ILoop n body :: rest) (set_stack st' (s_stack st)) o ->
      bstep (ILoop n body :: rest) st o
  | BBr : forall l rest st, bstep (IBr l :: rest) st (OBranch l st)
  | BBrIfNo : forall l rest st c s o,
      s_stack st = V32 c :: s -> c = 0 -> bstep rest (set_stack st s) o ->
      bstep (IBrIf l :: rest) st o
  | BBrIfYes : forall l rest st c s,
      s_stack st = V32 c :: s -> c <> 0 ->
      bstep (IBrIf l :: rest) st (OBranch l (set_stack st s))
  | BBrTable : forall ls d rest st c s,
      s_stack st = V32 c :: s ->
      bstep (IBrTable ls d :: rest) st (OBranch (nth (Z.to_nat c) ls d) (set_stack st s))
  | BReturn : forall rest st, bstep (IReturn :: rest) st (OReturn st)
  (* continue with [rest] after a normal outcome, stop otherwise *)
  with bseq : outcome -> list instr -> outcome -> Prop :=
  | SNormal : forall st rest o, bstep rest st o -> bseq (ONormal st) rest o
  | SStop : forall o rest, (forall st, o <> ONormal st) -> bseq o rest o.
End Semantics.
