(* C02 - the two semantics of Cond/Machine.v agree: whatever the relational
   big-step semantics derives, the executable one computes with enough fuel;
   hence the relation is deterministic. *)
From Coq Require Import List ZArith Bool Lia.
From YV Require Import Cond.Machine.
Import ListNotations.

Scheme bstep_mind := Minimality for Machine.bstep Sort Prop
with bseq_mind := Minimality for Machine.bseq Sort Prop.

Section Host.
  Variable host : hostfn -> bool -> list val -> option (list val).

  Notation exec := (exec host).
  Notation bstep := (bstep host).
  Notation bseq := (bseq host).

  Definition continue (f : nat) (rest : list instr) (o : outcome) : res :=
    match o with
    | ONormal st' => exec f rest st'
    | other => Done other
    end.

  Lemma exec_S : forall f i rest st,
    exec (S f) (i :: rest) st =
    match i with
    | IBlock n body =>
        match exec f body (set_stack st []) with
        | Done o1 => continue f rest (close n (s_stack st) o1)
        | OutOfFuel => OutOfFuel
        end
    | ILoop n body =>
        match exec f body (set_stack st []) with
        | Done (OBranch O st') => exec f (ILoop n body :: rest) (set_stack st' (s_stack st))
        | Done o1 => continue f rest (close n (s_stack st) o1)
        | OutOfFuel => OutOfFuel
        end
    | IIf n th el =>
        match s_stack st with
        | V32 c :: s =>
            match exec f (if (c =? 0)%Z then el else th) (set_stack st []) with
            | Done o1 => continue f rest (close n s o1)
            | OutOfFuel => OutOfFuel
            end
        | _ => Done OStuck
        end
    | IBr l => Done (OBranch l st)
    | IBrIf l =>
        match s_stack st with
        | V32 c :: s => if (c =? 0)%Z then exec f rest (set_stack st s) else Done (OBranch l (set_stack st s))
        | _ => Done OStuck
        end
    | IBrTable ls d =>
        match s_stack st with
        | V32 c :: s => Done (OBranch (nth (Z.to_nat c) ls d) (set_stack st s))
        | _ => Done OStuck
        end
    | IReturn => Done (OReturn st)
    | _ => continue f rest (step_simple host i st)
    end.
  Proof. intros f i rest st. destruct i; reflexivity. Qed.

  Theorem bstep_exec :
    forall is st o, bstep is st o -> exists f, forall g, f <= g -> exec g is st = Done o.
  Proof.
    apply (bstep_mind host
      (fun is st o => exists f, forall g, f <= g -> exec g is st = Done o)
      (fun o1 rest o => exists f, forall g, f <= g -> continue g rest o1 = Done o)).
    - (* BNil *) intros st. exists 1. intros g Hg. destruct g; [lia|]. reflexivity.
    - (* BSimple *) intros i rest st st' o Hc Hs _ [f IH]. exists (S f). intros g Hg.
      destruct g; [lia|]. rewrite exec_S. destruct i; try discriminate Hc; rewrite Hs; cbn [continue]; apply IH; lia.
    - (* BSimpleStop *) intros i rest st o Hc Hs Hn. exists 1. intros g Hg.
      destruct g; [lia|]. rewrite exec_S.
      destruct i; try discriminate Hc; rewrite Hs; destruct o; try reflexivity; exfalso; eapply Hn; reflexivity.
    - (* BBlock *) intros n body rest st o1 o _ [f1 IH1] _ [f2 IH2]. exists (S (Nat.max f1 f2)). intros g Hg.
      destruct g; [lia|]. rewrite exec_S. rewrite IH1 by lia. apply IH2. lia.
    - (* BIf *) intros n th el rest st c s o1 o Hs _ [f1 IH1] _ [f2 IH2]. exists (S (Nat.max f1 f2)). intros g Hg.
      destruct g; [lia|]. rewrite exec_S, Hs. rewrite IH1 by lia. apply IH2. lia.
    - (* BLoopExit *) intros n body rest st o1 o _ [f1 IH1] Hne _ [f2 IH2]. exists (S (Nat.max f1 f2)). intros g Hg.
      destruct g; [lia|]. rewrite exec_S. rewrite IH1 by lia.
      destruct o1 as [st'|[|l] st'|st'| |]; try (apply IH2; lia).
      exfalso. eapply Hne. reflexivity.
    - (* BLoopAgain *) intros n body rest st st' o _ [f1 IH1] _ [f2 IH2]. exists (S (Nat.max f1 f2)). intros g Hg.
      destruct g; [lia|]. rewrite exec_S. rewrite IH1 by lia. apply IH2. lia.
    - (* BBr *) intros l rest st. exists 1. intros g Hg. destruct g; [lia|]. reflexivity.
    - (* BBrIfNo *) intros l rest st c s o Hs Hc _ [f IH]. exists (S f). intros g Hg.
      destruct g; [lia|]. rewrite exec_S, Hs. subst c. cbn. apply IH. lia.
    - (* BBrIfYes *) intros l rest st c s Hs Hc. exists 1. intros g Hg. destruct g; [lia|].
      rewrite exec_S, Hs. replace (c =? 0)%Z with false by (symmetry; apply Z.eqb_neq; exact Hc). reflexivity.
    - (* BBrTable *) intros ls d rest st c s Hs. exists 1. intros g Hg. destruct g; [lia|]. rewrite exec_S, Hs. reflexivity.
    - (* BReturn *) intros rest st. exists 1. intros g Hg. destruct g; [lia|]. reflexivity.
    - (* SNormal *) intros st rest o _ [f IH]. exists f. intros g Hg. cbn [continue]. apply IH. exact Hg.
    - (* SStop *) intros o rest Hn. exists 0. intros g _. destruct o; try reflexivity. exfalso. eapply Hn. reflexivity.
  Qed.

  (* the relational semantics is deterministic *)
  Corollary bstep_deterministic : forall is st o1 o2, bstep is st o1 -> bstep is st o2 -> o1 = o2.
  Proof.
    intros is st o1 o2 H1 H2.
    destruct (bstep_exec _ _ _ H1) as [f1 E1]. destruct (bstep_exec _ _ _ H2) as [f2 E2].
    specialize (E1 (Nat.max f1 f2) ltac:(lia)). specialize (E2 (Nat.max f1 f2) ltac:(lia)). congruence.
  Qed.
End Host.
