(* C02 - operator precedence: the parser's binding powers (regenerated from
   parser/src/ast/cst2ast.rs) against the documented table (regenerated from
   conditions.md), and a Gallina model of the Pratt loop of `pratt_parser`. *)
From Coq Require Import List String Bool Arith Lia.
From YV Require Import Gen.BindingPower Gen.DocPrecedence.
Import ListNotations.
Local Open Scope string_scope.
Local Open Scope nat_scope.

Fixpoint lookup_bp (op : string) (t : list (string * (nat * nat))) : option (nat * nat) :=
  match t with
  | [] => None
  | (k, v) :: r => if String.eqb k op then Some v else lookup_bp op r
  end.
Definition bp_of (op : string) : option (nat * nat) := lookup_bp op binding_power.

Fixpoint lookup_doc (op : string) (t : list (string * string * nat * bool)) : option (nat * bool) :=
  match t with
  | [] => None
  | (k, _, p, l) :: r => if String.eqb k op then Some (p, l) else lookup_doc op r
  end.
Definition doc_of (op : string) : option (nat * bool) := lookup_doc op doc_binary.

Definition mem (x : string) (l : list string) : bool := existsb (String.eqb x) l.

(* the layer of the grammar a binary operator belongs to: 1 = boolean
   expression, 2 = comparison chain inside a boolean term, 3 = arithmetic
   expression, 4 = field access inside a term *)
Definition layer (op : string) : option nat :=
  if mem op layer_bool then Some 1
  else if mem op layer_cmp then Some 2
  else if mem op layer_arith then Some 3
  else if String.eqb op "DOT" then Some 4
  else None.

(* In `x a y b z` with a and b in the same layer, does b take y?
   Pratt loop: after `x a` the right operand is parsed with min_bp = r_bp(a);
   the operator b is consumed there iff not (l_bp(b) < r_bp(a)). *)
Definition pratt_groups_right (a b : string) : option bool :=
  match bp_of a, bp_of b with
  | Some (_, ra), Some (lb, _) => Some (negb (lb <? ra))
  | _, _ => None
  end.
(* the documentation: b takes y iff b has the higher precedence, or the same
   precedence and that level associates right-to-left *)
Definition doc_groups_right (a b : string) : option bool :=
  match doc_of a, doc_of b with
  | Some (pa, la), Some (pb, _) => Some ((pa <? pb) || ((pa =? pb) && negb la))
  | _, _ => None
  end.

Definition pair_ok (a b : string) : bool :=
  match layer a, layer b, doc_of a, doc_of b with
  | Some ya, Some yb, Some (pa, _), Some (pb, _) =>
      if ya =? yb then
        match pratt_groups_right a b, doc_groups_right a b with
        | Some x, Some y => Bool.eqb x y
        | _, _ => false
        end
      else if ya <? yb then pa <? pb      (* an inner layer binds tighter *)
      else pb <? pa
  | _, _, _, _ => false
  end.

Definition binary_ops : list string := map fst binding_power.

Definition all_pairs_ok : bool :=
  forallb (fun a => forallb (fun b => pair_ok a b) binary_ops) binary_ops.

(* the two tables talk about the same binary operators *)
Definition same_operators : bool :=
  forallb (fun k => mem k (map (fun r => fst (fst (fst r))) doc_binary)) binary_ops &&
  forallb (fun r => mem (fst (fst (fst r))) binary_ops) doc_binary.

(* prefix operators: `not` / `defined` take a boolean term, so they bind
   tighter than every operator of layer 1 and looser than every operator of
   layers 2-4; `-` / `~` take a term: tighter than layers 1-3, looser than
   field access and subscripting; all of them associate right-to-left *)
Definition prefix_ok : bool :=
  forallb (fun k =>
    match lookup_doc k doc_prefix with
    | Some (p, ltr) =>
        negb ltr &&
        forallb (fun r => let '(o, _, q, _) := r in
                   match layer o with
                   | Some 1 => q <? p
                   | Some _ => p <? q
                   | None => false
                   end) doc_binary
    | None => false
    end) prefix_boolean_term &&
  forallb (fun k =>
    match lookup_doc k doc_prefix with
    | Some (p, ltr) =>
        negb ltr &&
        forallb (fun r => let '(o, _, q, _) := r in
                   match layer o with
                   | Some 4 => p <? q
                   | Some _ => q <? p
                   | None => false
                   end) doc_binary &&
        forallb (fun r => let '(_, _, q, _) := r in p <? q) doc_postfix
    | None => false
    end) prefix_term &&
  (* nothing else is documented as a prefix operator *)
  forallb (fun r => let k := fst (fst (fst r)) in mem k prefix_boolean_term || mem k prefix_term) doc_prefix.

(* ------------------------------------------------------------ the Pratt loop *)
Inductive tree := Leaf (n : nat) | Node (op : string) (l r : tree).
Inductive tok := TLeaf (n : nat) | TOp (op : string).

(* an expression tree written without any parentheses *)
Fixpoint flatten (t : tree) : list tok :=
  match t with
  | Leaf n => [TLeaf n]
  | Node op l r => flatten l ++ TOp op :: flatten r
  end.

Section Pratt.
  Variable bp : string -> option (nat * nat).

  (* pratt_parser(parse_expr, min_bp): parse one operand, then the loop.
     [ploop] is the loop with the left-hand side built so far. *)
  Fixpoint pratt (fuel : nat) (min : nat) (ts : list tok) : option (tree * list tok) :=
    match fuel with
    | O => None
    | S f =>
        match ts with
        | TLeaf n :: rest => ploop f min (Leaf n) rest
        | _ => None
        end
    end
  with ploop (fuel : nat) (min : nat) (lhs : tree) (ts : list tok) : option (tree * list tok) :=
    match fuel with
    | O => None
    | S f =>
        match ts with
        | [] => Some (lhs, [])
        | TOp op :: rest =>
            match bp op with
            | None => None
            | Some (l, r) =>
                if l <? min then Some (lhs, ts)
                else match pratt f r rest with
                     | Some (rhs, rest') => ploop f min (Node op lhs rhs) rest'
                     | None => None
                     end
            end
        | TLeaf _ :: _ => None
        end
    end.

  (* trees the loop can produce, i.e. canonical forms: every operator of
     the left spine has l_bp >= min, the right operand of `op` is canonical
     for r_bp(op), and an operator never follows a right operand it should
     have been part of *)
  Fixpoint right_spine_above (x : nat) (t : tree) : bool :=
    match t with
    | Leaf _ => true
    | Node op _ r => match bp op with Some (_, rb) => (x <? rb) && right_spine_above x r | None => false end
    end.
  Fixpoint canon (min : nat) (t : tree) : bool :=
    match t with
    | Leaf _ => true
    | Node op l r =>
        match bp op with
        | Some (lb, rb) => (min <=? lb) && canon min l && canon rb r && right_spine_above lb l
        | None => false
        end
    end.

  Fixpoint size (t : tree) : nat :=
    match t with Leaf _ => 1 | Node _ l r => S (size l + size r) end.
End Pratt.

(* all trees of a given depth over a list of operators (for the finite check) *)
Fixpoint trees (ops : list string) (d : nat) : list tree :=
  match d with
  | O => [Leaf 0]
  | S d' =>
      let sub := trees ops d' in
      Leaf 0 :: flat_map (fun op => flat_map (fun l => map (fun r => Node op l r) sub) sub) ops
  end.
