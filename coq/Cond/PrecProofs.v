(* C02 - precedence theorems. *)
From Coq Require Import List String Bool Arith Lia.
From YV Require Import Gen.BindingPower Gen.DocPrecedence Cond.Prec.
Import ListNotations.
Local Open Scope string_scope.
Local Open Scope nat_scope.

(* FINITE domain (all pairs of the 27 binary operators, the 4 prefix
   operators): decided by computation on the tables regenerated from the
   Rust source and from the documentation. *)
Theorem bp_agrees_with_doc :
  same_operators = true /\ all_pairs_ok = true /\ prefix_ok = true.
Proof. vm_compute. repeat split. Qed.

(* what all_pairs_ok means for one pair *)
Lemma pair_ok_spec : forall a b,
  In a binary_ops -> In b binary_ops -> pair_ok a b = true.
Proof.
  intros a b Ha Hb. destruct bp_agrees_with_doc as [_ [H _]].
  unfold all_pairs_ok in H. rewrite forallb_forall in H. specialize (H a Ha).
  rewrite forallb_forall in H. exact (H b Hb).
Qed.

(* the documented example: `1 << a & b` is `(1 << a) & b` *)
Example doc_example_shift_and :
  pratt bp_of 10 0 [TLeaf 1; TOp "SHL"; TLeaf 2; TOp "BITWISE_AND"; TLeaf 3]
  = Some (Node "BITWISE_AND" (Node "SHL" (Leaf 1) (Leaf 2)) (Leaf 3), []).
Proof. vm_compute. reflexivity. Qed.

(* ------------------------------------------------------------------ the loop *)
Section Roundtrip.
  Variable bp : string -> option (nat * nat).

  Lemma pratt_S : forall f min ts,
    pratt bp (S f) min ts =
    match ts with TLeaf n :: rest => ploop bp f min (Leaf n) rest | _ => None end.
  Proof. reflexivity. Qed.
  Lemma ploop_S : forall f min lhs ts,
    ploop bp (S f) min lhs ts =
    match ts with
    | [] => Some (lhs, [])
    | TOp op :: rest =>
        match bp op with
        | None => None
        | Some (l, r) =>
            if l <? min then Some (lhs, ts)
            else match pratt bp f r rest with
                 | Some (rhs, rest') => ploop bp f min (Node op lhs rhs) rest'
                 | None => None
                 end
        end
    | TLeaf _ :: _ => None
    end.
  Proof. reflexivity. Qed.

  Lemma fuel_mono : forall f,
    (forall min ts res, pratt bp f min ts = Some res -> pratt bp (S f) min ts = Some res) /\
    (forall min lhs ts res, ploop bp f min lhs ts = Some res -> ploop bp (S f) min lhs ts = Some res).
  Proof.
    induction f as [|f [IHp IHl]].
    - split; intros; discriminate.
    - split.
      + intros min ts res H. rewrite pratt_S in H. rewrite pratt_S.
        destruct ts as [|[n|op] rest]; try discriminate. apply IHl. exact H.
      + intros min lhs ts res H. rewrite ploop_S in H. rewrite ploop_S.
        destruct ts as [|[n|op] rest]; try discriminate; [exact H|].
        destruct (bp op) as [[l r]|]; [|discriminate].
        destruct (l <? min); [exact H|].
        destruct (pratt bp f r rest) as [[rhs rest']|] eqn:E; [|discriminate].
        rewrite (IHp _ _ _ E). apply IHl. exact H.
  Qed.
  Lemma pratt_mono : forall f g min ts res, f <= g ->
    pratt bp f min ts = Some res -> pratt bp g min ts = Some res.
  Proof.
    intros f g min ts res Hle H. induction Hle; [exact H|]. apply (proj1 (fuel_mono _)). exact IHHle.
  Qed.
  Lemma ploop_mono : forall f g min lhs ts res, f <= g ->
    ploop bp f min lhs ts = Some res -> ploop bp g min lhs ts = Some res.
  Proof.
    intros f g min lhs ts res Hle H. induction Hle; [exact H|]. apply (proj2 (fuel_mono _)). exact IHHle.
  Qed.

  (* what may follow the flattening of t: nothing, or an operator that none
     of the right operands on t's right spine would have consumed *)
  Definition follows (rest : list tok) (t : tree) : Prop :=
    rest = [] \/ exists o rest' lo ro, rest = TOp o :: rest' /\ bp o = Some (lo, ro) /\ right_spine_above bp lo t = true.

  (* parsing the flattening of a canonical tree and then continuing the loop
     is the same as continuing the loop with that tree as left-hand side *)
  Lemma parse_flatten : forall t min rest res f,
    canon bp min t = true -> follows rest t ->
    ploop bp f min t rest = Some res ->
    exists f', pratt bp f' min (flatten t ++ rest) = Some res.
  Proof.
    induction t as [n | op l IHl r IHr]; intros min rest res f Hc Hf H.
    - exists (S f). cbn [flatten app]. rewrite pratt_S. exact H.
    - cbn [canon] in Hc. destruct (bp op) as [[lb rb]|] eqn:Eop; [|discriminate].
      apply andb_true_iff in Hc. destruct Hc as [Hc Hsp].
      apply andb_true_iff in Hc. destruct Hc as [Hc Hcr].
      apply andb_true_iff in Hc. destruct Hc as [Hmin Hcl].
      apply Nat.leb_le in Hmin.
      cbn [flatten]. rewrite <- app_assoc. cbn [app].
      (* the right operand: parsed with min = rb, stops at rest *)
      assert (R : exists fr, pratt bp fr rb (flatten r ++ rest) = Some (r, rest)).
      { apply (IHr rb rest (r, rest) 1 Hcr).
        - destruct Hf as [-> | (o & rest' & lo & ro & -> & Ho & Hs)]; [left; reflexivity|].
          right. exists o, rest', lo, ro. repeat split; try assumption.
          cbn [right_spine_above] in Hs. rewrite Eop in Hs. apply andb_true_iff in Hs. tauto.
        - destruct Hf as [-> | (o & rest' & lo & ro & -> & Ho & Hs)]; [reflexivity|].
          rewrite ploop_S. rewrite Ho.
          cbn [right_spine_above] in Hs. rewrite Eop in Hs. apply andb_true_iff in Hs.
          destruct Hs as [Hs _]. rewrite Hs. reflexivity. }
      destruct R as [fr R].
      apply (IHl min _ res (S (Nat.max fr f)) Hcl).
      + right. exists op, (flatten r ++ rest)%list, lb, rb. repeat split; assumption.
      + rewrite ploop_S. rewrite Eop.
        replace (lb <? min) with false by (symmetry; apply Nat.ltb_ge; exact Hmin).
        rewrite (pratt_mono fr (Nat.max fr f) _ _ _ (Nat.le_max_l _ _) R).
        apply (ploop_mono f); [apply Nat.le_max_r | exact H].
  Qed.

  (* flattening a canonical tree (no parentheses) and parsing it back yields
     the tree, for every table of binding powers *)
  Theorem pratt_roundtrip : forall t min,
    canon bp min t = true ->
    exists N, forall fuel, N <= fuel -> pratt bp fuel min (flatten t) = Some (t, []).
  Proof.
    intros t min Hc.
    destruct (parse_flatten t min [] (t, []) 1 Hc (or_introl eq_refl) eq_refl) as [f' H].
    rewrite app_nil_r in H. exists f'. intros fuel Hle. apply (pratt_mono f'); assumption.
  Qed.
End Roundtrip.

(* non-vacuity with the real table: among all trees of depth <= 2 over five
   operators some are canonical, some are not (they need parentheses), and
   the canonical ones are exactly those that survive flatten-then-parse *)
Example roundtrip_finite_check :
  let ops := ["OR_KW"; "AND_KW"; "ADD"; "MUL"; "SUB"] in
  let ts := trees ops 2 in
  forallb (fun t => Bool.eqb (canon bp_of 0 t)
                      (match pratt bp_of 40 0 (flatten t) with
                       | Some (t', []) => (fix eqb (a b : tree) : bool :=
                                             match a, b with
                                             | Leaf x, Leaf y => Nat.eqb x y
                                             | Node o l r, Node o' l' r' => String.eqb o o' && eqb l l' && eqb r r'
                                             | _, _ => false
                                             end) t t'
                       | _ => false
                       end)) ts = true
  /\ existsb (canon bp_of 0) ts = true /\ existsb (fun t => negb (canon bp_of 0 t)) ts = true.
Proof. vm_compute. repeat split. Qed.
